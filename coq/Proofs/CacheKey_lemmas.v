(* Proofs/CacheKey_lemmas.v — the cache key: ident.decode is a left inverse of
   ident.code, hence code is injective: two name identifiers share a cache row
   only if all five fields agree (None and "" being the same absent value). *)
From PV Require Import Lib.Base Model.Codec Model.Cache Proofs.Base64_lemmas Proofs.Url_lemmas.
From PV Require Model.Ident Proofs.Ident_lemmas.
Module ID := PV.Model.Ident.
Module IDL := PV.Proofs.Ident_lemmas.
From Coq Require Import ZifyN ZifyBool.
Open Scope N_scope.

Definition byte_nid (n : nameid) : Prop :=
  Forall byte (nq n) /\ Forall byte (spnq n) /\ Forall byte (fmt n) /\ Forall byte (spid n) /\ Forall byte (txt n).

(* ---- quote with safe='/' ---- *)
Definition id_safe (c : N) : bool := url_safe c || (c =? SLASH).

Lemma quote_id_byte_safe b : byte b -> forallb id_safe (quote_id_byte b) = true.
Proof.
  intros H. unfold quote_id_byte. destruct (b =? SLASH) eqn:E.
  - cbn [forallb]. unfold id_safe. apply N.eqb_eq in E. subst b. reflexivity.
  - pose proof (quote_byte_safe false b H) as Q. rewrite forallb_forall in *. intros c Hc.
    unfold id_safe. now rewrite (Q c Hc).
Qed.

Lemma quote_id_safe bs : Forall byte bs -> forallb id_safe (quote_id bs) = true.
Proof.
  unfold quote_id. induction 1 as [|b bs Hb _ IH]; [reflexivity|].
  cbn [flat_map]. now rewrite forallb_app, IH, (quote_id_byte_safe b Hb).
Qed.

Lemma id_safe_not_sep c : id_safe c = true -> c <> COMMA /\ c <> EQ.
Proof.
  unfold id_safe. intros H. apply orb_true_iff in H as [H|H].
  - pose proof (url_safe_not_special c H). unfold COMMA. tauto.
  - apply N.eqb_eq in H. subst c. unfold SLASH, COMMA, EQ. split; discriminate.
Qed.

Lemma id_safe_no (sep : N) s : (sep = COMMA \/ sep = EQ) -> forallb id_safe s = true ->
  forallb (fun c => negb (c =? sep)) s = true.
Proof.
  intros Hs H. rewrite forallb_forall in *. intros c Hc. specialize (H c Hc).
  apply id_safe_not_sep in H as [H1 H2]. apply negb_true_iff, N.eqb_neq. destruct Hs; subst sep; assumption.
Qed.

Lemma unquote_quote_id_byte b rest : byte b ->
  unquote (quote_id_byte b ++ rest) = b :: unquote rest.
Proof.
  intros H. unfold quote_id_byte, unquote. destruct (b =? SLASH) eqn:E.
  - apply N.eqb_eq in E. subst b. reflexivity.
  - exact (unquote_quote_byte false b rest H).
Qed.

Lemma unquote_quote_id bs : Forall byte bs -> unquote (quote_id bs) = bs.
Proof.
  unfold quote_id. induction 1 as [|b bs Hb _ IH]; [reflexivity|].
  cbn [flat_map]. now rewrite (unquote_quote_id_byte b _ Hb), IH.
Qed.

Lemma has_char_false c s : forallb (fun x => negb (x =? c)) s = true -> has_char c s = false.
Proof.
  unfold has_char. induction s as [|x s IH]; cbn [forallb existsb]; [reflexivity|].
  intros H. apply andb_true_iff in H as [Hx Hs]. rewrite (IH Hs), orb_false_r.
  apply negb_true_iff in Hx. now rewrite N.eqb_sym.
Qed.

(* ---- ident.code in Model/Ident.v and here: one function ---- *)
Lemma quote_same bs : ID.quote_s bs = quote_id bs.
Proof. reflexivity. Qed.

Lemma enc_part_code_field i o : ID.enc_part i o = code_field i (od o).
Proof.
  unfold ID.enc_part, code_field, od. destruct (ID.tr o) as [v|] eqn:E; [|reflexivity].
  apply IDL.tr_some in E as [_ Hne]. destruct v as [|c v]; [congruence|].
  unfold ID.digit. now rewrite quote_same.
Qed.

Theorem code_of_ident n : code (of_ident n) = ID.code n.
Proof.
  unfold code, ID.code, code_parts, ID.enc_parts, of_ident. cbn [nq spnq fmt spid txt].
  now rewrite !enc_part_code_field.
Qed.

Lemma of_ident_norm n : of_ident (ID.norm n) = of_ident n.
Proof. unfold of_ident, ID.norm, od. cbn. now rewrite !IDL.tr_tr. Qed.

(* a record of this file read back as an ident.py NameID *)
Definition to_ident (n : nameid) : ID.nameid :=
  ID.NameId (Some (nq n)) (Some (spnq n)) (Some (fmt n)) (Some (spid n)) (Some (txt n)).

Lemma od_some v : od (Some v) = v.
Proof. destruct v; reflexivity. Qed.

Lemma of_to_ident n : of_ident (to_ident n) = n.
Proof. destruct n. unfold of_ident, to_ident. cbn. now rewrite !od_some. Qed.

Lemma to_ident_wfb n : byte_nid n -> IDL.wfb (to_ident n).
Proof. intros (H0 & H1 & H2 & H3 & H4). repeat split; assumption. Qed.

(* ---- the whole key: decode (= ident.decode of Model/Ident.v) is a left inverse of code ---- *)
Theorem decode_code n : byte_nid n -> decode (code n) = Ok n.
Proof.
  intros H. unfold decode. rewrite <- (of_to_ident n) at 1. rewrite code_of_ident.
  rewrite (IDL.decode_code (to_ident n) (to_ident_wfb n H)). now rewrite of_ident_norm, of_to_ident.
Qed.

Theorem code_injective a b : byte_nid a -> byte_nid b -> code a = code b -> a = b.
Proof.
  intros Ha Hb H. pose proof (decode_code a Ha) as Da. rewrite H, (decode_code b Hb) in Da. congruence.
Qed.
