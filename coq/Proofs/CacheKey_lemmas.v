(* Proofs/CacheKey_lemmas.v — the cache key: ident.decode is a left inverse of
   ident.code, hence code is injective: two name identifiers share a cache row
   only if all five fields agree (None and "" being the same absent value). *)
From PV Require Import Lib.Base Model.Codec Model.Cache Proofs.Base64_lemmas Proofs.Url_lemmas.
From Coq Require Import ZifyN ZifyBool.
Open Scope N_scope.

Definition byte_nid (n : nameid) : Prop :=
  Forall byte (nq n) /\ Forall byte (spnq n) /\ Forall byte (fmt n) /\ Forall byte (spid n) /\ Forall byte (txt n).

(* ---- quote with safe='/' ---- *)
Definition id_safe (c : N) : bool := url_safe c || (c =? SLASH).

Lemma quote_id_byte_safe b : byte b -> forallb id_safe (quote_id_byte b) = true.
Proof.
  intros H. unfold quote_id_byte. destruct (b =? SLASH) eqn:E.
  - cbn [forallb]. unfold id_safe. apply N.eqb_eq in E. subst b. reflexivity.
  - pose proof (quote_byte_safe false b H) as Q. rewrite forallb_forall in *. intros c Hc.
    unfold id_safe. now rewrite (Q c Hc).
Qed.

Lemma quote_id_safe bs : Forall byte bs -> forallb id_safe (quote_id bs) = true.
Proof.
  unfold quote_id. induction 1 as [|b bs Hb _ IH]; [reflexivity|].
  cbn [flat_map]. now rewrite forallb_app, IH, (quote_id_byte_safe b Hb).
Qed.

Lemma id_safe_not_sep c : id_safe c = true -> c <> COMMA /\ c <> EQ.
Proof.
  unfold id_safe. intros H. apply orb_true_iff in H as [H|H].
  - pose proof (url_safe_not_special c H). unfold COMMA. tauto.
  - apply N.eqb_eq in H. subst c. unfold SLASH, COMMA, EQ. split; discriminate.
Qed.

Lemma id_safe_no (sep : N) s : (sep = COMMA \/ sep = EQ) -> forallb id_safe s = true ->
  forallb (fun c => negb (c =? sep)) s = true.
Proof.
  intros Hs H. rewrite forallb_forall in *. intros c Hc. specialize (H c Hc).
  apply id_safe_not_sep in H as [H1 H2]. apply negb_true_iff, N.eqb_neq. destruct Hs; subst sep; assumption.
Qed.

Lemma unquote_quote_id_byte b rest : byte b ->
  unquote (quote_id_byte b ++ rest) = b :: unquote rest.
Proof.
  intros H. unfold quote_id_byte, unquote. destruct (b =? SLASH) eqn:E.
  - apply N.eqb_eq in E. subst b. reflexivity.
  - exact (unquote_quote_byte false b rest H).
Qed.

Lemma unquote_quote_id bs : Forall byte bs -> unquote (quote_id bs) = bs.
Proof.
  unfold quote_id. induction 1 as [|b bs Hb _ IH]; [reflexivity|].
  cbn [flat_map]. now rewrite (unquote_quote_id_byte b _ Hb), IH.
Qed.

Lemma has_char_false c s : forallb (fun x => negb (x =? c)) s = true -> has_char c s = false.
Proof.
  unfold has_char. induction s as [|x s IH]; cbn [forallb existsb]; [reflexivity|].
  intros H. apply andb_true_iff in H as [Hx Hs]. rewrite (IH Hs), orb_false_r.
  apply negb_true_iff in Hx. now rewrite N.eqb_sym.
Qed.

(* ---- one part  "<digit>=<quoted value>" ---- *)
Lemma decode_part_field i v m : i <= 4 -> Forall byte v ->
  decode_part (Ok m) ((48 + i) :: EQ :: quote_id v) = Ok (set_field m i v).
Proof.
  intros Hi Hv. unfold decode_part.
  assert (split_first EQ ((48 + i) :: EQ :: quote_id v) [] = Some ([48 + i], quote_id v)) as Hs.
  { cbn [split_first]. replace (48 + i =? EQ) with false by (unfold EQ; lia). now rewrite N.eqb_refl. }
  rewrite Hs.
  rewrite (has_char_false EQ (quote_id v) (id_safe_no EQ (quote_id v) (or_intror eq_refl) (quote_id_safe v Hv))).
  replace ((48 <=? 48 + i) && (48 + i <=? 52)) with true by lia.
  replace (48 + i - 48) with i by lia. now rewrite (unquote_quote_id v Hv).
Qed.

Lemma part_no_comma i v : i <= 4 -> Forall byte v ->
  forallb (fun c => negb (c =? COMMA)) ((48 + i) :: EQ :: quote_id v) = true.
Proof.
  intros Hi Hv. cbn [forallb]. rewrite (id_safe_no COMMA (quote_id v) (or_introl eq_refl) (quote_id_safe v Hv)).
  unfold COMMA, EQ. replace (48 + i =? 44) with false by lia. reflexivity.
Qed.

Lemma fold_code_field i v m : i <= 4 -> Forall byte v ->
  fold_left decode_part (code_field i v) (Ok m) = Ok (match v with [] => m | _ => set_field m i v end).
Proof.
  intros Hi Hv. destruct v as [|c v]; [reflexivity|]. cbn [code_field fold_left]. now apply decode_part_field.
Qed.

Lemma code_field_no_comma i v : i <= 4 -> Forall byte v ->
  Forall (fun p => forallb (fun c => negb (c =? COMMA)) p = true) (code_field i v).
Proof.
  intros Hi Hv. destruct v as [|c v]; [constructor|]. constructor; [|constructor]. now apply part_no_comma.
Qed.

(* ---- the whole key ---- *)
Lemma decode_parts n : byte_nid n ->
  fold_left decode_part (code_parts n) (Ok no_nid) = Ok n.
Proof.
  intros (H0 & H1 & H2 & H3 & H4). unfold code_parts.
  rewrite !fold_left_app.
  rewrite (fold_code_field 0 (nq n)) by (try lia; assumption).
  rewrite (fold_code_field 1 (spnq n)) by (try lia; assumption).
  rewrite (fold_code_field 2 (fmt n)) by (try lia; assumption).
  rewrite (fold_code_field 3 (spid n)) by (try lia; assumption).
  rewrite (fold_code_field 4 (txt n)) by (try lia; assumption).
  destruct n as [a b c d e]. cbn [nq spnq fmt spid txt].
  destruct a, b, c, d, e; reflexivity.
Qed.

Theorem decode_code n : byte_nid n -> decode (code n) = Ok n.
Proof.
  intros H. unfold decode, code.
  destruct (code_parts n) as [|p ps] eqn:E.
  - rewrite <- (decode_parts n H), E. reflexivity.
  - rewrite split_join.
    + rewrite <- E. now apply decode_parts.
    + discriminate.
    + rewrite <- E. destruct H as (H0 & H1 & H2 & H3 & H4). unfold code_parts.
      repeat (apply Forall_app; split); apply code_field_no_comma; (lia || assumption).
Qed.

Theorem code_injective a b : byte_nid a -> byte_nid b -> code a = code b -> a = b.
Proof.
  intros Ha Hb H. pose proof (decode_code a Ha) as Da. rewrite H, (decode_code b Hb) in Da. congruence.
Qed.
