(* Proofs/MdSpell_lemmas.v — the text layer of validUntil (Model/MdSpell.v):
   which spellings are interpreted, the bridge to Model/MdStore.v (the text
   layer IS the old model on an elaborated document), what a served entity's
   validUntil text can be, and histories of store operations. *)
From PV Require Import Lib.Base Model.MdStore Model.MdSpell Proofs.MdStore_lemmas.
Open Scope N_scope.

(* ------------------------------------------------------------------ *)
(* 1. spellings                                                       *)
(* ------------------------------------------------------------------ *)
Lemma drop_digits_app ds : forallb is_digit ds = true -> forall r, drop_digits (ds ++ r) = drop_digits r.
Proof.
  induction ds as [|d ds IH]; intros H r; [reflexivity|].
  cbn [forallb] in H. apply andb_true_iff in H as [Hd Hds]. cbn [app drop_digits]. rewrite Hd. now apply IH.
Qed.

Lemma fragment_dot_digits ds :
  forallb is_digit ds = true ->
  fragment_suffix (46 :: ds) = true /\ fragment_suffix (46 :: ds ++ [90]) = true.
Proof.
  intros H. unfold fragment_suffix. cbn [after_fraction N.eqb Pos.eqb]. split.
  - rewrite <- (app_nil_r ds), (drop_digits_app ds H []). reflexivity.
  - rewrite (drop_digits_app ds H [90]). reflexivity.
Qed.

(* every fraction length (0, 1 .. 9, ... digits), with and without the Z, is read as the whole second *)
Lemma str_to_time_parses t ds :
  forallb is_digit ds = true ->
  str_to_time {| vt_core := CoreDate t; vt_suffix := [90] |} = Ok t /\
  str_to_time {| vt_core := CoreDate t; vt_suffix := [] |} = Ok t /\
  str_to_time {| vt_core := CoreDate t; vt_suffix := 46 :: ds ++ [90] |} = Ok t /\
  str_to_time {| vt_core := CoreDate t; vt_suffix := 46 :: ds |} = Ok t.
Proof.
  intros H. destruct (fragment_dot_digits ds H) as [H1 H2]. unfold str_to_time. cbn [vt_core vt_suffix].
  rewrite H1, H2, !orb_true_r. repeat split; reflexivity.
Qed.

(* the characters a text that str_to_time interprets can have after the 19th *)
Definition suffix_char_ok (c : N) : bool :=
  is_digit c || (c =? 46) || (c =? 90) || (c =? 122) || (c =? 10).

Lemma drop_digits_ok s : forallb suffix_char_ok (drop_digits s) = true -> forallb suffix_char_ok s = true.
Proof.
  induction s as [|c s IH]; [reflexivity|]. cbn [drop_digits]. destruct (is_digit c) eqn:Ed; [|auto].
  intros H. cbn [forallb]. rewrite (IH H), andb_true_r. unfold suffix_char_ok. now rewrite Ed.
Qed.

Lemma end_ok_chars s : end_ok s = true -> forallb suffix_char_ok s = true.
Proof.
  destruct s as [|c [|d [|x s]]]; cbn [end_ok forallb]; intros H; [reflexivity| | |discriminate].
  - unfold suffix_char_ok. apply orb_true_iff in H as [->| ->]; now rewrite ?orb_true_r.
  - apply andb_true_iff in H as [Hc Hd]. unfold suffix_char_ok. now rewrite Hc, Hd, ?orb_true_r.
Qed.

Lemma fragment_suffix_chars s : fragment_suffix s = true -> forallb suffix_char_ok s = true.
Proof.
  unfold fragment_suffix. destruct s as [|c r]; [reflexivity|]. cbn [after_fraction].
  destruct (c =? 46) eqn:Ec.
  - intros H. apply end_ok_chars, drop_digits_ok in H. cbn [forallb]. rewrite H, andb_true_r.
    unfold suffix_char_ok. now rewrite Ec, ?orb_true_r.
  - apply end_ok_chars.
Qed.

Lemma strptime_suffix_chars s : strptime_suffix s = true -> forallb suffix_char_ok s = true.
Proof.
  destruct s as [|c [|d s]]; cbn [strptime_suffix forallb]; intros H; try discriminate.
  unfold suffix_char_ok. apply orb_true_iff in H as [->| ->]; now rewrite ?orb_true_r.
Qed.

(* a time-zone offset (+hh:mm, -hh:mm), a blank, a comma ... anywhere after the seconds: AttributeError *)
Lemma str_to_time_foreign_char v c :
  In c (vt_suffix v) -> suffix_char_ok c = false -> str_to_time v = Err AttributeError.
Proof.
  intros Hin Hc.
  assert (forallb suffix_char_ok (vt_suffix v) = true -> False) as Hno.
  { intros H. rewrite forallb_forall in H. specialize (H c Hin). congruence. }
  unfold str_to_time. destruct (vt_core v); [| |reflexivity].
  - destruct (strptime_suffix (vt_suffix v)) eqn:E1; [destruct (Hno (strptime_suffix_chars _ E1))|].
    destruct (fragment_suffix (vt_suffix v)) eqn:E2; [destruct (Hno (fragment_suffix_chars _ E2))|]. reflexivity.
  - destruct (fragment_suffix (vt_suffix v)) eqn:E2; [destruct (Hno (fragment_suffix_chars _ E2))|]. reflexivity.
Qed.

(* str_to_time raises nothing but AttributeError and ValueError *)
Lemma str_to_time_errors v e : str_to_time v = Err e -> e = AttributeError \/ e = ValueError.
Proof.
  unfold str_to_time. destruct (vt_core v).
  - destruct (_ || _); [discriminate|]. intros H; injection H as <-. now left.
  - destruct (fragment_suffix _); intros H; injection H as <-; [now right|now left].
  - intros H; injection H as <-. now left.
Qed.

(* ------------------------------------------------------------------ *)
(* 2. the text layer is the old model on an elaborated document       *)
(* ------------------------------------------------------------------ *)
Definition same_outcome {A} (r1 r2 : result A) : Prop :=
  match r1, r2 with
  | Ok a, Ok b => a = b
  | Err _, Err _ => True
  | _, _ => False
  end.
Lemma same_outcome_refl {A} (r : result A) : same_outcome r r.
Proof. destruct r; cbn; auto. Qed.

Definition raising_body : docbody := Many None IvRaises [].

(* the document Model/MdStore.v sees *)
Definition elab_body (lenient check : bool) (b : rdocbody) : docbody :=
  match b with
  | RNotMetadata => NotMetadata
  | RMany vu iv es => Many (vu_parsed vu) (doc_ivalid vu iv es) (map ent_of es)
  | RSingle re =>
      if check then
        match re_vu re with
        | None => Single (ent_of re)
        | Some x =>
            match str_to_time x with
            | Ok _ => Single (ent_of re)
            | Err e => if str_eqb e AttributeError
                       then (if lenient then Single (ent_of re)     (* swallowed: no validUntil as far as the store cares *)
                             else NotMetadata)                      (* skipped: the document contributes nothing *)
                       else raising_body                            (* ValueError leaves parse *)
            end
        end
      else Single (ent_of re)
  end.

Definition elab_source (lenient : bool) (rs : rsource) : source :=
  {| s_key := s_key (rs_src rs); s_kind := s_kind (rs_src rs); s_cert := s_cert (rs_src rs);
     s_check := s_check (rs_src rs); s_http_ok := s_http_ok (rs_src rs); s_verdict := s_verdict (rs_src rs);
     s_doc := {| d_signed := d_signed (s_doc (rs_src rs));
                 d_body := elab_body lenient (eff_check (rs_src rs)) (rs_body rs) |} |}.

Lemma do_entity_split now check m e :
  do_entity now check m e = if check && negb (valid now (e_valid_until e)) then Ok m else do_entity now false m e.
Proof. destruct check; reflexivity. Qed.

Lemma vu_good_gate lenient now v : vu_bad v = false -> validity_gate lenient now v = Ok (valid now (vu_parsed v)).
Proof.
  unfold vu_bad, validity_gate, vu_valid, vu_parsed. destruct v as [x|]; [|reflexivity].
  destruct (str_to_time x); cbn [is_ok negb valid]; [reflexivity|discriminate].
Qed.

Lemma rdo_entity_good lenient now check m re :
  vu_bad (re_vu re) = false -> rdo_entity lenient now check m re = do_entity now check m (ent_of re).
Proof.
  intros Hg. unfold rdo_entity. rewrite (do_entity_split now check m (ent_of re)).
  destruct check; cbn [andb]; [|reflexivity]. rewrite (vu_good_gate _ _ _ Hg). cbn [ent_of e_valid_until].
  destruct (valid now (vu_parsed (re_vu re))); reflexivity.
Qed.

Definition all_good (es : list rentity) : bool := forallb (fun re => negb (vu_bad (re_vu re))) es.

Lemma rfold_good lenient now check es : all_good es = true ->
  forall m, rfold_ents lenient now check m es = fold_ents now check m (map ent_of es).
Proof.
  induction es as [|e es IH]; intros H m; [reflexivity|].
  cbn [all_good forallb] in H. apply andb_true_iff in H as [He Hes]. apply negb_true_iff in He.
  cbn [rfold_ents map fold_ents]. rewrite (rdo_entity_good _ _ _ _ _ He).
  destruct (do_entity now check m (ent_of e)); [now apply IH|reflexivity].
Qed.

Lemma ents_ivalid_ok es : ents_ivalid es = IvOk -> all_good es = true.
Proof.
  induction es as [|e es IH]; [reflexivity|]. cbn [ents_ivalid all_good forallb].
  destruct (vu_bad (re_vu e)); [discriminate|]. destruct (re_iv e); try discriminate. intros H. now apply IH.
Qed.

Lemma doc_ivalid_ok vu iv es :
  doc_ivalid vu iv es = IvOk -> vu_bad vu = false /\ iv = IvOk /\ all_good es = true.
Proof.
  unfold doc_ivalid. destruct (vu_bad vu); [discriminate|]. destruct iv; try discriminate.
  intros H. split; [reflexivity|]. split; [reflexivity|]. now apply ents_ivalid_ok.
Qed.

Lemma rparse_bridge lenient now check b :
  same_outcome (rparse lenient now check b) (parse now check (elab_body lenient check b)).
Proof.
  destruct b as [vu iv es|re|].
  - cbn [rparse elab_body parse]. destruct (doc_ivalid vu iv es) eqn:Ed; [|reflexivity|exact I].
    destruct (doc_ivalid_ok _ _ _ Ed) as (Hvu & _ & Hall).
    destruct check; cbn [andb].
    + rewrite (vu_good_gate true now vu Hvu). destruct (valid now (vu_parsed vu)); cbn [negb]; [|exact I].
      rewrite (rfold_good _ _ _ _ Hall). apply same_outcome_refl.
    + rewrite (rfold_good _ _ _ _ Hall). apply same_outcome_refl.
  - cbn [rparse elab_body]. destruct check; [|apply same_outcome_refl].
    unfold rdo_entity, validity_gate, vu_valid. destruct (re_vu re) as [x|] eqn:Ev.
    + destruct (str_to_time x) as [t|e] eqn:Es.
      * cbn [parse]. rewrite (do_entity_split now true [] (ent_of re)). cbn [andb ent_of e_valid_until].
        unfold vu_parsed. rewrite Ev, Es. cbn [valid]. destruct (now <=? t)%Z; apply same_outcome_refl.
      * destruct (str_eqb e AttributeError); [|exact I]. destruct lenient; [|reflexivity].
        cbn [parse]. rewrite (do_entity_split now true [] (ent_of re)). cbn [andb ent_of e_valid_until].
        unfold vu_parsed. rewrite Ev, Es. apply same_outcome_refl.
    + cbn [parse]. rewrite (do_entity_split now true [] (ent_of re)). cbn [andb ent_of e_valid_until].
      unfold vu_parsed. rewrite Ev. apply same_outcome_refl.
  - reflexivity.
Qed.

Lemma parse_and_check_gate now check s :
  parse_and_check now check s =
  match parse now check (d_body (s_doc s)) with Err e => Err e | Ok m => sig_gate s m end.
Proof. unfold parse_and_check, sig_gate. destruct (parse now check (d_body (s_doc s))); reflexivity. Qed.

Lemma rparse_and_check_bridge lenient now rs check :
  check = eff_check (rs_src rs) ->
  same_outcome (rparse_and_check lenient now check rs) (parse_and_check now check (elab_source lenient rs)).
Proof.
  intros ->. rewrite parse_and_check_gate. unfold rparse_and_check. cbn [elab_source s_doc d_body].
  pose proof (rparse_bridge lenient now (eff_check (rs_src rs)) (rs_body rs)) as B.
  destruct (rparse lenient now (eff_check (rs_src rs)) (rs_body rs)) as [m|x],
           (parse now (eff_check (rs_src rs)) (elab_body lenient (eff_check (rs_src rs)) (rs_body rs))) as [m'|x'];
    cbn [same_outcome] in B; try contradiction; [|exact I].
  subst m'. apply same_outcome_refl.
Qed.

Lemma rload_bridge lenient now rs :
  same_outcome (rload_source lenient now rs) (load_source now (elab_source lenient rs)).
Proof.
  unfold rload_source, load_source. cbn [elab_source s_kind s_http_ok s_check].
  destruct (s_kind (rs_src rs)) eqn:Ek.
  - cbn [elab_source s_doc d_body]. unfold eff_check. rewrite Ek. apply rparse_bridge.
  - apply rparse_and_check_bridge. unfold eff_check. now rewrite Ek.
  - destruct (s_http_ok (rs_src rs)); [|exact I]. apply rparse_and_check_bridge. unfold eff_check. now rewrite Ek.
Qed.

Lemma rstore_load_bridge lenient now st rs :
  fst (rstore_load lenient now st rs) = fst (store_load now st (elab_source lenient rs)) /\
  none_b (snd (rstore_load lenient now st rs)) = none_b (snd (store_load now st (elab_source lenient rs))).
Proof.
  unfold rstore_load, store_load. pose proof (rload_bridge lenient now rs) as B.
  destruct (rload_source lenient now rs) as [m|x], (load_source now (elab_source lenient rs)) as [m'|x'];
    cbn [same_outcome] in B; try contradiction; cbn [fst snd none_b]; [subst m'|]; split; reflexivity.
Qed.

Lemma rload_all_bridge lenient now srcs : forall st,
  rload_all lenient now st srcs = load_all now st (map (elab_source lenient) srcs).
Proof.
  induction srcs as [|s srcs IH]; intros st; [reflexivity|]. cbn [rload_all load_all map].
  destruct (rstore_load_bridge lenient now st s) as [-> _]. apply IH.
Qed.

Lemma rload_outcomes_bridge lenient now srcs : forall st,
  map none_b (rload_outcomes lenient now st srcs) =
  map none_b (load_outcomes now st (map (elab_source lenient) srcs)).
Proof.
  induction srcs as [|s srcs IH]; intros st; [reflexivity|]. cbn [rload_outcomes load_outcomes map].
  destruct (rstore_load_bridge lenient now st s) as [-> ->]. now rewrite IH.
Qed.

Lemma rimp_bridge lenient now srcs : forall st,
  fst (rimp lenient now st srcs) = fst (imp now st (map (elab_source lenient) srcs)) /\
  none_b (snd (rimp lenient now st srcs)) = none_b (snd (imp now st (map (elab_source lenient) srcs))).
Proof.
  induction srcs as [|s srcs IH]; intros st; [split; reflexivity|]. cbn [rimp imp map].
  destruct (rstore_load_bridge lenient now st s) as [H1 H2].
  destruct (rstore_load lenient now st s) as [st1 o1], (store_load now st (elab_source lenient s)) as [st2 o2].
  cbn [fst snd] in H1, H2. subst st2. destruct o1, o2; cbn [none_b] in H2; try discriminate; cbn [fst snd none_b].
  - split; reflexivity.
  - apply IH.
Qed.

(* ------------------------------------------------------------------ *)
(* 3. what the validUntil TEXT of a served entity can be              *)
(* ------------------------------------------------------------------ *)
(* absent / empty, or interpreted by str_to_time as an instant that has not passed *)
Definition spelled_unexpired (now : Z) (v : vuspell) : Prop :=
  v = None \/ exists x t, v = Some x /\ str_to_time x = Ok t /\ (now <= t)%Z.

Lemma good_valid_unexpired now v : vu_bad v = false -> valid now (vu_parsed v) = true -> spelled_unexpired now v.
Proof.
  unfold vu_bad, vu_parsed, spelled_unexpired. destruct v as [x|]; [|now left].
  destruct (str_to_time x) as [t|e] eqn:Es; cbn [is_ok negb valid]; [|discriminate].
  intros _ H. right. exists x, t. split; [reflexivity|]. split; [exact Es|]. now apply Z.leb_le.
Qed.

Lemma rserved_declared lenient now rsrcs k m eid e :
  In (k, m) (rload_all lenient now [] rsrcs) -> aget eid m = Some e ->
  exists rs re, In rs rsrcs /\ s_key (rs_src rs) = k /\ admissible (rs_src rs) /\
    e = stored_form (ent_of re) /\ e_id (re_ent re) = eid /\
    match rs_body rs with
    | RMany vu iv es =>
        In re es /\ doc_ivalid vu iv es = IvOk /\
        (eff_check (rs_src rs) = true -> spelled_unexpired now vu /\ spelled_unexpired now (re_vu re))
    | RSingle re1 =>
        re = re1 /\
        (eff_check (rs_src rs) = true ->
           spelled_unexpired now (re_vu re) \/
           (lenient = true /\ exists x, re_vu re = Some x /\ str_to_time x = Err AttributeError))
    | RNotMetadata => False
    end.
Proof.
  intros Hin Hget. rewrite rload_all_bridge in Hin.
  destruct (served_entity_declared now _ k m eid e Hin Hget) as (s & e0 & Hs & Hk & Hadm & He & Hid & Hval & Hbody).
  apply in_map_iff in Hs as (rs & <- & Hrs). exists rs.
  cbn [elab_source s_doc d_body] in Hbody.
  change (eff_check (elab_source lenient rs)) with (eff_check (rs_src rs)) in Hval.
  destruct (rs_body rs) as [vu iv es|re1|] eqn:Eb; cbn [elab_body] in Hbody.
  - destruct Hbody as (Hiv & He0 & Hroot). apply in_map_iff in He0 as (re & <- & Hre). exists re.
    destruct (doc_ivalid_ok _ _ _ Hiv) as (Hvu & _ & Hall).
    split; [exact Hrs|]. split; [exact Hk|]. split; [exact Hadm|]. split; [exact He|]. split; [exact Hid|].
    split; [exact Hre|]. split; [exact Hiv|]. intros Hc. split.
    + apply good_valid_unexpired; [exact Hvu|]. now apply Hroot.
    + apply good_valid_unexpired; [|exact (Hval Hc)].
      unfold all_good in Hall. rewrite forallb_forall in Hall. now apply negb_true_iff, Hall.
  - exists re1. destruct (eff_check (rs_src rs)) eqn:Ec.
    + destruct (re_vu re1) as [x|] eqn:Ev.
      * destruct (str_to_time x) as [t|x0] eqn:Es.
        -- subst e0. split; [exact Hrs|]. split; [exact Hk|]. split; [exact Hadm|]. split; [exact He|].
           split; [exact Hid|]. split; [reflexivity|]. intros _. left. right. exists x, t.
           split; [reflexivity|]. split; [exact Es|]. specialize (Hval eq_refl).
           cbn [ent_of e_valid_until] in Hval. unfold vu_parsed in Hval. rewrite Ev, Es in Hval. now apply Z.leb_le.
        -- destruct (str_eqb_spec x0 AttributeError) as [->|Hne].
           ++ destruct lenient; [|destruct Hbody]. subst e0.
              split; [exact Hrs|]. split; [exact Hk|]. split; [exact Hadm|]. split; [exact He|].
              split; [exact Hid|]. split; [reflexivity|]. intros _. right. split; [reflexivity|]. now exists x.
           ++ destruct Hbody as [Hx _]. discriminate.
      * subst e0. split; [exact Hrs|]. split; [exact Hk|]. split; [exact Hadm|]. split; [exact He|].
        split; [exact Hid|]. split; [reflexivity|]. intros _. left. now left.
    + subst e0. split; [exact Hrs|]. split; [exact Hk|]. split; [exact Hadm|]. split; [exact He|].
      split; [exact Hid|]. split; [reflexivity|]. intros Hx. discriminate.
  - destruct Hbody.
Qed.

(* an aggregate with one uninterpretable validUntil - its own or a child's - contributes nothing *)
Lemma bad_text_in_aggregate lenient now check vu iv es :
  (vu_bad vu = true \/ (iv = IvOk /\ exists re, In re es /\ vu_bad (re_vu re) = true /\
                         forall re', In re' es -> re_iv re' = IvOk)) ->
  rparse lenient now check (RMany vu iv es) = Ok [].
Proof.
  intros H. cbn [rparse]. assert (doc_ivalid vu iv es = IvNotValid) as ->; [|reflexivity].
  unfold doc_ivalid. destruct H as [->|(-> & re & Hin & Hbad & Hiv)]; [reflexivity|].
  destruct (vu_bad vu); [reflexivity|]. clear vu.
  induction es as [|e es IH]; [destruct Hin|]. cbn [ents_ivalid].
  destruct Hin as [->|Hin]; [now rewrite Hbad|].
  destruct (vu_bad (re_vu e)); [reflexivity|]. rewrite (Hiv e (or_introl eq_refl)).
  apply IH; [exact Hin|]. intros re' H'. apply Hiv. now right.
Qed.

(* ------------------------------------------------------------------ *)
(* 4. histories                                                       *)
(* ------------------------------------------------------------------ *)
Lemma ops_store_loads lenient now ops : forall st,
  ops_store lenient now st ops = rload_all lenient now st (loads_of ops).
Proof.
  induction ops as [|o ops IH]; intros st; [reflexivity|].
  destruct o; cbn [ops_store loads_of flat_map app rload_all]; apply IH.
Qed.

Lemma run_ops_app lenient now ops1 : forall st ops2,
  run_ops lenient now st (ops1 ++ ops2) =
  run_ops lenient now st ops1 ++ run_ops lenient now (ops_store lenient now st ops1) ops2.
Proof.
  induction ops1 as [|o ops1 IH]; intros st ops2; [reflexivity|].
  destruct o; cbn [app run_ops ops_store].
  - now rewrite IH.
  - now rewrite IH, app_assoc.
  - now rewrite IH, app_assoc.
Qed.

(* whatever was loaded and asked before: the answers of a lookup are those of the store made by the
   loads that precede it (lookups leave no trace, a raising load leaves the store as it was) *)
Lemma history_answers lenient now pre qs post :
  run_ops lenient now [] (pre ++ OpAsk qs :: post) =
  run_ops lenient now [] pre ++
  map (run_query (rload_all lenient now [] (loads_of pre))) qs ++
  run_ops lenient now (rload_all lenient now [] (loads_of pre)) post.
Proof. rewrite run_ops_app, ops_store_loads. reflexivity. Qed.

(* ------------------------------------------------------------------ *)
(* 5. entity attributes: every declared value is served               *)
(* ------------------------------------------------------------------ *)
Lemma vals_of_In n attrs a v :
  In a attrs -> ea_name a = n -> In v (ea_values a) -> hits n attrs = true /\ In v (vals_of n attrs).
Proof.
  intros Ha Hn Hv. subst n. split.
  - unfold hits. apply existsb_exists. exists a. split; [exact Ha|apply str_eqb_refl].
  - unfold vals_of. apply in_flat_map. exists a. split; [|exact Hv].
    apply filter_In. split; [exact Ha|apply str_eqb_refl].
Qed.

Lemma all_attribute_values_served st eid e res elem a v :
  store_get st eid = Some e -> store_entity_attributes st eid = Ok res ->
  In elem (e_eattrs e) -> In a elem -> In v (ea_values a) ->
  exists l, aget (ea_name a) res = Some l /\ In v l /\
            l = vals_of (ea_name a) (List.concat (e_eattrs e)).
Proof.
  intros He Hres Helem Ha Hv. rewrite (entity_attributes_exact _ _ _ Hres (ea_name a)), He.
  assert (In a (List.concat (e_eattrs e))) as Hin by (apply in_concat; now exists elem).
  destruct (vals_of_In (ea_name a) _ a v Hin eq_refl Hv) as [-> Hl].
  eexists. split; [reflexivity|]. split; [exact Hl|reflexivity].
Qed.

(* the number of values served under a name is the number declared under it, Attribute by Attribute *)
Lemma vals_of_length n attrs :
  List.length (vals_of n attrs) =
  fold_right (fun a acc => ((if str_eqb n (ea_name a) then List.length (ea_values a) else O) + acc)%nat) O attrs.
Proof.
  unfold vals_of. induction attrs as [|a attrs IH]; [reflexivity|]. cbn [filter fold_right].
  destruct (str_eqb n (ea_name a)); cbn [flat_map]; [rewrite app_length|]; now rewrite IH.
Qed.

(* ------------------------------------------------------------------ *)
(* 6. unknown entity / unsupported binding: position of the source    *)
(* ------------------------------------------------------------------ *)
Lemma known_anywhere_never_unknown pre k m post eid typ svc b :
  has_role m eid typ = true ->
  store_service (pre ++ (k, m) :: post) eid typ svc b <> Err UnknownSystemEntity.
Proof.
  intros Hr H. rewrite store_service_unknown_iff in H.
  specialize (H (k, m) ltac:(apply in_or_app; right; now left)). cbn [snd] in H. congruence.
Qed.

Lemma no_role_anywhere_never_unsupported st eid typ svc b :
  (forall km, In km st -> has_role (snd km) eid typ = false) ->
  store_service st eid typ svc b = Err UnknownSystemEntity.
Proof. apply store_service_unknown_iff. Qed.
