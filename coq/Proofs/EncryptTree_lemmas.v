(* Proofs/EncryptTree_lemmas.v — C17, service-provider half on document trees
   (Model/Encrypt.v PART II): whatever the tool's policy, the configured keys and
   the fault schedule, opening EncryptedData nodes only ADDS assertions to what the
   parser sees; with the comparison of proposed_fix/C17-2 the assertions that are
   used after the second (non-verifying) loop are exactly the ones the verifying
   call saw, so every assertion read went through the plain-path checks. *)
From PV Require Import Lib.Base Model.Status Model.Response Model.Encrypt Proofs.Response_lemmas Proofs.EncryptSP_lemmas.
Open Scope Z_scope.

(* ---------- unfolding the nested fixpoint ---------- *)
Lemma open_first_enc keys pol k p :
  open_first keys pol (DEnc k p) = if mem_N k keys then Opened p else match pol with PFail => Stuck | PSkip => NoEnc end.
Proof. reflexivity. Qed.
Lemma open_first_asrt keys pol a d adv ext :
  open_first keys pol (DAsrt a d adv ext) =
  match open_list keys pol adv with
  | Opened adv' => Opened (DAsrt a true adv' ext)
  | Stuck => Stuck
  | NoEnc => match open_list keys pol ext with Opened ext' => Opened (DAsrt a true adv ext') | Stuck => Stuck | NoEnc => NoEnc end
  end.
Proof. reflexivity. Qed.
Lemma open_first_ea keys pol k :
  open_first keys pol (DEA k) = match open_list keys pol k with Opened k' => Opened (DEA k') | Stuck => Stuck | NoEnc => NoEnc end.
Proof. reflexivity. Qed.
Lemma open_first_other keys pol k :
  open_first keys pol (DOther k) = match open_list keys pol k with Opened k' => Opened (DOther k') | Stuck => Stuck | NoEnc => NoEnc end.
Proof. reflexivity. Qed.

Lemma open_list_cons keys pol x r :
  open_list keys pol (x :: r) =
  match open_first keys pol x with
  | Opened x' => Opened (x' :: r)
  | Stuck => Stuck
  | NoEnc => match open_list keys pol r with Opened r' => Opened (x :: r') | Stuck => Stuck | NoEnc => NoEnc end
  end.
Proof. reflexivity. Qed.

(* ---------- order-preserving embedding ---------- *)
Inductive subseq {A} : list A -> list A -> Prop :=
| ss_nil : forall l, subseq [] l
| ss_keep : forall x l1 l2, subseq l1 l2 -> subseq (x :: l1) (x :: l2)
| ss_skip : forall x l1 l2, subseq l1 l2 -> subseq l1 (x :: l2).

Lemma subseq_refl {A} (l : list A) : subseq l l.
Proof. induction l; constructor; assumption. Qed.

Lemma subseq_trans {A} (l1 l2 l3 : list A) : subseq l1 l2 -> subseq l2 l3 -> subseq l1 l3.
Proof.
  intros H12 H23. revert l1 H12. induction H23 as [l|x l2 l3 H IH|x l2 l3 H IH]; intros l1 H12.
  - inversion H12; subst. constructor.
  - inversion H12; subst; [constructor|constructor; now apply IH|apply ss_skip; now apply IH].
  - apply ss_skip. now apply IH.
Qed.

Lemma subseq_app_l {A} (p l1 l2 : list A) : subseq l1 l2 -> subseq l1 (p ++ l2).
Proof. intros H. induction p; [exact H|]. cbn. now apply ss_skip. Qed.

Lemma subseq_app {A} (a1 a2 b1 b2 : list A) : subseq a1 a2 -> subseq b1 b2 -> subseq (a1 ++ b1) (a2 ++ b2).
Proof.
  intros Ha Hb. induction Ha as [l|x l1 l2 H IH|x l1 l2 H IH]; cbn.
  - now apply subseq_app_l.
  - now constructor.
  - now apply ss_skip.
Qed.

Lemma subseq_length {A} (l1 l2 : list A) : subseq l1 l2 -> (List.length l1 <= List.length l2)%nat.
Proof. induction 1; cbn; lia. Qed.

Lemma subseq_same_length {A} (l1 l2 : list A) : subseq l1 l2 -> List.length l1 = List.length l2 -> l1 = l2.
Proof.
  induction 1 as [l|x l1 l2 H IH|x l1 l2 H IH]; cbn; intros HL.
  - destruct l; [reflexivity|discriminate].
  - f_equal. apply IH. lia.
  - apply subseq_length in H. lia.
Qed.

(* ---------- opening a node only adds assertions to the parsed view ---------- *)
Definition as_of (l : list dtree) : list assertion := map v_a (asrts l).        (* Assertion children *)
Definition ea_as_of (l : list dtree) : list assertion := map v_a (ea_asrts l).  (* Assertions inside EncryptedAssertion children *)

Lemma asrts_cons x l : asrts (x :: l) = asrts [x] ++ asrts l.
Proof. unfold asrts. cbn [flat_map]. now rewrite app_nil_r. Qed.
Lemma as_of_cons x l : as_of (x :: l) = as_of [x] ++ as_of l.
Proof. unfold as_of. now rewrite asrts_cons, map_app. Qed.
Lemma eas_cons x l : eas (x :: l) = eas [x] ++ eas l.
Proof. unfold eas. cbn [flat_map]. now rewrite app_nil_r. Qed.
Lemma ea_as_of_cons x l : ea_as_of (x :: l) = ea_as_of [x] ++ ea_as_of l.
Proof. unfold ea_as_of, ea_asrts. rewrite eas_cons, flat_map_app, map_app. reflexivity. Qed.

Lemma open_first_shape keys pol x x' : open_first keys pol x = Opened x' ->
  match x with
  | DEnc _ p => x' = p
  | DAsrt a _ _ _ => exists adv' ext', x' = DAsrt a true adv' ext'
  | DEA k => exists k', x' = DEA k' /\ open_list keys pol k = Opened k'
  | DOther _ => exists k', x' = DOther k'
  end.
Proof.
  destruct x as [a d adv ext|k|k|key p].
  - rewrite open_first_asrt. destruct (open_list keys pol adv) as [adv'| |]; [intros H; injection H as <-; eauto|discriminate|].
    destruct (open_list keys pol ext) as [ext'| |]; [intros H; injection H as <-; eauto|discriminate|discriminate].
  - rewrite open_first_ea. destruct (open_list keys pol k) as [k'| |]; [intros H; injection H as <-; eauto|discriminate|discriminate].
  - rewrite open_first_other. destruct (open_list keys pol k) as [k'| |]; [intros H; injection H as <-; eauto|discriminate|discriminate].
  - rewrite open_first_enc. destruct (mem_N key keys); [intros H; now injection H as <-|destruct pol; discriminate].
Qed.

Lemma open_list_as keys pol : forall l l', open_list keys pol l = Opened l' -> subseq (as_of l) (as_of l').
Proof.
  induction l as [|x r IH]; intros l' H; [discriminate|]. rewrite open_list_cons in H.
  destruct (open_first keys pol x) as [x'| |] eqn:Ex; [|discriminate|].
  - injection H as <-. rewrite (as_of_cons x r), (as_of_cons x' r). apply subseq_app; [|apply subseq_refl].
    pose proof (open_first_shape _ _ _ _ Ex) as S. destruct x as [a d adv ext|k|k|key p].
    + destruct S as (adv' & ext' & ->). apply subseq_refl.
    + destruct S as (k' & -> & _). apply subseq_refl.
    + destruct S as (k' & ->). apply subseq_refl.
    + constructor.
  - destruct (open_list keys pol r) as [r'| |] eqn:Er; try discriminate. injection H as <-.
    rewrite (as_of_cons x r), (as_of_cons x r'). apply subseq_app; [apply subseq_refl|now apply IH].
Qed.

Lemma open_list_ea_as keys pol : forall l l', open_list keys pol l = Opened l' -> subseq (ea_as_of l) (ea_as_of l').
Proof.
  induction l as [|x r IH]; intros l' H; [discriminate|]. rewrite open_list_cons in H.
  destruct (open_first keys pol x) as [x'| |] eqn:Ex; [|discriminate|].
  - injection H as <-. rewrite (ea_as_of_cons x r), (ea_as_of_cons x' r). apply subseq_app; [|apply subseq_refl].
    pose proof (open_first_shape _ _ _ _ Ex) as S. destruct x as [a d adv ext|k|k|key p].
    + destruct S as (adv' & ext' & ->). apply subseq_refl.
    + destruct S as (k' & -> & Hk). unfold ea_as_of, ea_asrts. cbn [eas flat_map app]. rewrite !app_nil_r.
      exact (open_list_as _ _ _ _ Hk).
    + destruct S as (k' & ->). apply subseq_refl.
    + constructor.
  - destruct (open_list keys pol r) as [r'| |] eqn:Er; try discriminate. injection H as <-.
    rewrite (ea_as_of_cons x r), (ea_as_of_cons x r'). apply subseq_app; [apply subseq_refl|now apply IH].
Qed.

Lemma dec_loop_grows cond keys pol : forall fuel fs root root' fs',
  dec_loop fuel cond keys pol fs root = Some (root', fs') ->
  subseq (as_of root) (as_of root') /\ subseq (ea_as_of root) (ea_as_of root').
Proof.
  induction fuel as [|f IH]; intros fs root root' fs' H; [discriminate|]. cbn [dec_loop] in H.
  destruct (negb (cond root)); [injection H as <- <-; split; apply subseq_refl|].
  destruct (pop fs) as [fault fs1]. destruct fault.
  - injection H as <- <-; split; apply subseq_refl.
  - destruct (open_list keys pol root) as [r1| |] eqn:Eo; try (injection H as <- <-; split; apply subseq_refl).
    destruct (IH _ _ _ _ H) as [A B]. split.
    + eapply subseq_trans; [exact (open_list_as _ _ _ _ Eo)|exact A].
    + eapply subseq_trans; [exact (open_list_ea_as _ _ _ _ Eo)|exact B].
Qed.

(* ---------- re-serialisation keeps the plain assertions, in order ---------- *)
Lemma as_of_app l1 l2 : as_of (l1 ++ l2) = as_of l1 ++ as_of l2.
Proof. unfold as_of, asrts. now rewrite flat_map_app, map_app. Qed.

Lemma as_of_no_asrt l : (forall x, In x l -> is_asrt x = false) -> as_of l = [].
Proof.
  induction l as [|x l IH]; intros H; [reflexivity|]. rewrite as_of_cons, IH; [|intros y Hy; apply H; now right].
  rewrite app_nil_r. pose proof (H x (or_introl eq_refl)) as Hx. destruct x; try reflexivity. discriminate.
Qed.

Lemma as_of_reser_filter l : as_of (filter is_asrt (map reser l)) = as_of l.
Proof.
  induction l as [|x l IH]; [reflexivity|]. cbn [map filter].
  destruct x as [a d adv ext|k|k|key p]; cbn [reser is_asrt].
  - rewrite (as_of_cons _ (filter is_asrt (map reser l))), (as_of_cons (DAsrt a d adv ext) l), IH. reflexivity.
  - rewrite (as_of_cons (DEA k) l), IH. reflexivity.
  - rewrite (as_of_cons (DOther k) l), IH. reflexivity.
  - rewrite (as_of_cons (DEnc key p) l), IH. reflexivity.
Qed.

Lemma as_of_reserialize root : as_of (reserialize root) = as_of root.
Proof.
  unfold reserialize. rewrite !as_of_app, as_of_reser_filter.
  rewrite (as_of_no_asrt (filter is_ea (map reser root))), (as_of_no_asrt (filter _ root)), !app_nil_r; [reflexivity| |].
  - intros x Hx. apply filter_In in Hx as [_ Hx]. destruct (is_asrt x); [discriminate|reflexivity].
  - intros x Hx. apply filter_In in Hx as [_ Hx]. destruct x; try reflexivity; discriminate.
Qed.

Lemma nlist_eqb_eq a b : nlist_eqb a b = true -> a = b.
Proof.
  revert b; induction a as [|x a IH]; intros [|y b] H; cbn in H; try discriminate; [reflexivity|].
  apply andb_true_iff in H as [H1 H2]. apply N.eqb_eq in H1. subst. f_equal. now apply IH.
Qed.

(* ---------- a decrypted assertion whose signature the verifying call accepted is handled like a plain one ---------- *)
Definition view_not_bad (v : asrt_view) : Prop := forall e, sig_now v <> Some (Err e).

Lemma verify_views_ok l : verify_views l = Ok tt <-> Forall view_not_bad l.
Proof.
  induction l as [|v l IH]; cbn [verify_views].
  - split; [constructor|reflexivity].
  - destruct (sig_now v) as [[[]|e]|] eqn:Es.
    + rewrite IH. split; [intros H; constructor; [unfold view_not_bad; rewrite Es; discriminate|exact H]|intros H; now inversion H].
    + split; [discriminate|]. intros H. inversion H as [|x y Hx Hy]. exfalso. exact (Hx e Es).
    + rewrite IH. split; [intros H; constructor; [unfold view_not_bad; rewrite Es; discriminate|exact H]|intros H; now inversion H].
Qed.

Lemma check_as_checked c irt req s v :
  view_not_bad v -> check_assertion c irt req true s (v_a v) = check_assertion c irt req false s (as_checked v).
Proof.
  intros H. unfold check_assertion, as_checked. cbn [a_sig a_authn a_conditions a_has_subject a_confirmations a_name_id].
  unfold authn_statement_ok, condition_ok, get_subject. cbn [a_sig a_authn a_conditions a_has_subject a_confirmations a_name_id].
  unfold view_not_bad, sig_now in *. destruct (a_sig (v_a v)) as [r|]; [|reflexivity].
  destruct (v_dirty v); [exfalso; exact (H _ eq_refl)|]. destruct r as [[]|e]; [reflexivity|exfalso; exact (H _ eq_refl)].
Qed.

(* the assertion as the plain path would see it *)
Lemma check_list_as_checked c irt req push : forall l s,
  Forall view_not_bad l ->
  check_assertions c irt req true push s (map v_a l) = check_assertions c irt req false push s (map as_checked l).
Proof.
  induction l as [|v l IH]; intros s H; [reflexivity|]. inversion H as [|x y Hx Hy]; subst.
  cbn [map check_assertions]. rewrite (check_as_checked c irt req s v Hx).
  destruct (check_assertion c irt req false s (as_checked v)); [|reflexivity]. cbn [as_checked a_id]. now apply IH.
Qed.

(* ---------- the assertion stage on trees, with the comparison of proposed_fix/C17-2 ---------- *)
(* [checked_view c irt req v]: the signature of v (if any) verified on the text it was looked at in, and the
   plain-path function _assertion(…, verified=False) accepts the element *)
Definition checked_view (c : cfg) (irt : option str) (req : bool) (v : asrt_view) : Prop :=
  view_not_bad v /\ exists sa sa', check_assertion c irt req false sa (as_checked v) = Ok sa'.

Lemma check_false_not_bad c irt req sa v sa' : check_assertion c irt req false sa (as_checked v) = Ok sa' -> view_not_bad v.
Proof.
  unfold check_assertion, as_checked, view_not_bad. cbn [a_sig]. intros H e He. rewrite He in H. discriminate.
Qed.

Lemma check_views_all c irt req push : forall l s s',
  check_assertions c irt req false push s (map as_checked l) = Ok s' ->
  Forall (checked_view c irt req) l /\ acc s' = acc s ++ (if push then ids_of l else []).
Proof.
  induction l as [|v l IH]; intros s s' H; cbn [map check_assertions] in H.
  - injection H as <-. split; [constructor|]. destruct push; cbn; now rewrite app_nil_r.
  - destruct (check_assertion c irt req false s (as_checked v)) as [s1|] eqn:E; [|discriminate].
    destruct (check_assertion_nid _ _ _ _ _ _ _ E) as [A _]. destruct (IH _ _ H) as [F C]. split.
    + constructor; [|exact F]. split; [eapply check_false_not_bad; exact E|now exists s, s1].
    + rewrite C. destruct push; cbn [as_checked a_id ids_of map push_acc acc]; [|congruence].
      rewrite A, <- app_assoc. reflexivity.
Qed.

Lemma acc_after_failure_prefix c irt req : forall l s, Forall view_not_bad l ->
  exists l1 l2, l = l1 ++ l2 /\ acc (acc_after_failure c irt req true s (map v_a l)) = acc s ++ ids_of l1 /\
                Forall (checked_view c irt req) l1.
Proof.
  induction l as [|v l IH]; intros s H.
  - exists [], []. cbn. rewrite app_nil_r. repeat split; constructor.
  - inversion H as [|x y Hx Hy]; subst. cbn [map acc_after_failure].
    destruct (check_assertion c irt req true s (v_a v)) as [s1|] eqn:E.
    + destruct (IH (push_acc s1 (a_id (v_a v))) Hy) as (l1 & l2 & -> & A & F).
      destruct (check_assertion_nid _ _ _ _ _ _ _ E) as [A1 _].
      exists (v :: l1), l2. split; [reflexivity|]. split.
      * rewrite A. cbn [push_acc acc ids_of map]. rewrite A1, <- app_assoc. reflexivity.
      * constructor; [|exact F]. split; [exact Hx|]. rewrite (check_as_checked _ _ _ _ _ Hx) in E. now exists s, s1.
    + exists [], (v :: l). cbn. rewrite app_nil_r. repeat split; constructor.
Qed.

Lemma ids_of_length l1 l2 : ids_of l1 = ids_of l2 -> List.length (map v_a l1) = List.length (map v_a l2).
Proof. unfold ids_of. intros H. apply (f_equal (@List.length N)) in H. now rewrite !map_length in *. Qed.

(* what the stage returns, and what a failed stage leaves in self.assertions *)
Lemma parse_t_checked tc c irt req s root again fs :
  t_fixed tc = true ->
  (forall s', so_res (parse_t tc c irt req s root again fs) = Ok s' ->
     exists l, acc s' = acc s ++ ids_of l /\ Forall (checked_view c irt req) l) /\
  (exists l, acc (so_residue (parse_t tc c irt req s root again fs)) = acc s ++ ids_of l /\ Forall (checked_view c irt req) l).
Proof.
  intros Hfix. unfold parse_t. rewrite Hfix. cbn [andb].
  assert (exists l : list asrt_view, acc s = acc s ++ ids_of l /\ Forall (checked_view c irt req) l) as Triv
    by (exists []; cbn; rewrite app_nil_r; split; [reflexivity|constructor]).
  set (plain0 := asrts root).
  destruct (negb ((List.length plain0 =? 1)%nat || (List.length (eas root) =? 1)%nat || again)); [split; [discriminate|exact Triv]|].
  destruct (check_assertions c irt req false false s (map as_checked plain0)) as [s1|] eqn:E1; [|split; [discriminate|exact Triv]].
  destruct (check_views_all _ _ _ _ _ _ _ E1) as [FP A1]. rewrite app_nil_r in A1.
  destruct (negb (find_encrypt_data root)).
  { split; [|exact Triv]. intros s' H. injection H as <-. exists plain0. cbn [push_all acc]. rewrite A1. split; [|exact FP].
    unfold ids_of. now rewrite map_map. }
  destruct (dec_loop (fuel_for (reserialize root) fs) find_encrypt_data (t_keys tc) (t_pol tc) fs (reserialize root)) as [[t1 fs1]|] eqn:L1;
    [|split; [discriminate|exact Triv]].
  destruct (verify_views (ea_asrts t1)) as [[]|] eqn:EV; [|split; [discriminate|exact Triv]].
  apply verify_views_ok in EV.
  destruct (dec_loop (fuel_for t1 fs1) cond2 (t_keys tc) (t_pol tc) fs1 t1) as [[t2 fs2]|] eqn:L2; [|split; [discriminate|exact Triv]].
  destruct (nlist_eqb (ids_of (ea_asrts t2)) (ids_of (ea_asrts t1)) && nlist_eqb (ids_of (asrts t2)) (ids_of plain0)) eqn:EQ;
    cbn [negb]; [|split; [discriminate|exact Triv]].
  apply andb_true_iff in EQ as [EW EP]. apply nlist_eqb_eq in EW. apply nlist_eqb_eq in EP.
  destruct (dec_loop_grows _ _ _ _ _ _ _ _ L2) as [_ GW].
  assert (map v_a (ea_asrts t2) = map v_a (ea_asrts t1)) as SAME.
  { symmetry. apply subseq_same_length; [exact GW|]. symmetry. now apply ids_of_length. }
  destruct (advice_pass (ea_asrts t2 ++ asrts t2)); [|split; [discriminate|exact Triv]].
  rewrite SAME.
  destruct (check_assertions c irt req true true s1 (map v_a (ea_asrts t1))) as [s2|] eqn:E2.
  - split; [|exact Triv]. intros s' H. injection H as <-.
    rewrite (check_list_as_checked _ _ _ _ _ _ EV) in E2. destruct (check_views_all _ _ _ _ _ _ _ E2) as [FV A2].
    exists (ea_asrts t1 ++ plain0). split; [|apply Forall_app; split; assumption].
    cbn [push_all acc]. rewrite A2, A1.
    replace (map a_id (map v_a (asrts t2))) with (ids_of (asrts t2)) by (unfold ids_of; now rewrite map_map).
    rewrite EP. unfold ids_of. now rewrite map_app, <- app_assoc.
  - split; [discriminate|]. cbn [so_residue acc].
    destruct (acc_after_failure_prefix c irt req (ea_asrts t1) s1 EV) as (l1 & l2 & _ & A & F).
    exists l1. rewrite A, A1. split; [reflexivity|exact F].
Qed.

(* ---------- Entity._parse_response around the stage ---------- *)
Lemma parse_response_is_x c r :
  parse_response c r =
  parse_response_x (fun req s (_ : unit) => (parse_assertion c req s r, tt)) (fun req s _ => parse_assertion_residue c req s r) c r tt.
Proof.
  unfold parse_response, parse_response_x, verify, verify_x, authn_verify.
  destruct (loads c true r) as [sA|eA].
  - destruct (negb (r_valid_instance r)); [reflexivity|].
    destruct (asynch c && version_is_20 (r_version r) &&
              match r_destination r, dest_regex_set c, return_addrs c with Some _, false, None => true | _, _, _ => false end); [reflexivity|].
    destruct (verify_core (verify_in_of c r)) as [[[]|]|e]; try reflexivity.
    destruct (parse_assertion c true sA r) as [s1|e1]; [reflexivity|].
    destruct (is_signature_error e1); [|reflexivity]. destruct (was c); [reflexivity|].
    destruct (parse_assertion c false (parse_assertion_residue c true sA r) r); reflexivity.
  - destruct (is_sigver_error eA); [|reflexivity]. destruct (wrs c); [reflexivity|].
    destruct (loads c false r) as [sB|]; [|reflexivity].
    destruct (negb (r_valid_instance r)); [reflexivity|].
    destruct (asynch c && version_is_20 (r_version r) &&
              match r_destination r, dest_regex_set c, return_addrs c with Some _, false, None => true | _, _, _ => false end); [reflexivity|].
    destruct (verify_core (verify_in_of c r)) as [[[]|]|e]; try reflexivity.
    destruct (parse_assertion c true sB r) as [s1|e1]; [reflexivity|].
    destruct (is_signature_error e1); [|reflexivity]. destruct (was c); [reflexivity|].
    destruct (parse_assertion c false (parse_assertion_residue c true sB r) r); reflexivity.
Qed.

Lemma verify_x_ok {X} (stage : st -> X -> result st * X) c s r (x : X) s' x' :
  verify_x stage c s r x = (Ok (Some s'), x') -> stage s x = (Ok s', x').
Proof.
  unfold verify_x.
  destruct (asynch c && version_is_20 (r_version r) &&
            match r_destination r, dest_regex_set c, return_addrs c with Some _, false, None => true | _, _, _ => false end); [discriminate|].
  destruct (verify_core (verify_in_of c r)) as [[[]|]|e]; try discriminate.
  destruct (stage s x) as [[s1|e1] x1]; intros H; [|discriminate]. injection H as <- <-. reflexivity.
Qed.

Lemma verify_x_err {X} (stage : st -> X -> result st * X) c s r (x : X) e x' :
  verify_x stage c s r x = (Err e, x') -> x' = x \/ exists e', stage s x = (Err e', x').
Proof.
  unfold verify_x.
  destruct (asynch c && version_is_20 (r_version r) &&
            match r_destination r, dest_regex_set c, return_addrs c with Some _, false, None => true | _, _, _ => false end);
    [intros H; injection H as _ <-; now left|].
  destruct (verify_core (verify_in_of c r)) as [[[]|]|e0]; try (intros H; injection H as _ <-; now left); try discriminate.
  destruct (stage s x) as [[s1|e1] x1]; intros H; [discriminate|]. injection H as _ <-. right. now exists e1.
Qed.

Lemma accepted_x {X} (stage : bool -> st -> X -> result st * X) residue c r (x0 : X) o :
  parse_response_x stage residue c r x0 = Ok o ->
  exists rq s0, loads c rq r = Ok s0 /\
    ((exists s' x', stage true s0 x0 = (Ok s', x') /\ o_assertions o = acc s' /\ o_name_id o = nid s') \/
     (exists x1 s' x', (x1 = x0 \/ exists e, stage true s0 x0 = (Err e, x1)) /\ was c = false /\
        stage false (residue true s0 x0) x1 = (Ok s', x') /\ o_assertions o = acc s' /\ o_name_id o = nid s')).
Proof.
  unfold parse_response_x. intros H.
  assert (forall rq s0 b, loads c rq r = Ok s0 ->
    (if negb (r_valid_instance r) then Err (E "AttributeError") else
     match (match verify_x (stage true) c s0 r x0 with
            | (Ok x, _) => Ok (x, true)
            | (Err e, x1) => if is_signature_error e then
                               (if was c then Err e
                                else match verify_x (stage false) c (residue true s0 x0) r x1 with
                                     | (Ok x, _) => Ok (x, false)
                                     | (Err e', _) => Err e'
                                     end)
                             else Err e
            end) with
     | Err e => Err e
     | Ok (None, _) => Err (E "AttributeError")
     | Ok (Some s', assertions_are_signed) =>
         if waors c && negb b && negb assertions_are_signed then Err (E "SigverError")
         else Ok {| o_assertions := acc s'; o_name_id := nid s'; o_came_from := came_from s';
                    o_nooa := if session_nooa s' >? 0 then session_nooa s' else not_on_or_after s'; o_irt := r_irt r |}
     end) = Ok o ->
    exists rq s0, loads c rq r = Ok s0 /\
    ((exists s' x', stage true s0 x0 = (Ok s', x') /\ o_assertions o = acc s' /\ o_name_id o = nid s') \/
     (exists x1 s' x', (x1 = x0 \/ exists e, stage true s0 x0 = (Err e, x1)) /\ was c = false /\
        stage false (residue true s0 x0) x1 = (Ok s', x') /\ o_assertions o = acc s' /\ o_name_id o = nid s'))) as K.
  { intros rq s0 b HL HK. exists rq, s0. split; [exact HL|].
    destruct (negb (r_valid_instance r)); [discriminate|].
    destruct (verify_x (stage true) c s0 r x0) as [[[s'|]|e] x1] eqn:V1.
    - left. apply verify_x_ok in V1.
      match type of HK with (if ?x then _ else _) = _ => destruct x; [discriminate|] end. injection HK as <-. now exists s', x1.
    - discriminate.
    - destruct (is_signature_error e); [|discriminate]. destruct (was c) eqn:Wa; [discriminate|].
      destruct (verify_x (stage false) c (residue true s0 x0) r x1) as [[[s'|]|e2] x2] eqn:V2; try discriminate.
      right. apply verify_x_ok in V2. apply verify_x_err in V1.
      match type of HK with (if ?x then _ else _) = _ => destruct x; [discriminate|] end. injection HK as <-.
      exists x1, s', x2. split; [destruct V1 as [->|(e' & He)]; [now left|right; now exists e']|]. repeat split; auto. }
  destruct (loads c true r) as [sA|eA] eqn:L1.
  - exact (K true sA true L1 H).
  - destruct (is_sigver_error eA); [|discriminate]. destruct (wrs c); [discriminate|].
    destruct (loads c false r) as [sB|] eqn:L2; [|discriminate]. exact (K false sB false L2 H).
Qed.

Lemma loads_env c rq r root s : loads c rq (env_of r root) = Ok s -> acc s = [] /\ nid s = None.
Proof. intros H. destruct (loads_fields _ _ _ _ H) as (_ & _ & A). split; [exact A|exact (loads_nid _ _ _ _ H)]. Qed.

(* every assertion the application reads went through the plain-path checks, its signature verified —
   for every tool policy, key set, fault schedule and document tree *)
Lemma tree_same_checks tc c r root fs o :
  t_fixed tc = true -> parse_response_t tc c r root fs = Ok o ->
  Forall (fun n => exists req v, a_id (v_a v) = n /\ checked_view c (r_irt r) req v) (o_assertions o).
Proof.
  intros Hfix H. unfold parse_response_t in H. apply accepted_x in H as (rq & s0 & HL & H).
  destruct (loads_env _ _ _ _ _ HL) as [A0 _].
  assert (forall req l, Forall (checked_view c (r_irt r) req) l ->
          Forall (fun n => exists req v, a_id (v_a v) = n /\ checked_view c (r_irt r) req v) (ids_of l)) as Lift.
  { intros req l F. unfold ids_of. apply Forall_forall. intros n Hn. apply in_map_iff in Hn as (v & <- & Hv).
    exists req, v. split; [reflexivity|]. rewrite Forall_forall in F. now apply F. }
  destruct H as [(s' & x' & Hs & -> & _)|(x1 & s' & x' & _ & _ & Hs & -> & _)].
  - unfold stage_t in Hs. injection Hs as Hs _.
    destruct (parse_t_checked tc c (r_irt r) true s0 root false fs Hfix) as [P _].
    destruct (P _ Hs) as (l & -> & F). rewrite A0. cbn [app]. exact (Lift _ _ F).
  - destruct x1 as [[fs1 root1] again1]. unfold stage_t in Hs. injection Hs as Hs _.
    destruct (parse_t_checked tc c (r_irt r) true s0 root false fs Hfix) as [_ (lr & AR & FR)].
    destruct (parse_t_checked tc c (r_irt r) false (residue_t tc c (r_irt r) true s0 (fs, root, false)) root1 again1 fs1 Hfix) as [P _].
    destruct (P _ Hs) as (l & -> & F). unfold residue_t. rewrite AR, A0. cbn [app].
    apply Forall_app. split; [exact (Lift _ _ FR)|exact (Lift _ _ F)].
Qed.
