From Coq Require Import Lia.
From PV Require Import Lib.Base Model.TimeUtil Proofs.TimeUtil_lemmas Model.Request Model.RequestWindow.
Open Scope Z_scope.

Lemma window_on_spec now slack s c : str_to_time s = Ok (Some c) -> window_on now slack s = Ok (within now slack (timegm c)).
Proof. intros H. unfold window_on, within. rewrite H, (issue_window_text now slack s c H). reflexivity. Qed.

(* the verdict of the code is the window on instants, for the UTC reading of now and the UTC reading of the text *)
Theorem window_text_spec k slack s c :
  str_to_time s = Ok (Some c) -> window_text k slack s = Ok (within (pc_now k) slack (timegm c)).
Proof. intros H. unfold window_text, dt_utcnow. exact (window_on_spec _ _ _ _ H). Qed.

(* ... hence a function of (now_utc, text, allowance) only: the zone of the process does not enter *)
Theorem window_text_zone_free now z z' slack s :
  window_text (Build_pclock now z) slack s = window_text (Build_pclock now z') slack s.
Proof. reflexivity. Qed.

Theorem window_text_function_of_utc k k' slack s : pc_now k = pc_now k' -> window_text k slack s = window_text k' slack s.
Proof. intros H. unfold window_text, dt_utcnow. rewrite H. reflexivity. Qed.

(* the same test as the one of Model/Request.v on the instant the text denotes *)
Theorem window_text_is_request_window k (c : rcfg) s tm :
  c_now c = pc_now k -> str_to_time s = Ok (Some tm) ->
  window_text k (c_slack c) s = Ok (issue_instant_ok c (timegm tm)).
Proof.
  intros Hn H. rewrite (window_text_spec k _ s tm H). unfold within, issue_instant_ok. rewrite Hn. reflexivity.
Qed.

Lemma within_iff now slack t : within now slack t = true <-> now - 86400 - slack <= t < now + 86400 + slack.
Proof. unfold within. rewrite Bool.andb_true_iff, Z.leb_le, Z.ltb_lt. tauto. Qed.

(* handed over by the window test => strictly less than a day plus allowance... away, whatever the zone *)
Theorem window_text_sound k slack s :
  window_text k slack s = Ok true ->
  exists c, str_to_time s = Ok (Some c) /\ pc_now k - 86400 - slack <= timegm c < pc_now k + 86400 + slack.
Proof.
  intros H. unfold window_text, window_on in H. destruct (str_to_time s) as [[c|]|e] eqn:Hs; try discriminate.
  exists c. split; [reflexivity|]. apply within_iff.
  pose proof (window_text_spec k slack s c Hs) as Hw. unfold window_text, window_on in Hw. rewrite Hs in Hw.
  congruence.
Qed.

(* a message stamped by time_util.instant at the instant t (years 1000..9999): the verdict is the window on t *)
Theorem window_text_of_instant k slack t :
  -30610224000 <= t <= 253402300799 -> window_text k slack (instant_of t) = Ok (within (pc_now k) slack t).
Proof.
  intros R. rewrite (window_text_spec k slack _ (gmtime t) (instant_round_trip t (gmtime_year_range t R))).
  rewrite timegm_gmtime. reflexivity.
Qed.

(* the variants: they shift the window by what the zone is ahead of UTC *)
Lemma utc_time_sans_frac_eq k : utc_time_sans_frac k = pc_now k - pc_ahead k.
Proof. unfold utc_time_sans_frac, t_mktime, t_gmtime_now. rewrite timegm_gmtime. reflexivity. Qed.

Theorem window_mktime_now_spec k slack s c :
  str_to_time s = Ok (Some c) -> window_text_mktime_now k slack s = Ok (within (pc_now k - pc_ahead k) slack (timegm c)).
Proof. intros H. unfold window_text_mktime_now. rewrite utc_time_sans_frac_eq. exact (window_on_spec _ _ _ _ H). Qed.

Theorem window_local_now_spec k slack s c :
  str_to_time s = Ok (Some c) -> window_text_local_now k slack s = Ok (within (pc_now k + pc_ahead k) slack (timegm c)).
Proof. intros H. unfold window_text_local_now, dt_now. exact (window_on_spec _ _ _ _ H). Qed.

Theorem window_mktime_text_spec k slack s c :
  str_to_time s = Ok (Some c) -> window_text_mktime_text k slack s = Ok (within (pc_now k) slack (timegm c - pc_ahead k)).
Proof.
  intros H. unfold window_text_mktime_text. rewrite H. unfold issue_window.
  rewrite (timetuple_ltb_l _ _ (gmtime_valid _)), (timetuple_ltb_r _ _ (gmtime_valid _)), timegm_gmtime. reflexivity.
Qed.

(* under UTC the variants are the code *)
Theorem window_variants_partial k slack s :
  pc_ahead k = 0 ->
  window_text_mktime_now k slack s = window_text k slack s /\ window_text_local_now k slack s = window_text k slack s /\
  window_text_mktime_text k slack s = window_text k slack s.
Proof.
  intros Z0. unfold window_text_mktime_now, window_text_local_now, window_text_mktime_text, window_text, dt_now, dt_utcnow.
  rewrite utc_time_sans_frac_eq, Z0, Z.sub_0_r, Z.add_0_r. repeat split.
  unfold window_on. destruct (str_to_time s) as [[c|]|e] eqn:Hs; try reflexivity.
  unfold t_mktime. rewrite Z0, Z.sub_0_r.
  rewrite (gmtime_timegm c (str_to_time_valid s c Hs)). reflexivity.
Qed.

(* witnesses: the process in New York (summer, 4 h behind UTC) and in Tokyo (9 h ahead); now = 2026-09-21T14:13:20Z *)
Definition W_NOW : Z := 1790000000.
Definition k_new_york : pclock := Build_pclock W_NOW (-14400).
Definition k_tokyo : pclock := Build_pclock W_NOW 32400.
Definition k_utc : pclock := Build_pclock W_NOW 0.
Definition s_ahead_1d_1h : str := s2l "2026-09-22T15:13:20Z".     (* now + 1 d + 1 h *)
Definition s_ahead_23h : str := s2l "2026-09-22T13:13:20Z".       (* now + 23 h *)

Theorem window_mktime_now_refuted :
  (* a request dated a day and an hour ahead passes in New York ... *)
  (exists c, str_to_time s_ahead_1d_1h = Ok (Some c) /\ timegm c = W_NOW + 86400 + 3600 /\
             window_text_mktime_now k_new_york 0 s_ahead_1d_1h = Ok true /\
             window_text k_new_york 0 s_ahead_1d_1h = Ok false /\ window_text_mktime_now k_utc 0 s_ahead_1d_1h = Ok false) /\
  (* ... and one dated 23 h ahead is refused in Tokyo *)
  (exists c, str_to_time s_ahead_23h = Ok (Some c) /\ timegm c = W_NOW + 82800 /\
             window_text_mktime_now k_tokyo 0 s_ahead_23h = Ok false /\
             window_text k_tokyo 0 s_ahead_23h = Ok true).
Proof. split; eexists; repeat split; vm_compute; reflexivity. Qed.

Theorem window_local_now_refuted :
  window_text_local_now k_tokyo 60 s_ahead_1d_1h = Ok true /\ window_text k_tokyo 60 s_ahead_1d_1h = Ok false /\
  window_text_local_now k_new_york 60 s_ahead_23h = Ok false /\ window_text k_new_york 60 s_ahead_23h = Ok true.
Proof. repeat split; vm_compute; reflexivity. Qed.

Theorem window_mktime_text_refuted :
  window_text_mktime_text k_tokyo 0 s_ahead_1d_1h = Ok true /\ window_text k_tokyo 0 s_ahead_1d_1h = Ok false.
Proof. repeat split; vm_compute; reflexivity. Qed.
