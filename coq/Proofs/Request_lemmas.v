(* Proofs/Request_lemmas.v — lemmas about Model/Request.v (C10). *)
From PV Require Import Lib.Base Model.Sigver Model.CertSelect Model.Xmlsec Model.Request Gen.RequestTable
  Proofs.CertSelect_lemmas.
Open Scope N_scope.

(* the table recorded from the code is the documented one the model is written against *)
Lemma table_is_documented : rows_eqb request_table documented_table = true.
Proof. vm_compute. reflexivity. Qed.

(* ------------------------------------------------------------------ *)
(* trees: induction principle, soundness of tree_eqb                    *)
(* ------------------------------------------------------------------ *)
Section tree_ind2.
  Variable P : tree -> Prop.
  Hypothesis HEl : forall n i p kids, Forall P kids -> P (El n i p kids).
  Hypothesis HSg : forall refs k ok, Forall (fun ud : str * tree => P (snd ud)) refs -> P (Sg refs k ok).
  Fixpoint tree_ind2 (t : tree) : P t :=
    match t with
    | El n i p kids =>
        HEl n i p kids
          ((fix go (l : list tree) : Forall P l :=
              match l with
              | [] => Forall_nil P
              | x :: r => Forall_cons x (tree_ind2 x) (go r)
              end) kids)
    | Sg refs k ok =>
        HSg refs k ok
          ((fix go (l : list (str * tree)) : Forall (fun ud : str * tree => P (snd ud)) l :=
              match l with
              | [] => Forall_nil _
              | ud :: r => Forall_cons ud (tree_ind2 (snd ud)) (go r)
              end) refs)
    end.
End tree_ind2.

Lemma tree_eqb_eq : forall a b, tree_eqb a b = true -> a = b.
Proof.
  induction a as [n i p kids IH | refs key ok IH] using tree_ind2;
    intros [n2 i2 p2 k2 | r2 key2 ok2] H; simpl in H; try discriminate.
  - apply andb_prop in H as [H Hk]. apply andb_prop in H as [H Hp]. apply andb_prop in H as [Hn Hi].
    apply N.eqb_eq in Hn. apply N.eqb_eq in Hp. subst n2 p2.
    assert (Ei : i = i2).
    { destruct i as [x|], i2 as [y|]; try discriminate; [apply str_eqb_eq in Hi; subst; reflexivity | reflexivity]. }
    subst i2. f_equal.
    revert k2 Hk. induction IH as [|x l Hx _ IHl]; intros [|y r] Hk; try discriminate; [reflexivity|].
    apply andb_prop in Hk as [H1 H2]. f_equal; [apply Hx; exact H1 | apply IHl; exact H2].
  - apply andb_prop in H as [H Hr]. apply andb_prop in H as [Hk Ho].
    apply N.eqb_eq in Hk. apply Bool.eqb_prop in Ho. subst key2 ok2. f_equal.
    revert r2 Hr. induction IH as [|[u d] l Hx _ IHl]; intros [|[u2 d2] r] Hr; try discriminate; [reflexivity|].
    apply andb_prop in Hr as [H1 H2]. apply andb_prop in H1 as [Hu Hd].
    apply str_eqb_eq in Hu. subst u2. f_equal; [f_equal; apply Hx; exact Hd | apply IHl; exact H2].
Qed.

Lemma doc_sigs_El n i p kids : doc_sigs (El n i p kids) = flat_map doc_sigs kids.
Proof.
  cbn [doc_sigs]. induction kids as [|c r IH]; [reflexivity|]. cbn [flat_map]. rewrite <- IH. reflexivity.
Qed.

Lemma sig_child_in_doc_sigs n i p kids k refs key sv :
  nth_error kids k = Some (Sg refs key sv) -> In (Sg refs key sv) (doc_sigs (El n i p kids)).
Proof.
  rewrite doc_sigs_El. intros H. apply in_flat_map. exists (Sg refs key sv). split.
  - eapply nth_error_In; exact H.
  - cbn. left. reflexivity.
Qed.

(* ------------------------------------------------------------------ *)
(* the enveloping pre-check and the tool, for a root element that       *)
(* carries the looked-for name and ID                                   *)
(* ------------------------------------------------------------------ *)
Lemma registered_root nm v pl kids :
  exists rest, registered nm (El nm (Some v) pl kids) [] = (v, []) :: rest.
Proof.
  cbn [registered]. rewrite N.eqb_refl. cbn [app]. eexists. reflexivity.
Qed.

Lemma all_ids_root n v pl kids :
  exists rest, all_ids (El n (Some v) pl kids) [] = (v, []) :: rest.
Proof. cbn [all_ids app]. eexists. reflexivity. Qed.

Lemma with_id_cons_same v p rest : with_id v ((v, p) :: rest) = (v, p) :: with_id v rest.
Proof. unfold with_id. cbn [filter fst]. rewrite str_eqb_refl. reflexivity. Qed.

Lemma lookup_id_head v p rest : lookup_id v ((v, p) :: rest) = Some p.
Proof. cbn [lookup_id]. rewrite str_eqb_refl. reflexivity. Qed.

(* what the pre-check establishes about the root *)
Lemma precheck_root nm v pl kids :
  precheck (El nm (Some v) pl kids) nm (Some v) = true ->
  v <> [] /\
  exists k u dg key sv,
    first_sig (El nm (Some v) pl kids) = Some [k] /\
    count_sigs kids = 1%nat /\
    nth_error kids k = Some (Sg [(u, dg)] key sv) /\ u = HASH :: v.
Proof.
  intros H. unfold precheck in H.
  destruct v as [|c0 v0] eqn:Ev; [discriminate|]. rewrite <- Ev in *.
  split; [rewrite Ev; discriminate|].
  destruct (all_ids_root nm v pl kids) as [rest Hr]. rewrite Hr in H.
  rewrite with_id_cons_same in H.
  destruct (with_id v rest) eqn:Ew; [|discriminate].
  cbn [subtree_at] in H. rewrite N.eqb_refl in H. cbn [andb] in H.
  destruct (first_sig (El nm (Some v) pl kids)) as [[|k [|k2 p2]]|] eqn:Ef; try discriminate.
  apply andb_prop in H as [Hc Hn].
  apply Nat.eqb_eq in Hc.
  destruct (nth_error kids k) as [[| refs key sv]|] eqn:En; try discriminate.
  destruct refs as [|[u dg] [|r2 rs]]; try discriminate.
  apply str_eqb_eq in Hn.
  exists k, u, dg, key, sv. repeat split; try assumption; reflexivity.
Qed.

Lemma remove_at_child n i pl kids k : remove_at [k] (El n i pl kids) = El n i pl (remove_nth k kids).
Proof. reflexivity. Qed.

(* ... and what a positive tool verdict then means *)
Lemma tool_verify_root dupfail nm v pl kids cert k dg key sv :
  first_sig (El nm (Some v) pl kids) = Some [k] ->
  nth_error kids k = Some (Sg [(HASH :: v, dg)] key sv) ->
  tool_verify dupfail (El nm (Some v) pl kids) nm (Some v) cert = true ->
  sv = true /\ key = cert /\ dg = El nm (Some v) pl (remove_nth k kids).
Proof.
  intros Hf Hn H. unfold tool_verify in H.
  destruct (registered_root nm v pl kids) as [rest Hr]. rewrite Hr in H.
  destruct (dupfail && has_dup ((v, []) :: rest)); [discriminate|].
  rewrite lookup_id_head in H. cbn [subtree_at] in H. rewrite Hf in H.
  cbn [app subtree_at] in H. rewrite Hn in H. cbn [subtree_at] in H.
  apply andb_prop in H as [H Hall]. apply andb_prop in H as [H _]. apply andb_prop in H as [Hsv Hkey].
  apply N.eqb_eq in Hkey.
  cbn [forallb fst snd resolve] in Hall. rewrite N.eqb_refl in Hall. rewrite lookup_id_head in Hall.
  cbn [subtree_at is_prefix List.length skipn] in Hall. rewrite remove_at_child in Hall.
  rewrite andb_true_r in Hall. apply tree_eqb_eq in Hall.
  repeat split; assumption.
Qed.

(* ------------------------------------------------------------------ *)
(* the stages of _parse_request                                         *)
(* ------------------------------------------------------------------ *)
Lemma E_TypeError_neq_IS : str_eqb (E "IncorrectlySigned") (E "TypeError") = false.
Proof. reflexivity. Qed.

(* the signature check of the repaired code (fixd = true): what Ok means *)
Lemma check_sig_fixed_ok pre c d nm ovc :
  check_sig pre true c d nm ovc = Ok tt ->
  exists certs cert,
    request_certs c d = Ok certs /\ In cert certs /\
    tool_verify (c_dupfail c) (d_tree d) nm (node_id_arg (root_id (d_tree d))) cert = true /\
    cert_ok c cert = true /\
    (pre = true -> enveloped_ok (d_tree d) nm (root_id (d_tree d)) = true).
Proof.
  unfold check_sig. destruct (request_certs c d) as [certs|e] eqn:Ec; [|discriminate].
  destruct (pre && negb (enveloped_ok (d_tree d) nm (root_id (d_tree d)))) eqn:Ep; [discriminate|].
  unfold verifying_cert.
  destruct (find (tool_verify (c_dupfail c) (d_tree d) nm (node_id_arg (root_id (d_tree d)))) certs) as [k|] eqn:Ef;
    [|discriminate].
  destruct (cert_ok c k) eqn:Eo; [|discriminate]. intros _.
  apply find_some in Ef as [Hin Hv].
  exists certs, k. repeat split; try assumption.
  intros ->. cbn [andb] in Ep. apply negb_false_iff in Ep. exact Ep.
Qed.

(* candidate certificates come from the issuer's metadata when only_use_keys_in_metadata is on *)
Lemma request_certs_from_metadata c d certs cert :
  request_certs c d = Ok certs -> c_only_md c = true -> In cert certs ->
  c_md_present c = true /\
  exists i e, d_issuer d = Some i /\ find_entity (c_md c) i = Some e /\
    exists r kd, In r e /\ In kd r /\ use_matches SIGNING kd = true /\ In cert (kd_certs kd).
Proof.
  unfold request_certs, candidate_certs. intros H Ho Hin. rewrite Ho in H.
  rewrite andb_false_r in H.
  destruct (c_md_present c) eqn:Emp.
  - destruct (md_certs (c_md c) (d_issuer d) SIGNING) as [l|] eqn:Em.
    + destruct l as [|x l']; [discriminate|]. inversion H; subst certs.
      destruct (md_certs_spec _ _ _ _ Em) as (i & e & Hi & He & Hspec).
      split; [reflexivity|]. exists i, e. repeat split; try assumption.
      apply Hspec. exact Hin.
    + discriminate.
  - discriminate.
Qed.

(* ... and in any case they are the metadata's signing certificates of the issuer or, failing those, the embedded ones *)
Lemma request_certs_cases c d certs :
  request_certs c d = Ok certs ->
  (c_md_present c = true /\ md_certs (c_md c) (d_issuer d) SIGNING = Some certs) \/
  (c_only_md c = false /\ certs = d_embedded d).
Proof.
  unfold request_certs, candidate_certs. intros H.
  destruct (c_md_present c) eqn:Emp.
  - destruct (md_certs (c_md c) (d_issuer d) SIGNING) as [l|] eqn:Em.
    + destruct l as [|x l'].
      * cbn [nilb andb] in H. destruct (c_only_md c) eqn:Eo; cbn [negb] in H; [discriminate|].
        right. split; [reflexivity|]. destruct (d_embedded d); [discriminate|]. inversion H. reflexivity.
      * cbn [nilb andb] in H. left. split; [reflexivity|]. inversion H. reflexivity.
    + cbn [nilb andb] in H. destruct (c_only_md c) eqn:Eo; cbn [negb] in H; [discriminate|].
      right. split; [reflexivity|]. destruct (d_embedded d); [discriminate|]. inversion H. reflexivity.
  - cbn [nilb andb] in H. destruct (c_only_md c) eqn:Eo; cbn [negb] in H; [discriminate|].
    right. split; [reflexivity|]. destruct (d_embedded d); [discriminate|]. inversion H. reflexivity.
Qed.

Lemma csm_ok pre fixd c k must ovc x d :
  correctly_signed_message pre fixd c k must ovc x = Ok d ->
  x = Xml d /\ root_name (d_tree d) = Some (kind_name k) /\
  ((root_signed (d_tree d) = false /\ must = false) \/
   (root_signed (d_tree d) = true /\ check_sig pre fixd c d (kind_name k) ovc = Ok tt)).
Proof.
  unfold correctly_signed_message. destruct x as [|d0]; [discriminate|].
  destruct (root_name (d_tree d0)) as [n|] eqn:En; [|discriminate].
  destruct (N.eqb n (kind_name k)) eqn:Ek; cbn [negb]; [|discriminate].
  apply N.eqb_eq in Ek. subst n.
  destruct (root_signed (d_tree d0)) eqn:Es; cbn [negb].
  - destruct (check_sig pre fixd c d0 (kind_name k) ovc) as [[]|e] eqn:Ec; [|discriminate].
    intros H. inversion H; subst d0. repeat split; try assumption. right. split; assumption.
  - destruct must; [discriminate|]. intros H. inversion H; subst d0.
    repeat split; try assumption. left. split; [assumption|reflexivity].
Qed.

Lemma loads_ok pre fixd c k must ovc x d :
  loads pre fixd c k must ovc x = Ok d ->
  correctly_signed_message pre fixd c k must ovc x = Ok d /\ d_valid d = true.
Proof.
  unfold loads. destruct (correctly_signed_message pre fixd c k must ovc x) as [d0|e].
  - destruct (d_valid d0) eqn:Ev; [|discriminate]. intros H. inversion H; subst d0. split; [reflexivity|assumption].
  - destruct (str_eqb e (E "TypeError")); discriminate.
Qed.

Lemma verify_ok c addrs d d' :
  verify c addrs d = Ok (Some d') ->
  d' = d /\ d_version d = Some V20 /\
  (truthy (d_destination d) = false \/ addrs = [] \/
   exists x, d_destination d = Some x /\ In (Some x) addrs) /\
  exists t, d_issue_instant d = Some t /\
            (c_now c - 86400 - c_slack c <= t /\ t < c_now c + 86400 + c_slack c)%Z.
Proof.
  unfold verify.
  destruct (d_version d) as [v|] eqn:Ev; cbn [negb]; [|discriminate].
  destruct (str_eqb v V20) eqn:E20; cbn [negb]; [|discriminate].
  apply str_eqb_eq in E20. subst v.
  destruct (truthy (d_destination d) && negb (nilb addrs) &&
            negb (match d_destination d with Some x => addr_mem x addrs | None => false end)) eqn:Ed; [discriminate|].
  destruct (d_issue_instant d) as [t|] eqn:Et; [|discriminate].
  destruct (issue_instant_ok c t) eqn:Ei; [|discriminate].
  intros H. inversion H; subst d'. split; [reflexivity|]. split; [reflexivity|]. split.
  - destruct (truthy (d_destination d)) eqn:Etr; [|left; reflexivity]. right.
    destruct addrs as [|a l]; [left; reflexivity|]. right.
    cbn [andb nilb negb] in Ed. apply negb_false_iff in Ed.
    destruct (d_destination d) as [x|]; [|discriminate].
    exists x. split; [reflexivity|].
    unfold addr_mem in Ed. apply existsb_exists in Ed as (a0 & Hin & Ha).
    destruct a0 as [u|]; [|discriminate]. apply str_eqb_eq in Ha. subst u. exact Hin.
  - exists t. split; [reflexivity|]. unfold issue_instant_ok in Ei.
    apply andb_prop in Ei as [H1 H2]. apply Z.leb_le in H1. apply Z.ltb_lt in H2. split; assumption.
Qed.

(* unravel hands the loader the document [d] only when the wire carried exactly [d] under a binding that can carry it *)
Lemma unravel_doc k b w d :
  unravel k b w = Ok (Xml d) ->
  (w = WText (Xml d) /\ b <> BSoap /\ b <> BUnknown) \/
  (w = WSoap (SoapPart d) /\ b = BSoap /\ kind_soap k = true /\ root_name (d_tree d) = Some (kind_name k)).
Proof.
  unfold unravel. destruct b.
  - destruct w as [|x|s]; try discriminate. intros H. inversion H. left. repeat split; discriminate.
  - destruct w as [|x|s]; try discriminate. intros H. inversion H. left. repeat split; discriminate.
  - destruct (kind_soap k) eqn:Eks; cbn [negb]; [|discriminate].
    destruct w as [|x|s]; try discriminate. destruct s as [| | | |d0]; try discriminate.
    destruct (root_name (d_tree d0)) as [n|] eqn:En; [|discriminate].
    destruct (N.eqb n (kind_name k)) eqn:Ek; [|discriminate]. apply N.eqb_eq in Ek. subst n.
    intros H. inversion H; subst d0. right. repeat split; assumption.
  - destruct w as [|x|s]; try discriminate. intros H. inversion H. left. repeat split; discriminate.
  - destruct w as [|x|s]; try discriminate. intros H. inversion H. left. repeat split; discriminate.
  - destruct w as [|x|s]; try discriminate. intros H. inversion H. left. repeat split; discriminate.
  - discriminate.
Qed.

(* the decomposition of a handed-over request *)
Lemma parse_request_ok pre fixd c k b w d :
  parse_request pre fixd c k b w = Ok (Some d) ->
  unravel k b w = Ok (Xml d) /\
  correctly_signed_message pre fixd c k (c_want_signed c || c_only_valid_cert c) (c_only_valid_cert c) (Xml d) = Ok d /\
  d_valid d = true /\
  verify c (receiver_addrs c (kind_service k) b) d = Ok (Some d).
Proof.
  unfold parse_request. destruct (unravel k b w) as [x|e] eqn:Eu; [|discriminate].
  destruct (loads pre fixd c k (c_want_signed c || c_only_valid_cert c) (c_only_valid_cert c) x) as [d0|e] eqn:El;
    [|discriminate].
  intros Hv. destruct (verify_ok _ _ _ _ Hv) as (Hd & _). subst d0.
  apply loads_ok in El as [Hc Hvalid]. destruct (csm_ok _ _ _ _ _ _ _ _ Hc) as (Hx & _). subst x.
  repeat split; assumption.
Qed.

(* ------------------------------------------------------------------ *)
(* C10: handed over only if valid (repaired last step of _check_signature) *)
(* ------------------------------------------------------------------ *)
Lemma truthy_false s : truthy s = false -> s = None \/ s = Some [].
Proof. destruct s as [[|x l]|]; cbn; intros H; try discriminate; [right|left]; reflexivity. Qed.

Theorem handed_over_only_if_valid pre c k b w d :
  parse_request pre true c k b w = Ok (Some d) ->
  carries k b w d /\
  root_name (d_tree d) = Some (kind_name k) /\
  d_valid d = true /\
  d_version d = Some V20 /\
  destination_ok c k b d /\
  (exists t, d_issue_instant d = Some t /\ in_window c t) /\
  (root_signed (d_tree d) = true ->
     exists certs cert,
       request_certs c d = Ok certs /\ In cert certs /\
       tool_verify (c_dupfail c) (d_tree d) (kind_name k) (node_id_arg (root_id (d_tree d))) cert = true /\
       cert_ok c cert = true /\
       (c_only_md c = true -> issuer_signing_cert c d cert)) /\
  (c_want_signed c = true \/ c_only_valid_cert c = true -> root_signed (d_tree d) = true).
Proof.
  intros H. destruct (parse_request_ok _ _ _ _ _ _ _ H) as (Hu & Hc & Hvalid & Hv).
  destruct (csm_ok _ _ _ _ _ _ _ _ Hc) as (_ & Hroot & Hsig).
  destruct (verify_ok _ _ _ _ Hv) as (_ & Hver & Hdest & Htime).
  split.
  { destruct (unravel_doc _ _ _ _ Hu) as [(Hw & Hb1 & Hb2)|(Hw & Hb & Hs & _)]; [left|right]; repeat split; assumption. }
  split; [exact Hroot|]. split; [exact Hvalid|]. split; [exact Hver|]. split.
  { unfold destination_ok. destruct Hdest as [Ht|[Ha|Hx]].
    - destruct (truthy_false _ Ht) as [->| ->]; [left|right; left]; reflexivity.
    - right. right. left. exact Ha.
    - right. right. right. exact Hx. }
  split; [exact Htime|]. split.
  - intros Hs. destruct Hsig as [[Hns _]|[_ Hcs]]; [congruence|].
    destruct (check_sig_fixed_ok _ _ _ _ _ Hcs) as (certs & cert & Hrc & Hin & Htv & Hok & _).
    exists certs, cert. repeat split; try assumption.
    + eapply request_certs_from_metadata; eassumption.
    + eapply request_certs_from_metadata; eassumption.
  - intros Hw. destruct Hsig as [[_ Hm]|[Hs _]]; [|exact Hs].
    destruct Hw as [Hw|Hw]; rewrite Hw in Hm; [cbn in Hm; discriminate|rewrite orb_true_r in Hm; discriminate].
Qed.

(* with the enveloping pre-check (pre = true, or the predicate assumed of the received document):
   the verified signature is the root's own and covers the root element *)
Lemma enveloped_ok_inv t nm i :
  enveloped_ok t nm i = true -> exists v, i = Some v /\ precheck t nm (Some v) = true.
Proof.
  unfold enveloped_ok. intros Hp.
  destruct i as [v|]; [|discriminate]. exists v. split; [reflexivity|exact Hp].
Qed.

Theorem signature_covers_request pre c k b w d :
  parse_request pre true c k b w = Ok (Some d) ->
  root_signed (d_tree d) = true ->
  pre = true \/ enveloped_ok (d_tree d) (kind_name k) (root_id (d_tree d)) = true ->
  exists certs cert,
    request_certs c d = Ok certs /\ In cert certs /\ cert_ok c cert = true /\
    signature_covers_root (d_tree d) cert.
Proof.
  intros H Hs Hpre. destruct (parse_request_ok _ _ _ _ _ _ _ H) as (_ & Hc & _ & _).
  destruct (csm_ok _ _ _ _ _ _ _ _ Hc) as (_ & Hroot & Hsig).
  destruct Hsig as [[Hns _]|[_ Hcs]]; [congruence|].
  destruct (check_sig_fixed_ok _ _ _ _ _ Hcs) as (certs & cert & Hrc & Hin & Htv & Hok & Hp).
  assert (Henv : enveloped_ok (d_tree d) (kind_name k) (root_id (d_tree d)) = true).
  { destruct Hpre as [->|He]; [apply Hp; reflexivity|exact He]. }
  destruct (enveloped_ok_inv _ _ _ Henv) as (v & Hid & Hpc).
  destruct (d_tree d) as [n i pl kids|] eqn:Et; [|discriminate].
  cbn [root_name] in Hroot. inversion Hroot; subst n. cbn [root_id] in Hid, Htv. subst i.
  destruct (precheck_root _ _ _ _ Hpc) as (Hne & k0 & u & dg & key & sv & Hf & Hcnt & Hn & Hu). subst u.
  assert (Harg : node_id_arg (Some v) = Some v) by (destruct v; [congruence|reflexivity]).
  rewrite Harg in Htv.
  destruct (tool_verify_root _ _ _ _ _ _ _ _ _ _ Hf Hn Htv) as (-> & -> & ->).
  exists certs, cert. repeat split; try assumption.
  exists (kind_name k), v, pl, kids, k0. repeat split; assumption.
Qed.

(* any modification of a signed request is refused: if the only intact signatures under the issuer's candidate
   certificates that occur anywhere in the received document are copies of ONE signature — single reference
   "#v", digested content [content] — then what is handed over is [content] plus that signature child *)
Theorem tamper_refused pre c k b w d v content :
  parse_request pre true c k b w = Ok (Some d) ->
  root_signed (d_tree d) = true ->
  pre = true \/ enveloped_ok (d_tree d) (kind_name k) (root_id (d_tree d)) = true ->
  (forall certs refs key, request_certs c d = Ok certs -> In key certs ->
      In (Sg refs key true) (doc_sigs (d_tree d)) -> refs = [(HASH :: v, content)]) ->
  exists n pl kids k0 key,
    d_tree d = El n (Some v) pl kids /\
    nth_error kids k0 = Some (Sg [(HASH :: v, content)] key true) /\
    content = El n (Some v) pl (remove_nth k0 kids).
Proof.
  intros H Hs Hpre Hunf.
  destruct (signature_covers_request _ _ _ _ _ _ H Hs Hpre) as (certs & cert & Hrc & Hin & _ & Hcov).
  destruct Hcov as (n & v' & pl & kids & k0 & Et & _ & Hn & _).
  assert (Hsig : In (Sg [(HASH :: v', El n (Some v') pl (remove_nth k0 kids))] cert true) (doc_sigs (d_tree d))).
  { rewrite Et. eapply sig_child_in_doc_sigs. exact Hn. }
  specialize (Hunf certs _ cert Hrc Hin Hsig). inversion Hunf; subst v' content.
  exists n, pl, kids, k0, cert. repeat split; assumption.
Qed.

(* garbled / truncated encodings: the decoder of the binding fails => an error, nothing is handed over *)
Lemma undecodable_refused pre fixd c k b :
  b <> BUri -> b <> BNone -> exists e, parse_request pre fixd c k b WFail = Err e.
Proof.
  intros H1 H2. unfold parse_request, unravel. destruct b; try congruence; try (eexists; reflexivity).
  destruct (kind_soap k); eexists; reflexivity.
Qed.

Lemma not_xml_refused pre fixd c k b :
  exists e, parse_request pre fixd c k b (WText NotXml) = Err e.
Proof.
  unfold parse_request, unravel. destruct b; try (eexists; reflexivity).
  destruct (kind_soap k); eexists; reflexivity.
Qed.

(* an unexpected root element is never handed over *)
Lemma wrong_root_refused pre fixd c k b w d :
  parse_request pre fixd c k b w = Ok (Some d) -> root_name (d_tree d) = Some (kind_name k).
Proof.
  intros H. destruct (parse_request_ok _ _ _ _ _ _ _ H) as (_ & Hc & _).
  destruct (csm_ok _ _ _ _ _ _ _ _ Hc) as (_ & Hroot & _). exact Hroot.
Qed.

(* ------------------------------------------------------------------ *)
(* the F16 repair changes nothing unless only_valid_cert is on          *)
(* ------------------------------------------------------------------ *)
Lemma check_sig_fix_agrees pre c d nm :
  check_sig pre false c d nm false = check_sig pre true c d nm false.
Proof.
  unfold check_sig. destruct (request_certs c d) as [certs|e]; [|reflexivity].
  destruct (pre && negb (enveloped_ok (d_tree d) nm (root_id (d_tree d)))); [reflexivity|].
  destruct (verifying_cert c (d_tree d) nm (root_id (d_tree d)) certs) as [k|]; reflexivity.
Qed.

Lemma parse_request_fix_agrees pre c k b w :
  c_only_valid_cert c = false ->
  parse_request pre false c k b w = parse_request pre true c k b w.
Proof.
  intros Ho. unfold parse_request, loads, correctly_signed_message. rewrite Ho.
  destruct (unravel k b w) as [x|e]; [|reflexivity].
  destruct x as [|d]; [reflexivity|].
  destruct (root_name (d_tree d)) as [n|]; [|reflexivity].
  destruct (negb (N.eqb n (kind_name k))); [reflexivity|].
  destruct (negb (root_signed (d_tree d))); [reflexivity|].
  rewrite check_sig_fix_agrees. reflexivity.
Qed.

(* ------------------------------------------------------------------ *)
(* witnesses                                                            *)
(* ------------------------------------------------------------------ *)
Definition w_sp : str := s2l "https://sp.example.org/sp".
Definition w_sso : str := s2l "https://idp.example.org/sso/post".
Definition w_cfg (want ovc : bool) : rcfg :=
  Build_rcfg CIdp
    [(CIdp, [(s2l "single_sign_on_service",
              [EP w_sso (s2l "urn:oasis:names:tc:SAML:2.0:bindings:HTTP-POST");
               EP (s2l "https://idp.example.org/sso/redirect") (s2l "urn:oasis:names:tc:SAML:2.0:bindings:HTTP-Redirect")])])]
    want ovc 60%Z 1790000000%Z true
    [(w_sp, [[{| kd_use := Some SIGNING; kd_certs := [3; 5] |}]])] true None true.
Definition w_id : str := s2l "rq-1".
Definition w_content : tree := El 1 (Some w_id) 2 [El 9 None 1 []].
Definition w_sig : tree := Sg [(HASH :: w_id, w_content)] 5 true.
(* the genuine signed AuthnRequest, the same with an edited attribute (payload 2 -> 3), the genuine one signed by a
   key the metadata does not hold, and a forged request (other ID and content) carrying the signature and, inside
   Extensions, the genuine content *)
Definition w_genuine : tree := El 1 (Some w_id) 2 [El 9 None 1 []; w_sig].
Definition w_tampered : tree := El 1 (Some w_id) 3 [El 9 None 1 []; w_sig].
Definition w_wrapped : tree := El 1 (Some (s2l "rq-evil")) 15 [El 9 None 1 []; w_sig; El 16 None 7 [w_content]].
Definition w_unsigned : tree := w_content.
Definition w_doc (t : tree) (dest : option str) (dt : Z) : reqdoc :=
  Build_reqdoc t (Some V20) dest (Some (1790000000 + dt)%Z) true (Some w_sp) [5] [].
Definition w_run (pre fixd want ovc : bool) (d : reqdoc) : result (option reqdoc) :=
  parse_request pre fixd (w_cfg want ovc) KAuthn BPost (WText (Xml d)).

(* F16: before the repair, with only_valid_cert on, a request whose signature verifies under none of the
   candidate certificates is handed over; the repaired step refuses it *)
Lemma before_fix_witness :
  let d := w_doc w_tampered (Some w_sso) 0 in
  c_only_valid_cert (w_cfg false true) = true /\
  w_run false false false true d = Ok (Some d) /\
  root_signed (d_tree d) = true /\
  request_certs (w_cfg false true) d = Ok [3; 5] /\
  forallb (fun cert => negb (tool_verify true (d_tree d) (kind_name KAuthn) (node_id_arg (root_id (d_tree d))) cert)) [3; 5] = true /\
  w_run false true false true d = Err (E "IncorrectlySigned") /\
  w_run true true false true d = Err (E "IncorrectlySigned").
Proof. vm_compute. repeat split; reflexivity. Qed.

(* wrapping: without the enveloping pre-check a forged request is handed over on the strength of the signature
   of the genuine content parked inside it; no signature child of the root covers the root *)
Lemma wrapped_not_covered : forall cert, ~ signature_covers_root w_wrapped cert.
Proof.
  intros cert (n & v & pl & kids & k & Et & _ & Hn & _).
  unfold w_wrapped in Et. inversion Et; subst n v pl kids. clear Et.
  destruct k as [|[|[|k]]]; [vm_compute in Hn; discriminate Hn ..|].
  cbn in Hn. destruct k; discriminate Hn.
Qed.

Lemma wrapping_witness :
  let d := w_doc w_wrapped (Some w_sso) 0 in
  w_run false true true false d = Ok (Some d) /\
  root_signed (d_tree d) = true /\
  enveloped_ok (d_tree d) (kind_name KAuthn) (root_id (d_tree d)) = false /\
  w_run true true true false d = Err (E "IncorrectlySigned").
Proof. vm_compute. repeat split; reflexivity. Qed.

(* non-vacuity: the genuine request is handed over in every code state, its signature covers it; edits, a stale
   instant, a foreign destination, a missing signature when one is wanted are refused *)
Lemma genuine_covered : signature_covers_root w_genuine 5.
Proof.
  exists 1, w_id, 2, [El 9 None 1 []; w_sig], 1%nat. repeat split; try reflexivity. discriminate.
Qed.

Lemma witness_runs :
  let g := w_doc w_genuine (Some w_sso) 0 in
  (forall pre fixd want ovc, w_run pre fixd want ovc g = Ok (Some g)) /\
  enveloped_ok w_genuine (kind_name KAuthn) (root_id w_genuine) = true /\
  w_run true true true false (w_doc w_tampered (Some w_sso) 0) = Err (E "IncorrectlySigned") /\
  w_run true true false false (w_doc w_genuine (Some (s2l "https://idp.example.org/sso/redirect")) 0) = Err (E "OtherError") /\
  w_run true true false false (w_doc w_genuine (Some (s2l "https://idp.example.org/sso/post/")) 0) = Err (E "OtherError") /\
  w_run true true false false (w_doc w_genuine None 0) = Ok (Some (w_doc w_genuine None 0)) /\
  w_run true true false false (w_doc w_genuine (Some w_sso) 86460) = Ok None /\
  w_run true true false false (w_doc w_genuine (Some w_sso) 86459) = Ok (Some (w_doc w_genuine (Some w_sso) 86459)) /\
  w_run true true false false (w_doc w_genuine (Some w_sso) (-86461)) = Ok None /\
  w_run true true false false (w_doc w_unsigned (Some w_sso) 0) = Ok (Some (w_doc w_unsigned (Some w_sso) 0)) /\
  w_run true true true false (w_doc w_unsigned (Some w_sso) 0) = Err (E "IncorrectlySigned") /\
  w_run true true false true (w_doc w_unsigned (Some w_sso) 0) = Err (E "IncorrectlySigned") /\
  parse_request true true (w_cfg false false) KLogout BPost (WText (Xml g)) = Err (E "TypeError").
Proof.
  split; [intros [] [] [] []; vm_compute; reflexivity|].
  vm_compute. repeat split; reflexivity.
Qed.

(* ------------------------------------------------------------------ *)
(* the want_* options of the entity's own section (proposed_fix/C10-2)  *)
(* ------------------------------------------------------------------ *)
Lemma own_options_honoured pre etype eps secs slack now mdp md only vc dup k b w d :
  parse_request pre true (mk_cfg true etype eps secs slack now mdp md only vc dup) k b w = Ok (Some d) ->
  fst (lookup_opts etype secs) = true \/ snd (lookup_opts etype secs) = true ->
  root_signed (d_tree d) = true.
Proof.
  intros H Hw.
  destruct (handed_over_only_if_valid _ _ _ _ _ _ H) as (_ & _ & _ & _ & _ & _ & _ & Hwant).
  apply Hwant. unfold mk_cfg, read_options. cbn [c_want_signed c_only_valid_cert]. exact Hw.
Qed.

(* an attribute authority of its own whose aa section wants signed requests, and an unsigned AttributeQuery *)
Definition w_aa_secs : opt_sections := [(CAa, (true, false))].
Definition w_aa_cfg (own : bool) : rcfg :=
  mk_cfg own CAa [(CAa, [(s2l "attribute_service", [EP (s2l "https://idp.example.org/aa/soap") (s2l "urn:oasis:names:tc:SAML:2.0:bindings:SOAP")])])]
         w_aa_secs 0%Z 1790000000%Z true [(w_sp, [[{| kd_use := Some SIGNING; kd_certs := [5] |}]])] true None true.
Definition w_query : reqdoc :=
  Build_reqdoc (El 3 (Some w_id) 4 [El 9 None 1 []; El 11 None 5 []]) (Some V20) None (Some 1790000000%Z) true (Some w_sp) [] [].

Lemma options_witness :
  fst (lookup_opts CAa w_aa_secs) = true /\
  parse_request false true (w_aa_cfg false) KAttrQ BSoap (WSoap (SoapPart w_query)) = Ok (Some w_query) /\
  root_signed (d_tree w_query) = false /\
  parse_request false true (w_aa_cfg true) KAttrQ BSoap (WSoap (SoapPart w_query)) = Err (E "IncorrectlySigned").
Proof. vm_compute. repeat split; reflexivity. Qed.

(* ------------------------------------------------------------------ *)
(* kind-specific optional content: no step reads it, for any kind       *)
(* ------------------------------------------------------------------ *)
Lemma unravel_set_opts o k b w :
  unravel k b (wire_set_opts o w) =
  match unravel k b w with Ok x => Ok (xml_set_opts o x) | Err e => Err e end.
Proof.
  unfold unravel. destruct w as [|x|[| | | |d]]; destruct b; cbn [wire_set_opts]; try reflexivity;
    try (destruct (kind_soap k); reflexivity).
  destruct (kind_soap k); cbn [negb]; [|reflexivity].
  cbn [set_opts d_tree].
  destruct (root_name (d_tree d)) as [n|]; [|reflexivity].
  destruct (N.eqb n (kind_name k)); reflexivity.
Qed.

Lemma check_sig_set_opts pre fixd c d nm ovc o :
  check_sig pre fixd c (set_opts o d) nm ovc = check_sig pre fixd c d nm ovc.
Proof. reflexivity. Qed.

Lemma loads_set_opts pre fixd c k must ovc x o :
  loads pre fixd c k must ovc (xml_set_opts o x) =
  match loads pre fixd c k must ovc x with Ok d => Ok (set_opts o d) | Err e => Err e end.
Proof.
  unfold loads, correctly_signed_message. destruct x as [|d]; [reflexivity|].
  cbn [xml_set_opts]. change (d_tree (set_opts o d)) with (d_tree d).
  destruct (root_name (d_tree d)) as [n|]; [|reflexivity].
  destruct (negb (N.eqb n (kind_name k))); [reflexivity|].
  destruct (negb (root_signed (d_tree d))).
  - destruct must; [reflexivity|]. change (d_valid (set_opts o d)) with (d_valid d). destruct (d_valid d); reflexivity.
  - rewrite check_sig_set_opts. destruct (check_sig pre fixd c d n ovc) as [u|e].
    + change (d_valid (set_opts o d)) with (d_valid d). destruct (d_valid d); reflexivity.
    + destruct (str_eqb e (E "TypeError")); reflexivity.
Qed.

Lemma verify_set_opts c addrs d o :
  verify c addrs (set_opts o d) = res_set_opts o (verify c addrs d).
Proof.
  unfold verify. cbn [set_opts d_version d_destination d_issue_instant].
  destruct (negb (match d_version d with Some v => str_eqb v V20 | None => false end)); [reflexivity|].
  destruct (truthy (d_destination d) && negb (nilb addrs) &&
            negb (match d_destination d with Some x => addr_mem x addrs | None => false end)); [reflexivity|].
  destruct (d_issue_instant d) as [t|]; [|reflexivity].
  destruct (issue_instant_ok c t); reflexivity.
Qed.

Theorem blind_to_optional_content pre fixd c k b w o :
  parse_request pre fixd c k b (wire_set_opts o w) = res_set_opts o (parse_request pre fixd c k b w).
Proof.
  unfold parse_request. rewrite unravel_set_opts.
  destruct (unravel k b w) as [x|e]; [|reflexivity].
  rewrite loads_set_opts.
  destruct (loads pre fixd c k (c_want_signed c || c_only_valid_cert c) (c_only_valid_cert c) x) as [d|e]; [|reflexivity].
  apply verify_set_opts.
Qed.

(* refusal form of handed_over_only_if_valid, over the kind parameter: none of the reasons to refuse is
   lifted for some kind or by some optional content *)
Theorem no_kind_specific_exception pre c k b w d :
  must_be_refused c k b d -> parse_request pre true c k b w <> Ok (Some d).
Proof.
  intros Hr H.
  destruct (handed_over_only_if_valid _ _ _ _ _ _ H) as (_ & Hroot & Hvalid & Hver & Hdest & (t & Ht & Hw) & _ & Hwant).
  destruct Hr as [Hi|[(x & Hx & Hne & Ha & Hnin)|[(Hwt & Hs)|[Hv|[Hv|Hn]]]]].
  - exact (Hi t Ht Hw).
  - destruct Hdest as [Hd|[Hd|[Hd|(y & Hy & Hin)]]].
    + congruence.
    + rewrite Hx in Hd. inversion Hd. congruence.
    + congruence.
    + rewrite Hx in Hy. inversion Hy; subst y. exact (Hnin Hin).
  - rewrite (Hwant Hwt) in Hs. discriminate.
  - exact (Hv Hver).
  - congruence.
  - exact (Hn Hroot).
Qed.

(* ------------------------------------------------------------------ *)
(* one long-lived receiver, a sequence of messages                      *)
(* ------------------------------------------------------------------ *)
Definition handed_by (pre fixd : bool) (c : rcfg) (e : op * reqdoc) : Prop :=
  match e with ((k, b, w), d) => parse_request pre fixd c k b w = Ok (Some d) end.

Theorem history_invariant pre fixd c ops :
  forall handed, Forall (handed_by pre fixd c) handed -> Forall (handed_by pre fixd c) (run_history pre fixd c ops handed).
Proof.
  induction ops as [|[[k b] w] r IH]; intros handed Hh; [exact Hh|].
  cbn [run_history]. apply IH.
  destruct (parse_request pre fixd c k b w) as [[d|]|e] eqn:Ep; try exact Hh.
  apply Forall_app. split; [exact Hh|]. constructor; [exact Ep|constructor].
Qed.

(* what came before changes nothing: the messages handed over out of [ops1 ++ ops2] are those of [ops1] followed by
   those of [ops2] taken in on their own *)
Theorem history_split pre fixd c ops1 ops2 :
  forall handed, run_history pre fixd c (ops1 ++ ops2) handed =
                 run_history pre fixd c ops2 (run_history pre fixd c ops1 handed).
Proof.
  induction ops1 as [|[[k b] w] r IH]; intros handed; [reflexivity|].
  cbn [app run_history]. apply IH.
Qed.

Lemma run_history_app pre fixd c ops :
  forall handed, run_history pre fixd c ops handed = handed ++ run_history pre fixd c ops [].
Proof.
  induction ops as [|[[k b] w] r IH]; intros handed; [cbn; rewrite app_nil_r; reflexivity|].
  cbn [run_history].
  destruct (parse_request pre fixd c k b w) as [[d|]|e]; try apply IH.
  cbn [app]. rewrite (IH (handed ++ [((k, b, w), d)])). rewrite (IH [((k, b, w), d)]). rewrite <- app_assoc. reflexivity.
Qed.

(* nothing is handed over that was not received *)
Lemma history_ops_only pre fixd c ops k b w d :
  In ((k, b, w), d) (run_history pre fixd c ops []) -> In (k, b, w) ops.
Proof.
  induction ops as [|[[k0 b0] w0] r IH]; [intros []|].
  cbn [run_history]. rewrite run_history_app. intros Hin. apply in_app_or in Hin as [Hin|Hin].
  - destruct (parse_request pre fixd c k0 b0 w0) as [[d0|]|e]; try contradiction.
    cbn in Hin. destruct Hin as [Hin|[]]. inversion Hin. left. reflexivity.
  - right. exact (IH Hin).
Qed.

(* witnesses: a LogoutRequest with NotOnOrAfter an hour ahead *)
Definition w_slo : str := s2l "https://idp.example.org/slo/post".
Definition w_lcfg (want : bool) : rcfg :=
  Build_rcfg CIdp
    [(CIdp, [(s2l "single_logout_service", [EP w_slo (s2l "urn:oasis:names:tc:SAML:2.0:bindings:HTTP-POST")])])]
    want false 60%Z 1790000000%Z true
    [(w_sp, [[{| kd_use := Some SIGNING; kd_certs := [5] |}]])] true None true.
Definition w_logout (dest : option str) (dt : Z) (o : list optattr) : reqdoc :=
  Build_reqdoc (El 2 (Some w_id) 6 [El 9 None 1 []; El 12 None 3 []]) (Some V20) dest (Some (1790000000 + dt)%Z) true (Some w_sp) [] o.
Definition w_noa_future : list optattr := [(s2l "NotOnOrAfter", Some (1790000000 + 3600)%Z); (s2l "Reason", None)].

Lemma logout_witness :
  let run want d := parse_request true true (w_lcfg want) KLogout BPost (WText (Xml d)) in
  run false (w_logout (Some w_slo) 0 w_noa_future) = Ok (Some (w_logout (Some w_slo) 0 w_noa_future)) /\
  run false (w_logout (Some w_slo) (-86461) w_noa_future) = Ok None /\
  run false (w_logout (Some w_slo) 86460 w_noa_future) = Ok None /\
  run false (w_logout (Some (s2l "https://idp.example.org/slo/soap")) 0 w_noa_future) = Err (E "OtherError") /\
  run true (w_logout (Some w_slo) 0 w_noa_future) = Err (E "IncorrectlySigned") /\
  run_history true true (w_lcfg false)
    [(KLogout, BPost, WText (Xml (w_logout (Some w_slo) 0 w_noa_future)));
     (KLogout, BPost, WText (Xml (w_logout (Some w_slo) (-86461) w_noa_future)));
     (KLogout, BPost, WText (Xml (w_logout (Some w_slo) 0 [])))] [] =
    [((KLogout, BPost, WText (Xml (w_logout (Some w_slo) 0 w_noa_future))), w_logout (Some w_slo) 0 w_noa_future);
     ((KLogout, BPost, WText (Xml (w_logout (Some w_slo) 0 []))), w_logout (Some w_slo) 0 [])].
Proof. vm_compute. repeat split; reflexivity. Qed.
