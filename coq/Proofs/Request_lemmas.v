(* Proofs/Request_lemmas.v — lemmas about Model/Request.v (C10). *)
From PV Require Import Lib.Base Model.Sigver Model.CertSelect Model.Xmlsec Model.Request Gen.RequestTable
  Proofs.CertSelect_lemmas.
Open Scope N_scope.

(* the table recorded from the code is the documented one the model is written against *)
Lemma table_is_documented : rows_eqb request_table documented_table = true.
Proof. vm_compute. reflexivity. Qed.
