From PV Require Import Lib.Base Model.Status Model.Response Proofs.Response_lemmas.
Open Scope Z_scope.

Lemma loads_solicited c req r s :
  loads c req r = Ok s -> asynch c = true -> allow_unsolicited c = false -> r_valid_instance r = true ->
  exists i cf, r_irt r = Some i /\ lookup_str i (outstanding c) = Some cf /\ came_from s = Some cf.
Proof.
  unfold loads. destruct (response_sig_stage req r); [|discriminate]. unfold loads_rest.
  intros H Ha Hu Hv. rewrite Ha, Hv, Hu in H.
  destruct (r_irt r) as [i|]; [|discriminate].
  destruct (lookup_str i (outstanding c)) as [cf|] eqn:El; [|discriminate].
  match type of H with (match ?x with _ => _ end) = _ => destruct x as [[|]|] end; try discriminate;
    injection H as <-; exists i, cf; repeat split; auto.
Qed.

Lemma verify_core_dest c r :
  verify_core (verify_in_of c r) = Ok (Some tt) -> asynch c = true ->
  forall d, r_destination r = Some d ->
    (dest_regex_set c = true -> dest_regex_match c = true) /\
    (dest_regex_set c = false -> forall addrs, return_addrs c = Some addrs -> mem_str d addrs = true).
Proof.
  unfold verify_core. cbn [verify_in_of id_mismatch version ver_lt2 asynchop dest_ok issue_ok status].
  intros H Ha d Hd. rewrite Ha, Hd in H.
  destruct (negb (version_is_20 (r_version r))).
  { destruct (r_version r); [destruct (r_ver_lt2 r) as [[|]|]|]; discriminate. }
  cbn [andb] in H.
  destruct (dest_regex_set c) eqn:Er.
  - destruct (dest_regex_match c); [|discriminate]. split; [reflexivity|discriminate].
  - split; [discriminate|]. intros _ addrs Hr. rewrite Hr in H. destruct (mem_str d addrs); [reflexivity|discriminate].
Qed.

(* everything the application may read was checked *)
Lemma accepted_processed c r o :
  parse_response c r = Ok o ->
  Forall (assertion_facts c (r_irt r)) (processed r) /\
  (asynch c = true -> forall d, r_destination r = Some d ->
     (dest_regex_set c = true -> dest_regex_match c = true) /\
     (dest_regex_set c = false -> exists addrs, return_addrs c = Some addrs /\ mem_str d addrs = true)) /\
  (asynch c = true -> allow_unsolicited c = false ->
     exists i cf, r_irt r = Some i /\ lookup_str i (outstanding c) = Some cf).
Proof.
  intros H. destruct (parse_response_accepted c r o H) as [Hv (req0 & s0 & Hl & _) (req & s & s' & Hver & _) _].
  destruct (verify_some _ _ _ _ _ Hver) as (Hcore & Hpa & Hnone).
  destruct (parse_assertion_ok _ _ _ _ _ Hpa) as (Hall & _).
  split; [exact Hall|]. split.
  - intros Ha d Hd. destruct (verify_core_dest c r Hcore Ha d Hd) as [A B]. split; [exact A|].
    intros Hr. specialize (Hnone Ha d Hd Hr). destruct (return_addrs c) as [addrs|] eqn:Era; [|congruence].
    exists addrs. split; [reflexivity|]. now apply B.
  - intros Ha Hu. destruct (loads_solicited _ _ _ _ Hl Ha Hu Hv) as (i & cf & H1 & H2 & _). now exists i, cf.
Qed.
