(* Proofs/EncryptLoop_lemmas.v — C17: the decrypt loops of the code WITHOUT proposed_fix/C17-2, for a tool that
   fails on an EncryptedData it cannot open (xmlsec1) and never fails otherwise (no fault): thanks to the order in
   which str(self.response) writes the children of <Response> (assertions, encrypted assertions, extension
   elements last) neither loop ever opens an EncryptedData that is a direct child of <Response>, and the second
   loop never opens one that is a direct child of a response-level EncryptedAssertion; so the assertions used
   after the second loop are the ones the verifying call saw. *)
From PV Require Import Lib.Base Model.Status Model.Response Model.Encrypt Proofs.Response_lemmas Proofs.EncryptSP_lemmas
  Proofs.EncryptTree_lemmas.
Open Scope Z_scope.

Section dtree_induction.
  Variable P : dtree -> Prop.
  Hypothesis HA : forall a d adv ext, Forall P adv -> Forall P ext -> P (DAsrt a d adv ext).
  Hypothesis HE : forall k, Forall P k -> P (DEA k).
  Hypothesis HO : forall k, Forall P k -> P (DOther k).
  Hypothesis HN : forall key p, P p -> P (DEnc key p).
  Fixpoint dtree_ind2 (t : dtree) : P t :=
    let go := fix go (l : list dtree) : Forall P l :=
      match l with [] => Forall_nil P | x :: r => Forall_cons x (dtree_ind2 x) (go r) end in
    match t with
    | DAsrt a d adv ext => HA a d adv ext (go adv) (go ext)
    | DEA k => HE k (go k)
    | DOther k => HO k (go k)
    | DEnc key p => HN key p (dtree_ind2 p)
    end.
End dtree_induction.

(* an EncryptedData node somewhere in the (not yet decrypted) tree *)
Fixpoint has_enc (t : dtree) : bool :=
  match t with
  | DEnc _ _ => true
  | DAsrt _ _ adv ext => existsb has_enc adv || existsb has_enc ext
  | DEA k => existsb has_enc k
  | DOther k => existsb has_enc k
  end.

Lemma open_list_noenc keys pol l : Forall (fun t => has_enc t = false -> open_first keys pol t = NoEnc) l ->
  existsb has_enc l = false -> open_list keys pol l = NoEnc.
Proof.
  induction l as [|x r IH]; intros F H; [reflexivity|]. inversion F as [|y z Fx Fr]; subst.
  cbn [existsb] in H. apply orb_false_iff in H as [Hx Hr]. rewrite open_list_cons, (Fx Hx), (IH Fr Hr). reflexivity.
Qed.

Lemma open_first_noenc keys pol : forall t, has_enc t = false -> open_first keys pol t = NoEnc.
Proof.
  induction t as [a d adv ext IHa IHe|k IH|k IH|key p IH] using dtree_ind2; cbn [has_enc]; intros H.
  - apply orb_false_iff in H as [H1 H2]. rewrite open_first_asrt, (open_list_noenc _ _ _ IHa H1), (open_list_noenc _ _ _ IHe H2). reflexivity.
  - rewrite open_first_ea, (open_list_noenc _ _ _ IH H). reflexivity.
  - rewrite open_first_other, (open_list_noenc _ _ _ IH H). reflexivity.
  - discriminate.
Qed.

Lemma open_list_noenc' keys pol l : existsb has_enc l = false -> open_list keys pol l = NoEnc.
Proof.
  intros H. apply open_list_noenc; [|exact H]. apply Forall_forall. intros t _. apply open_first_noenc.
Qed.

(* with the failing tool a tree that has an EncryptedData never answers "nothing to do" *)
Lemma open_list_pfail keys l : Forall (fun t => has_enc t = true -> open_first keys PFail t <> NoEnc) l ->
  existsb has_enc l = true -> open_list keys PFail l <> NoEnc.
Proof.
  induction l as [|x r IH]; intros F H; [discriminate|]. inversion F as [|y z Fx Fr]; subst.
  rewrite open_list_cons. destruct (has_enc x) eqn:Hx.
  - specialize (Fx eq_refl). destruct (open_first keys PFail x); [discriminate|discriminate|congruence].
  - cbn [existsb] in H. rewrite Hx in H. cbn in H. rewrite (open_first_noenc _ _ _ Hx).
    specialize (IH Fr H). destruct (open_list keys PFail r); [discriminate|discriminate|congruence].
Qed.

Lemma open_first_pfail keys : forall t, has_enc t = true -> open_first keys PFail t <> NoEnc.
Proof.
  induction t as [a d adv ext IHa IHe|k IH|k IH|key p IH] using dtree_ind2; cbn [has_enc]; intros H.
  - rewrite open_first_asrt. destruct (existsb has_enc adv) eqn:Ha.
    + pose proof (open_list_pfail _ _ IHa Ha) as N. destruct (open_list keys PFail adv); [discriminate|discriminate|congruence].
    + cbn in H. rewrite (open_list_noenc' _ _ _ Ha).
      pose proof (open_list_pfail _ _ IHe H) as N. destruct (open_list keys PFail ext); [discriminate|discriminate|congruence].
  - rewrite open_first_ea. pose proof (open_list_pfail _ _ IH H) as N. destruct (open_list keys PFail k); [discriminate|discriminate|congruence].
  - rewrite open_first_other. pose proof (open_list_pfail _ _ IH H) as N. destruct (open_list keys PFail k); [discriminate|discriminate|congruence].
  - rewrite open_first_enc. destruct (mem_N key keys); discriminate.
Qed.

(* ---------- the order of str(self.response) ---------- *)
Definition is_part (t : dtree) : bool := is_asrt t || is_ea t.      (* an Assertion or EncryptedAssertion child *)
(* after the first EncryptedData child no Assertion / EncryptedAssertion child follows *)
Fixpoint ordered (l : list dtree) : bool :=
  match l with
  | [] => true
  | x :: r => if is_enc x then forallb (fun y => negb (is_part y)) r else ordered r
  end.

Lemma ordered_no_parts l : forallb (fun y => negb (is_part y)) l = true -> ordered l = true.
Proof.
  induction l as [|x r IH]; [reflexivity|]. cbn [forallb ordered]. intros H. apply andb_true_iff in H as [_ Hr].
  destruct (is_enc x); [exact Hr|now apply IH].
Qed.

Lemma ordered_app_parts l1 l2 : forallb (fun y => negb (is_enc y)) l1 = true -> ordered l2 = true -> ordered (l1 ++ l2) = true.
Proof.
  induction l1 as [|x r IH]; [intros _ H; exact H|]. cbn [forallb app ordered]. intros H H2. apply andb_true_iff in H as [Hx Hr].
  apply negb_true_iff in Hx. rewrite Hx. now apply IH.
Qed.

Lemma filter_forallb {A} (f g : A -> bool) l : (forall x, f x = true -> g x = true) -> forallb g (filter f l) = true.
Proof.
  intros H. induction l as [|x r IH]; [reflexivity|]. cbn [filter]. destruct (f x) eqn:E; [|exact IH]. cbn. now rewrite (H x E), IH.
Qed.

Lemma ordered_reserialize root : ordered (reserialize root) = true.
Proof.
  unfold reserialize. apply ordered_app_parts; [apply filter_forallb; intros x Hx; destruct x; try discriminate; reflexivity|].
  apply ordered_app_parts; [apply filter_forallb; intros x Hx; destruct x; try discriminate; reflexivity|].
  apply ordered_no_parts. apply filter_forallb. intros x Hx. unfold is_part. now rewrite Hx.
Qed.

(* a root child with a live EncryptedData the parser can see through *)
Definition live (t : dtree) : bool := is_part t && has_enc t.

Lemma is_enc_has_enc t : is_enc t = true -> has_enc t = true.
Proof. destruct t; try discriminate. reflexivity. Qed.

Lemma existsb_impl {A} (f g : A -> bool) l : (forall x, f x = true -> g x = true) -> existsb f l = true -> existsb g l = true.
Proof. intros H E. apply existsb_exists in E as (x & Hx & Hf). apply existsb_exists. exists x. split; [exact Hx|now apply H]. Qed.

Lemma In_eas k l : In k (eas l) -> In (DEA k) l.
Proof.
  unfold eas. intros H. apply in_flat_map in H as (t & Ht & Hk). destruct t; cbn in Hk; try contradiction.
  destruct Hk as [<-|[]]. exact Ht.
Qed.

Lemma In_asrts v l : In v (asrts l) -> In (DAsrt (v_a v) (v_dirty v) (v_advice v) (v_ext v)) l.
Proof.
  unfold asrts. intros H. apply in_flat_map in H as (t & Ht & Hv). destruct t; cbn in Hv; try contradiction.
  destruct Hv as [<-|[]]. exact Ht.
Qed.

Lemma some_ea_has_enc_deep l : some_ea_has_enc l = true -> existsb has_enc l = true.
Proof.
  unfold some_ea_has_enc. intros H. apply existsb_exists in H as (k & Hk & He). apply In_eas in Hk.
  apply existsb_exists. exists (DEA k). split; [exact Hk|]. cbn [has_enc]. eapply existsb_impl; [|exact He]. exact is_enc_has_enc.
Qed.

Lemma cond2_live root : cond2 root = true -> existsb live root = true.
Proof.
  unfold cond2, find_encrypt_data. intros H. apply orb_true_iff in H as [H|H]; [apply orb_true_iff in H as [H|H]|].
  - unfold some_ea_has_enc in H. apply existsb_exists in H as (k & Hk & He). apply In_eas in Hk.
    apply existsb_exists. exists (DEA k). split; [exact Hk|]. unfold live. cbn [is_part is_asrt is_ea has_enc orb andb].
    eapply existsb_impl; [|exact He]. exact is_enc_has_enc.
  - unfold advice_has_enc in H. apply existsb_exists in H as (v & Hv & He). apply In_asrts in Hv.
    apply existsb_exists. eexists. split; [exact Hv|]. unfold live. cbn [is_part is_asrt is_ea has_enc orb andb].
    now rewrite (some_ea_has_enc_deep _ He).
  - unfold advice_has_enc, ea_asrts in H. apply existsb_exists in H as (v & Hv & He). apply in_flat_map in Hv as (k & Hk & Hv).
    apply In_eas in Hk. apply In_asrts in Hv. apply existsb_exists. exists (DEA k). split; [exact Hk|].
    unfold live. cbn [is_part is_asrt is_ea has_enc orb andb]. apply existsb_exists. eexists. split; [exact Hv|].
    cbn [has_enc]. now rewrite (some_ea_has_enc_deep _ He).
Qed.

Lemma cond1_cond2 root : find_encrypt_data root = true -> cond2 root = true.
Proof. unfold cond2. intros ->. reflexivity. Qed.

(* ---------- one step: the opened node lies inside an Assertion / EncryptedAssertion / other child ---------- *)
(* [inner_step root root']: root' is root with ONE child x (not itself an EncryptedData) replaced by what
   open_first makes of it *)
Definition inner_step keys (root root' : list dtree) : Prop :=
  exists pre x x' post, root = pre ++ x :: post /\ root' = pre ++ x' :: post /\ is_enc x = false /\ open_first keys PFail x = Opened x'.

Lemma step_inner keys : forall root root', ordered root = true -> existsb live root = true ->
  open_list keys PFail root = Opened root' -> inner_step keys root root'.
Proof.
  induction root as [|x r IH]; intros root' Ho Hl H; [discriminate|]. rewrite open_list_cons in H.
  destruct (has_enc x) eqn:Hx.
  - destruct (is_enc x) eqn:Ex.
    + (* an EncryptedData child first: nothing live may follow, and it is not live itself *)
      exfalso. cbn [ordered] in Ho. rewrite Ex in Ho. cbn [existsb] in Hl. apply orb_true_iff in Hl as [Hl|Hl].
      * unfold live, is_part in Hl. destruct x; discriminate.
      * apply existsb_exists in Hl as (y & Hy & Hly). rewrite forallb_forall in Ho. specialize (Ho y Hy).
        unfold live in Hly. apply andb_true_iff in Hly as [Hp _]. rewrite Hp in Ho. discriminate.
    + pose proof (open_first_pfail keys x Hx) as N. destruct (open_first keys PFail x) as [x'| |] eqn:Eo; [|discriminate|congruence].
      injection H as <-. exists [], x, x', r. repeat split; auto.
  - rewrite (open_first_noenc _ _ _ Hx) in H. destruct (open_list keys PFail r) as [r'| |] eqn:Er; try discriminate. injection H as <-.
    assert (is_enc x = false) as Ex by (destruct x; try reflexivity; discriminate).
    cbn [ordered] in Ho. rewrite Ex in Ho. cbn [existsb] in Hl. unfold live at 1 in Hl. rewrite Hx, andb_false_r in Hl. cbn in Hl.
    destruct (IH r' Ho Hl eq_refl) as (pre & y & y' & post & -> & -> & Hy & Hoy).
    exists (x :: pre), y, y', post. repeat split; auto.
Qed.

Lemma inner_step_keeps keys root root' : inner_step keys root root' ->
  ordered root = true -> ordered root' = true /\ as_of root' = as_of root /\
  (some_ea_has_enc root = false -> some_ea_has_enc root' = false /\ ea_as_of root' = ea_as_of root).
Proof.
  intros (pre & x & x' & post & -> & -> & Ex & Ho) Hord.
  pose proof (open_first_shape _ _ _ _ Ho) as S.
  assert (is_enc x' = false /\ is_part x' = is_part x /\ as_of [x'] = as_of [x]) as (Ex' & Px & Ax).
  { destruct x as [a d adv ext|k|k|key p]; try discriminate.
    - destruct S as (adv' & ext' & ->). repeat split.
    - destruct S as (k' & -> & _). repeat split.
    - destruct S as (k' & ->). repeat split. }
  split; [|split].
  - clear - Hord Ex Ex' Px. induction pre as [|y pre IH]; cbn [app ordered] in *.
    + rewrite Ex in Hord. rewrite Ex'. exact Hord.
    + destruct (is_enc y); [|now apply IH]. rewrite forallb_app in *. apply andb_true_iff in Hord as [H1 H2]. rewrite H1. cbn [forallb andb] in *.
      now rewrite Px.
  - rewrite !as_of_app, (as_of_cons x' post), (as_of_cons x post), Ax. reflexivity.
  - intros Hn. assert (forall l, some_ea_has_enc (pre ++ l) = some_ea_has_enc pre || some_ea_has_enc l) as SA.
    { intros l. unfold some_ea_has_enc, eas. now rewrite flat_map_app, existsb_app. }
    assert (forall y l, some_ea_has_enc (y :: l) = some_ea_has_enc [y] || some_ea_has_enc l) as SC.
    { intros y l. unfold some_ea_has_enc. rewrite (eas_cons y l), existsb_app. reflexivity. }
    assert (forall l, ea_as_of (pre ++ l) = ea_as_of pre ++ ea_as_of l) as EA.
    { intros l. unfold ea_as_of, ea_asrts, eas. now rewrite !flat_map_app, map_app. }
    rewrite SA, SC in Hn. apply orb_false_iff in Hn as [Hp Hn]. apply orb_false_iff in Hn as [Hx Hpost].
    rewrite SA, SC, Hp, Hpost, !EA, (ea_as_of_cons x' post), (ea_as_of_cons x post).
    assert (some_ea_has_enc [x'] = false /\ ea_as_of [x'] = ea_as_of [x]) as [A B].
    { destruct x as [a d adv ext|k|k|key p]; try discriminate.
      - destruct S as (adv' & ext' & ->). split; reflexivity.
      - destruct S as (k' & -> & Hk). unfold some_ea_has_enc in Hx. cbn [eas flat_map app existsb] in Hx. rewrite orb_false_r in Hx.
        (* no direct EncryptedData child: the step happened inside one of the children *)
        assert (forall l l', existsb is_enc l = false -> open_list keys PFail l = Opened l' ->
                  existsb is_enc l' = false /\ as_of l' = as_of l) as Deep.
        { clear. induction l as [|y l IH]; intros l' Hn H; [discriminate|]. rewrite open_list_cons in H.
          cbn [existsb] in Hn. apply orb_false_iff in Hn as [Hy Hl].
          destruct (open_first keys PFail y) as [y'| |] eqn:Ey; [|discriminate|].
          - injection H as <-. pose proof (open_first_shape _ _ _ _ Ey) as S.
            destruct y as [a d adv ext|k|k|key p]; try discriminate.
            + destruct S as (adv' & ext' & ->). cbn [existsb is_enc orb]. split; [exact Hl|].
              rewrite (as_of_cons _ l), (as_of_cons (DAsrt a d adv ext) l). reflexivity.
            + destruct S as (k' & -> & _). cbn [existsb is_enc orb]. split; [exact Hl|].
              rewrite (as_of_cons _ l), (as_of_cons (DEA k) l). reflexivity.
            + destruct S as (k' & ->). cbn [existsb is_enc orb]. split; [exact Hl|].
              rewrite (as_of_cons _ l), (as_of_cons (DOther k) l). reflexivity.
          - destruct (open_list keys PFail l) as [l1| |] eqn:El; try discriminate. injection H as <-.
            destruct (IH l1 Hl eq_refl) as [A B]. cbn [existsb]. rewrite Hy, A. split; [reflexivity|].
            rewrite (as_of_cons y l1), (as_of_cons y l), B. reflexivity. }
        unfold ea_has_enc in Hx. destruct (Deep k k' Hx Hk) as [D1 D2].
        unfold some_ea_has_enc, ea_as_of, ea_asrts. cbn [eas flat_map app existsb]. rewrite !app_nil_r, orb_false_r. split; [exact D1|exact D2].
      - destruct S as (k' & ->). split; reflexivity. }
    rewrite A, B. split; reflexivity.
Qed.

(* ---------- the loops, no fault, failing tool ---------- *)
Lemma dec_loop_pfail_nofault cond keys : (forall root, cond root = true -> cond2 root = true) ->
  forall fuel root root' fs',
  dec_loop fuel cond keys PFail [] root = Some (root', fs') -> ordered root = true ->
  fs' = [] /\ ordered root' = true /\ as_of root' = as_of root /\
  (some_ea_has_enc root = false -> some_ea_has_enc root' = false /\ ea_as_of root' = ea_as_of root) /\
  (cond root' = false \/ forall r2, open_list keys PFail root' <> Opened r2).
Proof.
  intros Hc. induction fuel as [|f IH]; intros root root' fs' H Ho; [discriminate|]. cbn [dec_loop pop] in H.
  destruct (cond root) eqn:C; cbn [negb] in H.
  - destruct (open_list keys PFail root) as [r1| |] eqn:Eo.
    + pose proof (step_inner keys root r1 Ho (cond2_live _ (Hc _ C)) Eo) as St.
      destruct (inner_step_keeps _ _ _ St Ho) as (O1 & A1 & E1).
      destruct (IH _ _ _ H O1) as (F & O2 & A2 & E2 & T). split; [exact F|]. split; [exact O2|]. split; [congruence|]. split; [|exact T].
      intros Hn. destruct (E1 Hn) as [N1 X1]. destruct (E2 N1) as [N2 X2]. split; [exact N2|congruence].
    + injection H as <- <-. repeat split; auto. right. intros r2. congruence.
    + injection H as <- <-. repeat split; auto. right. intros r2. congruence.
  - injection H as <- <-. repeat split; auto.
Qed.

Lemma dec_loop_stuck cond keys pol : forall fuel root root' fs',
  (forall r2, open_list keys pol root <> Opened r2) -> dec_loop fuel cond keys pol [] root = Some (root', fs') -> root' = root /\ fs' = [].
Proof.
  intros [|f] root root' fs' Hs H; [discriminate|]. cbn [dec_loop pop] in H.
  destruct (negb (cond root)); [injection H as <- <-; split; reflexivity|].
  destruct (open_list keys pol root) as [r1| |] eqn:Eo; [exfalso; exact (Hs r1 eq_refl)| |]; injection H as <- <-; split; reflexivity.
Qed.

(* the two loops of parse_assertion one after the other *)
Lemma two_loops_nothing_new keys f1 f2 root t1 fs1 t2 fs2 :
  dec_loop f1 find_encrypt_data keys PFail [] (reserialize root) = Some (t1, fs1) ->
  dec_loop f2 cond2 keys PFail fs1 t1 = Some (t2, fs2) ->
  fs1 = [] /\ fs2 = [] /\ as_of t2 = as_of root /\ ea_as_of t2 = ea_as_of t1.
Proof.
  intros L1 L2.
  destruct (dec_loop_pfail_nofault find_encrypt_data keys cond1_cond2 _ _ _ _ L1 (ordered_reserialize root)) as (F1 & O1 & A1 & _ & T1).
  subst fs1. rewrite as_of_reserialize in A1. split; [reflexivity|].
  destruct T1 as [C1|S1].
  - destruct (dec_loop_pfail_nofault cond2 keys (fun _ H => H) _ _ _ _ L2 O1) as (F2 & _ & A2 & E2 & _).
    unfold find_encrypt_data in C1. apply orb_false_iff in C1 as [C1 _]. destruct (E2 C1) as [_ X]. repeat split; congruence.
  - destruct (dec_loop_stuck _ _ _ _ _ _ _ S1 L2) as [-> ->]. repeat split; auto.
Qed.

Lemma parse_t_checked_nofault tc c irt req s root again :
  t_pol tc = PFail ->
  so_faults (parse_t tc c irt req s root again []) = [] /\
  (forall s', so_res (parse_t tc c irt req s root again []) = Ok s' ->
     exists l, acc s' = acc s ++ ids_of l /\ Forall (checked_view c irt req) l) /\
  (exists l, acc (so_residue (parse_t tc c irt req s root again [])) = acc s ++ ids_of l /\ Forall (checked_view c irt req) l).
Proof.
  intros Hpol. unfold parse_t. rewrite Hpol.
  assert (exists l : list asrt_view, acc s = acc s ++ ids_of l /\ Forall (checked_view c irt req) l) as Triv
    by (exists []; cbn; rewrite app_nil_r; split; [reflexivity|constructor]).
  set (plain0 := asrts root).
  destruct (negb ((List.length plain0 =? 1)%nat || (List.length (eas root) =? 1)%nat || again)); [split; [reflexivity|split; [discriminate|exact Triv]]|].
  destruct (check_assertions c irt req false false s (map as_checked plain0)) as [s1|] eqn:E1; [|split; [reflexivity|split; [discriminate|exact Triv]]].
  destruct (check_views_all _ _ _ _ _ _ _ E1) as [FP A1]. rewrite app_nil_r in A1.
  destruct (negb (find_encrypt_data root)).
  { split; [reflexivity|]. split; [|exact Triv]. intros s' H. injection H as <-. exists plain0. cbn [push_all acc]. rewrite A1. split; [|exact FP].
    unfold ids_of. now rewrite map_map. }
  destruct (dec_loop (fuel_for (reserialize root) []) find_encrypt_data (t_keys tc) PFail [] (reserialize root)) as [[t1 fs1]|] eqn:L1;
    [|split; [reflexivity|split; [discriminate|exact Triv]]].
  destruct (dec_loop (fuel_for t1 fs1) cond2 (t_keys tc) PFail fs1 t1) as [[t2 fs2]|] eqn:L2.
  2:{ destruct (dec_loop_pfail_nofault find_encrypt_data (t_keys tc) cond1_cond2 _ _ _ _ L1 (ordered_reserialize root)) as (F1 & _).
      destruct (verify_views (ea_asrts t1)); (split; [exact F1 || reflexivity|split; [discriminate|exact Triv]]). }
  destruct (two_loops_nothing_new _ _ _ _ _ _ _ _ L1 L2) as (F1 & F2 & AP & SAME). subst fs1 fs2.
  destruct (verify_views (ea_asrts t1)) as [[]|] eqn:EV; [|split; [reflexivity|split; [discriminate|exact Triv]]].
  apply verify_views_ok in EV.
  match goal with |- context [if ?b then _ else _] => destruct b end; [split; [reflexivity|split; [discriminate|exact Triv]]|].
  destruct (advice_pass (ea_asrts t2 ++ asrts t2)); [|split; [reflexivity|split; [discriminate|exact Triv]]].
  unfold ea_as_of in SAME. rewrite SAME.
  destruct (check_assertions c irt req true true s1 (map v_a (ea_asrts t1))) as [s2|] eqn:E2.
  - split; [reflexivity|]. split; [|exact Triv]. intros s' H. injection H as <-.
    rewrite (check_list_as_checked _ _ _ _ _ _ EV) in E2. destruct (check_views_all _ _ _ _ _ _ _ E2) as [FV A2].
    exists (ea_asrts t1 ++ plain0). split; [|apply Forall_app; split; assumption].
    cbn [push_all acc]. rewrite A2, A1. unfold as_of in AP. rewrite AP. fold plain0.
    unfold ids_of. now rewrite map_app, <- app_assoc, map_map.
  - split; [reflexivity|]. split; [discriminate|]. cbn [so_residue acc].
    destruct (acc_after_failure_prefix c irt req (ea_asrts t1) s1 EV) as (l1 & l2 & _ & A & F).
    exists l1. rewrite A, A1. split; [reflexivity|exact F].
Qed.

(* the code without proposed_fix/C17-2, failing tool, no fault: every assertion read was verified and checked *)
Lemma tree_same_checks_nofault tc c r root o :
  t_pol tc = PFail -> parse_response_t tc c r root [] = Ok o ->
  Forall (fun n => exists req v, a_id (v_a v) = n /\ checked_view c (r_irt r) req v) (o_assertions o).
Proof.
  intros Hpol H. unfold parse_response_t in H. apply accepted_x in H as (rq & s0 & HL & H).
  destruct (loads_env _ _ _ _ _ HL) as [A0 _].
  assert (forall req l, Forall (checked_view c (r_irt r) req) l ->
          Forall (fun n => exists req v, a_id (v_a v) = n /\ checked_view c (r_irt r) req v) (ids_of l)) as Lift.
  { intros req l F. unfold ids_of. apply Forall_forall. intros n Hn. apply in_map_iff in Hn as (v & <- & Hv).
    exists req, v. split; [reflexivity|]. rewrite Forall_forall in F. now apply F. }
  destruct (parse_t_checked_nofault tc c (r_irt r) true s0 root false Hpol) as (F0 & P0 & (lr & AR & FR)).
  destruct H as [(s' & x' & Hs & -> & _)|(x1 & s' & x' & Hx1 & _ & Hs & -> & _)].
  - unfold stage_t in Hs. injection Hs as Hs _. destruct (P0 _ Hs) as (l & -> & F). rewrite A0. cbn [app]. exact (Lift _ _ F).
  - assert (exists root1 again1, x1 = ([], root1, again1)) as (root1 & again1 & ->).
    { destruct Hx1 as [->|(e & He)]; [now exists root, false|]. unfold stage_t in He. injection He as _ <-. rewrite F0. eauto. }
    unfold stage_t in Hs. injection Hs as Hs _.
    destruct (parse_t_checked_nofault tc c (r_irt r) false (residue_t tc c (r_irt r) true s0 ([], root, false)) root1 again1 Hpol) as (_ & P & _).
    destruct (P _ Hs) as (l & -> & F). unfold residue_t. rewrite AR, A0. cbn [app].
    apply Forall_app. split; [exact (Lift _ _ FR)|exact (Lift _ _ F)].
Qed.
