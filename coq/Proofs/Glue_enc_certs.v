(* Proofs/Glue_enc_certs.v — GLUE: Model/EncryptMd.v (C17: where the IdP takes the SP's encryption certificates
   from) reads Model/CertSelect.v md_certs for use = encryption; through Proofs/Glue_certs.v that is
   Model/MdStore.v store_certs (C16) on the abstraction of a C16 store.  So the C17 hypothesis "the SP's metadata
   has a key descriptor whose use is encryption or absent" and the C17 conclusion "every ciphertext opens under a
   key the SP's own metadata offers for encryption" are statements about the loaded metadata documents. *)
From PV Require Import Lib.Base.
From PV Require Model.CertSelect Model.MdStore Model.EncryptMd Proofs.CertSelect_lemmas Proofs.MdStore_lemmas
  Proofs.EncryptMd_lemmas.
From PV Require Import Proofs.Glue_certs.
Module EM := PV.Model.EncryptMd.
Module EML := PV.Proofs.EncryptMd_lemmas.
Open Scope N_scope.

Lemma ENCRYPTION_same : EM.ENCRYPTION = MS.U_ENCRYPTION.
Proof. reflexivity. Qed.

(* sp_enc_cert over an abstracted store, in the C16 vocabulary *)
Theorem sp_enc_cert_declared num st sp x :
  EM.sp_enc_cert (abs_store num st) sp x <-> declared_enc_key num st sp x.
Proof.
  unfold EM.sp_enc_cert, declared_enc_key. split.
  - intros (ae & g & kd & F & Hg & Hkd & Hu & Hx). rewrite find_entity_abs_store in F.
    destruct (MS.store_get st sp) as [e|]; [|discriminate]. injection F as <-.
    unfold abs_entity in Hg. apply in_map_iff in Hg as (d & <- & Hd).
    unfold abs_group in Hkd. apply in_map_iff in Hkd as (k & <- & Hk). apply in_flat_map in Hk as (r & Hr & Hk).
    apply MSL.roles_of_In in Hr as [Hr Ht]. cbn [abs_kd CS.kd_certs] in Hx. rewrite map_map in Hx.
    apply in_map_iff in Hx as (c0 & <- & Hc0).
    exists e, r, k, c0. split; [reflexivity|]. split; [exact Hr|]. split; [now exists d|]. split; [exact Hk|].
    split; [exact Hu|]. split; [exact Hc0|reflexivity].
  - intros (e & r & k & c0 & He & Hr & (d & Hd & Ht) & Hk & Hu & Hc0 & ->).
    exists (abs_entity num e), (abs_group num e d), (abs_kd num k).
    split; [rewrite find_entity_abs_store, He; reflexivity|]. split; [unfold abs_entity; now apply in_map|].
    split; [|split; [exact Hu|]].
    + unfold abs_group. apply in_map. apply in_flat_map. exists r. split; [|exact Hk]. now apply MSL.roles_of_In.
    + cbn [abs_kd CS.kd_certs]. rewrite map_map. now apply (in_map (fun c => num (MS.repack_cert c))).
Qed.

(* the list the IdP iterates over is certs(sp, any, encryption) of the C16 model, renumbered *)
Theorem md_enc_certs_agree num st sp l :
  inj_on (served_text st sp) num ->
  MS.store_certs st sp ANY MS.U_ENCRYPTION = Ok l ->
  EM.md_enc_certs (abs_store num st) sp = map EM.cert_pair (map num l).
Proof.
  intros Hinj H. unfold EM.md_enc_certs. rewrite ENCRYPTION_same. now rewrite (md_certs_agree num st sp _ l Hinj H).
Qed.

(* C17's hypothesis and conclusion over the documents the IdP's store was loaded from *)
Theorem sp_enc_cert_in_loaded_documents num now srcs sp x :
  EM.sp_enc_cert (abs_store num (MS.load_all now [] srcs)) sp x ->
  declared_in_documents num now srcs MS.U_ENCRYPTION sp x.
Proof. intros H. apply sp_enc_cert_declared in H. now apply served_in_documents. Qed.

(* every ciphertext in a response built for SP [sp] by an IdP holding the loaded store opens under a key given by the
   caller, or under a certificate an unexpired EntityDescriptor of [sp] in a registered source offers for encryption *)
Theorem ciphertext_keys_from_loaded_documents num now srcs g sp i t k :
  EM.idp_build_md g (abs_store num (MS.load_all now [] srcs)) sp i = Ok t -> In k (Encrypt.enc_keys t) ->
  Encrypt.g_cert_assertion g = Encrypt.CGiven k true \/ Encrypt.g_cert_advice g = Encrypt.CGiven k true \/
  (declared_in_documents num now srcs MS.U_ENCRYPTION sp k /\ k <> 0).
Proof.
  intros H Hk. destruct (EML.enc_keys_md _ _ _ _ _ _ H Hk) as [Hc|[Hc|[Hc Hn]]]; auto.
  right. right. split; [now apply sp_enc_cert_in_loaded_documents|exact Hn].
Qed.

Example enc_certs_example :
  EM.md_enc_certs (abs_store ex_num ex_store) (s2l "A") = [(2, true)] /\
  MS.store_certs ex_store (s2l "A") ANY MS.U_ENCRYPTION = Ok [cert_b].
Proof. vm_compute. split; reflexivity. Qed.
