(* Proofs about Model/Status.v *)
From PV Require Import Lib.Base Gen.StatusTable Model.Status.
Open Scope N_scope.

Lemma status_ok_nonsuccess_err table st c :
  st_code st = Some c ->
  (let 'Code v _ := c in is_success v = false) ->
  exists e, status_ok_with table (Some st) = Err e.
Proof.
  intros Hc Hv. unfold status_ok_with, status_ok_gen. rewrite Hc. destruct c as [v sub].
  rewrite Hv. destruct sub as [[sv ssub]|].
  - destruct sv as [k|]; [|eauto]. destruct (lookup k table); eauto.
  - eauto.
Qed.

Lemma status_ok_nocode_err table st :
  st_code st = None -> status_ok_with table (Some st) = Err (s2l "AttributeError").
Proof. intros H. unfold status_ok_with, status_ok_gen. now rewrite H. Qed.

(* the exact class raised, as a function of the second-level code *)
Definition class_for (table : list (str * str)) (sub : option code_view) : str :=
  match sub with
  | None => s2l "StatusError"
  | Some (Code None _) => s2l "KeyError"
  | Some (Code (Some k) _) =>
      match lookup k table with Some cls => cls | None => s2l "KeyError" end
  end.

Lemma status_ok_exact table st v sub :
  st_code st = Some (Code v sub) -> is_success v = false ->
  status_ok_with table (Some st) = Err (class_for table sub).
Proof.
  intros Hc Hv. unfold status_ok_with, status_ok_gen, class_for. rewrite Hc, Hv.
  destruct sub as [[[k|] ?]|]; try reflexivity. destruct (lookup k table); reflexivity.
Qed.

Lemma status_ok_success table st v sub :
  st_code st = Some (Code v sub) -> is_success v = true ->
  status_ok_with table (Some st) = Ok tt.
Proof. intros Hc Hv. unfold status_ok_with, status_ok_gen. now rewrite Hc, Hv. Qed.

(* verify_core never says Some when status is a present non-success *)
Lemma verify_core_nonsuccess i st v sub :
  status i = Some st -> st_code st = Some (Code v sub) -> is_success v = false ->
  verify_core i <> Ok (Some tt).
Proof.
  intros Hs Hc Hv. unfold verify_core.
  destruct (id_mismatch i); [discriminate|].
  destruct (negb (version_is_20 (version i))).
  { destruct (version i); [destruct (ver_lt2 i) as [[|]|]|]; discriminate. }
  destruct (asynchop i && negb (dest_ok i)); [discriminate|].
  destruct (issue_ok i) as [[|]|]; try discriminate.
  unfold status_ok. rewrite Hs, (status_ok_exact _ _ _ _ Hc Hv). discriminate.
Qed.

Lemma verify_core_nocode i st :
  status i = Some st -> st_code st = None -> verify_core i <> Ok (Some tt).
Proof.
  intros Hs Hc. unfold verify_core.
  destruct (id_mismatch i); [discriminate|].
  destruct (negb (version_is_20 (version i))).
  { destruct (version i); [destruct (ver_lt2 i) as [[|]|]|]; discriminate. }
  destruct (asynchop i && negb (dest_ok i)); [discriminate|].
  destruct (issue_ok i) as [[|]|]; try discriminate.
  unfold status_ok. rewrite Hs, (status_ok_nocode_err _ _ Hc). discriminate.
Qed.

Lemma verify_core_exact i st v sub :
  id_mismatch i = false -> version_is_20 (version i) = true ->
  (asynchop i && negb (dest_ok i)) = false -> issue_ok i = Ok true ->
  status i = Some st -> st_code st = Some (Code v sub) -> is_success v = false ->
  verify_core i = Err (class_for status_table sub).
Proof.
  intros H1 H2 H3 H4 Hs Hc Hv. unfold verify_core. rewrite H1, H2, H3, H4. cbn [negb].
  unfold status_ok. rewrite Hs, (status_ok_exact _ _ _ _ Hc Hv). reflexivity.
Qed.

Lemma verify_core_version i :
  version_is_20 (version i) = false -> verify_core i <> Ok (Some tt).
Proof.
  intros H. unfold verify_core. destruct (id_mismatch i); [discriminate|].
  rewrite H. cbn [negb]. destruct (version i); [destruct (ver_lt2 i) as [[|]|]|]; discriminate.
Qed.

Lemma authn_verify_not_some {A} i (rest : result (option A)) :
  verify_core i <> Ok (Some tt) -> forall a, parse_tail (authn_verify i rest) <> Ok a.
Proof.
  intros H a. unfold authn_verify. destruct (verify_core i) as [[[]|]|e]; cbn; congruence.
Qed.

Lemma status_verify_not_some i :
  verify_core i <> Ok (Some tt) -> status_verify i <> Ok (Some tt).
Proof.
  intros H. unfold status_verify. destruct (verify_core i) as [[[]|]|e]; try congruence.
  destruct (str_eqb e (s2l "AttributeError")); destruct (str_eqb e (s2l "AssertionError")); discriminate.
Qed.

Lemma request_verify_version i :
  version_is_20 (r_version i) = false -> request_verify i = Ok None.
Proof. intros H. unfold request_verify. now rewrite H. Qed.

(* after the repair a response without <Status> is refused as well *)
Lemma status_ok_absent table : status_ok_with table None = Err (s2l "StatusError").
Proof. reflexivity. Qed.

Lemma verify_core_absent_status i : status i = None -> verify_core i <> Ok (Some tt).
Proof.
  intros Hs. unfold verify_core.
  destruct (id_mismatch i); [discriminate|].
  destruct (negb (version_is_20 (version i))).
  { destruct (version i); [destruct (ver_lt2 i) as [[|]|]|]; discriminate. }
  destruct (asynchop i && negb (dest_ok i)); [discriminate|].
  destruct (issue_ok i) as [[|]|]; try discriminate.
  unfold status_ok. rewrite Hs, status_ok_absent. discriminate.
Qed.

(* accepted by verify_core => there is a <Status>, it has a code, and the top-level code is the Success URN *)
Lemma verify_core_ok_success i :
  verify_core i = Ok (Some tt) ->
  exists st sub, status i = Some st /\ st_code st = Some (Code (Some STATUS_SUCCESS) sub).
Proof.
  intros H. destruct (status i) as [st|] eqn:Hs.
  2:{ exfalso. now apply (verify_core_absent_status i Hs). }
  destruct (st_code st) as [[v sub]|] eqn:Hc.
  2:{ exfalso. now apply (verify_core_nocode i st Hs Hc). }
  destruct (is_success v) eqn:Hv.
  - unfold is_success in Hv. destruct v as [s|]; [|discriminate].
    apply str_eqb_eq in Hv. subst s. now exists st, sub.
  - exfalso. now apply (verify_core_nonsuccess i st v sub Hs Hc Hv).
Qed.
