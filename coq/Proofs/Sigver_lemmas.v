From PV Require Import Lib.Base Model.Sigver.
Open Scope N_scope.

Lemma cons_inj {A} (a b : A) l l' : a :: l = b :: l' -> a = b /\ l = l'.
Proof. intros H; injection H; auto. Qed.

Lemma scan_lines_In ls : scan_lines ls = true -> In OKs ls.
Proof.
  induction ls as [|l ls IH]; cbn [scan_lines]; [discriminate|].
  destruct (str_eqb_spec l OKs) as [->|Hn]; [now left|].
  destruct (str_eqb l FAILs); [discriminate|]. intros H; right; auto.
Qed.

(* exact characterisation: an OK line, and before it neither OK nor FAIL *)
Lemma scan_lines_spec ls :
  scan_lines ls = true <->
  exists pre post, ls = pre ++ OKs :: post /\ Forall (fun l => l <> OKs /\ l <> FAILs) pre.
Proof.
  induction ls as [|l ls IH]; cbn [scan_lines].
  - split; [discriminate|]. intros (pre & post & H & _). destruct pre; discriminate.
  - destruct (str_eqb_spec l OKs) as [->|Hn].
    + split; [|reflexivity]. intros _. exists [], ls. split; [reflexivity|constructor].
    + destruct (str_eqb_spec l FAILs) as [->|Hf].
      * split; [discriminate|]. intros (pre & post & H & Hall).
        destruct pre as [|p pre]; cbn [app] in H; apply cons_inj in H as [H1 H2]; [congruence|].
        subst p. inversion Hall as [|? ? [_ Hx] _]; congruence.
      * rewrite IH. split.
        -- intros (pre & post & -> & Hall). exists (l :: pre), post. split; [reflexivity|].
           constructor; [split; assumption|assumption].
        -- intros (pre & post & H & Hall). destruct pre as [|p pre]; cbn [app] in H; apply cons_inj in H as [H1 H2]; [congruence|].
           exists pre, post. split; [assumption|]. now inversion Hall.
Qed.

Lemma parse_ok_In s b : parse_xmlsec_output s = Ok b -> b = true /\ In OKs (splitlines s).
Proof.
  unfold parse_xmlsec_output. destruct (scan_lines (splitlines s)) eqn:E; [|discriminate].
  intros H; injection H as <-. split; [reflexivity|now apply scan_lines_In].
Qed.

(* a text without any line break is one line: "OK" inside other text is not OK *)
Lemma splitlines_aux_nobreak s cur :
  forallb (fun c => negb (is_linebreak c)) s = true ->
  splitlines_aux s cur = match rev cur ++ s with [] => [] | l => [l] end.
Proof.
  revert cur; induction s as [|c s IH]; intros cur H; cbn [splitlines_aux].
  - rewrite app_nil_r. destruct cur as [|x cur]; [reflexivity|].
    destruct (rev (x :: cur)) eqn:E; [|reflexivity].
    apply (f_equal (@List.length N)) in E. rewrite rev_length in E. discriminate.
  - cbn [forallb] in H. apply andb_true_iff in H as [Hc Hs].
    destruct (is_linebreak c); [discriminate|]. rewrite (IH (c :: cur) Hs). cbn [rev].
    rewrite <- app_assoc. reflexivity.
Qed.

Lemma single_line_only_exact_ok s :
  forallb (fun c => negb (is_linebreak c)) s = true -> s <> OKs ->
  parse_xmlsec_output s = Err XmlsecError.
Proof.
  intros Hs Hne. unfold parse_xmlsec_output, splitlines. rewrite (splitlines_aux_nobreak s [] Hs).
  cbn [rev app]. destruct s as [|c s]; [reflexivity|]. cbn [scan_lines].
  destruct (str_eqb_spec (c :: s) OKs) as [E|_]; [contradiction|].
  destruct (str_eqb (c :: s) FAILs); reflexivity.
Qed.

Lemma run_xmlsec_ok v r a : run_xmlsec v r = Ok a ->
  exists o, r = Ran o /\ undecodable o = false /\ signaled o = false /\ a = (p_out o, p_err o, outfile o)
            /\ (v = true -> scan_lines (splitlines (p_err o)) = true).
Proof.
  unfold run_xmlsec. destruct r as [|o]; [discriminate|].
  destruct (undecodable o) eqn:Eu; [discriminate|]. destruct (signaled o) eqn:Es; [discriminate|].
  destruct v.
  - unfold parse_xmlsec_output. destruct (scan_lines (splitlines (p_err o))) eqn:Esc; [|discriminate].
    intros H; injection H as <-. exists o. repeat split; auto.
  - intros H; injection H as <-. exists o. repeat split; auto. discriminate.
Qed.

Lemma validate_signature_true r b : validate_signature r = Ok b -> b = true /\ reports_success r = true.
Proof.
  unfold validate_signature. destruct (run_xmlsec true r) as [[[out err] outf]|e] eqn:E; [|discriminate].
  apply run_xmlsec_ok in E as (o & -> & Hu & Hs & Ha & Hsc). injection Ha as -> -> ->.
  intros H. apply parse_ok_In in H as [-> _]. split; [reflexivity|].
  unfold reports_success. rewrite Hu, Hs, (Hsc eq_refl). reflexivity.
Qed.

Lemma validate_signature_never_false r : validate_signature r <> Ok false.
Proof. intros H. apply validate_signature_true in H as [H _]. discriminate. Qed.

Lemma cert_loop_true runs : cert_loop runs = Ok true -> exists r, In r runs /\ reports_success r = true.
Proof.
  induction runs as [|r runs IH]; cbn [cert_loop]; [discriminate|].
  destruct (validate_signature r) as [[|]|e] eqn:E.
  - intros _. exists r. split; [now left|]. now apply validate_signature_true in E.
  - intros H. destruct (IH H) as (r' & Hin & Hr). exists r'. split; [now right|assumption].
  - destruct (is_xmlsec_error e); [|discriminate].
    intros H. destruct (IH H) as (r' & Hin & Hr). exists r'. split; [now right|assumption].
Qed.

Lemma check_signature_ok z runs ovc cv :
  check_signature_runs z runs ovc cv = Ok tt ->
  z = false /\ cv = true /\ exists r, In r runs /\ reports_success r = true.
Proof.
  unfold check_signature_runs. destruct z; [discriminate|].
  destruct (cert_loop runs) as [[|]|e] eqn:E; try discriminate.
  destruct cv; [|discriminate]. intros _. repeat split. now apply cert_loop_true.
Qed.

(* the code before fix 0b54cc6b: the same with only_valid_cert off ... *)
Lemma check_signature_before_fix_off z runs cv :
  check_signature_runs_before_fix z runs false cv = check_signature_runs z runs false cv.
Proof.
  unfold check_signature_runs_before_fix, check_signature_runs. destruct z; [reflexivity|].
  destruct (cert_loop runs) as [[|]|e]; reflexivity.
Qed.

(* ... and today's verdict does not depend on only_valid_cert at all *)
Lemma check_signature_ovc_irrelevant z runs ovc cv :
  check_signature_runs z runs ovc cv = check_signature_runs z runs false cv.
Proof. reflexivity. Qed.

Lemma sign_statement_ok r s : sign_statement r = Ok s ->
  exists o, r = Ran o /\ undecodable o = false /\ signaled o = false /\ p_out o = [] /\ s = outfile o /\ s <> [].
Proof.
  unfold sign_statement. destruct (run_xmlsec false r) as [[[out err] outf]|e] eqn:E.
  - apply run_xmlsec_ok in E as (o & -> & Hu & Hs & Ha & _). injection Ha as -> -> ->.
    destruct (p_out o) eqn:Eo; cbn [is_empty andb]; [|discriminate].
    destruct (outfile o) eqn:Ef; cbn [is_empty negb]; [discriminate|].
    intros H; injection H as <-. exists o. repeat split; auto. discriminate.
  - destruct (str_eqb e (s2l "DecryptError")); discriminate.
Qed.

Lemma encrypt_assertion_ok r s : encrypt_assertion r = Ok s ->
  exists o, r = Ran o /\ undecodable o = false /\ signaled o = false /\ s = outfile o /\ s <> [].
Proof.
  unfold encrypt_assertion. destruct (run_xmlsec false r) as [[[out err] outf]|e] eqn:E; [|discriminate].
  apply run_xmlsec_ok in E as (o & -> & Hu & Hs & Ha & _). injection Ha as -> -> ->.
  destruct (outfile o) eqn:Ef; cbn [is_empty]; [discriminate|].
  intros H; injection H as <-. exists o. repeat split; auto. discriminate.
Qed.

Lemma decrypt_keys_ok enc runs t : decrypt_keys enc runs = Ok t ->
  t = enc \/ exists o, In (Ran o) runs /\ undecodable o = false /\ signaled o = false /\ t = outfile o /\ t <> [].
Proof.
  induction runs as [|r runs IH]; cbn [decrypt_keys].
  - intros H; injection H as <-. now left.
  - unfold crypto_decrypt. destruct (run_xmlsec false r) as [[[out err] outf]|e] eqn:E; [|discriminate].
    apply run_xmlsec_ok in E as (o & -> & Hu & Hs & Ha & _). injection Ha as -> -> ->.
    destruct (outfile o) eqn:Ef; cbn [is_empty].
    + intros H. destruct (IH H) as [->|(o' & Hin & Hrest)]; [now left|]. right. exists o'. split; [now right|assumption].
    + intros H; injection H as <-. right. exists o. repeat split; auto; [now left|discriminate].
Qed.

Lemma decrypt_keys_all_fail enc runs :
  Forall (fun r => match r with Ran o => undecodable o = false /\ signaled o = false /\ outfile o = [] | NotStartable => False end) runs ->
  decrypt_keys enc runs = Ok enc.
Proof.
  induction 1 as [|r runs Hr _ IH]; cbn [decrypt_keys]; [reflexivity|].
  destruct r as [|o]; [contradiction|]. destruct Hr as (Hu & Hs & Hf).
  unfold crypto_decrypt, run_xmlsec. rewrite Hu, Hs, Hf. cbn [is_empty]. exact IH.
Qed.
