From PV Require Import Lib.Base Model.Status Model.Response Proofs.Response_lemmas.
Open Scope Z_scope.

(* ---- every bearer confirmation (retained or not) passed its window tests ---- *)
Definition bearer_window_ok (c : cfg) (sc : confirmation) : Prop :=
  forall d, c_method sc = Bearer -> c_data sc = Some d ->
    (forall n, d_nooa d = Some n -> now c <= n + slack c) /\ (forall n, d_nb d = Some n -> n <= now c + slack c).

Lemma bearer_confirmed_window c irt s d b s' :
  bearer_confirmed c irt s (Some d) = Ok (b, s') ->
  (forall n, d_nooa d = Some n -> now c <= n + slack c) /\ (forall n, d_nb d = Some n -> n <= now c + slack c).
Proof.
  unfold bearer_confirmed. intros H.
  destruct (match d_address d with Some _ => negb (d_address_valid d) | None => false end); [discriminate|].
  destruct (validate_on_or_after c (d_nooa d)) as [ro|] eqn:E0; [|discriminate].
  destruct (validate_before c (d_nb d)) as [[]|] eqn:E1; [|discriminate].
  apply validate_on_or_after_ok in E0 as [Hn _]. split; [exact Hn|exact (validate_before_ok _ _ E1)].
Qed.

Lemma subject_loop_windows c irt : forall confs s kept s',
  subject_loop c irt s confs = Ok (kept, s') -> Forall (bearer_window_ok c) confs.
Proof.
  induction confs as [|sc rest IH]; intros s kept s' H; [constructor|]. cbn [subject_loop] in H.
  assert (forall (b : bool) s1 r0,
     (if b then
         match (match c_data sc with Some d => d_recipient d | None => None end) with
         | None => match c_data sc with None => Err (E "AttributeError") | Some _ => Err (E "VerificationError") end
         | Some r => match verify_recipient c r with
                     | Err e => Err e | Ok false => Err (E "VerificationError")
                     | Ok true => match subject_loop c irt s1 rest with Err e => Err e | Ok (kept0, s'') => Ok (sc :: kept0, s'') end
                     end
         end
       else subject_loop c irt s1 rest) = Ok r0 -> Forall (bearer_window_ok c) rest) as K.
  { intros b s1 [k0 st0] Hk. destruct b.
    - destruct (match c_data sc with Some d => d_recipient d | None => None end); [|destruct (c_data sc); discriminate].
      destruct (verify_recipient c s0) as [[|]|]; try discriminate.
      destruct (subject_loop c irt s1 rest) as [[kk ss]|] eqn:El; [|discriminate]. eapply IH; exact El.
    - eapply IH; exact Hk. }
  destruct (c_method sc) eqn:Em.
  - destruct (bearer_confirmed c irt s (c_data sc)) as [[b s1]|] eqn:Eb; [|discriminate].
    constructor; [|exact (K b s1 _ H)].
    intros d _ Hd. rewrite Hd in Eb. eapply bearer_confirmed_window; exact Eb.
  - constructor; [intros d Hm; congruence|exact (K _ s _ H)].
  - constructor; [intros d Hm; congruence|exact (K true s _ H)].
  - discriminate.
Qed.

Lemma check_assertion_windows c irt req v s a s' :
  check_assertion c irt req v s a = Ok s' -> Forall (bearer_window_ok c) (a_confirmations a).
Proof.
  unfold check_assertion. intros H.
  destruct (match a_sig a with None => if req then Err SignatureError else Ok tt | Some r => if v then Ok tt else r end) as [[]|]; [|discriminate].
  destruct (authn_statement_ok c s a) as [s1|]; [|discriminate].
  destruct (condition_ok c s1 a) as [[[|] s2]|]; try discriminate.
  destruct (get_subject c irt s2 a) as [[kept s3]|] eqn:Eg; [|discriminate].
  unfold get_subject in Eg. destruct (negb (a_has_subject a)); [discriminate|].
  destruct (negb (verify_attesting_entity c (a_confirmations a))); [discriminate|].
  destruct (subject_loop c irt s2 (a_confirmations a)) as [[k st']|] eqn:El; [|discriminate].
  eapply subject_loop_windows; exact El.
Qed.

Lemma accepted_windows c r o : parse_response c r = Ok o ->
  Forall (fun a => Forall (bearer_window_ok c) (a_confirmations a)) (processed r) /\
  Forall (assertion_facts c (r_irt r)) (processed r) /\
  issue_instant_ok c (r_issue_instant r) = true.
Proof.
  intros H. destruct (parse_response_accepted c r o H) as [Hv _ (req & s & s' & Hver & _) _].
  destruct (verify_some _ _ _ _ _ Hver) as (Hcore & Hpa & _).
  destruct (parse_assertion_ok _ _ _ _ _ Hpa) as (Hall & Hp & Hd & _). split; [|split; [exact Hall|]].
  - unfold processed. apply Forall_app. split.
    + eapply Forall_impl; [|exact Hd]. intros a (sa & sa' & Ha). eapply check_assertion_windows; exact Ha.
    + eapply Forall_impl; [|exact Hp]. intros a (sa & sa' & Ha). eapply check_assertion_windows; exact Ha.
  - unfold verify_core in Hcore. cbn [verify_in_of id_mismatch version ver_lt2 asynchop dest_ok issue_ok status] in Hcore.
    destruct (negb (version_is_20 (r_version r))).
    { destruct (r_version r); [destruct (r_ver_lt2 r) as [[|]|]|]; discriminate. }
    match type of Hcore with (if ?x then _ else _) = _ => destruct x; [discriminate|] end.
    destruct (issue_instant_ok c (r_issue_instant r)); [reflexivity|discriminate].
Qed.

(* ---- session expiry handed to the application (single plain assertion: the web-SSO shape) ---- *)
Lemma subject_loop_fields c irt : forall confs s kept s',
  subject_loop c irt s confs = Ok (kept, s') ->
  not_on_or_after s' = not_on_or_after s /\ session_nooa s' = session_nooa s.
Proof.
  induction confs as [|sc rest IH]; intros s kept s' H; cbn [subject_loop] in H.
  - injection H as <- <-. split; reflexivity.
  - assert (forall (b : bool) s1, not_on_or_after s1 = not_on_or_after s -> session_nooa s1 = session_nooa s ->
     (if b then
         match (match c_data sc with Some d => d_recipient d | None => None end) with
         | None => match c_data sc with None => Err (E "AttributeError") | Some _ => Err (E "VerificationError") end
         | Some r => match verify_recipient c r with
                     | Err e => Err e | Ok false => Err (E "VerificationError")
                     | Ok true => match subject_loop c irt s1 rest with Err e => Err e | Ok (kept0, s'') => Ok (sc :: kept0, s'') end
                     end
         end
       else subject_loop c irt s1 rest) = Ok (kept, s') ->
       not_on_or_after s' = not_on_or_after s /\ session_nooa s' = session_nooa s) as K.
    { intros b s1 F1 F2 Hk. destruct b.
      - destruct (match c_data sc with Some d => d_recipient d | None => None end); [|destruct (c_data sc); discriminate].
        destruct (verify_recipient c s0) as [[|]|]; try discriminate.
        destruct (subject_loop c irt s1 rest) as [[kk ss]|] eqn:El; [|discriminate]. injection Hk as <- <-.
        destruct (IH _ _ _ El) as [A B]. split; congruence.
      - destruct (IH _ _ _ Hk) as [A B]. split; congruence. }
    destruct (c_method sc).
    + destruct (bearer_confirmed c irt s (c_data sc)) as [[b s1]|] eqn:Eb; [|discriminate].
      apply (K b s1); [| |exact H].
      * unfold bearer_confirmed in Eb. destruct (c_data sc) as [d|]; [|injection Eb as <- <-; reflexivity].
        destruct (match d_address d with Some _ => negb (d_address_valid d) | None => false end); [discriminate|].
        destruct (validate_on_or_after c (d_nooa d)); [|discriminate]. destruct (validate_before c (d_nb d)); [|discriminate].
        destruct (negb (later_than (d_nooa d) (d_nb d))); [injection Eb as <- <-; reflexivity|].
        destruct (names_other_request c irt d); [discriminate|].
        destruct (asynch c && match came_from s with Some _ => false | None => true end); [|injection Eb as <- <-; reflexivity].
        destruct (d_irt d) as [i|]; [|injection Eb as <- <-; reflexivity].
        destruct (lookup_str i (outstanding c)); [injection Eb as <- <-; reflexivity|].
        destruct (allow_unsolicited c); [injection Eb as <- <-; reflexivity|discriminate].
      * unfold bearer_confirmed in Eb. destruct (c_data sc) as [d|]; [|injection Eb as <- <-; reflexivity].
        destruct (match d_address d with Some _ => negb (d_address_valid d) | None => false end); [discriminate|].
        destruct (validate_on_or_after c (d_nooa d)); [|discriminate]. destruct (validate_before c (d_nb d)); [|discriminate].
        destruct (negb (later_than (d_nooa d) (d_nb d))); [injection Eb as <- <-; reflexivity|].
        destruct (names_other_request c irt d); [discriminate|].
        destruct (asynch c && match came_from s with Some _ => false | None => true end); [|injection Eb as <- <-; reflexivity].
        destruct (d_irt d) as [i|]; [|injection Eb as <- <-; reflexivity].
        destruct (lookup_str i (outstanding c)); [injection Eb as <- <-; reflexivity|].
        destruct (allow_unsolicited c); [injection Eb as <- <-; reflexivity|discriminate].
    + apply (K _ s eq_refl eq_refl H).
    + apply (K true s eq_refl eq_refl H).
    + discriminate.
Qed.

Definition cond_nooa (a : assertion) : option Z :=
  match a_conditions a with Some k => if k_empty k then None else k_nooa k | None => None end.

Lemma check_assertion_expiry c irt req v s a s' :
  check_assertion c irt req v s a = Ok s' -> test_mode c = false ->
  session_nooa s' = match a_authn a with [Some n] => n | _ => session_nooa s end /\
  not_on_or_after s' = match cond_nooa a with Some n => n | None => not_on_or_after s end.
Proof.
  unfold check_assertion. intros H Ht.
  destruct (match a_sig a with None => if req then Err SignatureError else Ok tt | Some r => if v then Ok tt else r end) as [[]|]; [|discriminate].
  destruct (authn_statement_ok c s a) as [s1|] eqn:Ea; [|discriminate].
  destruct (condition_ok c s1 a) as [[[|] s2]|] eqn:Ec; try discriminate.
  destruct (get_subject c irt s2 a) as [[kept s3]|] eqn:Eg; [|discriminate].
  match type of H with (if ?x then _ else _) = _ => destruct x; [discriminate|] end.
  assert (session_nooa s1 = match a_authn a with [Some n] => n | _ => session_nooa s end /\ not_on_or_after s1 = not_on_or_after s) as [A1 A2].
  { unfold authn_statement_ok in Ea. destruct (a_authn a) as [|[n|] [|? ?]]; try discriminate.
    - destruct (validate_on_or_after c (Some n)) as [[m|]|] eqn:Ev; try discriminate.
      + apply validate_on_or_after_ok in Ev as [_ Hm]. injection Hm as ->. injection Ea as <-. split; reflexivity.
      + apply validate_on_or_after_ok in Ev as [_ Hm]. discriminate.
    - injection Ea as <-. split; reflexivity. }
  assert (session_nooa s2 = session_nooa s1 /\ not_on_or_after s2 = match cond_nooa a with Some n => n | None => not_on_or_after s1 end) as [B1 B2].
  { unfold cond_nooa. destruct (a_conditions a) as [k|] eqn:Ek.
    - destruct (k_empty k) eqn:Ee.
      + unfold condition_ok in Ec. rewrite Ek, Ee in Ec. injection Ec as <-. split; reflexivity.
      + destruct (condition_ok_true _ _ _ _ Ec k Ek Ee Ht) as (_ & _ & _ & _ & N & _ & S & _). split; [exact S|exact N].
    - unfold condition_ok in Ec. rewrite Ek in Ec. injection Ec as <-. split; reflexivity. }
  assert (not_on_or_after s3 = not_on_or_after s2 /\ session_nooa s3 = session_nooa s2) as [C1 C2].
  { unfold get_subject in Eg. destruct (negb (a_has_subject a)); [discriminate|].
    destruct (negb (verify_attesting_entity c (a_confirmations a))); [discriminate|].
    destruct (subject_loop c irt s2 (a_confirmations a)) as [[k st']|] eqn:El; [|discriminate].
    destruct k; [discriminate|]. injection Eg as <- <-. eapply subject_loop_fields; exact El. }
  injection H as <-.
  assert (session_nooa (match a_name_id a with Some n => set_nid s3 (Some n) | None => s3 end) = session_nooa s3 /\
          not_on_or_after (match a_name_id a with Some n => set_nid s3 (Some n) | None => s3 end) = not_on_or_after s3) as [D1 D2]
    by (destruct (a_name_id a); split; reflexivity).
  rewrite D1, D2, C1, C2, B1, B2, A1, A2. split; reflexivity.
Qed.
