(* Proofs/SchemaDoc_lemmas.v — look-alike names and documents with tails (C12) *)
From PV Require Import Lib.Base Model.Schema Model.SchemaDoc Proofs.Schema_lemmas.
Open Scope N_scope.

(* ------------------------------------------------------------------ names *)
Lemma qualify_qualified ns l : unqualified (qualify ns l) = false.
Proof. reflexivity. Qed.

(* a qualified name is never an unqualified one *)
Lemma qualified_ne_unqualified s d : unqualified s = false -> unqualified d = true -> s <> d.
Proof. intros Hs Hd He. subst s. rewrite Hd in Hs. discriminate. Qed.

Lemma after_brace_app ns l : ~ In 125 ns -> after_brace (ns ++ 125 :: l) = Some l.
Proof.
  induction ns as [|c ns IH]; intros Hn; cbn [app after_brace].
  - reflexivity.
  - destruct (N.eqb_spec c 125) as [He|_].
    + exfalso. apply Hn. left. exact He.
    + apply IH. intros Hi. apply Hn. right. exact Hi.
Qed.

Lemma local_of_qualify ns l : ~ In 125 ns -> local_of (qualify ns l) = l.
Proof. intros Hn. unfold qualify, local_of. rewrite (after_brace_app ns l Hn). reflexivity. Qed.

Lemma local_of_unqualified s : unqualified s = true -> local_of s = s.
Proof.
  destruct s as [|c s]; [reflexivity|]. cbn [unqualified local_of].
  destruct c as [|p]; [reflexivity|].
  repeat (destruct p as [p|p|]; try reflexivity); discriminate.
Qed.

(* {ns}l has the same local name as the plain l, and differs from it *)
Lemma qualify_lookalike_of_plain ns l :
  ~ In 125 ns -> unqualified l = true ->
  local_of (qualify ns l) = local_of l /\ qualify ns l <> l.
Proof.
  intros Hn Hu. split.
  - rewrite (local_of_qualify ns l Hn), (local_of_unqualified l Hu). reflexivity.
  - apply qualified_ne_unqualified; [reflexivity|exact Hu].
Qed.

Lemma str_eqb_sc_refl a : str_eqb_sc a a = true.
Proof. induction a as [|x a IH]; cbn [str_eqb_sc]; [reflexivity|]. rewrite N.eqb_refl. exact IH. Qed.

Lemma nodup_str_NoDup l : nodup_str l = true -> NoDup l.
Proof.
  induction l as [|x l IH]; cbn [nodup_str]; intros H; [constructor|].
  apply andb_true_iff in H as [H1 H2]. constructor; [|apply IH; exact H2].
  intros Hi. apply negb_true_iff in H1.
  assert (Hex : existsb (str_eqb_sc x) l = true).
  { apply existsb_exists. exists x. split; [exact Hi|apply str_eqb_sc_refl]. }
  rewrite Hex in H1. discriminate.
Qed.

Lemma names_distinct_NoDup tbl : names_distinct tbl = true -> NoDup tbl.
Proof.
  intros H. apply nodup_str_NoDup in H. revert H.
  induction tbl as [|x l IH]; cbn [map]; intros H; [constructor|].
  inversion H as [|? ? Hni Hnd]; subst. constructor; [|apply IH; exact Hnd].
  intros Hi. apply Hni. apply in_map. exact Hi.
Qed.

(* the intern table is injective: different ids, different texts *)
Lemma name_of_inj tbl a b :
  names_distinct tbl = true -> (N.to_nat a < List.length tbl)%nat -> (N.to_nat b < List.length tbl)%nat ->
  name_of tbl a = name_of tbl b -> a = b.
Proof.
  intros Hnd Ha Hb He. unfold name_of in He.
  apply names_distinct_NoDup in Hnd.
  apply N2Nat.inj. rewrite NoDup_nth in Hnd. apply (Hnd _ _ Ha Hb He).
Qed.

Section Lookalike.
  Variable nm : N -> str.

  Lemma lookalike_not_key keys q d :
    lookalike_free nm keys = true -> In d keys -> lookalike nm q d = true -> ~ In q keys.
  Proof.
    intros Hf Hd Hl Hq. unfold lookalike in Hl. apply andb_true_iff in Hl as [Hs Hne].
    unfold lookalike_free in Hf. rewrite forallb_forall in Hf. specialize (Hf q Hq).
    rewrite forallb_forall in Hf. specialize (Hf d Hd).
    apply orb_true_iff in Hf as [He|Hn].
    - apply N.eqb_eq in He. subst q. rewrite str_eqb_refl in Hne. discriminate.
    - rewrite Hs in Hn. discriminate.
  Qed.

  (* when every key of the table is unqualified, a qualified name is not a key *)
  Lemma qualified_not_key keys q :
    forallb (fun d => unqualified (nm d)) keys = true -> unqualified (nm q) = false -> ~ In q keys.
  Proof.
    intros Hall Hq Hi. rewrite forallb_forall in Hall. specialize (Hall q Hi). rewrite Hall in Hq. discriminate.
  Qed.
End Lookalike.

(* ------------------------------------------------- what parse does with one attribute / child *)
Lemma nodupN_app_r a b : nodupN (a ++ b) = true -> NoDup b.
Proof. intros H. apply nodupN_NoDup in H. eapply NoDup_app_r; exact H. Qed.

(* the member of a declared attribute is read from the attribute of exactly that name
   (or keeps the value __init__ preset) *)
Lemma parse_attrs_lookup r attrs d :
  NoDup (map a_member (k_attrs r)) -> In d (k_attrs r) ->
  alookup (a_member d) (parse_attrs r attrs)
  = match alookup (a_xml d) attrs with
    | Some v => Some v
    | None => alookup (a_member d) (k_defaults r)
    end.
Proof.
  unfold parse_attrs. generalize (k_defaults r) as dfl. intros dfl.
  induction (k_attrs r) as [|a L IH]; intros Hnd Hin; [destruct Hin|].
  cbn [map] in Hnd. inversion Hnd as [|? ? Hni Hnd']; subst. cbn [flat_map].
  rewrite alookup_app.
  assert (Hrest : forall a0, In a0 L -> a_member a0 <> a_member a).
  { intros a0 Ha0 He. apply Hni. rewrite <- He. apply in_map; exact Ha0. }
  destruct Hin as [->|Hin].
  - assert (Hnone : alookup (a_member d)
              (flat_map (fun a => match alookup (a_xml a) attrs with
                                  | Some v => [(a_member a, v)]
                                  | None => match alookup (a_member a) dfl with Some d0 => [(a_member a, d0)] | None => [] end
                                  end) L) = None).
    { apply alookup_None. intros Hi. apply in_map_iff in Hi as [[k v] [Hk Hi]]. cbn in Hk; subst k.
      apply in_flat_map in Hi as [b [Hb Hi]]. apply (Hrest b Hb).
      destruct (alookup (a_xml b) attrs).
      - destruct Hi as [Hi|[]]. injection Hi as He _. exact He.
      - destruct (alookup (a_member b) dfl); [|destruct Hi]. destruct Hi as [Hi|[]]. injection Hi as He _. exact He. }
    destruct (alookup (a_xml d) attrs) as [v|]; cbn [alookup].
    + rewrite N.eqb_refl. reflexivity.
    + destruct (alookup (a_member d) dfl) as [d0|]; cbn [alookup]; [rewrite N.eqb_refl; reflexivity|exact Hnone].
  - specialize (Hrest d Hin).
    assert (Hne : (a_member a =? a_member d) = false) by (apply N.eqb_neq; congruence).
    destruct (alookup (a_xml a) attrs) as [v|]; cbn [alookup].
    + rewrite Hne. apply IH; assumption.
    + destruct (alookup (a_member a) dfl) as [d0|]; cbn [alookup]; [rewrite Hne|]; apply IH; assumption.
Qed.

Section ParseOne.
  Variables (NIL TYPE XMLNS_XS : N).
  Notation parse := (parse NIL TYPE XMLNS_XS).

  (* an attribute whose full name is not a declared one is kept, with its value, as extension
     attribute; a child whose tag is not a key of c_children is kept WHOLE (attributes, text,
     children at every depth) as extension element *)
  Theorem foreign_one_kept S c tag attrs text kids c2 a t K xa xe r :
    parse S c (X tag attrs text kids) = Ok (I c2 a t K xa xe) ->
    find_row S c = Some r -> over_kind r = OGeneric ->
    (forall q v, In (q, v) attrs -> ~ In q (map a_xml (k_attrs r)) -> In (q, v) xa) /\
    (forall k, In k kids -> ~ In (xtag k) (map c_tagkey (k_children r)) -> In k xe).
  Proof.
    intros Hp Hrow Hgen.
    destruct (foreign_kept NIL TYPE XMLNS_XS S c tag attrs text kids c2 a t K xa xe r Hp Hrow Hgen) as (Hxe & Hxa & _).
    subst xe xa. split.
    - intros q v Hin Hn. apply filter_In. split; [exact Hin|]. cbn [fst].
      apply negb_true_iff, memN_false. exact Hn.
    - intros k Hin Hn. apply filter_In. split; [exact Hin|].
      apply negb_true_iff, memN_false. exact Hn.
  Qed.

  (* ... and the declared attribute next to it is read from its own name only *)
  Theorem declared_attr_read S c tag attrs text kids c2 a t K xa xe r d :
    parse S c (X tag attrs text kids) = Ok (I c2 a t K xa xe) ->
    find_row S c = Some r -> over_kind r = OGeneric -> In d (k_attrs r) ->
    alookup (a_member d) a
    = match alookup (a_xml d) attrs with Some v => Some v | None => alookup (a_member d) (k_defaults r) end.
  Proof.
    intros Hp Hrow Hgen Hd. rewrite parse_unfold in Hp. unfold parse_node in Hp. rewrite Hrow in Hp.
    destruct (negb (tag =? k_qtag r)); [discriminate|].
    destruct (negb (k_init_ok r)); [discriminate|].
    destruct (nodupN (declared_members r)) eqn:End; cbn [negb] in Hp; [|discriminate].
    destruct (sequence _) as [cl|]; [|discriminate]. rewrite Hgen in Hp. inversion Hp; subst.
    apply parse_attrs_lookup; [|exact Hd].
    unfold declared_members, attr_members in End. eapply nodupN_app_r; exact End.
  Qed.
End ParseOne.

(* -------------------------------------------------------------- documents *)
Section XtreeInd.
  Variable P : xtree -> Prop.
  Hypothesis HX : forall t a tx k, Forall P k -> P (X t a tx k).
  Fixpoint xtree_ind' (x : xtree) : P x :=
    match x with
    | X t a tx k =>
        HX t a tx k
          ((fix go (l : list xtree) : Forall P l :=
              match l with
              | [] => Forall_nil _
              | y :: l' => Forall_cons y (xtree_ind' y) (go l')
              end) k)
    end.
End XtreeInd.

Lemma forget_embed : forall x, forget (embed x) = x.
Proof.
  apply xtree_ind'. intros t a tx k IH. cbn [embed forget]. f_equal.
  rewrite map_map. induction IH as [|y l Hy _ IHl]; cbn [map]; [reflexivity|].
  rewrite Hy, IHl. reflexivity.
Qed.

Lemma no_tail_embed : forall x, no_tail (embed x) = true.
Proof.
  apply xtree_ind'. intros t a tx k IH. cbn [embed no_tail].
  apply forallb_forall. intros d Hd. apply in_map_iff in Hd as [y [Hy Hin]]. subst d.
  rewrite Forall_forall in IH. apply IH. exact Hin.
Qed.

Lemma xtag_forget d : xtag (forget d) = dtag d.
Proof. destruct d; reflexivity. Qed.

Section Doc.
  Variables (NIL TYPE XMLNS_XS : N).
  Hypothesis HNT : NIL <> TYPE.
  Notation parse_doc := (parse_doc NIL TYPE XMLNS_XS).
  Notation wf_inst := (wf_inst NIL TYPE XMLNS_XS).

  (* tails never influence what is parsed *)
  Theorem tails_ignored S c d1 d2 : forget d1 = forget d2 -> parse_doc S c d1 = parse_doc S c d2.
  Proof. intros He. unfold SchemaDoc.parse_doc. rewrite He. reflexivity. Qed.

  (* the round trip on documents: the serialised document carries no tail anywhere, parses
     back to the canonical representative, which serialises to the same document *)
  Theorem doc_roundtrip S i :
    wf_inst S i = true ->
    exists c d, cls_of i = Some c /\ serialise_doc S i = Ok d /\ no_tail d = true /\
      parse_doc S c d = Ok (norm S i) /\ serialise_doc S (norm S i) = Ok d.
  Proof.
    intros Hwf.
    destruct (roundtrip_parse NIL TYPE XMLNS_XS HNT S i Hwf) as (c & r & Hc & Hr & Hs & Ht & Hp & Hn).
    exists c, (embed (ser_tot S i)). split; [exact Hc|].
    unfold serialise_doc, SchemaDoc.parse_doc. rewrite Hs. split; [reflexivity|].
    split; [apply no_tail_embed|]. rewrite forget_embed. split; [exact Hp|].
    rewrite (norm_serialise NIL TYPE XMLNS_XS HNT S i Hwf), Hs. reflexivity.
  Qed.

  (* unknown children of a document are kept whole - their text and their children at every
     depth, verbatim - except for the tails, which no object holds *)
  Theorem doc_foreign_kept S c tag attrs text tail kids c2 a t K xa xe r :
    parse_doc S c (D tag attrs text tail kids) = Ok (I c2 a t K xa xe) ->
    find_row S c = Some r -> over_kind r = OGeneric ->
    xe = map forget (filter (fun k => negb (memN (dtag k) (map c_tagkey (k_children r)))) kids) /\
    xa = filter (fun p => negb (memN (fst p) (map a_xml (k_attrs r)))) attrs /\ t = text.
  Proof.
    intros Hp Hrow Hgen. unfold SchemaDoc.parse_doc in Hp. cbn [forget] in Hp.
    destruct (foreign_kept NIL TYPE XMLNS_XS S c tag attrs text (map forget kids) c2 a t K xa xe r Hp Hrow Hgen)
      as (Hxe & Hxa & Ht).
    split; [|split; assumption]. rewrite Hxe. clear.
    induction kids as [|k l IH]; cbn [map filter]; [reflexivity|].
    rewrite xtag_forget. destruct (negb (memN (dtag k) (map c_tagkey (k_children r)))); cbn [map]; [f_equal|]; exact IH.
  Qed.
End Doc.
