(* Proofs/PickBinding_lemmas.v — what Entity.pick_binding / response_args can
   answer, for every metadata store, configuration and request. *)
From PV Require Import Lib.Base Model.PickBinding.
Open Scope N_scope.

(* ------------------------------------------------------------------ *)
(* lookups                                                             *)
(* ------------------------------------------------------------------ *)
Lemma find_entity_some s eid e : find_entity s eid = Some e -> In e s /\ en_id e = eid.
Proof.
  induction s as [|x s IH]; cbn [find_entity]; [discriminate|].
  destruct (str_eqb_spec (en_id x) eid) as [Heq|Hne]; intros H.
  - injection H as <-. split; [left; reflexivity|exact Heq].
  - destruct (IH H) as [Hi He]. split; [right; exact Hi|exact He].
Qed.

Lemma find_entity_none s eid : find_entity s eid = None -> forall e, In e s -> en_id e <> eid.
Proof.
  induction s as [|x s IH]; cbn [find_entity]; intros H e Hin; [destruct Hin|].
  destruct (str_eqb_spec (en_id x) eid) as [Heq|Hne]; [discriminate|].
  destruct Hin as [<-|Hin]; [exact Hne|exact (IH H e Hin)].
Qed.

Lemma find_role_some rs k ds : find_role rs k = Some ds -> In (k, ds) rs.
Proof.
  induction rs as [|[k' d'] rs IH]; cbn [find_role]; [discriminate|].
  destruct (str_eqb_spec k' k) as [Heq|Hne]; intros H.
  - injection H as <-. subst k'. left; reflexivity.
  - right; exact (IH H).
Qed.

Lemma filter_binding_ok srvs b : forall l, filter_binding srvs b = Ok l ->
  forall sv, In sv l -> In sv srvs /\ sv_binding sv = Some b.
Proof.
  induction srvs as [|x srvs IH]; cbn [filter_binding]; intros l H sv Hin.
  - injection H as <-. destruct Hin.
  - destruct (sv_binding x) as [bx|] eqn:Hbx; [|discriminate].
    destruct (filter_binding srvs b) as [l'|e] eqn:Hf; [|discriminate].
    injection H as <-.
    destruct (str_eqb_spec bx b) as [Heq|Hne].
    + destruct Hin as [<-|Hin].
      * split; [left; reflexivity|congruence].
      * destruct (IH l' eq_refl sv Hin) as [H1 H2]. split; [right; exact H1|exact H2].
    + destruct (IH l' eq_refl sv Hin) as [H1 H2]. split; [right; exact H1|exact H2].
Qed.

Lemma in_services sname descs sv :
  In sv (List.concat (map (of_type sname) descs)) ->
  exists d, In d descs /\ In sv d /\ sv_type sv = sname.
Proof.
  intros H. apply in_concat in H as [l [Hl Hsv]].
  apply in_map_iff in Hl as [d [<- Hd]].
  unfold of_type in Hsv. apply filter_In in Hsv as [Hsv Ht].
  exists d. split; [exact Hd|]. split; [exact Hsv|]. apply str_eqb_eq; exact Ht.
Qed.

(* the endpoint dict comes from this source, entity, role and service list *)
Definition in_source (s : source) (eid typ sname : str) (sv : service) : Prop :=
  exists e descs d, In e s /\ en_id e = eid /\ In (typ, descs) (en_roles e) /\
                    In d descs /\ In sv d /\ sv_type sv = sname.

Lemma src_service_list s eid typ sname b l :
  src_service s eid typ sname b = Ok (SList l) ->
  forall sv, In sv l -> in_source s eid typ sname sv /\ sv_binding sv = Some b.
Proof.
  unfold src_service. intros H sv Hin.
  destruct (find_entity s eid) as [e|] eqn:He; [|discriminate].
  destruct (find_role (en_roles e) typ) as [descs|] eqn:Hr; [|discriminate].
  apply find_entity_some in He as [He1 He2]. apply find_role_some in Hr.
  remember (List.concat (map (of_type sname) descs)) as srvs eqn:Hs.
  destruct srvs as [|x srvs'].
  - injection H as <-. destruct Hin.
  - destruct (py_truthy b).
    + destruct (filter_binding (x :: srvs') b) as [l'|err] eqn:Hf; [|discriminate].
      injection H as <-.
      destruct (filter_binding_ok _ _ _ Hf sv Hin) as [H1 H2].
      split; [|exact H2]. rewrite Hs in H1. apply in_services in H1 as [d [Hd [Hsv Ht]]].
      exists e, descs, d. repeat split; assumption.
    + destruct (forallb _ (x :: srvs')); discriminate.
Qed.

(* a source that does not describe (eid, typ) answers None whatever the binding *)
Lemma src_service_unknown s eid typ sname b :
  (forall e descs, In e s -> en_id e = eid -> ~ In (typ, descs) (en_roles e)) ->
  src_service s eid typ sname b = Ok SNone.
Proof.
  intros Hno. unfold src_service.
  destruct (find_entity s eid) as [e|] eqn:He; [|reflexivity].
  destruct (find_role (en_roles e) typ) as [descs|] eqn:Hr; [|reflexivity].
  apply find_entity_some in He as [He1 He2]. apply find_role_some in Hr.
  exfalso. exact (Hno e descs He1 He2 Hr).
Qed.

Lemma store_service_list md : forall known eid typ sname b l,
  store_service_from md known eid typ sname b = Ok (SList l) ->
  forall sv, In sv l ->
    (exists src, In src md /\ in_source src eid typ sname sv) /\ sv_binding sv = Some b.
Proof.
  induction md as [|s md IH]; intros known eid typ sname b l H sv Hin; cbn [store_service_from] in H.
  - destruct known; discriminate.
  - destruct (src_service s eid typ sname b) as [r|e] eqn:Hs; [|discriminate].
    destruct (sres_truthy r) eqn:Ht.
    + injection H as ->. destruct (src_service_list _ _ _ _ _ _ Hs sv Hin) as [H1 H2].
      split; [exists s; split; [left; reflexivity|exact H1]|exact H2].
    + assert (exists k, store_service_from md k eid typ sname b = Ok (SList l)) as [k Hk].
      { destruct r; eexists; exact H. }
      destruct (IH _ _ _ _ _ _ Hk sv Hin) as [[src [Hsrc Hin']] H2].
      split; [exists src; split; [right; exact Hsrc|exact Hin']|exact H2].
Qed.

(* no source describes (eid, typ): UnknownSystemEntity, for every binding *)
Lemma store_service_unknown md eid typ sname b :
  (forall src e descs, In src md -> In e src -> en_id e = eid -> ~ In (typ, descs) (en_roles e)) ->
  store_service_from md false eid typ sname b = Err E_UnknownEnt.
Proof.
  induction md as [|s md IH]; intros Hno; cbn [store_service_from]; [reflexivity|].
  rewrite (src_service_unknown s eid typ sname b).
  - cbn [sres_truthy]. apply IH. intros src e descs Hsrc. apply Hno. right; exact Hsrc.
  - intros e descs. apply Hno. left; reflexivity.
Qed.

Lemma sfunc_list md s eid b descr l :
  sfunc md s eid b descr = Ok (SList l) ->
  forall sv, In sv l -> registered_sv md eid (role_key s descr) s sv /\ sv_binding sv = Some b.
Proof.
  unfold sfunc, store_service. intros H sv Hin.
  destruct (store_service_list _ _ _ _ _ _ _ H sv Hin)
    as [[src [Hsrc (e & descs & d & H1 & H2 & H3 & H4 & H5 & H6)]] Hb].
  split; [|exact Hb]. exists src, e, descs, d. repeat split; assumption.
Qed.

(* ------------------------------------------------------------------ *)
(* the three ways of choosing among the services of one binding        *)
(* ------------------------------------------------------------------ *)
Lemma find_url_true srvs u : find_url srvs u = Ok true ->
  exists sv, In sv srvs /\ sv_location sv = Some u.
Proof.
  induction srvs as [|x srvs IH]; cbn [find_url]; [discriminate|].
  destruct (sv_location x) as [l|] eqn:Hl; [|discriminate].
  destruct (str_eqb_spec l u) as [->|Hne]; intros H.
  - exists x. split; [left; reflexivity|exact Hl].
  - destruct (IH H) as [sv [Hin Hsv]]. exists sv. split; [right; exact Hin|exact Hsv].
Qed.

Lemma find_index_some srvs i d : find_index srvs i = Ok (Some d) ->
  exists sv, In sv srvs /\ sv_index sv = Some i /\ sv_location sv = Some d.
Proof.
  induction srvs as [|x srvs IH]; cbn [find_index]; [discriminate|].
  destruct (sv_index x) as [j|] eqn:Hj; [|discriminate].
  destruct (str_eqb_spec j i) as [->|Hne]; intros H.
  - destruct (sv_location x) as [l|] eqn:Hl; [|discriminate]. injection H as ->.
    exists x. split; [left; reflexivity|]. split; [exact Hj|exact Hl].
  - destruct (IH H) as [sv [Hin Hsv]]. exists sv. split; [right; exact Hin|exact Hsv].
Qed.

Lemma destinations_head srvs d ds : destinations srvs = Ok (d :: ds) ->
  exists sv, In sv srvs /\ sv_location sv = Some d.
Proof.
  destruct srvs as [|x srvs]; cbn [destinations]; [discriminate|].
  destruct (sv_location x) as [l|] eqn:Hl; [|discriminate].
  destruct (destinations srvs) as [ls|e]; [|discriminate].
  intros H. injection H as H1 H2. subst. exists x. split; [left; reflexivity|exact Hl].
Qed.

(* what an answer [d] chosen from [srvs] satisfies *)
Definition answer_ok (srvs : list service) (url idx : option str) (d : str) : Prop :=
  exists sv, In sv srvs /\ sv_location sv = Some d /\
    (opt_truthy url = true -> url = Some d) /\
    (opt_truthy url = false -> opt_truthy idx = true -> sv_index sv = idx).

Lemma try_binding_some r url idx d : try_binding r url idx = Ok (Some d) ->
  exists srvs, r = SList srvs /\ answer_ok srvs url idx d.
Proof.
  unfold try_binding. destruct r as [|srvs|]; [discriminate| |discriminate].
  intros H. exists srvs. split; [reflexivity|].
  destruct (opt_truthy url) eqn:Hu.
  - destruct url as [u|]; [|discriminate].
    destruct (find_url srvs u) as [[|]|e] eqn:Hf; try discriminate.
    injection H as <-. destruct (find_url_true _ _ Hf) as [sv [Hin Hl]].
    exists sv. split; [exact Hin|]. split; [exact Hl|]. split; [reflexivity|].
    intros Hc. rewrite Hu in Hc. discriminate.
  - destruct (opt_truthy idx) eqn:Hi.
    + destruct idx as [i|]; [|discriminate].
      destruct (find_index_some _ _ _ H) as [sv [Hin [Hj Hl]]].
      exists sv. split; [exact Hin|]. split; [exact Hl|]. split.
      * intros Hc. rewrite Hu in Hc. discriminate.
      * intros _ _. exact Hj.
    + destruct (destinations srvs) as [[|d0 ds]|e] eqn:Hd; try discriminate.
      injection H as <-. destruct (destinations_head _ _ _ Hd) as [sv [Hin Hl]].
      exists sv. split; [exact Hin|]. split; [exact Hl|]. split.
      * intros Hc. rewrite Hu in Hc. discriminate.
      * intros _ Hc. rewrite Hi in Hc. discriminate.
Qed.

(* ------------------------------------------------------------------ *)
(* the loop                                                            *)
(* ------------------------------------------------------------------ *)
(* the post-condition of pick_binding's loop: the answer is an endpoint the
   metadata registers, under one of the admitted bindings; a truthy URL is
   answered only to itself; a consulted index only to an endpoint carrying it *)
Definition pb_post (md : mdstore) (s : svc) (eid descr : str) (url idx : option str)
           (bl : list str) (b d : str) : Prop :=
  In b bl /\
  exists sv, registered_sv md eid (role_key s descr) s sv /\ sv_binding sv = Some b /\
             sv_location sv = Some d /\
             (opt_truthy url = true -> url = Some d) /\
             (opt_truthy url = false -> opt_truthy idx = true -> sv_index sv = idx).

Lemma pb_post_cons md s eid descr url idx b0 bl b d :
  pb_post md s eid descr url idx bl b d -> pb_post md s eid descr url idx (b0 :: bl) b d.
Proof. intros [Hin H]. split; [right; exact Hin|exact H]. Qed.

Lemma pb_loop_ok md s eid descr url idx : forall bl b d,
  pb_loop md s eid descr url idx bl = Ok (b, d) -> pb_post md s eid descr url idx bl b d.
Proof.
  induction bl as [|b0 bl IH]; intros b d H; cbn [pb_loop] in H; [discriminate|].
  destruct (sfunc md s eid b0 descr) as [r|e] eqn:Hs.
  - destruct (sres_truthy r) eqn:Ht; [|exact (pb_post_cons _ _ _ _ _ _ _ _ _ _ (IH _ _ H))].
    destruct (try_binding r url idx) as [[d'|]|e] eqn:Htb;
      [|exact (pb_post_cons _ _ _ _ _ _ _ _ _ _ (IH _ _ H))|discriminate].
    injection H as <- <-.
    destruct (try_binding_some _ _ _ _ Htb) as [srvs [-> (sv & Hin & Hl & Hu & Hi)]].
    destruct (sfunc_list _ _ _ _ _ _ Hs sv Hin) as [Hreg Hb].
    split; [left; reflexivity|]. exists sv. repeat split; assumption.
  - destruct (str_eqb e E_Unsupported); [exact (pb_post_cons _ _ _ _ _ _ _ _ _ _ (IH _ _ H))|discriminate].
Qed.

(* nothing describes (eid, role): the loop can only fail *)
Lemma pb_loop_unknown md s eid descr url idx :
  (forall src e descs, In src md -> In e src -> en_id e = eid ->
                       ~ In (role_key s descr, descs) (en_roles e)) ->
  forall bl, pb_loop md s eid descr url idx bl = Err E_SAML \/
             pb_loop md s eid descr url idx bl = Err E_UnknownEnt.
Proof.
  intros Hno [|b0 bl]; cbn [pb_loop]; [left; reflexivity|].
  unfold sfunc, store_service. rewrite (store_service_unknown _ _ _ _ _ Hno).
  right. reflexivity.
Qed.

(* ------------------------------------------------------------------ *)
(* pick_binding with a request and no explicit entity id               *)
(* ------------------------------------------------------------------ *)
Lemma pick_binding_req_ok both c md s bindings dt r b d :
  pick_binding_with both c md s bindings dt (Some r) [] = Ok (b, d) ->
  exists eid bl, request_entity r = Ok eid /\ (forall l, bindings = Some l -> bl = l) /\
    pb_post md s eid (default_descr c dt)
            (fst (read_url_index both r)) (snd (read_url_index both r)) bl b d.
Proof.
  unfold pick_binding_with. cbn [py_truthy].
  destruct (request_entity r) as [eid|e] eqn:He; cbn [bind]; [|discriminate].
  match goal with |- context [bind ?X _] => destruct X as [bl|e] eqn:Hbl end; cbn [bind]; [|discriminate].
  intros H. exists eid, bl. split; [reflexivity|]. split.
  - intros l ->. cbn [binding_list] in Hbl. injection Hbl as <-. reflexivity.
  - exact (pb_loop_ok _ _ _ _ _ _ _ _ _ H).
Qed.

Lemma pick_binding_req_err both c md s bindings dt r e :
  request_entity r = Err e ->
  pick_binding_with both c md s bindings dt (Some r) [] = Err e.
Proof. intros H. unfold pick_binding_with. cbn [py_truthy]. rewrite H. reflexivity. Qed.

Lemma pick_binding_req_unknown both c md s bindings dt r eid :
  request_entity r = Ok eid ->
  (forall src e descs, In src md -> In e src -> en_id e = eid ->
                       ~ In (role_key s (default_descr c dt), descs) (en_roles e)) ->
  exists e, pick_binding_with both c md s bindings dt (Some r) [] = Err e.
Proof.
  intros He Hno. unfold pick_binding_with. cbn [py_truthy]. rewrite He. cbn [bind].
  match goal with |- context [bind ?X _] => destruct X as [bl|e] end; cbn [bind]; [|eexists; reflexivity].
  destruct (pb_loop_unknown md s eid (default_descr c dt) (fst (read_url_index both r))
                            (snd (read_url_index both r)) Hno bl) as [-> | ->]; eexists; reflexivity.
Qed.

(* ------------------------------------------------------------------ *)
(* response_args                                                       *)
(* ------------------------------------------------------------------ *)
Lemma default_descr_truthy c dt : py_truthy (default_descr c dt) = true.
Proof.
  unfold default_descr. destruct (py_truthy dt) eqn:H; [exact H|]. destruct (cf_is_sp c); reflexivity.
Qed.

Lemma default_descr_idem c dt : default_descr c (default_descr c dt) = default_descr c dt.
Proof.
  unfold default_descr at 1. rewrite default_descr_truthy. reflexivity.
Qed.

Lemma soap_only_dec bindings :
  match bindings with Some [b] => str_eqb b B_SOAP | _ => false end = true -> soap_only bindings.
Proof.
  unfold soap_only. destruct bindings as [[|b [|b' l]]|]; try discriminate.
  intros H. apply str_eqb_eq in H. subst. reflexivity.
Qed.

Lemma soap_only_true bindings : soap_only bindings ->
  match bindings with Some [b] => str_eqb b B_SOAP | _ => false end = true.
Proof. unfold soap_only. intros ->. apply str_eqb_refl. Qed.

(* the role under which the service is looked up, as response_args ends up
   passing it: [role_key s (default_descr c (default_descr c dt'))] *)
Lemma role_key_kind c k s dt dt' :
  kind_service k = Some s ->
  match k with
  | KAuthn | KAttrQuery => dt' = s2l "spsso"
  | _ => dt' = dt
  end ->
  role_key s (default_descr c (default_descr c dt')) = kind_role c k dt.
Proof.
  rewrite default_descr_idem.
  destruct k; cbn [kind_service]; intros Hs Hdt; try discriminate; injection Hs as <-;
    subst; reflexivity.
Qed.

(* the general shape of a successful response_args: either the SOAP short-cut,
   or pick_binding's post-condition for the message's service and role *)
Definition ra_post (both : bool) (c : config) (md : mdstore) (r : request)
           (bindings : option (list str)) (dt : str) (b d : str) : Prop :=
  exists s eid bl,
    kind_service (rq_kind r) = Some s /\ request_entity r = Ok eid /\
    (forall l, bindings = Some l -> bl = l) /\
    In b bl /\
    exists sv, registered_sv md eid (kind_role c (rq_kind r) dt) s sv /\
               sv_binding sv = Some b /\ sv_location sv = Some d /\
               (opt_truthy (fst (read_url_index both r)) = true -> fst (read_url_index both r) = Some d) /\
               (opt_truthy (fst (read_url_index both r)) = false ->
                opt_truthy (snd (read_url_index both r)) = true ->
                sv_index sv = snd (read_url_index both r)).

Lemma response_args_ok both c md r bindings dt b d :
  response_args_with both c md r bindings dt = Ok (Some (b, d)) ->
  (soap_only bindings /\ b = B_SOAP /\ d = []) \/
  (~ soap_only bindings /\ ra_post both c md r bindings dt b d).
Proof.
  unfold response_args_with.
  match goal with |- context [bind ?X _] => destruct X as [[os dt']|e] eqn:Hsd end; cbn [bind fst snd]; [|discriminate].
  destruct (match bindings with Some [b0] => str_eqb b0 B_SOAP | _ => false end) eqn:Hsoap.
  - intros H. injection H as <- <-. left. split; [exact (soap_only_dec _ Hsoap)|]. split; reflexivity.
  - destruct os as [s|]; [|discriminate].
    destruct (pick_binding_with both c md s bindings (default_descr c dt') (Some r) []) as [[b1 d1]|e] eqn:Hpb;
      [|discriminate].
    intros H. injection H as <- <-. right. split.
    { intros Hso. rewrite (soap_only_true _ Hso) in Hsoap. discriminate. }
    destruct (pick_binding_req_ok _ _ _ _ _ _ _ _ _ Hpb) as (eid & bl & He & Hbl & Hin & sv & Hreg & Hb & Hl & Hu & Hi).
    assert (kind_service (rq_kind r) = Some s /\
            role_key s (default_descr c (default_descr c dt')) = kind_role c (rq_kind r) dt) as [Hks Hrole].
    { destruct (rq_kind r) eqn:Hk; cbn [kind_service] in *.
      - destruct (rq_issuer r); [|discriminate]. injection Hsd as <- <-. split; [reflexivity|].
        apply (role_key_kind c KAuthn ACS dt); reflexivity.
      - injection Hsd as <- <-. split; [reflexivity|]. apply (role_key_kind c KLogout SLO dt); reflexivity.
      - destruct (rq_issuer r); [|discriminate]. injection Hsd as <- <-. split; [reflexivity|].
        apply (role_key_kind c KAttrQuery AttrCS dt); reflexivity.
      - injection Hsd as <- <-. split; [reflexivity|]. apply (role_key_kind c KManageNameID MNI dt); reflexivity.
      - injection Hsd as Hx _. discriminate.
      - discriminate. }
    exists s, eid, bl. split; [exact Hks|]. split; [exact He|]. split; [exact Hbl|]. split; [exact Hin|].
    exists sv. rewrite <- Hrole. repeat split; assumption.
Qed.

(* Ok None (no binding / destination keys) only for the SOAP-only message classes *)
Lemma response_args_none both c md r bindings dt :
  response_args_with both c md r bindings dt = Ok None -> kind_service (rq_kind r) = None.
Proof.
  unfold response_args_with.
  match goal with |- context [bind ?X _] => destruct X as [[os dt']|e] eqn:Hsd end; cbn [bind fst snd]; [|discriminate].
  destruct (match bindings with Some [b0] => str_eqb b0 B_SOAP | _ => false end); [discriminate|].
  destruct os as [s|].
  - destruct (pick_binding_with both c md s bindings (default_descr c dt') (Some r) []) as [[b1 d1]|e]; discriminate.
  - intros _. destruct (rq_kind r); cbn [kind_service]; try reflexivity.
    + destruct (rq_issuer r); discriminate.
    + discriminate.
    + destruct (rq_issuer r); discriminate.
    + discriminate.
Qed.

(* (1) every answer is a registered endpoint *)
Lemma response_args_registered both c md r bindings dt b d :
  response_args_with both c md r bindings dt = Ok (Some (b, d)) ->
  (soap_only bindings /\ b = B_SOAP /\ d = []) \/
  (exists s eid, kind_service (rq_kind r) = Some s /\ request_entity r = Ok eid /\
                 registered md eid (kind_role c (rq_kind r) dt) s b d).
Proof.
  intros H. destruct (response_args_ok _ _ _ _ _ _ _ _ H) as [Hs|[_ (s & eid & bl & Hk & He & _ & _ & sv & Hreg & Hb & Hl & _)]].
  - left; exact Hs.
  - right. exists s, eid. split; [exact Hk|]. split; [exact He|]. exists sv. repeat split; assumption.
Qed.

(* (2) a supplied (truthy) URL is answered only to itself, and only when
   string-equal to a registered location *)
Lemma response_args_url both c md r bindings dt u b d :
  rq_url r = Has (Some u) -> py_truthy u = true -> ~ soap_only bindings ->
  response_args_with both c md r bindings dt = Ok (Some (b, d)) ->
  d = u /\ exists s eid, kind_service (rq_kind r) = Some s /\ request_entity r = Ok eid /\
                         registered md eid (kind_role c (rq_kind r) dt) s b u.
Proof.
  intros Hu Ht Hns H.
  destruct (response_args_ok _ _ _ _ _ _ _ _ H) as [[Hs _]|[_ (s & eid & bl & Hk & He & _ & _ & sv & Hreg & Hb & Hl & Hurl & _)]];
    [contradiction|].
  assert (fst (read_url_index both r) = Some u) as Hfst by (unfold read_url_index; rewrite Hu; reflexivity).
  rewrite Hfst in Hurl. cbn [opt_truthy] in Hurl. specialize (Hurl Ht). injection Hurl as Hud. subst d.
  split; [reflexivity|]. exists s, eid. split; [exact Hk|]. split; [exact He|]. exists sv. repeat split; assumption.
Qed.

(* a message class with a consumer service never yields Ok None, so `not
   answered` is `refused` *)
Lemma refused_of_not_answered both c md r bindings dt s :
  kind_service (rq_kind r) = Some s ->
  (forall b d, response_args_with both c md r bindings dt <> Ok (Some (b, d))) ->
  exists e, response_args_with both c md r bindings dt = Err e.
Proof.
  intros Hk Hno. destruct (response_args_with both c md r bindings dt) as [[[b d]|]|e] eqn:H.
  - exfalso. exact (Hno b d eq_refl).
  - apply response_args_none in H. congruence.
  - exists e. reflexivity.
Qed.

Lemma response_args_url_unregistered both c md r bindings dt u s eid :
  rq_url r = Has (Some u) -> py_truthy u = true -> ~ soap_only bindings ->
  kind_service (rq_kind r) = Some s -> request_entity r = Ok eid ->
  (forall b, ~ registered md eid (kind_role c (rq_kind r) dt) s b u) ->
  exists e, response_args_with both c md r bindings dt = Err e.
Proof.
  intros Hu Ht Hns Hk He Hno. apply (refused_of_not_answered _ _ _ _ _ _ s Hk).
  intros b d H. destruct (response_args_url _ _ _ _ _ _ _ _ _ Hu Ht Hns H) as [_ (s' & eid' & Hk' & He' & Hreg)].
  assert (s' = s) by congruence. assert (eid' = eid) by congruence. subst. exact (Hno b Hreg).
Qed.

(* (3) requester (under the consulted role) absent from metadata: refused *)
Lemma response_args_unknown both c md r bindings dt s :
  ~ soap_only bindings -> kind_service (rq_kind r) = Some s ->
  (forall eid, request_entity r = Ok eid ->
     forall src e descs, In src md -> In e src -> en_id e = eid ->
                         ~ In (kind_role c (rq_kind r) dt, descs) (en_roles e)) ->
  exists e, response_args_with both c md r bindings dt = Err e.
Proof.
  intros Hns Hk Hno. apply (refused_of_not_answered _ _ _ _ _ _ s Hk).
  intros b d H.
  destruct (response_args_registered _ _ _ _ _ _ _ _ H) as [[Hs _]|(s' & eid & _ & He & sv & (src & e & descs & dd & H1 & H2 & H3 & H4 & _) & _)];
    [contradiction|].
  exact (Hno eid He src e descs H1 H2 H3 H4).
Qed.

Lemma response_args_no_issuer both c md r bindings dt s e0 :
  ~ soap_only bindings -> kind_service (rq_kind r) = Some s -> request_entity r = Err e0 ->
  exists e, response_args_with both c md r bindings dt = Err e.
Proof.
  intros Hns Hk He. apply (refused_of_not_answered _ _ _ _ _ _ s Hk).
  intros b d H.
  destruct (response_args_registered _ _ _ _ _ _ _ _ H) as [[Hs _]|(s' & eid & _ & He' & _)]; [contradiction|congruence].
Qed.

(* ------------------------------------------------------------------ *)
(* (4) the index half                                                  *)
(* ------------------------------------------------------------------ *)
Definition set_index (r : request) (i : attr) : request :=
  {| rq_kind := rq_kind r; rq_issuer := rq_issuer r; rq_pbind := rq_pbind r; rq_url := rq_url r; rq_index := i |}.

(* the code BEFORE the repair: when the request object HAS a <service>_url
   attribute (every AuthnRequest), the index plays no role at all *)
Lemma index_ignored c md r bindings dt i :
  rq_url r <> Missing ->
  response_args_before_fix c md (set_index r i) bindings dt = response_args_before_fix c md r bindings dt.
Proof.
  intros Hu. unfold response_args_before_fix, response_args_with, pick_binding_with, binding_list, read_url_index, request_entity, set_index.
  cbn [rq_kind rq_issuer rq_pbind rq_url rq_index].
  destruct (rq_url r) as [|u]; [contradiction|]. reflexivity.
Qed.

(* when the index IS what gets consulted, the answer carries it *)
Lemma response_args_index both c md r bindings dt i b d :
  fst (read_url_index both r) = None \/ fst (read_url_index both r) = Some [] ->
  snd (read_url_index both r) = Some i -> py_truthy i = true -> ~ soap_only bindings ->
  response_args_with both c md r bindings dt = Ok (Some (b, d)) ->
  exists s eid sv, kind_service (rq_kind r) = Some s /\ request_entity r = Ok eid /\
                   registered_sv md eid (kind_role c (rq_kind r) dt) s sv /\
                   sv_binding sv = Some b /\ sv_location sv = Some d /\ sv_index sv = Some i.
Proof.
  intros Hu Hi Ht Hns H.
  destruct (response_args_ok _ _ _ _ _ _ _ _ H) as [[Hs _]|[_ (s & eid & bl & Hk & He & _ & _ & sv & Hreg & Hb & Hl & _ & Hidx)]];
    [contradiction|].
  exists s, eid, sv. repeat split; try assumption.
  rewrite Hi in Hidx. apply Hidx; [|exact Ht].
  destruct Hu as [-> | ->]; reflexivity.
Qed.

(* ------------------------------------------------------------------ *)
(* the other direction of (2): a registered URL is honoured            *)
(* ------------------------------------------------------------------ *)
Definition src_known (s : source) (eid typ : str) : bool :=
  match find_entity s eid with
  | Some e => match find_role (en_roles e) typ with Some _ => true | None => false end
  | None => false
  end.
Definition store_known (md : mdstore) (eid typ : str) : bool :=
  existsb (fun s => src_known s eid typ) md.

(* every endpoint dict the store holds for (eid, typ, sname) has Binding and
   Location — what loading schema-valid metadata gives *)
Definition src_complete (s : source) (eid typ sname : str) : Prop :=
  forall sv, in_source s eid typ sname sv -> sv_complete sv = true.
Definition store_complete (md : mdstore) (eid typ sname : str) : Prop :=
  forall src, In src md -> src_complete src eid typ sname.

Lemma filter_binding_total srvs b :
  (forall sv, In sv srvs -> sv_binding sv <> None) -> exists l, filter_binding srvs b = Ok l.
Proof.
  induction srvs as [|x srvs IH]; intros Hall; cbn [filter_binding]; [exists []; reflexivity|].
  destruct (sv_binding x) as [bx|] eqn:Hbx.
  - destruct IH as [l Hl]. { intros sv Hin. apply Hall. right; exact Hin. }
    rewrite Hl. eexists; reflexivity.
  - exfalso. exact (Hall x (or_introl eq_refl) Hbx).
Qed.

Lemma src_service_shape s eid typ sname b :
  src_complete s eid typ sname -> py_truthy b = true ->
  if src_known s eid typ then exists l, src_service s eid typ sname b = Ok (SList l)
  else src_service s eid typ sname b = Ok SNone.
Proof.
  intros Hc Hb. unfold src_known, src_service.
  destruct (find_entity s eid) as [e|] eqn:He; [|reflexivity].
  destruct (find_role (en_roles e) typ) as [descs|] eqn:Hr; [|reflexivity].
  apply find_entity_some in He as [He1 He2]. apply find_role_some in Hr.
  remember (List.concat (map (of_type sname) descs)) as srvs eqn:Hs.
  assert (Hall : forall sv, In sv srvs -> sv_binding sv <> None).
  { intros sv Hin. rewrite Hs in Hin. apply in_services in Hin as [d [Hd [Hsv Ht]]].
    assert (sv_complete sv = true) as Hcs.
    { apply Hc. exists e, descs, d. repeat split; assumption. }
    unfold sv_complete in Hcs. destruct (sv_binding sv); [discriminate|discriminate Hcs]. }
  destruct srvs as [|x srvs']; [exists []; reflexivity|].
  rewrite Hb. destruct (filter_binding_total (x :: srvs') b Hall) as [l Hl]. rewrite Hl.
  exists l; reflexivity.
Qed.

(* over complete metadata and a non-empty binding string, MetadataStore.service
   yields a non-empty list, or UnsupportedBinding when some source knows the
   entity under that role, or UnknownSystemEntity when none does *)
Lemma store_service_shape md eid typ sname b :
  store_complete md eid typ sname -> py_truthy b = true -> forall k,
  match store_service_from md k eid typ sname b with
  | Ok (SList (_ :: _)) => store_known md eid typ = true
  | Ok _ => False
  | Err e => e = if (k || store_known md eid typ)%bool then E_Unsupported else E_UnknownEnt
  end.
Proof.
  intros Hc Hb. unfold store_known.
  induction md as [|s md IH]; intros k; cbn [store_service_from existsb].
  - rewrite orb_false_r. destruct k; reflexivity.
  - assert (Hs := src_service_shape s eid typ sname b (Hc s (or_introl eq_refl)) Hb).
    assert (IH' := IH (fun src H => Hc src (or_intror H))).
    destruct (src_known s eid typ).
    + destruct Hs as [l Hl]. rewrite Hl. destruct l as [|x l]; cbn [sres_truthy orb].
      * specialize (IH' true). cbn [orb] in IH'.
        destruct (store_service_from md true eid typ sname b) as [[|[|y l']|]|e];
          try exact IH'; try reflexivity.
        rewrite orb_true_r. exact IH'.
      * reflexivity.
    + rewrite Hs. cbn [sres_truthy orb]. exact (IH' k).
Qed.

Lemma find_url_false l u : find_url l u = Ok false -> forall sv, In sv l -> sv_location sv <> Some u.
Proof.
  induction l as [|x l IH]; cbn [find_url]; intros H sv Hin; [destruct Hin|].
  destruct (sv_location x) as [lx|] eqn:Hl; [|discriminate].
  destruct (str_eqb_spec lx u) as [->|Hne]; [discriminate|].
  destruct Hin as [<-|Hin]; [congruence|exact (IH H sv Hin)].
Qed.

Lemma find_url_total l u :
  (forall sv, In sv l -> sv_location sv <> None) -> exists t, find_url l u = Ok t.
Proof.
  induction l as [|x l IH]; intros Hall; cbn [find_url]; [exists false; reflexivity|].
  destruct (sv_location x) as [lx|] eqn:Hl.
  - destruct (str_eqb lx u); [exists true; reflexivity|].
    apply IH. intros sv Hin. apply Hall. right; exact Hin.
  - exfalso. exact (Hall x (or_introl eq_refl) Hl).
Qed.

Lemma pb_loop_url_complete md s eid descr u idx :
  py_truthy u = true ->
  store_complete md eid (role_key s descr) (svc_name s) ->
  forall bl, Forall (fun b => py_truthy b = true) bl ->
  (exists b l sv, In b bl /\ sfunc md s eid b descr = Ok (SList l) /\ In sv l /\ sv_location sv = Some u) ->
  exists b', pb_loop md s eid descr (Some u) idx bl = Ok (b', u).
Proof.
  intros Hu Hc. unfold sfunc, store_service.
  induction bl as [|b0 bl IH]; intros Hall (b & l & sv & Hin & Hs & Hsv & Hl); [destruct Hin|].
  inversion Hall as [|? ? Hb0 Hall']; subst.
  assert (Hknown : store_known md eid (role_key s descr) = true).
  { assert (Hb : py_truthy b = true). { rewrite Forall_forall in Hall. exact (Hall b Hin). }
    pose proof (store_service_shape md eid _ _ b Hc Hb false) as Hsh. rewrite Hs in Hsh.
    destruct l; [destruct Hsh|exact Hsh]. }
  cbn [pb_loop]. unfold sfunc, store_service.
  pose proof (store_service_shape md eid _ _ b0 Hc Hb0 false) as Hsh0.
  destruct (store_service_from md false eid (role_key s descr) (svc_name s) b0) as [[|l0|]|e] eqn:Hs0.
  - destruct Hsh0.
  - destruct l0 as [|x0 l0]; [destruct Hsh0|]. cbn [sres_truthy try_binding opt_truthy]. rewrite Hu.
    assert (Hloc : forall sv', In sv' (x0 :: l0) -> sv_location sv' <> None).
    { intros sv' Hin'. destruct (store_service_list _ _ _ _ _ _ _ Hs0 sv' Hin') as [[src [Hsrc Hins]] _].
      pose proof (Hc src Hsrc sv' Hins) as Hcs. unfold sv_complete in Hcs.
      destruct (sv_binding sv'); [|discriminate Hcs]. destruct (sv_location sv'); [discriminate|discriminate Hcs]. }
    destruct (find_url_total _ u Hloc) as [t Ht]. rewrite Ht. destruct t.
    + exists b0. reflexivity.
    + apply IH; [exact Hall'|]. destruct Hin as [<-|Hin].
      * exfalso. rewrite Hs0 in Hs. injection Hs as <-. exact (find_url_false _ _ Ht sv Hsv Hl).
      * exists b, l, sv. repeat split; assumption.
  - destruct Hsh0.
  - rewrite Hknown in Hsh0. cbn [orb] in Hsh0. subst e. rewrite str_eqb_refl.
    apply IH; [exact Hall'|]. destruct Hin as [<-|Hin]; [rewrite Hs0 in Hs; discriminate|].
    exists b, l, sv. repeat split; assumption.
Qed.

(* lifted to response_args: over complete metadata, if the URL the request
   names is the location of an endpoint that MetadataStore.service returns for
   one of the admitted bindings, the request is answered, to that URL *)
Lemma response_args_url_honoured both c md r bindings dt s eid bl u :
  kind_service (rq_kind r) = Some s -> ~ soap_only bindings ->
  request_entity r = Ok eid -> rq_url r = Has (Some u) -> py_truthy u = true ->
  binding_list c s bindings (Some r) = Ok bl -> Forall (fun b => py_truthy b = true) bl ->
  store_complete md eid (kind_role c (rq_kind r) dt) (svc_name s) ->
  (exists b l sv, In b bl /\ store_service md eid (kind_role c (rq_kind r) dt) (svc_name s) b = Ok (SList l) /\
                  In sv l /\ sv_location sv = Some u) ->
  exists b', response_args_with both c md r bindings dt = Ok (Some (b', u)).
Proof.
  intros Hk Hns He Hu Ht Hbl Hall Hc Hex.
  assert (Hsoap : match bindings with Some [b0] => str_eqb b0 B_SOAP | _ => false end = false).
  { destruct (match bindings with Some [b0] => str_eqb b0 B_SOAP | _ => false end) eqn:H; [|reflexivity].
    exfalso. exact (Hns (soap_only_dec _ H)). }
  assert (Hiss : rq_issuer r <> None).
  { unfold request_entity in He. destruct (rq_issuer r); [discriminate|discriminate He]. }
  assert (Hgen : forall dt', role_key s (default_descr c (default_descr c dt')) = kind_role c (rq_kind r) dt ->
            exists b', match pick_binding_with both c md s bindings (default_descr c dt') (Some r) [] with
                       | Err e => Err e | Ok bd => Ok (Some bd) end = Ok (Some (b', u))).
  { intros dt' Hrole. unfold pick_binding_with. cbn [py_truthy]. rewrite He. cbn [bind]. rewrite Hbl. cbn [bind].
    assert (read_url_index both r = (Some u, snd (read_url_index both r))) as ->.
    { unfold read_url_index. rewrite Hu. reflexivity. }
    cbn [fst snd].
    destruct (pb_loop_url_complete md s eid (default_descr c (default_descr c dt')) u
                (snd (read_url_index both r)) Ht) with (bl := bl) as [b' Hb'].
    - rewrite Hrole. exact Hc.
    - exact Hall.
    - unfold sfunc. rewrite Hrole. exact Hex.
    - exists b'. rewrite Hb'. reflexivity. }
  unfold response_args_with.
  destruct (rq_kind r) eqn:Hkind; cbn [kind_service] in Hk; try discriminate; injection Hk as <-.
  - destruct (rq_issuer r); [|contradiction]. cbn [bind fst snd]. rewrite Hsoap.
    apply Hgen. apply (role_key_kind c KAuthn ACS dt); reflexivity.
  - cbn [bind fst snd]. rewrite Hsoap. apply Hgen. apply (role_key_kind c KLogout SLO dt); reflexivity.
  - destruct (rq_issuer r); [|contradiction]. cbn [bind fst snd]. rewrite Hsoap.
    apply Hgen. apply (role_key_kind c KAttrQuery AttrCS dt); reflexivity.
  - cbn [bind fst snd]. rewrite Hsoap. apply Hgen. apply (role_key_kind c KManageNameID MNI dt); reflexivity.
Qed.
