From PV Require Import Lib.Base Model.MultiAssertion.
Import ListNotations.
Open Scope N_scope.

Lemma In_upd d k v kv : In kv (upd d k v) -> kv = (k, v) \/ In kv d.
Proof.
  induction d as [|[k' v'] r IH]; cbn.
  - intros [<-|[]]. left. reflexivity.
  - destruct (str_eqb k' k).
    + intros [<-|H]; [left; reflexivity|right; right; exact H].
    + intros [<-|H]; [right; left; reflexivity|]. destruct (IH H) as [->|H']; [left; reflexivity|right; right; exact H'].
Qed.

Lemma In_update e : forall d kv, In kv (update d e) -> In kv d \/ In kv e.
Proof.
  induction e as [|[k v] e IH]; intros d kv H; cbn in *.
  - left. exact H.
  - apply IH in H as [H|H].
    + apply In_upd in H as [->|H]; [right; left; reflexivity|left; exact H].
    + right. right. exact H.
Qed.

Lemma In_identity_from l : forall acc kv,
  In kv (fold_left (fun d a => update d (a_ident a)) l acc) ->
  In kv acc \/ exists a, In a l /\ In kv (a_ident a).
Proof.
  induction l as [|a l IH]; intros acc kv H; cbn in *.
  - left. exact H.
  - apply IH in H as [H|(b & Hb & Hkv)].
    + apply In_update in H as [H|H]; [left; exact H|right; exists a; split; [left; reflexivity|exact H]].
    + right. exists b. split; [right; exact Hb|exact Hkv].
Qed.

Lemma parse_plain_all_checked req l : forall nm nm',
  parse_plain req l nm = Some nm' ->
  Forall (fun a => assertion_checked req a = true) l /\
  (nm' = nm \/ exists a, In a l /\ nm' = Some (a_name a)).
Proof.
  induction l as [|a l IH]; intros nm nm' H; cbn in H.
  - injection H as <-. split; [constructor|left; reflexivity].
  - destruct (assertion_checked req a) eqn:Ea; [|discriminate].
    apply IH in H as [Hall Hn]. split; [constructor; assumption|].
    right. destruct Hn as [->|(b & Hb & ->)].
    + exists a. split; [left; reflexivity|reflexivity].
    + exists b. split; [right; exact Hb|reflexivity].
Qed.

(* whatever the application reads comes from an assertion that was individually checked *)
Theorem identity_from_checked req l asl ava nm :
  parse_assertions req l = Some (asl, ava, nm) ->
  asl = l /\ Forall (fun a => assertion_checked req a = true) l /\
  (forall kv, In kv ava -> exists a, In a l /\ assertion_checked req a = true /\ In kv (a_ident a)) /\
  (forall n, nm = Some n -> exists a, In a l /\ assertion_checked req a = true /\ a_name a = n).
Proof.
  unfold parse_assertions. destruct (parse_plain req l None) as [nm0|] eqn:Ep; [|discriminate].
  intros H. injection H as <- <- <-. apply parse_plain_all_checked in Ep as [Hall Hn].
  split; [reflexivity|split; [exact Hall|split]].
  - intros kv Hin. apply In_identity_from in Hin as [[]|(a & Ha & Hkv)].
    exists a. split; [exact Ha|split; [|exact Hkv]]. rewrite Forall_forall in Hall. apply Hall. exact Ha.
  - intros n Hnm. destruct Hn as [->|(a & Ha & ->)]; [discriminate|]. injection Hnm as <-.
    exists a. split; [exact Ha|split; [|reflexivity]]. rewrite Forall_forall in Hall. apply Hall. exact Ha.
Qed.

Lemma checked_required_means_verified a : assertion_checked true a = true -> a_signed a = true /\ a_sig_ok a = true /\ a_cond_ok a = true.
Proof.
  unfold assertion_checked. destruct (a_signed a); cbn; intros H.
  - apply andb_true_iff in H as [H1 H2]. auto.
  - discriminate.
Qed.

Lemma signed_is_verified_whatever_setting req a : assertion_checked req a = true -> a_signed a = true -> a_sig_ok a = true.
Proof. unfold assertion_checked. intros H Hs. rewrite Hs in H. apply andb_true_iff in H as [H _]. exact H. Qed.
