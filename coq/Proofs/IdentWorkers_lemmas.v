(* Proofs/IdentWorkers_lemmas.v — C18: identifiers issued by different processes *)
From PV Require Import Lib.Base Model.Codec Gen.IdentConsts Model.Ident Proofs.Ident_lemmas Model.IdentWorkers.
Open Scope N_scope.

Lemma tp_not_email :
  str_eqb NAMEID_FORMAT_TRANSIENT NAMEID_FORMAT_EMAILADDRESS = false /\
  str_eqb NAMEID_FORMAT_PERSISTENT NAMEID_FORMAT_EMAILADDRESS = false.
Proof. vm_compute. split; reflexivity. Qed.

Lemma get_nameid_otext c d u f sp nq cands t :
  str_eqb f NAMEID_FORMAT_EMAILADDRESS = false ->
  In t (otext (snd (get_nameid c d u f sp nq cands))) -> In t cands /\ lookup t d = None.
Proof.
  intros Hne H. destruct (get_nameid c d u f sp nq cands) as (d', x) eqn:G. cbn [snd] in H.
  destruct x as [|n|s|l|e]; cbn [otext] in H; try contradiction.
  destruct (issued_fresh c d u f sp nq cands d' n G Hne) as (t0 & Et & Hin & Hfr & _).
  rewrite Et in H. destruct H as [H|[]]. subst t0. split; assumption.
Qed.

(* whatever an operation issues new was drawn from the stream during that operation and was not a key before *)
Lemma issued_now_spec c d o t : In t (issued_now c d o) -> In t (op_cands o) /\ lookup t d = None.
Proof.
  destruct o; cbn [issued_now op_cands]; try contradiction.
  - cbn [step]. apply get_nameid_otext. exact (proj1 tp_not_email).
  - destruct (match_local_id d u sp nq) as [[n|]|e] eqn:M; try contradiction.
    cbn [step]. unfold persistent_nameid. rewrite M. apply get_nameid_otext. exact (proj2 tp_not_email).
Qed.

(* by induction over the history of ONE process: everything it issues new is an element of its own stream *)
Theorem issued_texts_in_stream c ops : forall d t, In t (issued_texts c d ops) -> In t (stream ops).
Proof.
  induction ops as [|o r IH]; intros d t H; cbn [issued_texts stream flat_map] in *; [contradiction|].
  apply in_app_or in H as [H|H]; apply in_or_app.
  - left. exact (proj1 (issued_now_spec c d o t H)).
  - right. exact (IH _ t H).
Qed.

(* the assumption about the random source, explicit: no digest occurs in the streams of two processes *)
Definition independent (w1 w2 : list op) : Prop := forall t, In t (stream w1) -> In t (stream w2) -> False.
Definition independent_all (ws : deployment) : Prop :=
  forall i j, i <> j -> independent (nth i ws []) (nth j ws []).

Theorem workers_fresh c1 c2 d1 d2 w1 w2 :
  independent w1 w2 -> forall t, In t (issued_texts c1 d1 w1) -> In t (issued_texts c2 d2 w2) -> False.
Proof.
  intros I t H1 H2. apply (I t); eapply issued_texts_in_stream; eassumption.
Qed.

Lemma mem_In t l : mem t l = true <-> In t l.
Proof.
  unfold mem. rewrite existsb_exists. split.
  - intros (x & Hx & E). apply str_eqb_eq in E. now subst x.
  - intros H. exists t. split; [assumption|apply str_eqb_refl].
Qed.

Lemma disjointb_intro a b : (forall t, In t a -> In t b -> False) -> disjointb a b = true.
Proof.
  intros H. unfold disjointb. apply forallb_forall. intros t Ha.
  destruct (mem t b) eqn:M; [|reflexivity]. apply mem_In in M. destruct (H t Ha M).
Qed.

Lemma disjointb_elim a b : disjointb a b = true -> forall t, In t a -> In t b -> False.
Proof.
  unfold disjointb. rewrite forallb_forall. intros H t Ha Hb. specialize (H t Ha).
  apply mem_In in Hb. rewrite Hb in H. discriminate.
Qed.

Lemma independent_all_tail w ws : independent_all (w :: ws) -> independent_all ws.
Proof. intros I i j Hij. apply (I (S i) (S j)). congruence. Qed.

(* the observable of the correspondence: under the assumption, the texts of the workers are pairwise different *)
Theorem deployment_disjoint c ws : independent_all ws -> pairwise_disjointb (worker_texts c ws) = true.
Proof.
  unfold worker_texts. induction ws as [|w ws IH]; intros I; [reflexivity|].
  cbn [map pairwise_disjointb]. rewrite (IH (independent_all_tail _ _ I)), andb_true_r.
  apply forallb_forall. intros l Hl. apply in_map_iff in Hl as (w2 & <- & Hw2).
  apply disjointb_intro. apply (In_nth _ _ []) in Hw2 as (j & Hj & Ej).
  apply (workers_fresh c c [] [] w w2). specialize (I 0%nat (S j)). cbn [nth] in I. rewrite Ej in I.
  apply I. discriminate.
Qed.

Lemma in_stream_mid pre o post t : In t (op_cands o) -> In t (stream (pre ++ o :: post)).
Proof.
  intros H. unfold stream. apply in_flat_map. exists o. split; [|assumption].
  apply in_or_app. right. left. reflexivity.
Qed.

(* step level: a transient identifier issued at ANY point of one process's history and one issued at any
   point of another's have different texts, and each resolves to its own user in its own store *)
Theorem workers_transient_distinct c1 c2 pre1 pre2 post1 post2 u1 u2 sp1 sp2 nq1 nq2 cands1 cands2 d1 d2 n1 n2 :
  independent (pre1 ++ Transient u1 sp1 nq1 cands1 :: post1) (pre2 ++ Transient u2 sp2 nq2 cands2 :: post2) ->
  step c1 (run c1 [] pre1) (Transient u1 sp1 nq1 cands1) = (d1, ONid n1) ->
  step c2 (run c2 [] pre2) (Transient u2 sp2 nq2 cands2) = (d2, ONid n2) ->
  n_text n1 <> n_text n2 /\ find_local_id d1 n1 = Some u1 /\ find_local_id d2 n2 = Some u2.
Proof.
  intros I S1 S2. cbn [step] in S1, S2.
  destruct (issued_fresh _ _ _ _ _ _ _ _ _ S1 (proj1 tp_not_email)) as (t1 & E1 & In1 & _ & R1).
  destruct (issued_fresh _ _ _ _ _ _ _ _ _ S2 (proj1 tp_not_email)) as (t2 & E2 & In2 & _ & R2).
  repeat split; try assumption. rewrite E1, E2. intros E. injection E as E. subst t2.
  apply (I t1).
  - apply in_stream_mid. exact In1.
  - apply in_stream_mid. exact In2.
Qed.
