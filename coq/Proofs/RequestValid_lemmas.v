(* Proofs/RequestValid_lemmas.v - C10 over the C13 judgement (Model/RequestValid.v) *)
From PV Require Import Lib.Base Model.Sigver Model.CertSelect Model.Xmlsec Model.Schema Model.Validate Model.Request
  Gen.SchemaTables Proofs.Schema_lemmas Proofs.Validate_lemmas Proofs.Validate_table Proofs.Request_lemmas
  Model.RequestValid.
Open Scope N_scope.

(* what a judged wire carries is a judged document *)
Lemma carried_judged prim i k b w d :
  carries k b (wire_judged prim i w) d -> exists d0, d = judged prim i d0 /\ carries k b w d0.
Proof.
  intros [[H Hb]|[H Hb]].
  - destruct w as [|[|d0]|[| | | |d0]]; simpl in H; try discriminate.
    injection H as H. exists d0. split; [symmetry; exact H|left; split; [reflexivity|exact Hb]].
  - destruct w as [|[|d0]|[| | | |d0]]; simpl in H; try discriminate.
    injection H as H. exists d0. split; [symmetry; exact H|right; split; [reflexivity|exact Hb]].
Qed.

Lemma judged_valid prim i d0 : d_valid (judged prim i d0) = vi_ok prim i.
Proof. reflexivity. Qed.

Lemma vi_ok_true prim i : vi_ok prim i = true -> vi prim i = ok.
Proof. unfold vi_ok, ok. destruct (vi prim i) as [[]|e]; [reflexivity|discriminate]. Qed.

(* handed over => valid_instance (the C13 model, on the tables of the working tree) passed on the instance tree *)
Lemma handed_over_valid_instance pre prim c k b w i d :
  parse_request_v pre true prim c k b w i = Ok (Some d) ->
  vi prim i = ok /\ exists d0, d = judged prim i d0 /\ carries k b w d0.
Proof.
  unfold parse_request_v. intros H.
  destruct (handed_over_only_if_valid _ _ _ _ _ _ H) as (Hc & _ & Hv & _).
  destruct (carried_judged _ _ _ _ _ _ Hc) as [d0 [-> Hc0]].
  split; [apply vi_ok_true; exact Hv|exists d0; split; [reflexivity|exact Hc0]].
Qed.

(* a required attribute that is missing or empty is a violation in the sense of C13_rejects *)
Lemma empty_required_violates prim j :
  required_missing_or_empty j -> violated prim validator_keys actual_schema j.
Proof.
  destruct j as [|c attrs t K xa xe]; [intros []|].
  intros (r & a & Hrow & Hin & Hreq & Hval). exists r. split; [exact Hrow|].
  left. exists a. split; [exact Hin|]. left. split; [exact Hreq|].
  destruct Hval as [-> | ->]; reflexivity.
Qed.

Lemma empty_required_not_valid prim i j :
  reach actual_schema i j -> required_missing_or_empty j -> vi_ok prim i = false.
Proof.
  intros Hr He. unfold vi_ok, vi.
  destruct (rejects_both prim validator_keys actual_schema x_xsi_nil m_subject m_attribute_statement m_statement
              m_authn_statement m_authz_decision_statement m_one_time_use m_proxy_restriction m_authn_context_decl
              m_authn_context_decl_ref m_address m_dns_name i j actual_plain_av Hr (empty_required_violates prim j He))
    as [[e ->] _].
  reflexivity.
Qed.

(* REFUSAL: a request whose instance tree holds, at the root or at ANY depth below it, a node with a required attribute
   missing or empty is handed over by no entry point, over no binding, by no configuration - signed or not *)
Lemma empty_required_refused pre prim c k b w i j d :
  reach actual_schema i j -> required_missing_or_empty j ->
  parse_request_v pre true prim c k b w i <> Ok (Some d).
Proof.
  intros Hr He H. destruct (handed_over_valid_instance _ _ _ _ _ _ _ _ H) as [Hv _].
  pose proof (empty_required_not_valid prim i j Hr He) as Hf. unfold vi_ok in Hf. rewrite Hv in Hf. discriminate.
Qed.

(* the executable form names the members *)
Lemma empty_required_members_sound j m :
  In m (empty_required_members j) -> required_missing_or_empty j.
Proof.
  destruct j as [|c attrs t K xa xe]; unfold empty_required_members, required_missing_or_empty; [intros []|].
  destruct (find_row actual_schema c) as [r|] eqn:Hrow; [|intros []].
  intros Hin. apply in_map_iff in Hin as [a [_ Ha]]. apply filter_In in Ha as [Hin Hb].
  apply andb_true_iff in Hb as [Hreq Ht]. exists r, a. repeat split; try assumption.
  destruct (alookup (a_member a) attrs) as [[|c0 v]|]; [right; reflexivity|discriminate|left; reflexivity].
Qed.

(* EMPTY IS JUDGED AS ABSENT: the attribute test of a node cannot tell X="" from no X - for every attribute row,
   required or not, typed or not *)
Lemma attr_check_empty_as_absent prim (attrs1 attrs2 : list (N * str)) a :
  alookup (a_member a) attrs1 = Some [] -> alookup (a_member a) attrs2 = None ->
  attr_check prim validator_keys actual_schema attrs1 a = attr_check prim validator_keys actual_schema attrs2 a.
Proof. intros H1 H2. unfold attr_check; cbv zeta. rewrite H1, H2. reflexivity. Qed.

(* ... hence two nodes that differ only in that (same class, text, children; attribute lists that agree on every
   member but have "" where the other has nothing) get the same verdict *)
Definition same_but_empty (attrs1 attrs2 : list (N * str)) : Prop :=
  forall m, alookup m attrs1 = alookup m attrs2 \/ (alookup m attrs1 = Some [] /\ alookup m attrs2 = None).
Lemma vi_node_empty_as_absent prim r attrs1 attrs2 text vkids :
  same_but_empty attrs1 attrs2 ->
  vi_node prim validator_keys actual_schema r attrs1 text vkids = vi_node prim validator_keys actual_schema r attrs2 text vkids.
Proof.
  intros Hs. unfold vi_node. f_equal. f_equal. f_equal. apply map_ext. intros a.
  destruct (Hs (a_member a)) as [He|[H1 H2]].
  - unfold attr_check; cbv zeta. rewrite He. reflexivity.
  - apply attr_check_empty_as_absent; assumption.
Qed.
Lemma root_empty_as_absent prim c attrs1 attrs2 t K xa xe :
  same_but_empty attrs1 attrs2 ->
  vi prim (I c attrs1 t K xa xe) = vi prim (I c attrs2 t K xa xe).
Proof.
  intros Hs. unfold vi, valid_instance. destruct (find_row actual_schema c) as [r|]; [|reflexivity].
  apply vi_node_empty_as_absent. exact Hs.
Qed.

(* long-lived receiver over judged messages: induction is C10_history's; here its consequence for this clause *)
Lemma history_v_only_valid pre prim c ops k b w d :
  In ((k, b, w), d) (run_history_v pre true prim c ops) ->
  exists w0 i, In (k, b, w0, i) ops /\ w = wire_judged prim i w0 /\ vi prim i = ok.
Proof.
  unfold run_history_v. intros Hin.
  pose proof (history_ops_only pre true c _ k b w d Hin) as Hop.
  apply in_map_iff in Hop as [[[[k0 b0] w0] i] [Heq Hin0]]. simpl in Heq. injection Heq as -> -> <-.
  exists w0, i. split; [exact Hin0|split; [reflexivity|]].
  pose proof (history_invariant pre true c (map (judge_op prim) ops) [] (Forall_nil _)) as Hall.
  rewrite Forall_forall in Hall. specialize (Hall _ Hin). cbn in Hall.
  exact (proj1 (handed_over_valid_instance pre prim c k b w0 i d Hall)).
Qed.
