From PV Require Import Lib.Base Model.Codec.
From Coq Require Import ZifyN ZifyBool.
Open Scope N_scope.
Ltac Zify.zify_post_hook ::= Z.to_euclidean_division_equations.

Definition byte (b : N) : Prop := b < 256.

Lemma group3 a b c : byte a -> byte b -> byte c ->
  let n := pack3 a b c in
  sx0 n < 64 /\ sx1 n < 64 /\ sx2 n < 64 /\ sx3 n < 64 /\
  by0 (unpack4 (sx0 n) (sx1 n) (sx2 n) (sx3 n)) = a /\
  by1 (unpack4 (sx0 n) (sx1 n) (sx2 n) (sx3 n)) = b /\
  by2 (unpack4 (sx0 n) (sx1 n) (sx2 n) (sx3 n)) = c.
Proof.
  unfold byte, pack3, sx0, sx1, sx2, sx3, unpack4, by0, by1, by2. cbv zeta. intros. repeat split; lia.
Qed.

Lemma group2 a b : byte a -> byte b ->
  let n := pack3 a b 0 in
  sx0 n < 64 /\ sx1 n < 64 /\ sx2 n < 64 /\
  by0 (unpack4 (sx0 n) (sx1 n) (sx2 n) 0) = a /\
  by1 (unpack4 (sx0 n) (sx1 n) (sx2 n) 0) = b.
Proof.
  unfold byte, pack3, sx0, sx1, sx2, unpack4, by0, by1. cbv zeta. intros. repeat split; lia.
Qed.

Lemma group1 a : byte a ->
  let n := pack3 a 0 0 in
  sx0 n < 64 /\ sx1 n < 64 /\ by0 (unpack4 (sx0 n) (sx1 n) 0 0) = a.
Proof.
  unfold byte, pack3, sx0, sx1, unpack4, by0. cbv zeta. intros. repeat split; lia.
Qed.

(* alphabet: finite check lifted *)
Fixpoint upto (n : nat) : list N := match n with O => [] | S k => upto k ++ [N.of_nat k] end.
Lemma upto_In n i : (i < N.of_nat n) -> In i (upto n).
Proof.
  induction n as [|k IH]; intros H; [lia|]. cbn [upto]. apply in_or_app.
  destruct (N.eq_dec i (N.of_nat k)) as [->|Hne]; [right; now left|left; apply IH; lia].
Qed.

Definition alpha_ok (i : N) : bool :=
  match b64idx (b64char i) with Some j => (j =? i) | None => false end && negb (b64char i =? PAD).
Lemma alpha_all : forallb alpha_ok (upto 64) = true.
Proof. vm_compute. reflexivity. Qed.
Lemma alpha i : i < 64 -> b64idx (b64char i) = Some i /\ (b64char i =? PAD) = false.
Proof.
  intros H. pose proof alpha_all as A. rewrite forallb_forall in A.
  specialize (A i (upto_In 64 i H)). unfold alpha_ok in A.
  apply andb_true_iff in A as [A1 A2]. destruct (b64idx (b64char i)) as [j|]; [|discriminate].
  apply N.eqb_eq in A1. subst j. split; [reflexivity|]. now destruct (b64char i =? PAD).
Qed.

Lemma list3_ind {A} (P : list A -> Prop) :
  P [] -> (forall a, P [a]) -> (forall a b, P [a; b]) ->
  (forall a b c rest, P rest -> P (a :: b :: c :: rest)) -> forall l, P l.
Proof.
  intros H0 H1 H2 H3.
  assert (forall l, P l /\ (forall a, P (a :: l)) /\ (forall a b, P (a :: b :: l))) as H.
  { induction l as [|x l (IHa & IHb & IHc)].
    - repeat split; auto.
    - split; [exact (IHb x)|]. split; [intros a; exact (IHc a x)|]. intros a b. apply H3. exact IHa. }
  intros l. apply H.
Qed.

Arguments b64char : simpl never.
Arguments b64idx : simpl never.
Arguments pack3 : simpl never.
Arguments unpack4 : simpl never.
Arguments sx0 : simpl never. Arguments sx1 : simpl never. Arguments sx2 : simpl never. Arguments sx3 : simpl never.
Arguments by0 : simpl never. Arguments by1 : simpl never. Arguments by2 : simpl never.

Theorem b64_roundtrip bs : Forall byte bs -> b64dec (b64enc bs) = Some bs.
Proof.
  induction bs as [|a|a b|a b c rest IH] using list3_ind; intros HB.
  - reflexivity.
  - inversion HB as [|? ? Ha _]; subst.
    destruct (group1 a Ha) as (H0 & H1 & Hr). cbv zeta in *.
    cbn [b64enc b64dec]. destruct (alpha _ H0) as [-> _]. destruct (alpha _ H1) as [-> _].
    rewrite N.eqb_refl. cbn [andb is_nil]. rewrite Hr. reflexivity.
  - inversion HB as [|? ? Ha HB']; subst. inversion HB' as [|? ? Hb _]; subst.
    destruct (group2 a b Ha Hb) as (H0 & H1 & H2 & Hr0 & Hr1). cbv zeta in *.
    cbn [b64enc b64dec]. destruct (alpha _ H0) as [-> _]. destruct (alpha _ H1) as [-> _].
    destruct (alpha _ H2) as [-> ->]. rewrite N.eqb_refl. cbn [is_nil]. rewrite Hr0, Hr1. reflexivity.
  - inversion HB as [|? ? Ha HB1]; subst. inversion HB1 as [|? ? Hb HB2]; subst. inversion HB2 as [|? ? Hc HB3]; subst.
    destruct (group3 a b c Ha Hb Hc) as (H0 & H1 & H2 & H3 & Hr0 & Hr1 & Hr2). cbv zeta in *.
    cbn [b64enc b64dec]. destruct (alpha _ H0) as [-> _]. destruct (alpha _ H1) as [-> _].
    destruct (alpha _ H2) as [-> ->]. destruct (alpha _ H3) as [-> ->].
    rewrite (IH HB3), Hr0, Hr1, Hr2. reflexivity.
Qed.

(* the encoder's output alphabet: A-Z a-z 0-9 + / = only *)
Definition b64_alphabet (c : N) : bool := match b64idx c with Some _ => true | None => c =? PAD end.
Lemma b64char_alphabet i : i < 64 -> b64_alphabet (b64char i) = true.
Proof. intros H. unfold b64_alphabet. now destruct (alpha i H) as [-> _]. Qed.

Theorem b64enc_alphabet bs : Forall byte bs -> forallb b64_alphabet (b64enc bs) = true.
Proof.
  induction bs as [|a|a b|a b c rest IH] using list3_ind; intros HB.
  - reflexivity.
  - inversion HB as [|? ? Ha _]; subst. destruct (group1 a Ha) as (H0 & H1 & _). cbv zeta in *.
    cbn [b64enc forallb]. rewrite !b64char_alphabet by assumption. reflexivity.
  - inversion HB as [|? ? Ha HB']; subst. inversion HB' as [|? ? Hb _]; subst.
    destruct (group2 a b Ha Hb) as (H0 & H1 & H2 & _). cbv zeta in *.
    cbn [b64enc forallb]. rewrite !b64char_alphabet by assumption. reflexivity.
  - inversion HB as [|? ? Ha HB1]; subst. inversion HB1 as [|? ? Hb HB2]; subst. inversion HB2 as [|? ? Hc HB3]; subst.
    destruct (group3 a b c Ha Hb Hc) as (H0 & H1 & H2 & H3 & _). cbv zeta in *.
    cbn [b64enc forallb]. rewrite !b64char_alphabet by assumption. rewrite (IH HB3). reflexivity.
Qed.
