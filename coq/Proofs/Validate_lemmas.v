(* Proofs/Validate_lemmas.v — valid_instance rejects every violated constraint at
   any depth, and accepts instances that satisfy all of them *)
From PV Require Import Lib.Base Model.Schema Model.Validate Proofs.Schema_lemmas.
Open Scope N_scope.

Lemma first_err_ok l : (forall x, In x l -> x = ok) -> first_err l = ok.
Proof.
  induction l as [|x l IH]; intros H; [reflexivity|].
  cbn [first_err]. rewrite (H x (or_introl eq_refl)). unfold ok at 1. apply IH. intros y Hy; apply H; right; exact Hy.
Qed.

Lemma first_err_err l e : In (Err e) l -> exists e', first_err l = Err e'.
Proof.
  induction l as [|x l IH]; intros H; [destruct H|].
  cbn [first_err]. destruct x as [u|e0]; [|exists e0; reflexivity].
  destruct H as [H|H]; [discriminate|]. apply IH; exact H.
Qed.

(* validator_of never fails on a type NAME: whatever is declared, a key of VALIDATOR is
   selected as long as the key string exists *)
Lemma resolve_total keys t : mem_str T_STRING keys = true -> exists k, resolve keys t = Some k /\ In k keys.
Proof.
  intros Hs. unfold resolve. rewrite Hs.
  assert (Hin : In T_STRING keys) by (apply mem_str_In; exact Hs).
  destruct t as [|c t']; [exists T_STRING; split; [reflexivity|exact Hin]|].
  destruct (mem_str (c :: t') keys) eqn:E1; [exists (c :: t'); split; [reflexivity|apply mem_str_In; exact E1]|].
  destruct (mem_str (local_name (c :: t')) keys) eqn:E2; [eexists; split; [reflexivity|apply mem_str_In; exact E2]|].
  destruct (find_ci keys (lower_ascii (local_name (c :: t')))) as [k|] eqn:E3.
  - exists k. split; [reflexivity|]. unfold find_ci in E3. apply find_some in E3 as [H _]. exact H.
  - exists T_STRING. split; [reflexivity|exact Hin].
Qed.

Lemma valid_no_keyerror prim keys t v :
  mem_str T_STRING keys = true -> valid prim keys t v = ok \/ valid prim keys t v = Err NOT_VALID.
Proof.
  intros Hs. destruct (resolve_total keys t Hs) as [k [Hk _]]. unfold valid. rewrite Hk.
  destruct (prim k v); [left|right]; reflexivity.
Qed.

Section V.
  Variable prim : str -> str -> bool.
  Variable keys : list str.
  Variable S : schema.
  Variables (NIL : N).
  Variables (M_SUBJECT M_ATTRST M_STATEMENT M_AUTHNST M_AUTHZST M_ONETIME M_PROXY M_DECL M_DECLREF M_ADDRESS M_DNS : N).

  Notation valid := (valid prim keys).
  Notation validate_value_type := (validate_value_type prim keys).
  Notation attr_check := (attr_check prim keys S).
  Notation text_check := (text_check prim keys).
  Notation vi_node := (vi_node prim keys S).
  Notation override_pre := (override_pre prim NIL M_SUBJECT M_ATTRST M_STATEMENT M_AUTHNST M_AUTHZST M_ONETIME M_PROXY M_DECL M_DECLREF M_ADDRESS M_DNS).
  Notation verify_node := (verify_node prim keys S NIL M_SUBJECT M_ATTRST M_STATEMENT M_AUTHNST M_AUTHZST M_ONETIME M_PROXY M_DECL M_DECLREF M_ADDRESS M_DNS).
  Notation verify := (verify prim keys S NIL M_SUBJECT M_ATTRST M_STATEMENT M_AUTHNST M_AUTHZST M_ONETIME M_PROXY M_DECL M_DECLREF M_ADDRESS M_DNS).
  Notation valid_instance := (valid_instance prim keys S NIL M_SUBJECT M_ATTRST M_STATEMENT M_AUTHNST M_AUTHZST M_ONETIME M_PROXY M_DECL M_DECLREF M_ADDRESS M_DNS).

  (* ---------------------------------------------------------- what "violated" means *)
  (* a value of a declared simple type that the type's test rejects: outside a string
     enumeration, or refused by the primitive validator its (resolvable) type name selects *)
  Definition value_bad (v : str) (vt : vtype) : Prop :=
    v_maxlen vt = None /\
    ((exists en, v_enum vt = Some en /\ mem_str v en = false) \/
     (v_enum vt = None /\ str_eqb (v_base vt) T_STRING = true /\ prim T_STRING v = false) \/
     (v_enum vt = None /\ str_eqb (v_base vt) T_STRING = false /\ str_eqb (v_base vt) T_LIST = true /\
      exists mt k part, v_member vt = Some mt /\ resolve keys mt = Some k /\
                        In part (split_on 44 v) /\ prim k (strip part) = false) \/
     (v_enum vt = None /\ str_eqb (v_base vt) T_STRING = false /\ str_eqb (v_base vt) T_LIST = false /\
      exists k, resolve keys (v_base vt) = Some k /\ prim k v = false)).

  (* the declared type of an attribute: a type name (None / empty = no type declared,
     validated as string) or a class carrying a c_value_type *)
  Definition typed_bad (a : attr_row) (v : str) : Prop :=
    match a_type a with
    | TN typ => exists k, resolve keys typ = Some k /\ prim k v = false
    | TNone => exists k, resolve keys [] = Some k /\ prim k v = false
    | TC cls => exists rt, find_row S cls = Some rt /\
                  value_bad v (match k_vtype rt with Some vt => vt | None => DEFAULT_SPEC end)
    end.

  Definition attr_bad (attrs : list (N * str)) (a : attr_row) : Prop :=
    (a_req a = true /\ truthy (alookup (a_member a) attrs) = false) \/
    (exists c0 v', alookup (a_member a) attrs = Some (c0 :: v') /\ typed_bad a (c0 :: v')).

  Definition text_bad (r : class_row) (text : option str) : Prop :=
    exists vt c0 t', k_vtype r = Some vt /\ text = Some (c0 :: t') /\ value_bad (strip (c0 :: t')) vt.

  Definition card_bad (r : class_row) (n : nat) (ch : child_row) : Prop :=
    match alookup (c_member ch) (k_card r) with
    | Some (mn, mx) =>
        (n = 0%nat /\ nonzero mn = true) \/
        (n <> 0%nat /\ ((exists m, mn = Some m /\ (Z.of_nat n < m)%Z) \/ (exists m, mx = Some m /\ (m < Z.of_nat n)%Z)))
    | None => False
    end.

  Definition node_violation (r : class_row) (attrs : list (N * str)) (text : option str) (K : list (N * inst)) : Prop :=
    (exists a, In a (k_attrs r) /\ attr_bad attrs a) \/ text_bad r text \/
    (exists ch, In ch (k_children r) /\ card_bad r (List.length (kids_of (c_member ch) K)) ch).

  Lemma value_bad_err v vt : value_bad v vt -> exists e, validate_value_type v vt = Err e.
  Proof.
    intros [Hm H]. unfold Validate.validate_value_type. rewrite Hm.
    destruct H as [[en [He Hn]]|[[He [Hb Hp]]|[[He [Hb [Hl (mt & k & part & Hmt & Hr & Hin & Hp)]]]|[He [Hb [Hl [k [Hr Hp]]]]]]]].
    - rewrite He, Hn. eexists; reflexivity.
    - rewrite He, Hb, Hp. eexists; reflexivity.
    - rewrite He, Hb, Hl, Hmt. apply (first_err_err _ NOT_VALID).
      apply in_map_iff. exists part. split; [|exact Hin]. unfold Validate.valid. rewrite Hr, Hp. reflexivity.
    - rewrite He, Hb, Hl. unfold Validate.valid. rewrite Hr, Hp. eexists; reflexivity.
  Qed.

  Lemma attr_wrap_err e : exists e', attr_wrap (Err e) = Err e'.
  Proof. unfold attr_wrap. destruct (_ || _); eexists; reflexivity. Qed.

  Lemma attr_bad_err attrs a : attr_bad attrs a -> exists e, attr_check attrs a = Err e.
  Proof.
    intros [[Hr Ht]|[c0 [v' [Hv Hb]]]]; unfold Validate.attr_check.
    - rewrite Hr, Ht. cbn. eexists; reflexivity.
    - rewrite Hv. cbn [truthy negb]. rewrite andb_false_r.
      unfold typed_bad in Hb. destruct (a_type a) as [typ|cls|].
      + destruct Hb as [k [Hr Hp]]. unfold Validate.valid. rewrite Hr, Hp. apply attr_wrap_err.
      + destruct Hb as [rt [Hrt Hvb]]. rewrite Hrt. destruct (value_bad_err _ _ Hvb) as [e He]. rewrite He. apply attr_wrap_err.
      + destruct Hb as [k [Hr Hp]]. unfold Validate.valid. rewrite Hr, Hp. apply attr_wrap_err.
  Qed.

  Lemma text_bad_err r text : text_bad r text -> exists e, text_check r text = Err e.
  Proof.
    intros (vt & c0 & t' & Hv & Ht & Hb). unfold Validate.text_check. rewrite Hv, Ht. apply value_bad_err; exact Hb.
  Qed.

  Lemma card_bad_err r vkids ch :
    card_bad r (List.length (kids_of (c_member ch) vkids)) ch -> exists e, child_check r vkids ch = Err e.
  Proof.
    unfold card_bad, child_check. destruct (alookup (c_member ch) (k_card r)) as [[mn mx]|]; [|intros []].
    destruct (kids_of (c_member ch) vkids) as [|x l] eqn:El.
    - intros [[_ Hn]|[Hn _]]; [rewrite Hn; eexists; reflexivity|cbn in Hn; congruence].
    - intros [[Hn _]|[_ H]]; [cbn in Hn; discriminate|].
      cbn [first_err]. destruct H as [[m [Hm Hlt]]|[m [Hm Hlt]]]; subst.
      + apply Z.ltb_lt in Hlt. rewrite Hlt. eexists; reflexivity.
      + apply Z.ltb_lt in Hlt. rewrite Hlt.
        destruct mn as [m0|]; [destruct (Z.of_nat (List.length (x :: l)) <? m0)%Z|]; eexists; reflexivity.
  Qed.

  Lemma vi_node_in r attrs text vkids x e :
    In x (text_check r text :: map (attr_check attrs) (k_attrs r) ++ map (child_check r vkids) (k_children r)) ->
    x = Err e -> exists e', vi_node r attrs text vkids = Err e'.
  Proof. intros Hin ->. unfold Validate.vi_node. eapply first_err_err; exact Hin. Qed.

  Lemma vi_node_violation r attrs text K vkids :
    node_violation r attrs text K ->
    (forall m, List.length (kids_of m vkids) = List.length (kids_of m K)) ->
    exists e, vi_node r attrs text vkids = Err e.
  Proof.
    intros [[a [Ha Hb]]|[Ht|[ch [Hch Hc]]]] Hlen.
    - destruct (attr_bad_err attrs a Hb) as [e He].
      eapply vi_node_in; [right; apply in_or_app; left; apply in_map; exact Ha|exact He].
    - destruct (text_bad_err r text Ht) as [e He]. eapply vi_node_in; [left; reflexivity|exact He].
    - rewrite <- Hlen in Hc. destruct (card_bad_err r vkids ch Hc) as [e He].
      eapply vi_node_in; [right; apply in_or_app; right; apply in_map; exact Hch|exact He].
  Qed.

  Lemma vi_node_kid_err r attrs text vkids ch e :
    In ch (k_children r) -> In (Err e) (kids_of (c_member ch) vkids) ->
    exists e', vi_node r attrs text vkids = Err e'.
  Proof.
    intros Hch Hin.
    assert (He : exists e', child_check r vkids ch = Err e').
    { unfold child_check. destruct (kids_of (c_member ch) vkids) as [|x l] eqn:El; [destruct Hin|].
      rewrite <- El in *. destruct (kids_of (c_member ch) vkids) as [|y l'] eqn:E2; [discriminate|].
      apply (first_err_err _ (if str_eqb e NOT_VALID || str_eqb e OUTSIDE_CARD then NOT_VALID else e)).
      right. apply in_map_iff. exists (Err e). split; [|exact Hin].
      unfold kid_wrap. destruct (str_eqb e NOT_VALID || str_eqb e OUTSIDE_CARD); reflexivity. }
    destruct He as [e' He].
    eapply vi_node_in; [right; apply in_or_app; right; apply in_map; exact Hch|exact He].
  Qed.

  Lemma pre_stop r attrs text vkids xattrs :
    override_pre r attrs text vkids xattrs = PreStop -> str_eqb (k_verify r) V_AVB = true /\ truthy text = false.
  Proof.
    unfold Validate.override_pre.
    destruct (str_eqb (k_verify r) []); [discriminate|].
    destruct (str_eqb (k_verify r) V_AVB).
    - destruct (truthy text); [discriminate|]. intros _. split; reflexivity.
    - destruct (str_eqb (k_verify r) V_LOCALITY).
      { destruct (truthy (alookup M_ADDRESS attrs)).
        - destruct (alookup M_ADDRESS attrs) as [a|]; [destruct (prim P_IPADDR a)|]; discriminate.
        - destruct (truthy (alookup M_DNS attrs)); [|discriminate].
          destruct (alookup M_DNS attrs) as [d|]; [destruct (prim P_DOMAIN d)|]; discriminate. }
      destruct (str_eqb (k_verify r) V_AUTHNCTX).
      { destruct (has_kid vkids M_DECL && has_kid vkids M_DECLREF); discriminate. }
      destruct (str_eqb (k_verify r) V_CONDITIONS).
      { destruct ((1 <? List.length (kids_of M_ONETIME vkids))%nat || (1 <? List.length (kids_of M_PROXY vkids))%nat); discriminate. }
      destruct (str_eqb (k_verify r) V_ASSERTION); [|discriminate].
      match goal with |- (if ?c then _ else _) = _ -> _ => destruct c; [discriminate|] end.
      match goal with |- (if ?c then _ else _) = _ -> _ => destruct c; discriminate end.
  Qed.

  Lemma verify_node_err r attrs text vkids xattrs e :
    vi_node r attrs text vkids = Err e -> override_pre r attrs text vkids xattrs <> PreStop ->
    exists e', verify_node r attrs text vkids xattrs = Err e'.
  Proof.
    intros Hv Hp. unfold Validate.verify_node. destruct (override_pre r attrs text vkids xattrs) as [| |e0].
    - exists e; exact Hv.
    - congruence.
    - exists e0; reflexivity.
  Qed.

  (* ---------------------------------------------------------- reachable sub-instances *)
  Inductive reach : inst -> inst -> Prop :=
  | reach_refl i : reach i i
  | reach_kid c a t K xa xe r m k j :
      find_row S c = Some r -> In m (child_members r) -> In (m, k) K -> reach k j ->
      reach (I c a t K xa xe) j.

  Definition violated (j : inst) : Prop :=
    match j with
    | INone => False
    | I c a t K xa xe => exists r, find_row S c = Some r /\ node_violation r a t K
    end.

  (* AttributeValueBase.verify returns early: such classes declare nothing to check *)
  Definition plain_av : Prop :=
    forall c r, find_row S c = Some r -> str_eqb (k_verify r) V_AVB = true -> k_attrs r = [] /\ k_children r = [].

  Lemma vk_len (K : list (N * inst)) m :
    List.length (kids_of m (map (fun p => let '(m0, k) := p in (m0, verify k)) K)) = List.length (kids_of m K).
  Proof. rewrite kids_of_map. apply map_length. Qed.

  Lemma not_stop_if_violation c r a t K xa vkids :
    plain_av -> find_row S c = Some r -> node_violation r a t K -> override_pre r a t vkids xa <> PreStop.
  Proof.
    intros Hpl Hrow Hv Hs. apply pre_stop in Hs as [Hav Ht]. destruct (Hpl c r Hrow Hav) as [Ha Hc].
    destruct Hv as [[x [Hx _]]|[(vt & c0 & t' & _ & He & _)|[ch [Hch _]]]].
    - rewrite Ha in Hx; destruct Hx.
    - subst t. discriminate.
    - rewrite Hc in Hch; destruct Hch.
  Qed.

  Theorem rejects_verify i j : plain_av -> reach i j -> violated j -> exists e, verify i = Err e.
  Proof.
    intros Hpl Hr. induction Hr as [i|c a t K xa xe r m k j Hrow Hm Hin Hr IH]; intros Hv.
    - destruct i as [|c a t K xa xe]; [destruct Hv|]. destruct Hv as [r [Hrow Hv]].
      cbn [Validate.verify]. rewrite Hrow.
      destruct (vi_node_violation r a t K _ Hv (vk_len K)) as [e He].
      eapply verify_node_err; [exact He|]. eapply not_stop_if_violation; eassumption.
    - destruct (IH Hv) as [e He]. cbn [Validate.verify]. rewrite Hrow.
      unfold child_members in Hm. apply in_map_iff in Hm as [ch [Hcm Hch]].
      assert (Hk : In (Err e) (kids_of (c_member ch) (map (fun p => let '(m0, k0) := p in (m0, verify k0)) K))).
      { rewrite kids_of_map, <- He. apply in_map. unfold kids_of. apply in_map_iff. exists (m, k). split; [reflexivity|].
        apply filter_In. split; [exact Hin|]. cbn [fst]. rewrite Hcm. apply N.eqb_refl. }
      destruct (vi_node_kid_err r a t _ ch e Hch Hk) as [e' He'].
      eapply verify_node_err; [exact He'|].
      intros Hs. apply pre_stop in Hs as [Hav _]. destruct (Hpl c r Hrow Hav) as [_ Hc]. rewrite Hc in Hch. destruct Hch.
  Qed.

  Theorem rejects_valid_instance i j : plain_av -> reach i j -> violated j -> exists e, valid_instance i = Err e.
  Proof.
    intros Hpl Hr Hv. destruct Hr as [i|c a t K xa xe r m k j Hrow Hm Hin Hr].
    - destruct i as [|c a t K xa xe]; [destruct Hv|]. destruct Hv as [r [Hrow Hv]].
      cbn [Validate.valid_instance]. rewrite Hrow. exact (vi_node_violation r a t K _ Hv (vk_len K)).
    - destruct (rejects_verify k j Hpl Hr Hv) as [e He]. cbn [Validate.valid_instance]. rewrite Hrow.
      unfold child_members in Hm. apply in_map_iff in Hm as [ch [Hcm Hch]].
      apply (vi_node_kid_err r a t _ ch e Hch).
      rewrite kids_of_map, <- He. apply in_map. unfold kids_of. apply in_map_iff. exists (m, k). split; [reflexivity|].
      apply filter_In. split; [exact Hin|]. cbn [fst]. rewrite Hcm. apply N.eqb_refl.
  Qed.

  (* ---------------------------------------------------------- acceptance *)
  Definition value_good (v : str) (vt : vtype) : Prop :=
    (exists n, v_maxlen vt = Some n) \/
    (v_maxlen vt = None /\
     ((exists en, v_enum vt = Some en /\ mem_str v en = true) \/
      (v_enum vt = None /\ str_eqb (v_base vt) T_STRING = true /\ prim T_STRING v = true) \/
      (v_enum vt = None /\ str_eqb (v_base vt) T_STRING = false /\ str_eqb (v_base vt) T_LIST = true /\
       exists mt, v_member vt = Some mt /\
         forall part, In part (split_on 44 v) -> exists k, resolve keys mt = Some k /\ prim k (strip part) = true) \/
      (v_enum vt = None /\ str_eqb (v_base vt) T_STRING = false /\ str_eqb (v_base vt) T_LIST = false /\
       exists k, resolve keys (v_base vt) = Some k /\ prim k v = true))).

  Definition typed_good (a : attr_row) (v : str) : Prop :=
    match a_type a with
    | TN typ => exists k, resolve keys typ = Some k /\ prim k v = true
    | TNone => exists k, resolve keys [] = Some k /\ prim k v = true
    | TC cls => exists rt, find_row S cls = Some rt /\
                  value_good v (match k_vtype rt with Some vt => vt | None => DEFAULT_SPEC end)
    end.

  Definition attr_good (attrs : list (N * str)) (a : attr_row) : Prop :=
    (a_req a = true -> truthy (alookup (a_member a) attrs) = true) /\
    (forall c0 v', alookup (a_member a) attrs = Some (c0 :: v') -> typed_good a (c0 :: v')).

  Definition text_good (r : class_row) (text : option str) : Prop :=
    forall vt c0 t', k_vtype r = Some vt -> text = Some (c0 :: t') -> value_good (strip (c0 :: t')) vt.

  Definition card_good (r : class_row) (n : nat) (ch : child_row) : Prop :=
    match alookup (c_member ch) (k_card r) with
    | Some (mn, mx) =>
        (n = 0%nat -> nonzero mn = false) /\
        (n <> 0%nat -> (forall m, mn = Some m -> (m <= Z.of_nat n)%Z) /\ (forall m, mx = Some m -> (Z.of_nat n <= m)%Z))
    | None => True
    end.

  Inductive good : inst -> Prop :=
  | good_I c a t K xa xe r :
      find_row S c = Some r ->
      (forall x, In x (k_attrs r) -> attr_good a x) ->
      text_good r t ->
      (forall ch, In ch (k_children r) -> card_good r (List.length (kids_of (c_member ch) K)) ch) ->
      (forall e, override_pre r a t (oks K) xa <> PreErr e) ->       (* the override's own condition *)
      (forall m k, In (m, k) K -> good k) ->
      good (I c a t K xa xe).

  Lemma value_good_ok v vt : value_good v vt -> validate_value_type v vt = ok.
  Proof.
    unfold Validate.validate_value_type. intros [[n Hn]|[Hm H]]; [rewrite Hn; reflexivity|]. rewrite Hm.
    destruct H as [[en [He Hi]]|[[He [Hb Hp]]|[[He [Hb [Hl [mt [Hmt Hall]]]]]|[He [Hb [Hl [k [Hr Hp]]]]]]]].
    - rewrite He, Hi. reflexivity.
    - rewrite He, Hb, Hp. reflexivity.
    - rewrite He, Hb, Hl, Hmt. apply first_err_ok. intros x Hx. apply in_map_iff in Hx as [part [Hx Hp]]. subst x.
      destruct (Hall part Hp) as [k [Hr Hk]]. unfold Validate.valid. rewrite Hr, Hk. reflexivity.
    - rewrite He, Hb, Hl. unfold Validate.valid. rewrite Hr, Hp. reflexivity.
  Qed.

  Lemma attr_good_ok attrs a : attr_good attrs a -> attr_check attrs a = ok.
  Proof.
    intros [Hreq Hty]. unfold Validate.attr_check.
    destruct (alookup (a_member a) attrs) as [[|c0 v']|] eqn:Ev.
    - destruct (a_req a); [specialize (Hreq eq_refl); discriminate|reflexivity].
    - cbn [truthy negb]. rewrite andb_false_r. specialize (Hty c0 v' eq_refl). unfold typed_good in Hty.
      destruct (a_type a) as [typ|cls|].
      + destruct Hty as [k [Hr Hp]]. unfold Validate.valid. rewrite Hr, Hp. reflexivity.
      + destruct Hty as [rt [Hrt Hg]]. rewrite Hrt, (value_good_ok _ _ Hg). reflexivity.
      + destruct Hty as [k [Hr Hp]]. unfold Validate.valid. rewrite Hr, Hp. reflexivity.
    - destruct (a_req a); [specialize (Hreq eq_refl); discriminate|reflexivity].
  Qed.

  Lemma child_good_ok r vkids ch :
    card_good r (List.length (kids_of (c_member ch) vkids)) ch ->
    (forall x, In x (kids_of (c_member ch) vkids) -> x = ok) ->
    child_check r vkids ch = ok.
  Proof.
    unfold card_good, child_check. intros Hc Hall.
    destruct (kids_of (c_member ch) vkids) as [|x l] eqn:El.
    - destruct (alookup (c_member ch) (k_card r)) as [[mn mx]|]; [|reflexivity].
      destruct Hc as [H0 _]. rewrite (H0 eq_refl). reflexivity.
    - apply first_err_ok. intros y [Hy|Hy].
      + subst y. destruct (alookup (c_member ch) (k_card r)) as [[mn mx]|]; [|reflexivity].
        destruct Hc as [_ H1]. destruct H1 as [Hmn Hmx]; [cbn; discriminate|].
        assert (E1 : match mn with Some m => (Z.of_nat (List.length (x :: l)) <? m)%Z | None => false end = false).
        { destruct mn as [m|]; [|reflexivity]. apply Z.ltb_ge. apply Hmn; reflexivity. }
        assert (E2 : match mx with Some m => (m <? Z.of_nat (List.length (x :: l)))%Z | None => false end = false).
        { destruct mx as [m|]; [|reflexivity]. apply Z.ltb_ge. apply Hmx; reflexivity. }
        rewrite E1, E2. reflexivity.
      + apply in_map_iff in Hy as [z [Hz Hin]]. subst y. rewrite (Hall z Hin). reflexivity.
  Qed.

  Theorem accepts i : good i -> verify i = ok /\ valid_instance i = ok.
  Proof.
    induction 1 as [c a t K xa xe r Hrow Hattr Htext Hcard Hpre Hkids IH].
    assert (Hvk : map (fun p => let '(m0, k0) := p in (m0, verify k0)) K = oks K).
    { unfold oks. apply map_ext_in. intros [m k] Hin. destruct (IH m k Hin) as [Hv _]. rewrite Hv. reflexivity. }
    assert (Hvi : vi_node r a t (oks K) = ok).
    { unfold Validate.vi_node. apply first_err_ok. intros x [Hx|Hx].
      - subst x. unfold Validate.text_check. destruct (k_vtype r) as [vt|] eqn:Ev; [|reflexivity].
        destruct t as [[|c0 t']|]; try reflexivity. apply value_good_ok. apply (Htext vt c0 t' Ev eq_refl).
      - apply in_app_or in Hx as [Hx|Hx]; apply in_map_iff in Hx as [y [Hy Hin]]; subst x.
        + apply attr_good_ok. apply Hattr; exact Hin.
        + apply child_good_ok.
          * unfold oks. rewrite kids_of_map, map_length. apply Hcard; exact Hin.
          * unfold oks. rewrite kids_of_map. intros z Hz. apply in_map_iff in Hz as [w [Hw _]]. symmetry; exact Hw. }
    cbn [Validate.verify Validate.valid_instance]. rewrite Hrow, Hvk. split; [|exact Hvi].
    unfold Validate.verify_node. destruct (override_pre r a t (oks K) xa) as [| |e] eqn:Ep.
    - exact Hvi.
    - reflexivity.
    - exfalso. apply (Hpre e). reflexivity.
  Qed.
  (* ---------------------------------------------------------- the executable predicates are sound *)
  Notation value_badb := (value_badb prim keys).
  Notation value_goodb := (value_goodb prim keys).
  Notation typed_badb := (typed_badb prim keys S).
  Notation typed_goodb := (typed_goodb prim keys S).
  Notation attr_badb := (attr_badb prim keys S).
  Notation attr_goodb := (attr_goodb prim keys S).
  Notation text_badb := (text_badb prim keys).
  Notation text_goodb := (text_goodb prim keys).
  Notation node_violationb := (node_violationb prim keys S).
  Notation has_violation := (has_violation prim keys S).
  Notation goodb := (goodb prim keys S NIL M_SUBJECT M_ATTRST M_STATEMENT M_AUTHNST M_AUTHZST M_ONETIME M_PROXY M_DECL M_DECLREF M_ADDRESS M_DNS).

  Lemma value_badb_sound v vt : value_badb v vt = true -> value_bad v vt.
  Proof.
    unfold Validate.value_badb, value_bad. destruct (v_maxlen vt) as [n|]; [discriminate|]. intros H. split; [reflexivity|].
    destruct (v_enum vt) as [en|].
    { left. exists en. split; [reflexivity|]. apply negb_true_iff; exact H. }
    right. destruct (str_eqb (v_base vt) T_STRING) eqn:Eb.
    { left. repeat split. apply negb_true_iff; exact H. }
    right. destruct (str_eqb (v_base vt) T_LIST) eqn:El.
    - left. repeat split. destruct (v_member vt) as [mt|]; [|discriminate].
      destruct (resolve keys mt) as [k|] eqn:Er; [|discriminate].
      apply existsb_exists in H as [part [Hin Hp]]. exists mt, k, part. repeat split; try assumption.
      apply negb_true_iff; exact Hp.
    - right. repeat split. destruct (resolve keys (v_base vt)) as [k|]; [|discriminate].
      exists k. split; [reflexivity|apply negb_true_iff; exact H].
  Qed.

  Lemma value_goodb_sound v vt : value_goodb v vt = true -> value_good v vt.
  Proof.
    unfold Validate.value_goodb, value_good. destruct (v_maxlen vt) as [n|]; [intros _; left; exists n; reflexivity|].
    intros H. right. split; [reflexivity|].
    destruct (v_enum vt) as [en|].
    { left. exists en. split; [reflexivity|exact H]. }
    right. destruct (str_eqb (v_base vt) T_STRING) eqn:Eb.
    { left. repeat split. exact H. }
    right. destruct (str_eqb (v_base vt) T_LIST) eqn:El.
    - left. repeat split. destruct (v_member vt) as [mt|]; [|discriminate].
      destruct (resolve keys mt) as [k|] eqn:Er; [|discriminate].
      exists mt. split; [reflexivity|]. intros part Hin. exists k. split; [exact Er|].
      rewrite forallb_forall in H. apply H; exact Hin.
    - right. repeat split. destruct (resolve keys (v_base vt)) as [k|]; [|discriminate].
      exists k. split; [reflexivity|exact H].
  Qed.

  Lemma typed_badb_sound a v : typed_badb a v = true -> typed_bad a v.
  Proof.
    unfold Validate.typed_badb, Validate.attr_vtype, Validate.attr_tname, typed_bad.
    destruct (a_type a) as [typ|cls|].
    - destruct (resolve keys typ) as [k|]; [|discriminate]. intros H. exists k. split; [reflexivity|apply negb_true_iff; exact H].
    - destruct (find_row S cls) as [rt|]; [|discriminate]. intros H. exists rt. split; [reflexivity|]. apply value_badb_sound; exact H.
    - destruct (resolve keys []) as [k|]; [|discriminate]. intros H. exists k. split; [reflexivity|apply negb_true_iff; exact H].
  Qed.

  Lemma typed_goodb_sound a v : typed_goodb a v = true -> typed_good a v.
  Proof.
    unfold Validate.typed_goodb, Validate.attr_vtype, Validate.attr_tname, typed_good.
    destruct (a_type a) as [typ|cls|].
    - destruct (resolve keys typ) as [k|]; [|discriminate]. intros H. exists k. split; [reflexivity|exact H].
    - destruct (find_row S cls) as [rt|]; [|discriminate]. intros H. exists rt. split; [reflexivity|]. apply value_goodb_sound; exact H.
    - destruct (resolve keys []) as [k|]; [|discriminate]. intros H. exists k. split; [reflexivity|exact H].
  Qed.

  Lemma attr_badb_sound attrs a : attr_badb attrs a = true -> attr_bad attrs a.
  Proof.
    unfold Validate.attr_badb, attr_bad. intros H. apply orb_true_iff in H as [H|H].
    - left. apply andb_true_iff in H as [H1 H2]. split; [exact H1|apply negb_true_iff; exact H2].
    - right. destruct (alookup (a_member a) attrs) as [[|c0 v']|]; try discriminate.
      exists c0, v'. split; [reflexivity|apply typed_badb_sound; exact H].
  Qed.

  Lemma attr_goodb_sound attrs a : attr_goodb attrs a = true -> attr_good attrs a.
  Proof.
    unfold Validate.attr_goodb, attr_good. intros H. apply andb_true_iff in H as [H1 H2]. split.
    - intros Hr. rewrite Hr in H1. exact H1.
    - intros c0 v' Hv. rewrite Hv in H2. apply typed_goodb_sound; exact H2.
  Qed.

  Lemma text_badb_sound r t : text_badb r t = true -> text_bad r t.
  Proof.
    unfold Validate.text_badb, text_bad. destruct (k_vtype r) as [vt|]; [|discriminate].
    destruct t as [[|c0 t']|]; try discriminate. intros H. exists vt, c0, t'. split; [reflexivity|]. split; [reflexivity|]. apply value_badb_sound; exact H.
  Qed.

  Lemma text_goodb_sound r t : text_goodb r t = true -> text_good r t.
  Proof.
    unfold Validate.text_goodb, text_good. intros H vt c0 t' Hv Ht. rewrite Hv, Ht in H. apply value_goodb_sound; exact H.
  Qed.

  Lemma card_badb_sound r n ch : card_badb r n ch = true -> card_bad r n ch.
  Proof.
    unfold Validate.card_badb, card_bad. destruct (alookup (c_member ch) (k_card r)) as [[mn mx]|]; [|discriminate].
    destruct n as [|n'].
    - intros H. left. split; [reflexivity|exact H].
    - intros H. right. split; [discriminate|]. apply orb_true_iff in H as [H|H].
      + left. destruct mn as [m|]; [|discriminate]. exists m. split; [reflexivity|apply Z.ltb_lt; exact H].
      + right. destruct mx as [m|]; [|discriminate]. exists m. split; [reflexivity|apply Z.ltb_lt; exact H].
  Qed.

  Lemma card_badb_false_good r n ch : card_badb r n ch = false -> card_good r n ch.
  Proof.
    unfold Validate.card_badb, card_good. destruct (alookup (c_member ch) (k_card r)) as [[mn mx]|]; [|intros _; exact Logic.I].
    destruct n as [|n'].
    - intros H. split; [intros _; exact H|intros Hn; exfalso; apply Hn; reflexivity].
    - intros H. apply orb_false_iff in H as [H1 H2]. split; [discriminate|]. intros _. split.
      + intros m Hm. subst mn. apply Z.ltb_ge; exact H1.
      + intros m Hm. subst mx. apply Z.ltb_ge; exact H2.
  Qed.

  Lemma node_violationb_sound r a t K : node_violationb r a t K = true -> node_violation r a t K.
  Proof.
    unfold Validate.node_violationb, node_violation. intros H.
    apply orb_true_iff in H as [H|H]; [apply orb_true_iff in H as [H|H]|].
    - left. apply existsb_exists in H as [x [Hin Hx]]. exists x. split; [exact Hin|apply attr_badb_sound; exact Hx].
    - right. left. apply text_badb_sound; exact H.
    - right. right. apply existsb_exists in H as [ch [Hin Hc]]. exists ch. split; [exact Hin|apply card_badb_sound; exact Hc].
  Qed.

  Theorem has_violation_sound i : has_violation i = true -> exists j, reach i j /\ violated j.
  Proof.
    induction i as [|c a t K xa xe IH] using inst_ind'; [discriminate|].
    cbn [Validate.has_violation]. destruct (find_row S c) as [r|] eqn:Hrow; [|discriminate].
    intros H. apply orb_true_iff in H as [H|H].
    - exists (I c a t K xa xe). split; [apply reach_refl|]. exists r. split; [exact Hrow|apply node_violationb_sound; exact H].
    - apply existsb_exists in H as [[m k] [Hin Hk]]. apply andb_true_iff in Hk as [Hm Hk].
      rewrite Forall_forall in IH. destruct (IH (m, k) Hin Hk) as [j [Hr Hv]].
      exists j. split; [|exact Hv]. eapply reach_kid; [exact Hrow|apply memN_In; exact Hm|exact Hin|exact Hr].
  Qed.

  Theorem goodb_sound i : goodb i = true -> good i.
  Proof.
    induction i as [|c a t K xa xe IH] using inst_ind'; [discriminate|].
    cbn [Validate.goodb]. destruct (find_row S c) as [r|] eqn:Hrow; [|discriminate].
    intros H. apply andb_true_iff in H as [H Hk]. apply andb_true_iff in H as [H Hp].
    apply andb_true_iff in H as [H Hc]. apply andb_true_iff in H as [Ha Ht].
    rewrite forallb_forall in Ha, Hc, Hk. rewrite Forall_forall in IH.
    apply (good_I c a t K xa xe r Hrow).
    - intros x Hx. apply attr_goodb_sound, Ha, Hx.
    - apply text_goodb_sound; exact Ht.
    - intros ch Hch. apply card_badb_false_good. apply negb_true_iff. apply Hc; exact Hch.
    - intros e He. rewrite He in Hp. discriminate.
    - intros m k Hin. apply (IH (m, k) Hin). exact (Hk (m, k) Hin).
  Qed.
  (* ---------------------------------------------------------- summaries used by Props/C13.v *)
  Theorem rejects_both i j : plain_av -> reach i j -> violated j ->
    (exists e, valid_instance i = Err e) /\ (exists e, verify i = Err e).
  Proof. intros Hpl Hr Hv. split; [eapply rejects_valid_instance|eapply rejects_verify]; eassumption. Qed.

  Theorem rejects_decided i : plain_av -> has_violation i = true ->
    (exists e, valid_instance i = Err e) /\ (exists e, verify i = Err e).
  Proof. intros Hpl H. destruct (has_violation_sound i H) as [j [Hr Hv]]. eapply rejects_both; eassumption. Qed.

  Theorem accepts_decided i : goodb i = true -> verify i = ok /\ valid_instance i = ok.
  Proof. intros H. apply accepts, goodb_sound, H. Qed.

  (* the two sides of the statement never overlap *)
  Theorem spec_exclusive i : plain_av -> has_violation i = true -> goodb i = false.
  Proof.
    intros Hpl Hv. destruct (goodb i) eqn:Hg; [|reflexivity].
    destruct (rejects_decided i Hpl Hv) as [[e He] _]. destruct (accepts_decided i Hg) as [_ Ho].
    rewrite Ho in He. discriminate.
  Qed.
End V.
