(* C07, identity values that are not text: proofs about Model/PolicyVal.v *)
From PV Require Import Lib.Base Model.Policy Proofs.Policy_lemmas Model.PolicyVal.
Open Scope N_scope.

Lemma is_other_enc_other p : is_other (enc (VOther p)) = true.
Proof. reflexivity. Qed.

Lemma enc_dec s : enc (dec s) = s.
Proof. destruct s as [|c p]; [reflexivity|]. cbn. destruct (c =? SENT) eqn:E; [|reflexivity]. apply N.eqb_eq in E. subst c. reflexivity. Qed.

Lemma dec_text s : is_other s = false -> dec s = VText s.
Proof. destruct s as [|c p]; [reflexivity|]. cbn. intros H; rewrite H. reflexivity. Qed.

Lemma dec_other s : is_other s = true -> exists p, dec s = VOther p.
Proof. destruct s as [|c p]; [discriminate|]. cbn. intros H; rewrite H. eexists; reflexivity. Qed.

(* a carried value that is not marked is the text itself *)
Lemma enc_not_other v : is_other (enc v) = false -> v = VText (enc v).
Proof. destruct v as [s|p]; [reflexivity|]. rewrite is_other_enc_other. discriminate. Qed.

Section ValueRelease.
  Variable matches : str -> str -> bool.
  Variable lname : str -> str -> option str.

  (* ---- the list filter over typed values ------------------------------------------------------ *)
  Lemma vals_loop_ok rx : forall vals out, vals_loop matches rx vals = Ok out ->
    (forall v, In v vals -> exists s, v = VText s) /\
    (forall v, In v out <-> In v vals /\ exists s, v = VText s /\ matches rx s = true).
  Proof.
    induction vals as [|v r IH]; intros out H; cbn in H.
    - injection H as H; subst out. split; [intros v []|]. intros v; split; [intros []|intros [[] _]].
    - destruct v as [s|p]; cbn in H; [|discriminate].
      destruct (vals_loop matches rx r) as [rest|] eqn:E; cbn in H; [|discriminate].
      injection H as H. destruct (IH rest eq_refl) as [IH1 IH2]. split.
      + intros v [Hv|Hv]; [subst v; eexists; reflexivity|apply IH1, Hv].
      + intros v. destruct (matches rx s) eqn:Em; subst out.
        * split.
          -- intros [Hv|Hv]; [subst v; split; [left; reflexivity|exists s; split; [reflexivity|exact Em]]|].
             apply IH2 in Hv as [Hin Hs]. split; [right; exact Hin|exact Hs].
          -- intros [[Hv|Hv] Hs]; [left; exact Hv|right; apply IH2; split; assumption].
        * split.
          -- intros Hv. apply IH2 in Hv as [Hin Hs]. split; [right; exact Hin|exact Hs].
          -- intros [[Hv|Hv] [s' [Hs Hm]]]; [subst v; injection Hs as Hs; subst s'; congruence|].
             apply IH2; split; [exact Hv|exists s'; split; assumption].
  Qed.

  Lemma vals_loop_err rx vals e : vals_loop matches rx vals = Err e -> e = TypeError /\ exists p, In (VOther p) vals.
  Proof.
    induction vals as [|v r IH]; cbn; [discriminate|].
    destruct v as [s|p]; cbn.
    - destruct (vals_loop matches rx r) as [rest|e'] eqn:E; cbn; [discriminate|].
      intros H; injection H as H; subst e'. destruct (IH eq_refl) as [H1 [p Hp]]. split; [exact H1|exists p; right; exact Hp].
    - intros H; injection H as H; subst e. split; [reflexivity|exists p; left; reflexivity].
  Qed.

  Lemma vals_loop_other rx vals p : In (VOther p) vals -> vals_loop matches rx vals = Err TypeError.
  Proof.
    induction vals as [|v r IH]; [intros []|]. intros [Hv|Hv].
    - subst v. reflexivity.
    - cbn. destruct v as [s|q]; cbn; [|reflexivity]. rewrite (IH Hv). reflexivity.
  Qed.

  (* for EVERY expression list and EVERY value list: what comes out are texts of the list, each matched by a single
     expression - and exactly those *)
  Lemma filter_values_v_ok : forall rxs vals out, filter_values_v matches rxs vals = Ok out ->
    forall v, In v out <-> In v vals /\ exists s rx, v = VText s /\ In rx rxs /\ matches rx s = true.
  Proof.
    induction rxs as [|rx r IH]; intros vals out H; cbn in H.
    - injection H as H; subst out. intros v; split; [intros []|intros [_ [s [rx [_ [[] _]]]]]].
    - destruct (vals_loop matches rx vals) as [a|] eqn:Ea; cbn in H; [|discriminate].
      destruct (filter_values_v matches r vals) as [b|] eqn:Eb; cbn in H; [|discriminate].
      injection H as H; subst out. apply vals_loop_ok in Ea as [_ Ha]. specialize (IH vals b Eb).
      intros v. rewrite in_app_iff, Ha, IH. split.
      + intros [[Hin [s [Hs Hm]]]|[Hin [s [rx' [Hs [Hr Hm]]]]]].
        * split; [exact Hin|exists s, rx; split; [exact Hs|split; [left; reflexivity|exact Hm]]].
        * split; [exact Hin|exists s, rx'; split; [exact Hs|split; [right; exact Hr|exact Hm]]].
      + intros [Hin [s [rx' [Hs [[Hr|Hr] Hm]]]]].
        * subst rx'. left. split; [exact Hin|exists s; split; assumption].
        * right. split; [exact Hin|exists s, rx'; split; [exact Hs|split; assumption]].
  Qed.

  Lemma filter_values_v_err rxs vals e : filter_values_v matches rxs vals = Err e -> e = TypeError /\ exists p, In (VOther p) vals.
  Proof.
    induction rxs as [|rx r IH]; cbn; [discriminate|].
    destruct (vals_loop matches rx vals) as [a|e'] eqn:Ea; cbn.
    - destruct (filter_values_v matches r vals) as [b|e''] eqn:Eb; cbn; [discriminate|].
      intros H; injection H as H; subst e''. apply IH; reflexivity.
    - intros H; injection H as H; subst e'. eapply vals_loop_err; exact Ea.
  Qed.

  (* what the code does today: one non-text value under a non-empty expression list and the call raises *)
  Lemma filter_values_v_other rx rxs vals p : In (VOther p) vals -> filter_values_v matches (rx :: rxs) vals = Err TypeError.
  Proof. intros H. cbn. rewrite (vals_loop_other rx vals p H). reflexivity. Qed.

  (* ---- the carried dict: favs_t is favs with the marked values matching nothing, or raises TypeError ---------- *)
  Lemma vals_loop_carried rx : forall vals out, vals_loop matches rx (map dec vals) = Ok out ->
    map enc out = filter (vmatches matches rx) vals.
  Proof.
    induction vals as [|s r IH]; intros out H; cbn in H.
    - injection H as H; subst out; reflexivity.
    - destruct (is_other s) eqn:Eo.
      + apply dec_other in Eo as [p Ep]. rewrite Ep in H. cbn in H. discriminate.
      + rewrite (dec_text s Eo) in H. cbn in H.
        destruct (vals_loop matches rx (map dec r)) as [rest|] eqn:E; cbn in H; [|discriminate].
        injection H as H. cbn. unfold vmatches at 1. rewrite Eo. cbn.
        rewrite <- (IH rest eq_refl). destruct (matches rx s); subst out; reflexivity.
  Qed.

  Lemma filter_values_v_carried : forall rxs vals out, filter_values_v matches rxs (map dec vals) = Ok out ->
    map enc out = flat_map (fun rx => filter (vmatches matches rx) vals) rxs.
  Proof.
    induction rxs as [|rx r IH]; intros vals out H; cbn in H.
    - injection H as H; subst out; reflexivity.
    - destruct (vals_loop matches rx (map dec vals)) as [a|] eqn:Ea; cbn in H; [|discriminate].
      destruct (filter_values_v matches r (map dec vals)) as [b|] eqn:Eb; cbn in H; [|discriminate].
      injection H as H; subst out. cbn. rewrite map_app, (vals_loop_carried rx vals a Ea), (IH vals b Eb). reflexivity.
  Qed.

  Lemma favs_entry_t_ok rest e x : favs_entry_t matches rest e = Ok x -> x = favs_entry (vmatches matches) rest e.
  Proof.
    unfold favs_entry_t, favs_entry. destruct (lookup (lower (fst e)) rest) as [[rxs|]|].
    - destruct (filter_values_v matches rxs (map dec (snd e))) as [out|] eqn:E; cbn; [|discriminate].
      intros H; injection H as H; subst x. rewrite (filter_values_v_carried rxs (snd e) out E). reflexivity.
    - intros H; injection H as H; subst x; reflexivity.
    - intros H; injection H as H; subst x; reflexivity.
  Qed.

  Lemma favs_entry_t_err rest e x : favs_entry_t matches rest e = Err x -> x = TypeError.
  Proof.
    unfold favs_entry_t. destruct (lookup (lower (fst e)) rest) as [[rxs|]|]; try discriminate.
    destruct (filter_values_v matches rxs (map dec (snd e))) as [out|e'] eqn:E; cbn; [discriminate|].
    intros H; injection H as H; subst e'. eapply filter_values_v_err; exact E.
  Qed.

  Lemma favs_loop_t_ok rest : forall a out, favs_loop_t matches rest a = Ok out -> out = filter_map (favs_entry (vmatches matches) rest) a.
  Proof.
    induction a as [|e r IH]; intros out H; cbn in H.
    - injection H as H; subst out; reflexivity.
    - destruct (favs_entry_t matches rest e) as [x|] eqn:Ex; cbn in H; [|discriminate].
      destruct (favs_loop_t matches rest r) as [r'|] eqn:Er; cbn in H; [|discriminate].
      injection H as H. apply favs_entry_t_ok in Ex. cbn. rewrite <- Ex, <- (IH r' eq_refl). subst out. reflexivity.
  Qed.

  Lemma favs_loop_t_err rest : forall a e, favs_loop_t matches rest a = Err e -> e = TypeError.
  Proof.
    induction a as [|x r IH]; intros e H; cbn in H; [discriminate|].
    destruct (favs_entry_t matches rest x) as [y|e'] eqn:Ex; cbn in H.
    - destruct (favs_loop_t matches rest r) as [r'|e''] eqn:Er; cbn in H; [discriminate|].
      injection H as H; subst e''. apply IH; reflexivity.
    - injection H as H; subst e'. eapply favs_entry_t_err; exact Ex.
  Qed.

  Lemma favs_t_ok a rest out : favs_t matches a rest = Ok out -> out = favs (vmatches matches) a rest.
  Proof.
    unfold favs_t, favs. destruct rest as [[|r0 r]|].
    - intros H; injection H as H; subst out; reflexivity.
    - apply favs_loop_t_ok.
    - intros H; injection H as H; subst out; reflexivity.
  Qed.

  Lemma favs_t_err a rest e : favs_t matches a rest = Err e -> e = TypeError.
  Proof. unfold favs_t. destruct rest as [[|r0 r]|]; try discriminate. apply favs_loop_t_err. Qed.

  (* Policy.filter with typed values: an answer is the answer of the text model whose matcher lets no marked value
     through; an error is an error of the text model or the TypeError of the value loop *)
  Lemma pfilter_t_ok p a sp md rq op out :
    pfilter_t matches lname p a sp md rq op = Ok out -> pfilter (vmatches matches) lname p a sp md rq op = Ok out.
  Proof.
    unfold pfilter_t, pfilter.
    destruct (get_entity_categories p sp md rq) as [ecr|]; cbn [bind]; [|discriminate].
    match goal with |- bind ?X _ = _ -> _ => destruct X as [a1|] end; cbn [bind]; [|discriminate].
    destruct (get_attribute_restrictions p sp) as [ar|]; cbn [bind]; [|discriminate].
    intros H. apply favs_t_ok in H. rewrite H. reflexivity.
  Qed.

  Lemma pfilter_t_err p a sp md rq op e :
    pfilter_t matches lname p a sp md rq op = Err e -> e = TypeError \/ pfilter (vmatches matches) lname p a sp md rq op = Err e.
  Proof.
    unfold pfilter_t, pfilter.
    destruct (get_entity_categories p sp md rq) as [ecr|]; cbn [bind]; [|intros H; right; exact H].
    match goal with |- bind ?X _ = _ -> _ => destruct X as [a1|] end; cbn [bind]; [|intros H; right; exact H].
    destruct (get_attribute_restrictions p sp) as [ar|]; cbn [bind]; [|intros H; right; exact H].
    intros H. left. eapply favs_t_err; exact H.
  Qed.

  Lemma restrict_with_t_ok be p a sp md out :
    restrict_with_t matches lname be p a sp md = Ok out -> restrict_with (vmatches matches) lname be p a sp md = Ok out.
  Proof.
    unfold restrict_with_t, restrict_with. destruct md as [m|]; [|apply pfilter_t_ok].
    destruct (m_req m) as [[rq op]|]; [|apply pfilter_t_ok]. destruct be; apply pfilter_t_ok.
  Qed.

  Lemma restrict_with_t_err be p a sp md e :
    restrict_with_t matches lname be p a sp md = Err e -> e = TypeError \/ restrict_with (vmatches matches) lname be p a sp md = Err e.
  Proof.
    unfold restrict_with_t, restrict_with. destruct md as [m|]; [|apply pfilter_t_err].
    destruct (m_req m) as [[rq op]|]; [|apply pfilter_t_err]. destruct be; apply pfilter_t_err.
  Qed.

  Lemma apply_policy_with_t_ok be p a sp md out :
    apply_policy_with_t matches lname be p a sp md = Ok out -> apply_policy_with (vmatches matches) lname be p a sp md = Ok out.
  Proof.
    unfold apply_policy_with_t, apply_policy_with.
    destruct (restrict_with_t matches lname be p a sp md) as [f|] eqn:E; cbn [bind]; [|discriminate].
    apply restrict_with_t_ok in E. rewrite E. cbn [bind]. tauto.
  Qed.

  Lemma apply_policy_with_t_missing be p a sp md :
    apply_policy_with_t matches lname be p a sp md = Err MissingValue -> restrict_with (vmatches matches) lname be p a sp md = Err MissingValue.
  Proof.
    unfold apply_policy_with_t.
    destruct (restrict_with_t matches lname be p a sp md) as [f|e] eqn:E; cbn [bind]; [discriminate|].
    intros H; injection H as H; subst e. apply restrict_with_t_err in E as [E|E]; [|exact E].
    exfalso. apply TypeError_not_MissingValue. congruence.
  Qed.

  (* ---- every outcome ------------------------------------------------------------------------- *)
  Lemma setup_assertion_t_every_outcome p identity sp md b :
    outcome_ok (vmatches matches) lname p sp md identity (setup_assertion_t matches lname p identity sp md b).
  Proof.
    unfold setup_assertion_t.
    destruct (apply_policy_with_t matches lname false p identity sp md) as [a|e] eqn:E.
    - apply apply_policy_with_t_ok in E. cbn. eapply apply_policy_permitted. exact E.
    - destruct (str_eqb e MissingValue) eqn:Ee; [|exact I]. destruct b; [|exact I].
      apply str_eqb_eq in Ee; subst e. apply apply_policy_with_t_missing in E.
      destruct (apply_policy_with_t matches lname true p identity sp md) as [a|e'] eqn:E2; [|exact I].
      apply apply_policy_with_t_ok in E2. cbn. eapply best_effort_permitted; eassumption.
  Qed.

  Lemma attribute_response_t_every_outcome p identity sp md :
    outcome_ok (vmatches matches) lname p sp md identity (attribute_response_t matches lname (Some p) identity sp md).
  Proof.
    unfold attribute_response_t. destruct identity as [|e r]; [apply permitted_nil|].
    destruct (apply_policy_with_t matches lname false p (e :: r) sp md) as [a|x] eqn:E; [|exact I].
    apply apply_policy_with_t_ok in E. cbn. eapply apply_policy_permitted. exact E.
  Qed.

  (* ---- read back at the typed level: a released value of an attribute with an expression list IS a text of the
          identity that a single expression of the list matches -------------------------------------------------- *)
  Definition released_texts_only (p : cpolicy) (sp : str) (vid : vava) (a : ava) : Prop :=
    forall r, get_attribute_restrictions p sp = Ok (Some r) -> r <> [] ->
      forall n vs rxs, In (n, vs) a -> lookup (lower n) r = Some (Some rxs) ->
        forall s, In s vs -> exists ivs rx, In (n, ivs) vid /\ In (VText s) ivs /\ In rx rxs /\ matches rx s = true.

  Lemma permitted_released_texts_only p sp md vid a :
    permitted (vmatches matches) lname p sp md (enc_ident vid) a -> released_texts_only p sp vid a.
  Proof.
    intros [Hid [Har _]] r Hr Hne n vs rxs Hin Hl s Hs.
    destruct (Har r Hr Hne n vs Hin) as [rr [Hl' Hm]]. rewrite Hl in Hl'. injection Hl' as Hl'. subst rr.
    destruct (Hm rxs eq_refl s Hs) as [rx [Hrx Hv]].
    unfold vmatches in Hv. apply andb_true_iff in Hv as [Ho Hv]. apply negb_true_iff in Ho.
    destruct (Hid n vs Hin) as [ivs' [Hi Hincl]].
    unfold enc_ident in Hi. apply in_map_iff in Hi as [[n0 ivs] [Heq Hi]]. cbn in Heq. injection Heq as Hn Hivs. subst n0 ivs'.
    specialize (Hincl s Hs). apply in_map_iff in Hincl as [v [Hv' Hinv]]. subst s.
    exists ivs, rx. split; [exact Hi|]. split; [|split; [exact Hrx|exact Hv]].
    rewrite <- (enc_not_other v Ho). exact Hinv.
  Qed.

  Definition outcome_texts_only (p : cpolicy) (sp : str) (vid : vava) (o : outcome) : Prop :=
    match o with Asserted a => released_texts_only p sp vid a | _ => True end.

  Lemma outcome_ok_texts_only p sp md vid o :
    outcome_ok (vmatches matches) lname p sp md (enc_ident vid) o -> outcome_texts_only p sp vid o.
  Proof. destruct o as [a| |e]; cbn; try tauto. apply permitted_released_texts_only. Qed.
End ValueRelease.

(* ---- the mistake the property excludes: judging str(value) and keeping the value ----------------------------- *)
Definition witness_rx : str := s2l "\d+$".
Definition witness_matches : str -> str -> bool := tbl_matches [(witness_rx, s2l "5")].
Definition witness_value : value := VOther (s2l "int" ++ SENT :: s2l "5").

Lemma str_of_is_not_the_value :
  In (VOther (s2l "5")) (filter_values_str witness_matches [witness_rx] [VText (s2l "x"); VOther (s2l "5")]) /\
  filter_values_v witness_matches [witness_rx] [VText (s2l "x"); VOther (s2l "5")] = Err TypeError.
Proof. split; vm_compute; [left; reflexivity|reflexivity]. Qed.
