(* Proofs/EncryptMd_lemmas.v — C17, identity provider: the statements of Proofs/Encrypt_lemmas.v
   with the hypothesis put on the service provider's METADATA (key descriptors with an
   optional use attribute, several role descriptors, several sources) instead of on the
   derived certificate list. *)
From PV Require Import Lib.Base Model.Status Model.Response Model.Encrypt Model.CertSelect Model.EncryptMd
  Proofs.CertSelect_lemmas Proofs.Encrypt_lemmas.
Open Scope N_scope.

(* ---------- which certificates the IdP finds for the SP ---------- *)
Lemma use_matches_encryption kd : use_matches ENCRYPTION kd = true <-> for_encryption kd.
Proof.
  unfold use_matches, for_encryption. destruct (kd_use kd) as [u|].
  - rewrite str_eqb_eq. split.
    + intros ->. now right.
    + intros [H|H]; [discriminate|]. now injection H.
  - split; [now left|reflexivity].
Qed.

Lemma md_enc_certs_spec m sp k u :
  In (k, u) (md_enc_certs m sp) <-> sp_enc_cert m sp k /\ u = negb (k =? 0).
Proof.
  unfold md_enc_certs, sp_enc_cert. destruct (md_certs m (Some sp) ENCRYPTION) as [l|] eqn:Em.
  - destruct (md_certs_spec _ _ _ _ Em) as (i & e & Hi & Hf & Hl). injection Hi as <-.
    rewrite in_map_iff. unfold cert_pair. split.
    + intros (x & Hx & Hin). injection Hx as -> <-. split; [|reflexivity].
      apply Hl in Hin as (r & kd & Hr & Hk & Hu & Hc). exists e, r, kd. rewrite <- use_matches_encryption. auto.
    + intros ((e' & r & kd & Hf' & Hr & Hk & Hu & Hc) & ->). exists k. split; [reflexivity|].
      rewrite Hf in Hf'. injection Hf' as <-. apply Hl. exists r, kd. rewrite use_matches_encryption. auto.
  - split; [intros []|]. intros ((e & r & kd & Hf & _) & _). unfold md_certs in Em. rewrite Hf in Em. discriminate.
Qed.

Lemma has_enc_key_certs m sp : sp_has_enc_key m sp <-> md_enc_certs m sp <> [].
Proof.
  split.
  - intros (k & Hk) He. assert (In (k, negb (k =? 0)) (md_enc_certs m sp)) as Hin by (apply md_enc_certs_spec; auto).
    rewrite He in Hin. destruct Hin.
  - destruct (md_enc_certs m sp) as [|[k u] l] eqn:El; [congruence|]. intros _. exists k.
    assert (In (k, u) (md_enc_certs m sp)) as Hin by (rewrite El; now left). now apply md_enc_certs_spec in Hin.
Qed.

Lemma no_enc_key_certs m sp : (forall k, ~ sp_enc_cert m sp k) -> md_enc_certs m sp = [].
Proof.
  intros H. destruct (md_enc_certs m sp) as [|[k u] l] eqn:El; [reflexivity|]. exfalso. apply (H k).
  assert (In (k, u) (md_enc_certs m sp)) as Hin by (rewrite El; now left). now apply md_enc_certs_spec in Hin.
Qed.

Lemma has_cert_md ca g m sp : sp_has_enc_key m sp -> has_cert_for ca (args_md g m sp).
Proof. intros H. left. cbn. now apply has_enc_key_certs. Qed.

(* ---------- confidentiality, hypothesis on the metadata ---------- *)
Lemma confidential_md g m sp i1 i2 :
  g_encrypt_assertion g = true -> sp_has_enc_key m sp ->
  vis (idp_build_md g m sp i1) = vis (idp_build_md g m sp i2).
Proof. intros He Hk. unfold idp_build_md. apply confidential_main; [exact He|now apply has_cert_md]. Qed.

Lemma confidential_advice_md g m sp n a1 a2 :
  g_pefim g = true -> sp_has_enc_key m sp ->
  vis (idp_build_md g m sp {| i_name_id := n; i_attrs := a1 |}) = vis (idp_build_md g m sp {| i_name_id := n; i_attrs := a2 |}).
Proof. intros He Hk. unfold idp_build_md. apply confidential_advice; [exact He|now apply has_cert_md]. Qed.

Lemma no_occurrence_md g m sp i out s :
  g_encrypt_assertion g = true -> sp_has_enc_key m sp -> idp_build_md g m sp i = Ok out ->
  (forall out0, idp_build_md g m sp no_ident = Ok out0 -> ~ In s (visible out0)) -> ~ In s (visible out).
Proof. intros He Hk. unfold idp_build_md. apply no_occurrence_main; [exact He|now apply has_cert_md]. Qed.

(* ---------- every ciphertext opens under a key the SP's own metadata offers for encryption ---------- *)
Lemma enc_keys_md g m sp i t k :
  idp_build_md g m sp i = Ok t -> In k (enc_keys t) ->
  g_cert_assertion g = CGiven k true \/ g_cert_advice g = CGiven k true \/ (sp_enc_cert m sp k /\ k <> 0).
Proof.
  unfold idp_build_md, idp_build. intros H Hk. destruct (enc_keys_for_sp true _ _ _ H k Hk) as [Hc|Hc]; cbn in Hc.
  - destruct (g_cert_assertion g) as [| |k' u]; cbn in Hc.
    + right. right. apply md_enc_certs_spec in Hc as [Hs Hu]. split; [exact Hs|]. intros ->. discriminate.
    + right. right. apply md_enc_certs_spec in Hc as [Hs Hu]. split; [exact Hs|]. intros ->. discriminate.
    + destruct Hc as [Hc|[]]. injection Hc as -> ->. now left.
  - destruct (g_cert_advice g) as [| |k' u]; cbn in Hc.
    + right. right. apply md_enc_certs_spec in Hc as [Hs Hu]. split; [exact Hs|]. intros ->. discriminate.
    + right. right. apply md_enc_certs_spec in Hc as [Hs Hu]. split; [exact Hs|]. intros ->. discriminate.
    + destruct Hc as [Hc|[]]. injection Hc as -> ->. right. now left.
Qed.

(* ---------- no certificate for encryption: nothing claims to be encrypted ---------- *)
Lemma claims_values vs : existsb claims_encrypted (map (fun v : str => El (E "AttributeValue") [] (Some v) []) vs) = false.
Proof. induction vs as [|v vs IH]; [reflexivity|]. cbn [map existsb]. rewrite IH. reflexivity. Qed.

Lemma claims_attrs attrs : existsb claims_encrypted (map attr_el attrs) = false.
Proof.
  induction attrs as [|a attrs IH]; [reflexivity|]. cbn [map existsb]. rewrite IH, orb_false_r.
  unfold attr_el. cbn [claims_encrypted]. rewrite claims_values. reflexivity.
Qed.

Lemma claims_attr_stmt attrs : existsb claims_encrypted (attr_stmt attrs) = false.
Proof.
  destruct attrs as [|a attrs]; [reflexivity|]. unfold attr_stmt. cbn [existsb claims_encrypted]. rewrite claims_attrs. reflexivity.
Qed.

Lemma claims_advice p attrs : claims_encrypted (advice_assertion p attrs) = false.
Proof.
  unfold advice_assertion. cbn [claims_encrypted]. rewrite existsb_app, claims_attr_stmt. reflexivity.
Qed.

Lemma claims_main p n adv attrs : existsb claims_encrypted adv = false -> claims_encrypted (main_assertion p n adv attrs) = false.
Proof.
  intros Ha. unfold main_assertion. cbn [claims_encrypted]. rewrite !existsb_app, claims_attr_stmt.
  assert (forall l : list str, existsb claims_encrypted (map (fun n0 => El (E "NameID") [(E "Format", E "urn:oasis:names:tc:SAML:2.0:nameid-format:transient")] (Some n0) []) l) = false) as Hn
    by (induction l as [|x l IH]; [reflexivity|exact IH]).
  cbn [existsb claims_encrypted txt conditions_el]. rewrite !existsb_app, Hn.
  destruct adv as [|a adv']; [reflexivity|]. cbn [existsb claims_encrypted] in *. rewrite Ha. reflexivity.
Qed.

Lemma claims_sign_el k t : claims_encrypted (sign_el k t) = claims_encrypted t.
Proof. destruct t; reflexivity. Qed.
Lemma claims_sign_if b k t : claims_encrypted (sign_if b k t) = claims_encrypted t.
Proof. destruct b; [apply claims_sign_el|reflexivity]. Qed.
Lemma claims_response p x : claims_encrypted (response_el p [x]) = claims_encrypted x.
Proof. unfold response_el. cbn. now rewrite orb_false_r. Qed.

Lemma nothing_claims_encrypted fixed g i t :
  g_md_certs g = [] -> g_cert_assertion g = CNone -> g_cert_advice g = CNone ->
  idp_build_with fixed g i = Ok t -> claims_encrypted t = false.
Proof.
  intros Hm Ha Hd. unfold idp_build_with. destruct (gather g); [|discriminate]. unfold response_with.
  rewrite Hm, Ha, Hd. cbn [is_nil negb is_cnone andb orb]. rewrite !andb_true_r. cbn [andb orb].
  set (adv := if g_pefim g then [advice_assertion (g_pub g) (i_attrs i)] else []).
  assert (existsb claims_encrypted adv = false) as Hadv.
  { unfold adv. destruct (g_pefim g); [|reflexivity]. cbn [existsb]. now rewrite claims_advice. }
  intros H.
  match type of H with (if ?x then _ else _) = _ => destruct x end.
  { apply Ok_inj in H; subst t. rewrite claims_response, claims_sign_el. now apply claims_main. }
  destruct (g_sign_response g).
  - apply Ok_inj in H; subst t. rewrite claims_sign_el, claims_response, claims_sign_if. now apply claims_main.
  - match type of H with (if ?x then _ else _) = _ => destruct x end; apply Ok_inj in H; subst t;
      rewrite claims_response, ?claims_sign_el; now apply claims_main.
Qed.

Lemma nothing_claims_encrypted_md g m sp i t :
  (forall k, ~ sp_enc_cert m sp k) -> g_cert_assertion g = CNone -> g_cert_advice g = CNone ->
  idp_build_md g m sp i = Ok t -> claims_encrypted t = false.
Proof.
  intros Hn Ha Hd. unfold idp_build_md, idp_build. apply nothing_claims_encrypted; cbn; auto. now apply no_enc_key_certs.
Qed.

(* ---------- only a later certificate is usable: it is the one used ---------- *)
Lemma cert_loop_first cs : forall f k, first_usable cs = Some k -> cert_loop cs f = Ok (Some k).
Proof.
  induction cs as [|[k' u] cs IH]; intros f k H; cbn in *; [discriminate|]. destruct u; [now injection H as ->|]. now apply IH.
Qed.

Lemma first_usable_In cs : forall k, first_usable cs = Some k -> In (k, true) cs.
Proof.
  induction cs as [|[k' u] cs IH]; intros k H; cbn in H; [discriminate|]. destruct u.
  - injection H as ->. now left.
  - right. now apply IH.
Qed.

Lemma first_usable_exists cs k : In (k, true) cs -> exists k', first_usable cs = Some k'.
Proof.
  induction cs as [|[k' u] cs IH]; intros H; [destruct H|]. cbn. destruct u; [now eexists|].
  destruct H as [H|H]; [discriminate|]. now apply IH.
Qed.

Lemma first_usable_nonempty cs k : first_usable cs = Some k -> cs <> [].
Proof. destruct cs; [discriminate|discriminate]. Qed.

Lemma later_cert_used g i k :
  g_encrypt_assertion g = true -> g_cert_assertion g = CNone -> g_cert_advice g = CNone ->
  g_verify_assertion g = None -> g_verify_advice g = None ->
  g_self_contained g || g_pefim g || g_sign_assertion g = true ->
  first_usable (g_md_certs g) = Some k ->
  exists t, idp_build g i = Ok t /\ hd_error (enc_keys t) = Some k.
Proof.
  intros He Ha Hd Hva Hvd Htext Hk.
  assert (has_cert_for (g_cert_assertion g) g) as Hc by (left; now apply (first_usable_nonempty _ k)).
  unfold idp_build, idp_build_with, gather, cert_accepted. rewrite Hva, Hvd, He.
  replace (if g_enc_advice g || g_pefim g then Ok tt else Ok tt) with (@Ok unit tt) by (destruct (g_enc_advice g || g_pefim g); reflexivity).
  unfold response_with. rewrite He.
  rewrite (enc_req_flag _ g _ Hc). rewrite (has_cert_flag _ g true Hc). cbn [negb andb orb]. rewrite !andb_false_r. cbn [andb orb].
  rewrite Htext, Ha, Hd. unfold encrypt_main, encrypt_with. cbn [certs_for]. rewrite !(cert_loop_first _ false k Hk).
  match goal with |- exists t, (match ?A with _ => _ end) = _ /\ _ =>
    assert (exists ak, A = Ok ak) as (ak & ->) end.
  { destruct (g_pefim g); cbn [is_nil negb andb].
    - match goal with |- exists ak, (if ?x then _ else _) = _ => destruct x end; now eexists.
    - rewrite andb_false_r. now eexists. }
  eexists. split; [reflexivity|]. rewrite enc_keys_sign, enc_keys_response. reflexivity.
Qed.

Lemma later_cert_used_md g m sp i k0 :
  g_encrypt_assertion g = true -> g_cert_assertion g = CNone -> g_cert_advice g = CNone ->
  g_verify_assertion g = None -> g_verify_advice g = None ->
  g_self_contained g || g_pefim g || g_sign_assertion g = true ->
  sp_enc_cert m sp k0 -> k0 <> 0 ->
  exists t k, idp_build_md g m sp i = Ok t /\ hd_error (enc_keys t) = Some k /\
              first_usable (md_enc_certs m sp) = Some k /\ sp_enc_cert m sp k /\ k <> 0.
Proof.
  intros He Ha Hd Hva Hvd Htext Hs Hk0.
  assert (In (k0, true) (md_enc_certs m sp)) as Hin.
  { apply md_enc_certs_spec. split; [exact Hs|]. destruct (N.eqb_spec k0 0); [contradiction|reflexivity]. }
  destruct (first_usable_exists _ _ Hin) as (k & Hk).
  destruct (later_cert_used (args_md g m sp) i k) as (t & Ht & Hh); cbn; auto.
  exists t, k. repeat split; auto.
  - apply first_usable_In in Hk. now apply md_enc_certs_spec in Hk.
  - apply first_usable_In in Hk. apply md_enc_certs_spec in Hk as [_ Hu]. intros ->. discriminate.
Qed.

(* ---------- witnesses: hand-written metadata ---------- *)
Definition SPID : str := E "https://sp.example.org/sp".
Definition kd (u : string) (cs : list N) : keydesc := {| kd_use := Some (s2l u); kd_certs := cs |}.
Definition kdn (cs : list N) : keydesc := {| kd_use := None; kd_certs := cs |}.
(* one source; another entity first; the SP: spsso role with a signing key and a use-less key, in that order *)
Definition md_useless : mdstore :=
  [(E "https://other.example.org/sp", [[kd "encryption" [2]]]); (SPID, [[kd "signing" [2]; kdn [1]]])].
(* signing only *)
Definition md_signing_only : mdstore := [(SPID, [[kd "signing" [1]]])].
(* a use-less key under another role descriptor only *)
Definition md_other_role : mdstore := [(SPID, [[kd "signing" [2]]; [kdn [1]]])].
(* the same entity in two sources: the first one served has a signing key only *)
Definition md_two_sources : mdstore := [(SPID, [[kd "signing" [1]]]); (SPID, [[kd "encryption" [1]]])].
(* garbage first, another descriptor later *)
Definition md_later : mdstore := [(SPID, [[kd "signing" [2]; kd "encryption" [0]; kdn [0; 1]]])].

Definition g_enc : idp_args := {| g_sign_response := false; g_sign_assertion := true; g_encrypt_assertion := true; g_enc_advice := false;
  g_pefim := false; g_self_contained := true; g_cert_assertion := CNone; g_cert_advice := CNone; g_md_certs := []; g_verify_assertion := None; g_verify_advice := None;
  g_idp_key := 3; g_pub := pub0 |}.

Lemma md_witness :
  (sp_has_enc_key md_useless SPID /\ md_enc_certs md_useless SPID = [(1, true)] /\
   exists out, idp_build_md g_enc md_useless SPID ident0 = Ok out /\ enc_keys out = [1] /\
               ~ In (E "subject-7") (visible out) /\ ~ In (E "anna@example.org") (visible out)) /\
  (md_enc_certs md_other_role SPID = [(1, true)]) /\
  (md_enc_certs md_later SPID = [(0, false); (1, true)] /\
   exists out, idp_build_md g_enc md_later SPID ident0 = Ok out /\ enc_keys out = [1]) /\
  ((forall k, ~ sp_enc_cert md_signing_only SPID k) /\
   exists out, idp_build_md g_enc md_signing_only SPID ident0 = Ok out /\ claims_encrypted out = false /\ In (E "subject-7") (visible out)) /\
  (md_enc_certs md_two_sources SPID = []).
Proof.
  split; [|split; [reflexivity|split; [|split; [|reflexivity]]]].
  - split; [|split; [reflexivity|]].
    + exists 1. exists [[kd "signing" [2]; kdn [1]]], [kd "signing" [2]; kdn [1]], (kdn [1]).
      split; [reflexivity|]. split; [now left|]. split; [right; now left|]. split; [now left|now left].
    + eexists. split; [reflexivity|]. split; [reflexivity|]. vm_compute.
      split; intros H; repeat (destruct H as [H|H]; [discriminate H|]); exact H.
  - split; [reflexivity|]. eexists. split; reflexivity.
  - split.
    + intros k Hk. assert (In (k, negb (k =? 0)) (md_enc_certs md_signing_only SPID)) as Hin by (apply md_enc_certs_spec; auto). exact Hin.
    + eexists. split; [reflexivity|]. split; [reflexivity|]. vm_compute. tauto.
Qed.
