(* C02 on document trees with encrypted advice: a present-but-invalid signature of an advice assertion is never
   ignored.  About Model.Encrypt.parse_t / parse_response_t (the model shared with C17), via Model.AdviceSig. *)
From PV Require Import Lib.Base Model.Status Model.Response Model.Encrypt Model.AdviceSig
     Proofs.Response_lemmas Proofs.EncryptSP_lemmas Proofs.EncryptTree_lemmas.

Lemma sig_bad_false_iff v : sig_bad v = false <-> view_not_bad v.
Proof.
  unfold sig_bad, view_not_bad. destruct (sig_now v) as [[u|e]|]; split.
  - intros _ e0 K. discriminate.
  - reflexivity.
  - discriminate.
  - intros H. exfalso. now apply (H e).
  - intros _ e0 K. discriminate.
  - reflexivity.
Qed.

Lemma advice_pass_ok : forall l, advice_pass l = Ok tt -> Forall view_not_bad (flat_map advice_views l).
Proof.
  induction l as [|v l IH]; cbn [advice_pass flat_map]; intros H; [constructor|].
  destruct (verify_views (advice_views v)) as [[]|] eqn:EV; [|discriminate].
  apply Forall_app. split; [now apply verify_views_ok|now apply IH].
Qed.

Lemma advice_pass_bad : forall l, Exists (fun v => sig_bad v = true) (flat_map advice_views l) -> exists e, advice_pass l = Err e.
Proof.
  intros l HX. destruct (advice_pass l) as [[]|e] eqn:AP; [|now exists e].
  apply advice_pass_ok in AP. apply Exists_exists in HX as (v & Hin & Hb).
  rewrite Forall_forall in AP. apply AP in Hin. apply sig_bad_false_iff in Hin. congruence.
Qed.

(* the stage: for every requirement flag, state, retry state and fault schedule *)
Lemma parse_t_advice tc c irt req s root again fs s' :
  so_res (parse_t tc c irt req s root again fs) = Ok s' -> find_encrypt_data root = true ->
  exists t2, decrypted tc root fs = Some t2 /\ Forall (fun v => sig_bad v = false) (advice_read t2).
Proof.
  unfold parse_t, decrypted, advice_read. cbv zeta. intros H FE. rewrite FE in H. cbn [negb] in H.
  destruct (negb ((List.length (asrts root) =? 1)%nat || (List.length (eas root) =? 1)%nat || again)); [discriminate|].
  destruct (check_assertions c irt req false false s (map as_checked (asrts root))) as [s1|]; [|discriminate].
  destruct (dec_loop (fuel_for (reserialize root) fs) find_encrypt_data (t_keys tc) (t_pol tc) fs (reserialize root)) as [[t1 fs1]|];
    [|discriminate].
  destruct (verify_views (ea_asrts t1)) as [[]|]; [|discriminate].
  destruct (dec_loop (fuel_for t1 fs1) cond2 (t_keys tc) (t_pol tc) fs1 t1) as [[t2 fs2]|]; [|discriminate].
  destruct (t_fixed tc && negb (nlist_eqb (ids_of (ea_asrts t2)) (ids_of (ea_asrts t1)) && nlist_eqb (ids_of (asrts t2)) (ids_of (asrts root))));
    [discriminate|].
  destruct (advice_pass (ea_asrts t2 ++ asrts t2)) as [[]|] eqn:AP; [|discriminate].
  exists t2. split; [reflexivity|].
  apply advice_pass_ok in AP. rewrite Forall_forall in *. intros v Hv. apply sig_bad_false_iff. now apply AP.
Qed.

(* contrapositive: a bad advice signature in the decrypted text stops the stage, whatever is required *)
Lemma parse_t_bad_advice_refused tc c irt req s root again fs t2 :
  find_encrypt_data root = true -> decrypted tc root fs = Some t2 ->
  Exists (fun v => sig_bad v = true) (advice_read t2) ->
  exists e, so_res (parse_t tc c irt req s root again fs) = Err e.
Proof.
  intros FE D HX. destruct (so_res (parse_t tc c irt req s root again fs)) as [s'|e] eqn:R; [|now exists e].
  destruct (parse_t_advice _ _ _ _ _ _ _ _ _ R FE) as (t2' & D' & F). rewrite D in D'. injection D' as <-.
  apply Exists_exists in HX as (v & Hin & Hb). rewrite Forall_forall in F. apply F in Hin. congruence.
Qed.

(* the whole run: in whichever attempt the response was accepted, every advice signature present verified *)
Lemma tree_advice_verified tc c r root fs o :
  parse_response_t tc c r root fs = Ok o ->
  exists root' fs', attempt_document tc c r root fs root' fs' /\
    (find_encrypt_data root' = true ->
     exists t2, decrypted tc root' fs' = Some t2 /\ Forall (fun v => sig_bad v = false) (advice_read t2)).
Proof.
  intros H. unfold parse_response_t in H. apply accepted_x in H as (rq & s0 & HL & H).
  destruct H as [(s' & x' & Hs & _)|(x1 & s' & x' & Hx1 & Wa & Hs & _)].
  - exists root, fs. split; [left; now split|]. intros FE.
    unfold stage_t in Hs. injection Hs as Hs _. exact (parse_t_advice _ _ _ _ _ _ _ _ _ Hs FE).
  - destruct Hx1 as [->|(e & He)].
    + exists root, fs. split; [left; now split|]. intros FE.
      unfold stage_t in Hs. injection Hs as Hs _. exact (parse_t_advice _ _ _ _ _ _ _ _ _ Hs FE).
    + destruct x1 as [[fs1 root1] again1]. unfold stage_t in He. injection He as He Hf Hr Ha.
      exists root1, fs1. split.
      * right. split; [exact Wa|]. exists rq, s0, e. repeat split; auto.
      * intros FE. unfold stage_t in Hs. injection Hs as Hs _. exact (parse_t_advice _ _ _ _ _ _ _ _ _ Hs FE).
Qed.
