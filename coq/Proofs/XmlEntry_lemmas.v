(* Proofs/XmlEntry_lemmas.v — C11: the inventory obligation over today's
   regenerated table, and the reader / entry-point lemmas (all by induction
   over arbitrary event lists; nothing here is a sample). *)
From PV Require Import Lib.Base Model.XmlEntry Gen.XmlSites.
Open Scope N_scope.

(* ------------------------------------------------------------------ *)
(* A. inventory                                                         *)
(* ------------------------------------------------------------------ *)
Lemma inventory_today : inventory_ok xml_sites et_uses = true.
Proof. vm_compute. reflexivity. Qed.

Lemma site_ok_core s :
  site_ok s = true -> s_tag s = Core ->
  s_kind s = KCall /\ exists m, s_module s = Some m /\ is_defused_module m = true /\ weakened s = false.
Proof.
  unfold site_ok. intros H Ht. rewrite Ht in H.
  destruct (s_kind s); try discriminate.
  destruct (s_module s) as [m|]; try discriminate.
  apply andb_true_iff in H as [Hm Hw]. split; [reflexivity|].
  exists m. repeat split; try assumption. now destruct (weakened s).
Qed.

Lemma site_ok_optional s :
  site_ok s = true -> s_tag s = OptionalBackend ->
  exists m, s_module s = Some m /\ is_optional_module m = true.
Proof.
  unfold site_ok. intros H Ht. rewrite Ht in H.
  destruct (s_kind s); try discriminate.
  destruct (s_module s) as [m|]; try discriminate.
  exists m. split; [reflexivity|assumption].
Qed.

Lemma weakened_false s :
  weakened s = false ->
  s_star s = false /\ (s_npos s <= 1) /\
  forall k v, In (k, v) (s_kws s) ->
    (k = s2l "forbid_dtd" /\ v <> KwOther) \/
    ((k = s2l "forbid_entities" \/ k = s2l "forbid_external") /\ v = KwTrue).
Proof.
  unfold weakened. intros H.
  apply orb_false_iff in H as [H Hk]. apply orb_false_iff in H as [Hs Hn].
  split; [assumption|]. split; [apply N.ltb_ge; assumption|].
  intros k v Hin. apply negb_false_iff in Hk. rewrite forallb_forall in Hk.
  specialize (Hk (k, v) Hin). unfold kw_ok in Hk.
  destruct (str_eqb_spec k (s2l "forbid_dtd")) as [->|_].
  - left. split; [reflexivity|]. destruct v; congruence.
  - destruct (str_eqb_spec k (s2l "forbid_entities")) as [->|_]; cbn [orb] in Hk.
    + right. split; [now left|]. destruct v; congruence.
    + destruct (str_eqb_spec k (s2l "forbid_external")) as [->|_]; [|discriminate].
      right. split; [now right|]. destruct v; congruence.
Qed.

Lemma every_site_ok : forall s, In s xml_sites -> site_ok s = true.
Proof.
  pose proof inventory_today as H. unfold inventory_ok in H.
  apply andb_true_iff in H as [H _]. rewrite forallb_forall in H. exact H.
Qed.

Lemma every_use_building : forall u, In u et_uses -> In (u_attr u) et_building_names.
Proof.
  pose proof inventory_today as H. unfold inventory_ok in H.
  apply andb_true_iff in H as [_ H]. rewrite forallb_forall in H.
  intros u Hu. apply mem_str_In. exact (H u Hu).
Qed.

Lemma inventory_has_core_site : existsb is_core_defused xml_sites = true.
Proof. vm_compute. reflexivity. Qed.

(* ------------------------------------------------------------------ *)
(* B. readers                                                           *)
(* ------------------------------------------------------------------ *)
Lemma text_event_fields st s st' :
  text_event st s = Ok st' ->
  trace st' = trace st /\ ents st' = ents st /\ root_done st' = root_done st /\
  (stack st = [] -> stack st' = []) /\ List.length (stack st') = List.length (stack st).
Proof.
  unfold text_event. destruct (stack st) as [|f rest] eqn:Hs.
  - destruct (forallb is_ws s); intros H; inversion H; subst. rewrite Hs. repeat split; auto.
  - intros H; inversion H; subst; cbn. repeat split; auto. discriminate.
Qed.

Lemma step_trace r st e st' :
  on_external r <> ExtFetch -> step r st e = Ok st' -> trace st' = trace st.
Proof.
  intros Hr. destruct e; cbn [step]; intros H.
  - inversion H; reflexivity.
  - destruct (on_entity r); [discriminate|]. destruct k; inversion H; reflexivity.
  - destruct (on_external r); try discriminate; [inversion H; reflexivity|congruence].
  - inversion H; reflexivity.
  - destruct (root_done st); inversion H; reflexivity.
  - destruct (stack st) as [|f [|p rest]]; inversion H; reflexivity.
  - apply text_event_fields in H. tauto.
  - destruct (lookup name (ents st)); [|discriminate].
    destruct (text_event st s) eqn:Ht; inversion H; subst; cbn.
    apply text_event_fields in Ht. tauto.
  - discriminate.
Qed.

Lemma run_from_no_io r :
  on_external r <> ExtFetch ->
  forall evs st, trace st = [] -> snd (run_from r st evs) = [].
Proof.
  intros Hr. induction evs as [|e evs IH]; intros st Hst; cbn [run_from].
  - exact Hst.
  - destruct (step r st e) as [st'|x] eqn:Hs; [|exact Hst].
    apply IH. rewrite (step_trace _ _ _ _ Hr Hs). exact Hst.
Qed.

Lemma parse_io_split r evs : parse_io r evs = (finish (fst (run_from r st0 evs)), rev (snd (run_from r st0 evs))).
Proof. unfold parse_io. destruct (run_from r st0 evs); reflexivity. Qed.

Lemma no_fetch_no_io r :
  on_external r <> ExtFetch -> forall evs, io_of r evs = [].
Proof.
  intros Hr evs. unfold io_of. rewrite parse_io_split. cbn [snd].
  rewrite (run_from_no_io r Hr evs st0 eq_refl). reflexivity.
Qed.

Lemma defused_no_io : forall evs, io_of defused evs = [].
Proof. apply no_fetch_no_io. discriminate. Qed.

(* a fetching reader DOES perform IO: the property separates the reader kinds *)
Lemma fetching_does_io :
  io_of fetching [Doctype None; EntityDecl (s2l "e") (GenExternal (s2l "file:///etc/passwd"));
                  StartElem (s2l "r") []; ExternalRef (s2l "file:///etc/passwd"); EndElem]
  = [IoOpen (s2l "file:///etc/passwd")].
Proof. vm_compute. reflexivity. Qed.

Lemma stdlib_et_expands :
  expands stdlib_et [Doctype None; EntityDecl (s2l "e") (GenInternal (s2l "EXPANDED"));
                     StartElem (s2l "r") []; EntityRef (s2l "e"); EndElem] = true /\
  parse stdlib_et [Doctype None; EntityDecl (s2l "e") (GenInternal (s2l "EXPANDED"));
                   StartElem (s2l "r") []; EntityRef (s2l "e"); EndElem]
  = Ok (Node (s2l "r") [] (Some (s2l "EXPANDED")) []).
Proof. vm_compute. split; reflexivity. Qed.

(* the defused reader never learns an entity *)
Lemma defused_step_ents st e st' : step defused st e = Ok st' -> ents st' = ents st.
Proof.
  destruct e; cbn [step defused on_entity on_external]; intros H; try discriminate.
  - inversion H; reflexivity.
  - inversion H; reflexivity.
  - destruct (root_done st); inversion H; reflexivity.
  - destruct (stack st) as [|f [|p rest]]; inversion H; reflexivity.
  - apply text_event_fields in H. tauto.
  - destruct (lookup name (ents st)); [|discriminate].
    destruct (text_event st s) eqn:Ht; inversion H; subst; cbn.
    apply text_event_fields in Ht. tauto.
Qed.

Lemma defused_step_hostile st e st' :
  ents st = [] -> step defused st e = Ok st' -> hostile e = false.
Proof.
  intros He. destruct e; cbn [step defused on_entity on_external]; intros H; try discriminate; try reflexivity.
  rewrite He in H. cbn in H. discriminate.
Qed.

Lemma defused_run_ok_benign :
  forall evs st st', ents st = [] -> fst (run_from defused st evs) = Ok st' ->
    forallb (fun e => negb (hostile e)) evs = true.
Proof.
  induction evs as [|e evs IH]; intros st st' He H; [reflexivity|].
  cbn [run_from] in H. destruct (step defused st e) as [st1|x] eqn:Hs; [|discriminate].
  cbn [forallb]. rewrite (defused_step_hostile _ _ _ He Hs). cbn.
  apply (IH st1 st'); [|exact H]. rewrite (defused_step_ents _ _ _ Hs). exact He.
Qed.

Lemma parse_ok_run r evs t :
  parse r evs = Ok t -> exists st, fst (run_from r st0 evs) = Ok st /\ root_done st = Some t.
Proof.
  unfold parse. rewrite parse_io_split. cbn [fst]. unfold finish.
  destruct (fst (run_from r st0 evs)) as [st|x]; [|discriminate].
  destruct (root_done st) as [t'|] eqn:Hd; [|discriminate].
  intros H; inversion H; subst. exists st. split; [reflexivity|exact Hd].
Qed.

(* success of the defused reader implies: no entity declaration, no external
   reference, no entity reference and no well-formedness error ANYWHERE in the input *)
Lemma defused_ok_benign evs t :
  parse defused evs = Ok t -> forallb (fun e => negb (hostile e)) evs = true.
Proof.
  intros H. apply parse_ok_run in H as (st & Hr & _).
  exact (defused_run_ok_benign evs st0 st eq_refl Hr).
Qed.

Lemma defused_entity_decl_rejected evs :
  existsb is_entity_decl evs = true -> forall t, parse defused evs <> Ok t.
Proof.
  intros Hex t H. apply defused_ok_benign in H. rewrite forallb_forall in H.
  apply existsb_exists in Hex as (e & Hin & He). specialize (H e Hin).
  unfold hostile in H. rewrite He in H. discriminate.
Qed.

(* exact class: a declaration met in the prolog (after DOCTYPE / PIs / white
   space only) is answered with EntitiesForbidden *)
Definition prolog_ev (e : ev) : bool :=
  match e with Doctype _ | PI => true | Text s => forallb is_ws s | _ => false end.

Lemma prolog_step r st e :
  prolog_ev e = true -> stack st = [] -> step r st e = Ok st.
Proof.
  destruct e; cbn; try discriminate; intros H Hs; try reflexivity.
  unfold text_event. rewrite Hs, H. reflexivity.
Qed.

Lemma prolog_run r pre rest st :
  forallb prolog_ev pre = true -> stack st = [] ->
  run_from r st (pre ++ rest) = run_from r st rest.
Proof.
  induction pre as [|e pre IH]; intros Hp Hs; [reflexivity|].
  cbn [forallb] in Hp. apply andb_true_iff in Hp as [He Hp].
  cbn [app run_from]. rewrite (prolog_step r st e He Hs). exact (IH Hp Hs).
Qed.

Lemma defused_entity_decl_class pre n k post :
  forallb prolog_ev pre = true ->
  parse defused (pre ++ EntityDecl n k :: post) = Err EntitiesForbidden.
Proof.
  intros Hp. unfold parse. rewrite parse_io_split. cbn [fst].
  rewrite (prolog_run defused pre _ st0 Hp eq_refl). reflexivity.
Qed.

(* ------------------------------------------------------------------ *)
(* C. complete consumption / truncation                                 *)
(* ------------------------------------------------------------------ *)
Definition wf_state (st : pstate) : Prop := root_done st <> None -> stack st = [].

Lemma step_wf r st e st' : wf_state st -> step r st e = Ok st' -> wf_state st'.
Proof.
  unfold wf_state. intros Hw. destruct e; cbn [step]; intros H.
  - inversion H; subst; exact Hw.
  - destruct (on_entity r); [discriminate|]. destruct k; inversion H; subst; cbn; exact Hw.
  - destruct (on_external r); try discriminate; inversion H; subst; cbn; exact Hw.
  - inversion H; subst; exact Hw.
  - destruct (root_done st); inversion H; subst; cbn. congruence.
  - destruct (stack st) as [|f [|p rest]]; inversion H; subst; cbn; congruence.
  - apply text_event_fields in H as (_ & _ & Hd & Hs & _). rewrite Hd. intros X. auto.
  - destruct (lookup name (ents st)); [|discriminate].
    destruct (text_event st s) eqn:Ht; inversion H; subst; cbn.
    apply text_event_fields in Ht as (_ & _ & Hd & Hs & _). rewrite Hd. intros X. auto.
  - discriminate.
Qed.

Lemma run_from_app r a b st :
  run_from r st (a ++ b) =
  match fst (run_from r st a) with
  | Ok st' => run_from r st' b
  | Err x => run_from r st a
  end.
Proof.
  revert st. induction a as [|e a IH]; intros st; [reflexivity|].
  cbn [app run_from]. destruct (step r st e) as [st1|x]; [apply IH|reflexivity].
Qed.

Lemma run_from_wf r evs : forall st st', wf_state st -> fst (run_from r st evs) = Ok st' -> wf_state st'.
Proof.
  induction evs as [|e evs IH]; intros st st' Hw H; cbn [run_from] in H.
  - inversion H; subst; exact Hw.
  - destruct (step r st e) as [st1|x] eqn:Hs; [|discriminate].
    exact (IH st1 st' (step_wf _ _ _ _ Hw Hs) H).
Qed.

Definition is_elem_ev (e : ev) : bool := match e with StartElem _ _ | EndElem => true | _ => false end.

(* once the root element is closed, any further start or end tag is an error *)
Lemma done_no_more_elems r evs :
  forall st st', root_done st <> None -> stack st = [] ->
    fst (run_from r st evs) = Ok st' -> existsb is_elem_ev evs = false.
Proof.
  induction evs as [|e evs IH]; intros st st' Hd Hs H; [reflexivity|].
  cbn [run_from] in H. destruct (step r st e) as [st1|x] eqn:Hst; [|discriminate].
  assert (is_elem_ev e = false /\ root_done st1 <> None /\ stack st1 = []) as (He & Hd1 & Hs1).
  { destruct e; cbn [step] in Hst; cbn [is_elem_ev].
    - inversion Hst; subst; auto.
    - destruct (on_entity r); [discriminate|]. destruct k; inversion Hst; subst; cbn; auto.
    - destruct (on_external r); try discriminate; inversion Hst; subst; cbn; auto.
    - inversion Hst; subst; auto.
    - destruct (root_done st); [discriminate|congruence].
    - rewrite Hs in Hst. discriminate.
    - apply text_event_fields in Hst as (_ & _ & Hd' & Hs' & _). rewrite Hd'. auto.
    - destruct (lookup name (ents st)); [|discriminate].
      destruct (text_event st s) eqn:Ht; inversion Hst; subst; cbn.
      apply text_event_fields in Ht as (_ & _ & Hd' & Hs' & _). rewrite Hd'. auto.
    - discriminate. }
  cbn [existsb]. rewrite He. exact (IH st1 st' Hd1 Hs1 H).
Qed.

(* TRUNCATION: if the whole input is accepted, every prefix that stops while a
   start or end tag is still to come is rejected (no element found) - for every
   reader kind, every document, every cut *)
Lemma truncation_rejected r evs t k :
  parse r evs = Ok t ->
  existsb is_elem_ev (skipn k evs) = true ->
  parse r (firstn k evs) = Err ParseError.
Proof.
  intros Hp Hrest. apply parse_ok_run in Hp as (st & Hr & _).
  rewrite <- (firstn_skipn k evs) in Hr. rewrite run_from_app in Hr.
  unfold parse. rewrite parse_io_split. cbn [fst].
  destruct (fst (run_from r st0 (firstn k evs))) as [stk|x] eqn:Hk.
  - unfold finish. destruct (root_done stk) as [tk|] eqn:Hd; [|reflexivity].
    exfalso.
    assert (wf_state stk) as Hw by (apply (run_from_wf r (firstn k evs) st0 stk); [intros X; now elim X|exact Hk]).
    assert (stack stk = []) as Hs by (apply Hw; congruence).
    assert (root_done stk <> None) as Hd' by congruence.
    rewrite (done_no_more_elems r (skipn k evs) stk st Hd' Hs Hr) in Hrest. discriminate.
  - destruct (run_from r st0 (firstn k evs)) as [res tr]. cbn [fst] in Hk, Hr. subst res. discriminate.
Qed.

(* accepted input is balanced: its element depth returns to 0 *)
Lemma step_depth r st e st' :
  step r st e = Ok st' ->
  match e with
  | StartElem _ _ => List.length (stack st') = S (List.length (stack st))
  | EndElem => List.length (stack st) = S (List.length (stack st'))
  | _ => List.length (stack st') = List.length (stack st)
  end.
Proof.
  destruct e; cbn [step]; intros H.
  - inversion H; reflexivity.
  - destruct (on_entity r); [discriminate|]. destruct k; inversion H; reflexivity.
  - destruct (on_external r); try discriminate; inversion H; reflexivity.
  - inversion H; reflexivity.
  - destruct (root_done st); inversion H; reflexivity.
  - destruct (stack st) as [|f [|p rest]]; inversion H; reflexivity.
  - apply text_event_fields in H. tauto.
  - destruct (lookup name (ents st)); [|discriminate].
    destruct (text_event st s) eqn:Ht; inversion H; subst; cbn.
    apply text_event_fields in Ht. tauto.
  - discriminate.
Qed.

Lemma run_depth r evs :
  forall st st', fst (run_from r st evs) = Ok st' ->
    depth_after (List.length (stack st)) evs = Some (List.length (stack st')).
Proof.
  induction evs as [|e evs IH]; intros st st' H; cbn [run_from] in H.
  - inversion H; reflexivity.
  - destruct (step r st e) as [st1|x] eqn:Hs; [|discriminate].
    pose proof (step_depth _ _ _ _ Hs) as Hd. specialize (IH st1 st' H).
    destruct e; cbn [depth_after]; try (rewrite <- Hd; exact IH).
    rewrite Hd. exact IH.
Qed.

Lemma parse_ok_balanced r evs t : parse r evs = Ok t -> depth_after 0 evs = Some 0%nat.
Proof.
  intros Hp. apply parse_ok_run in Hp as (st & Hr & Hd).
  pose proof (run_depth r evs st0 st Hr) as H. cbn in H.
  assert (wf_state st) as Hw by (apply (run_from_wf r evs st0 st); [intros X; now elim X|exact Hr]).
  rewrite (Hw ltac:(congruence)) in H. exact H.
Qed.

Lemma parse_ok_not_malformed r evs t : parse r evs = Ok t -> existsb is_malformed evs = false.
Proof.
  intros Hp. apply parse_ok_run in Hp as (st & Hr & _). clear t.
  revert Hr. generalize st0. induction evs as [|e evs IH]; intros s0 H; [reflexivity|].
  cbn [run_from] in H. destruct (step r s0 e) as [s1|x] eqn:Hs; [|discriminate].
  cbn [existsb]. rewrite (IH s1 H). destruct e; try reflexivity. discriminate.
Qed.

(* ------------------------------------------------------------------ *)
(* D. entry points: an object comes only out of a successful, complete parse *)
(* ------------------------------------------------------------------ *)
Lemma create_class_ok r sch cid evs o :
  create_class_from_xml_string r sch cid evs = Ok (Some o) ->
  exists t row, parse r evs = Ok t /\ find_class sch cid = Some row /\
                xtag t = c_qname row /\ o = harvest sch cid t.
Proof.
  unfold create_class_from_xml_string, create_class_from_element_tree.
  destruct (parse r evs) as [t|e]; [|discriminate].
  destruct (find_class sch cid) as [row|]; [|discriminate].
  destruct (str_eqb_spec (xtag t) (c_qname row)) as [Heq|]; [|discriminate].
  intros H; inversion H; subst. exists t, row. auto.
Qed.

Lemma create_class_err r sch cid evs e :
  parse r evs = Err e -> create_class_from_xml_string r sch cid evs = Err e.
Proof. unfold create_class_from_xml_string. intros ->. reflexivity. Qed.

Lemma soap_thingy_ok r exp evs s :
  parse_soap_enveloped_saml_thingy r exp evs = Ok (Part s) ->
  exists envl body, parse r evs = Ok envl /\ xtag envl = EnvelopeQ /\ In body (xkids envl) /\
                    xtag body = BodyQ /\ xkids body = [s] /\ In (xtag s) exp.
Proof.
  unfold parse_soap_enveloped_saml_thingy.
  destruct (parse r evs) as [envl|e]; [|discriminate].
  destruct (str_eqb_spec (xtag envl) EnvelopeQ) as [He|]; cbn [negb]; [|discriminate].
  destruct (xkids envl) as [|p ps] eqn:Hk; [discriminate|].
  destruct (first_body (p :: ps)) as [b|] eqn:Hb; [|discriminate].
  destruct (xkids b) as [|s' [|s2 rest]] eqn:Hkb; try discriminate.
  destruct (mem_str (xtag s') exp) eqn:Hm; [|discriminate].
  intros H; inversion H; subst s'. exists envl, b. rewrite Hk.
  assert (In b (p :: ps) /\ xtag b = BodyQ) as [Hin Hq].
  { clear Hk. revert Hb. generalize (p :: ps). induction l as [|x l IH]; cbn [first_body In]; [discriminate|].
    destruct (str_eqb_spec (xtag x) BodyQ) as [Hx|].
    - intros X; inversion X; subst. split; [now left|assumption].
    - intros X. destruct (IH X) as [A B]. split; [now right|exact B]. }
  repeat split; auto. apply mem_str_In. exact Hm.
Qed.

Lemma soap_thingy_err r exp evs e :
  parse r evs = Err e -> parse_soap_enveloped_saml_thingy r exp evs = Err e.
Proof. unfold parse_soap_enveloped_saml_thingy. intros ->. reflexivity. Qed.

Lemma open_soap_ok r evs res :
  open_soap_envelope r evs = Ok res -> exists envl, parse r evs = Ok envl /\ xtag envl = EnvelopeQ.
Proof.
  unfold open_soap_envelope. destruct (parse r evs) as [envl|e]; [|discriminate].
  destruct (str_eqb_spec (xtag envl) EnvelopeQ) as [He|]; cbn [negb]; [|discriminate].
  intros _. exists envl. auto.
Qed.

(* ExtensionElement conversion and extension children lose nothing: they ARE
   the parsed subtree.  For class members the only loss is the documented
   overwrite of a repeated single-valued child; nothing is ever added. *)
Lemma sum_trees_app f a b : sum_trees f (a ++ b) = sum_trees f a + sum_trees f b.
Proof. unfold sum_trees. induction a as [|x a IH]; cbn; [reflexivity|]. rewrite IH. lia. Qed.
