(* The checks read the mutable response state only through came_from:
   two states with equal came_from give the same verdicts. *)
From PV Require Import Lib.Base Model.Status Model.Response.
Open Scope Z_scope.

Definition rs (s1 s2 : st) : Prop := came_from s1 = came_from s2.
Definition rr {A} (r1 r2 : result (A * st)) : Prop :=
  match r1, r2 with
  | Ok (a1, s1), Ok (a2, s2) => a1 = a2 /\ rs s1 s2
  | Err e1, Err e2 => e1 = e2
  | _, _ => False
  end.
Definition rr1 (r1 r2 : result st) : Prop :=
  match r1, r2 with
  | Ok s1, Ok s2 => rs s1 s2
  | Err e1, Err e2 => e1 = e2
  | _, _ => False
  end.

Ltac brk := repeat match goal with
  | |- context [match ?x with _ => _ end] => destruct x eqn:?; cbn [rr rr1 rs] in *
  | |- context [if ?x then _ else _] => destruct x eqn:?; cbn [rr rr1 rs] in *
  end; cbn [rr rr1 rs came_from set_cf set_nooa set_snooa set_nid push_acc]; auto.

Lemma rel_authn c s1 s2 a : rs s1 s2 -> rr1 (authn_statement_ok c s1 a) (authn_statement_ok c s2 a).
Proof. unfold rs, authn_statement_ok. intros H. brk. Qed.

Lemma rel_condition c s1 s2 a : rs s1 s2 -> rr (condition_ok c s1 a) (condition_ok c s2 a).
Proof.
  unfold rs, condition_ok. intros H.
  destruct (a_conditions a) as [k|]; cbn [rr rs]; [|auto].
  destruct (k_empty k); cbn [rr rs]; [auto|].
  match goal with |- context [if ?x then _ else _] => destruct x end; cbn [rr rs]; [auto|].
  destruct (validate_on_or_after c (k_nooa k)) as [ro|e].
  - destruct (validate_before c (k_nb k)) as [[]|e2].
    + destruct (negb (for_me k (entity_id c)) && negb (test_mode c)); cbn [rr]; [reflexivity|].
      destruct (k_unknown_condition k); cbn [rr]; [reflexivity|]. split; [reflexivity|]. destruct (k_nooa k); exact H.
    + destruct (test_mode c); cbn [rr rs].
      * destruct (negb (for_me k (entity_id c)) && negb true); cbn [rr]; [reflexivity|].
        destruct (k_unknown_condition k); cbn [rr]; [reflexivity|]. split; [reflexivity|exact H].
      * reflexivity.
  - destruct (test_mode c); cbn [rr rs].
    + destruct (negb (for_me k (entity_id c)) && negb true); cbn [rr]; [reflexivity|].
      destruct (k_unknown_condition k); cbn [rr]; [reflexivity|]. split; [reflexivity|exact H].
    + reflexivity.
Qed.

Lemma rel_bearer c irt s1 s2 d : rs s1 s2 -> rr (bearer_confirmed c irt s1 d) (bearer_confirmed c irt s2 d).
Proof.
  unfold rs, bearer_confirmed. intros H. rewrite H.
  destruct d as [d|]; cbn [rr rs]; [|auto].
  destruct (match d_address d with Some _ => negb (d_address_valid d) | None => false end); cbn [rr]; [reflexivity|].
  destruct (validate_on_or_after c (d_nooa d)); cbn [rr]; [|reflexivity].
  destruct (validate_before c (d_nb d)); cbn [rr]; [|reflexivity].
  destruct (negb (later_than (d_nooa d) (d_nb d))); cbn [rr rs]; [auto|].
  destruct (names_other_request c irt d); cbn [rr]; [reflexivity|].
  destruct (asynch c && match came_from s2 with Some _ => false | None => true end); cbn [rr rs]; [|auto].
  destruct (d_irt d) as [i|]; cbn [rr rs]; [|auto].
  destruct (lookup_str i (outstanding c)); cbn [rr]; [split; reflexivity|].
  destruct (allow_unsolicited c); cbn [rr rs]; auto.
Qed.

Lemma rel_subject_loop c irt : forall confs s1 s2, rs s1 s2 -> rr (subject_loop c irt s1 confs) (subject_loop c irt s2 confs).
Proof.
  induction confs as [|sc rest IH]; intros s1 s2 H; cbn [subject_loop]; [cbn [rr]; auto|].
  assert (forall (b : bool) t1 t2, rs t1 t2 ->
    rr (if b then
         match (match c_data sc with Some d => d_recipient d | None => None end) with
         | None => match c_data sc with None => Err (E "AttributeError") | Some _ => Err (E "VerificationError") end
         | Some r => match verify_recipient c r with
                     | Err e => Err e | Ok false => Err (E "VerificationError")
                     | Ok true => match subject_loop c irt t1 rest with Err e => Err e | Ok (kept0, s'') => Ok (sc :: kept0, s'') end
                     end
         end
       else subject_loop c irt t1 rest)
       (if b then
         match (match c_data sc with Some d => d_recipient d | None => None end) with
         | None => match c_data sc with None => Err (E "AttributeError") | Some _ => Err (E "VerificationError") end
         | Some r => match verify_recipient c r with
                     | Err e => Err e | Ok false => Err (E "VerificationError")
                     | Ok true => match subject_loop c irt t2 rest with Err e => Err e | Ok (kept0, s'') => Ok (sc :: kept0, s'') end
                     end
         end
       else subject_loop c irt t2 rest)) as K.
  { intros b t1 t2 Ht. destruct b; [|now apply IH].
    destruct (match c_data sc with Some d => d_recipient d | None => None end); [|destruct (c_data sc); cbn [rr]; reflexivity].
    destruct (verify_recipient c s) as [[|]|]; cbn [rr]; try reflexivity.
    pose proof (IH t1 t2 Ht) as R. destruct (subject_loop c irt t1 rest) as [[k1 u1]|]; destruct (subject_loop c irt t2 rest) as [[k2 u2]|];
      cbn [rr] in *; try contradiction; auto. destruct R as [-> R]. auto. }
  destruct (c_method sc).
  - pose proof (rel_bearer c irt s1 s2 (c_data sc) H) as R.
    destruct (bearer_confirmed c irt s1 (c_data sc)) as [[b1 t1]|]; destruct (bearer_confirmed c irt s2 (c_data sc)) as [[b2 t2]|];
      cbn [rr] in R; try contradiction; [|exact R]. destruct R as [-> R]. now apply K.
  - now apply K.
  - now apply (K true).
  - cbn [rr]. reflexivity.
Qed.

Lemma rel_get_subject c irt s1 s2 a : rs s1 s2 -> rr (get_subject c irt s1 a) (get_subject c irt s2 a).
Proof.
  intros H. unfold get_subject. destruct (negb (a_has_subject a)); cbn [rr]; [reflexivity|].
  destruct (negb (verify_attesting_entity c (a_confirmations a))); cbn [rr]; [reflexivity|].
  pose proof (rel_subject_loop c irt (a_confirmations a) s1 s2 H) as R.
  destruct (subject_loop c irt s1 (a_confirmations a)) as [[k1 u1]|]; destruct (subject_loop c irt s2 (a_confirmations a)) as [[k2 u2]|];
    cbn [rr] in R; try contradiction; [|exact R]. destruct R as [-> R]. destruct k2; cbn [rr]; auto.
Qed.

Lemma rel_check_assertion c irt req v s1 s2 a : rs s1 s2 ->
  rr1 (check_assertion c irt req v s1 a) (check_assertion c irt req v s2 a).
Proof.
  intros H. unfold check_assertion.
  destruct (match a_sig a with None => if req then Err SignatureError else Ok tt | Some r => if v then Ok tt else r end); cbn [rr1]; [|reflexivity].
  pose proof (rel_authn c s1 s2 a H) as R1.
  destruct (authn_statement_ok c s1 a) as [t1|]; destruct (authn_statement_ok c s2 a) as [t2|]; cbn [rr1] in R1; try contradiction; [|exact R1].
  pose proof (rel_condition c t1 t2 a R1) as R2.
  destruct (condition_ok c t1 a) as [[b1 u1]|]; destruct (condition_ok c t2 a) as [[b2 u2]|]; cbn [rr] in R2; try contradiction; [|exact R2].
  destruct R2 as [-> R2]. destruct b2; cbn [rr1]; [|reflexivity].
  pose proof (rel_get_subject c irt u1 u2 a R2) as R3.
  destruct (get_subject c irt u1 a) as [[k1 w1]|]; destruct (get_subject c irt u2 a) as [[k2 w2]|]; cbn [rr] in R3; try contradiction; [|exact R3].
  destruct R3 as [_ R3]. unfold rs in R3. rewrite R3.
  destruct (asynch c && negb (allow_unsolicited c) && match came_from w2 with Some _ => false | None => true end); cbn [rr1]; [reflexivity|].
  destruct (a_name_id a); exact R3.
Qed.

Lemma rel_check_assertions c irt req v push : forall l s1 s2, rs s1 s2 ->
  rr1 (check_assertions c irt req v push s1 l) (check_assertions c irt req v push s2 l).
Proof.
  induction l as [|a l IH]; intros s1 s2 H; cbn [check_assertions rr1]; [exact H|].
  pose proof (rel_check_assertion c irt req v s1 s2 a H) as R.
  destruct (check_assertion c irt req v s1 a) as [t1|]; destruct (check_assertion c irt req v s2 a) as [t2|]; cbn [rr1] in R; try contradiction; [|exact R].
  apply IH. destruct push; exact R.
Qed.

Lemma rel_parse_assertion c req s1 s2 r : rs s1 s2 -> rr1 (parse_assertion c req s1 r) (parse_assertion c req s2 r).
Proof.
  intros H. unfold parse_assertion.
  match goal with |- context [if ?x then _ else _] => destruct x end; cbn [rr1]; [reflexivity|].
  pose proof (rel_check_assertions c (r_irt r) req false false (r_assertions r) s1 s2 H) as R.
  destruct (check_assertions c (r_irt r) req false false s1 (r_assertions r)) as [t1|];
    destruct (check_assertions c (r_irt r) req false false s2 (r_assertions r)) as [t2|]; cbn [rr1] in R; try contradiction; [|exact R].
  destruct (r_encrypted r) as [|e encs]; [exact R|].
  destruct (verify_decrypted (decrypted_prefix (e :: encs))); cbn [rr1]; [|reflexivity].
  pose proof (rel_check_assertions c (r_irt r) req true true (decrypted_prefix (e :: encs)) t1 t2 R) as R2.
  destruct (check_assertions c (r_irt r) req true true t1 (decrypted_prefix (e :: encs)));
    destruct (check_assertions c (r_irt r) req true true t2 (decrypted_prefix (e :: encs))); cbn [rr1] in R2; try contradiction; [|exact R2].
  exact R2.
Qed.

Definition okS (r : result (option st)) : bool := match r with Ok (Some _) => true | _ => false end.

Lemma rel_verify c req s1 s2 r : rs s1 s2 ->
  okS (verify c req s1 r) = okS (verify c req s2 r) /\
  (forall e, verify c req s1 r = Err e <-> verify c req s2 r = Err e).
Proof.
  intros H. unfold verify.
  match goal with |- context [if ?x then _ else _] => destruct x end; [split; [reflexivity|intros; tauto]|].
  unfold authn_verify. destruct (verify_core (verify_in_of c r)) as [[[]|]|]; try (split; [reflexivity|intros; tauto]).
  pose proof (rel_parse_assertion c req s1 s2 r H) as R.
  destruct (parse_assertion c req s1 r); destruct (parse_assertion c req s2 r); cbn [rr1] in R; try contradiction.
  - split; [reflexivity|]. intros e. split; discriminate.
  - subst. split; [reflexivity|intros; tauto].
Qed.

Lemma residue_rs c req s r : rs (parse_assertion_residue c req s r) s.
Proof.
  unfold rs, parse_assertion_residue. destruct (check_assertions c (r_irt r) req false false s (r_assertions r)); [|reflexivity].
  destruct (verify_decrypted (decrypted_prefix (r_encrypted r))); reflexivity.
Qed.
