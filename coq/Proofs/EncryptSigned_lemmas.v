(* Proofs/EncryptSigned_lemmas.v — C17: the `verified` flags of parse_assertion do not depend on the response signature *)
From PV Require Import Lib.Base Model.Status Model.Response Model.Encrypt Model.EncryptSigned
  Proofs.Response_lemmas Proofs.EncryptSP_lemmas Proofs.EncryptTree_lemmas.
Open Scope Z_scope.

(* the code as it is: both flags False, for a signed and for an unsigned response alike *)
Lemma code_flags_false : forall signed, vf_first code_flags signed = false /\ vf_advice code_flags signed = false.
Proof. intros signed. split; reflexivity. Qed.

Lemma parse_t_v_code signed tc c irt req s root again fs :
  parse_t_v code_flags signed tc c irt req s root again fs = parse_t tc c irt req s root again fs.
Proof.
  reflexivity.
Qed.

(* Entity._parse_response only APPLIES its assertion stage: pointwise equal stages give the same run (no extensionality axiom) *)
Lemma verify_x_ext {X} (st1 st2 : st -> X -> result st * X) c s r x :
  (forall s' x', st1 s' x' = st2 s' x') -> verify_x st1 c s r x = verify_x st2 c s r x.
Proof. intros H. unfold verify_x. rewrite H. reflexivity. Qed.

Lemma parse_response_x_ext {X} (stage stage' : bool -> st -> X -> result st * X) (residue residue' : bool -> st -> X -> st) c r (x0 : X) :
  (forall b s x, stage b s x = stage' b s x) -> (forall b s x, residue b s x = residue' b s x) ->
  parse_response_x stage residue c r x0 = parse_response_x stage' residue' c r x0.
Proof.
  intros Hs Hr. unfold parse_response_x. cbv zeta.
  match goal with |- match ?S with _ => _ end = _ => destruct S as [[s b]|e] end; [|reflexivity].
  destruct (negb (r_valid_instance r)); [reflexivity|].
  rewrite (verify_x_ext (stage true) (stage' true)) by (intros; apply Hs).
  destruct (verify_x (stage' true) c s r x0) as [[x|e] x1]; [reflexivity|].
  rewrite Hr. rewrite (verify_x_ext (stage false) (stage' false)) by (intros; apply Hs). reflexivity.
Qed.

Lemma parse_response_t_v_code tc c r root fs :
  parse_response_t_v code_flags tc c r root fs = parse_response_t tc c r root fs.
Proof.
  unfold parse_response_t_v, parse_response_t. apply parse_response_x_ext.
  - intros b s [[fs' root'] again]. unfold stage_t_v, stage_t. rewrite parse_t_v_code. reflexivity.
  - intros b s [[fs' root'] again]. unfold residue_t_v, residue_t. rewrite parse_t_v_code. reflexivity.
Qed.
