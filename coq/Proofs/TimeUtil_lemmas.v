(* Proofs/TimeUtil_lemmas.v — the calendar of Model/TimeUtil.v: gmtime and timegm are inverse, the day number is
   strictly monotone in (year, month, day), tuple order of normalised struct_time values is the order of instants,
   what strptime reads, instant / str_to_time round trip, and the text tests = the integer tests. *)
From Coq Require Import ZifyN ZifyBool.
From PV Require Import Lib.Base Model.TimeUtil.
Open Scope Z_scope.
Ltac Zify.zify_post_hook ::= Z.to_euclidean_division_equations.

(* ---------- years ---------- *)
Lemma is_leap_spec y : is_leap y = true <-> (y mod 4 = 0 /\ (y mod 100 <> 0 \/ y mod 400 = 0)).
Proof. unfold is_leap. rewrite andb_true_iff, orb_true_iff, negb_true_iff, !Z.eqb_eq, Z.eqb_neq. tauto. Qed.

Lemma dby_succ y : days_before_year (y + 1) = days_before_year y + (if is_leap y then 366 else 365).
Proof.
  unfold days_before_year. destruct (is_leap y) eqn:E.
  - apply is_leap_spec in E. replace (y + 1 - 1) with y by lia. lia.
  - assert (~ (y mod 4 = 0 /\ (y mod 100 <> 0 \/ y mod 400 = 0))) as N by (rewrite <- is_leap_spec; congruence).
    replace (y + 1 - 1) with y by lia. lia.
Qed.

Lemma dby_mono y y' : y <= y' -> days_before_year y <= days_before_year y'.
Proof. unfold days_before_year. intros H. lia. Qed.

Lemma year_of_ordinal_spec n : days_before_year (year_of_ordinal n) < n <= days_before_year (year_of_ordinal n + 1).
Proof.
  unfold year_of_ordinal. set (q := 400 * n / 146097).
  assert (days_before_year q < n) as L by (unfold days_before_year, q; lia).
  assert (n <= days_before_year (q + 3)) as U by (unfold days_before_year, q; lia).
  destruct (Z.leb_spec n (days_before_year (q + 1))) as [A|A].
  - split; [exact L|exact A].
  - destruct (Z.ltb_spec (days_before_year (q + 2)) n) as [B|B].
    + replace (q + 2 + 1) with (q + 3) by lia. split; [exact B|exact U].
    + replace (q + 1 + 1) with (q + 2) by lia. split; [exact A|exact B].
Qed.

(* ---------- months, day numbers ---------- *)
Ltac month_cases m :=
  let H := fresh "Hm" in
  assert (m = 1 \/ m = 2 \/ m = 3 \/ m = 4 \/ m = 5 \/ m = 6 \/ m = 7 \/ m = 8 \/ m = 9 \/ m = 10 \/ m = 11 \/ m = 12) as H by lia;
  repeat (destruct H as [H|H]; [subst m|]); [..|subst m].

Definition year_len (y : Z) : Z := if is_leap y then 366 else 365.

Lemma dbm_step y m : 1 <= m <= 12 -> days_before_month y (m + 1) = days_before_month y m + days_in_month y m.
Proof. intros H. unfold days_before_month, days_in_month. month_cases m; destruct (is_leap y); reflexivity. Qed.
Lemma dim_pos y m : 1 <= m <= 12 -> 28 <= days_in_month y m <= 31.
Proof. intros H. unfold days_in_month. month_cases m; destruct (is_leap y); lia. Qed.
Lemma dbm_1 y : days_before_month y 1 = 0.
Proof. reflexivity. Qed.
Lemma dbm_13 y : days_before_month y 13 = year_len y.
Proof. unfold days_before_month, year_len. destruct (is_leap y); reflexivity. Qed.
Lemma dbm_mono y a b : 1 <= a -> a <= b -> b <= 13 -> days_before_month y a <= days_before_month y b.
Proof.
  intros H1 H2 H3. unfold days_before_month.
  assert (b = 13 \/ b <= 12) as [->|Hb] by lia.
  - assert (a = 13 \/ a <= 12) as [->|Ha] by lia; [lia|]. month_cases a; destruct (is_leap y); cbn; lia.
  - month_cases a; month_cases b; try lia; destruct (is_leap y); cbn; lia.
Qed.

(* the day number is strictly monotone in (year, month, day) read lexicographically *)
Lemma ordinal_lt y m d y' m' d' : valid_date y m d -> valid_date y' m' d' ->
  (y < y' \/ (y = y' /\ (m < m' \/ (m = m' /\ d < d')))) -> ordinal y m d < ordinal y' m' d'.
Proof.
  intros [Hm Hd] [Hm' Hd'] H. unfold ordinal.
  assert (days_before_month y m + days_in_month y m <= year_len y) as E.
  { rewrite <- dbm_step, <- dbm_13 by exact Hm. apply dbm_mono; lia. }
  assert (0 <= days_before_month y' m') as P by (rewrite <- (dbm_1 y'); apply dbm_mono; lia).
  destruct H as [H|[-> [H|[-> H]]]].
  - assert (days_before_year (y + 1) <= days_before_year y') as M by (apply dby_mono; lia).
    rewrite dby_succ in M. fold (year_len y) in M. lia.
  - assert (days_before_month y' (m + 1) <= days_before_month y' m') as M by (apply dbm_mono; lia).
    rewrite dbm_step in M by exact Hm. lia.
  - lia.
Qed.

Lemma ordinal_inj y m d y' m' d' : valid_date y m d -> valid_date y' m' d' ->
  ordinal y m d = ordinal y' m' d' -> y = y' /\ m = m' /\ d = d'.
Proof.
  intros V V' E.
  destruct (Z.lt_trichotomy y y') as [H|[H|H]].
  - pose proof (ordinal_lt _ _ _ _ _ _ V V' (or_introl H)). lia.
  - subst y'. destruct (Z.lt_trichotomy m m') as [Hm|[Hm|Hm]].
    + pose proof (ordinal_lt _ _ _ _ _ _ V V' (or_intror (conj eq_refl (or_introl Hm)))). lia.
    + subst m'. unfold ordinal in E. repeat split; lia.
    + pose proof (ordinal_lt _ _ _ _ _ _ V' V (or_intror (conj eq_refl (or_introl Hm)))). lia.
  - pose proof (ordinal_lt _ _ _ _ _ _ V' V (or_introl H)). lia.
Qed.

Lemma month_of_spec y k : 1 <= k <= year_len y ->
  1 <= month_of y k <= 12 /\ days_before_month y (month_of y k) < k <= days_before_month y (month_of y k) + days_in_month y (month_of y k).
Proof.
  intros H. unfold month_of, month_search, year_len in *. unfold days_before_month, days_in_month.
  destruct (is_leap y); cbn [andb cum_days Z.ltb Z.compare Pos.compare Pos.compare_cont];
  repeat match goal with |- context [?a <? k] => destruct (Z.ltb_spec a k) end; cbn; lia.
Qed.

Lemma civil_of_ordinal_spec n : let '(y, m, d) := civil_of_ordinal n in valid_date y m d /\ ordinal y m d = n.
Proof.
  unfold civil_of_ordinal. pose proof (year_of_ordinal_spec n) as Y. set (y := year_of_ordinal n) in *.
  rewrite dby_succ in Y. fold (year_len y) in Y.
  assert (1 <= n - days_before_year y <= year_len y) as K by lia.
  pose proof (month_of_spec y _ K) as M. set (m := month_of y (n - days_before_year y)) in *.
  unfold valid_date, ordinal. lia.
Qed.

Lemma civil_of_ordinal_inv y m d : valid_date y m d -> civil_of_ordinal (ordinal y m d) = (y, m, d).
Proof.
  intros V. pose proof (civil_of_ordinal_spec (ordinal y m d)) as S.
  destruct (civil_of_ordinal (ordinal y m d)) as [[y' m'] d']. destruct S as [V' E].
  destruct (ordinal_inj _ _ _ _ _ _ V' V E) as (-> & -> & ->). reflexivity.
Qed.

(* ---------- gmtime / timegm ---------- *)
Lemma timegm_eq c :
  timegm c = (ordinal (tm_year c) (tm_mon c) (tm_mday c) - EPOCH_ORD) * 86400 + tm_hour c * 3600 + tm_min c * 60 + tm_sec c.
Proof. unfold timegm, timegm6, days_from_civil, ordinal. lia. Qed.

Lemma gmtime_fields t :
  let c := gmtime t in
  valid_date (tm_year c) (tm_mon c) (tm_mday c) /\ ordinal (tm_year c) (tm_mon c) (tm_mday c) = t / 86400 + EPOCH_ORD /\
  tm_hour c = t mod 86400 / 3600 /\ tm_min c = t mod 86400 mod 3600 / 60 /\ tm_sec c = t mod 86400 mod 60 /\
  tm_wday c = (t / 86400 + EPOCH_ORD + 6) mod 7 /\ tm_yday c = t / 86400 + EPOCH_ORD - days_before_year (tm_year c) /\ tm_isdst c = 0.
Proof.
  unfold gmtime. pose proof (civil_of_ordinal_spec (t / 86400 + EPOCH_ORD)) as S.
  destruct (civil_of_ordinal (t / 86400 + EPOCH_ORD)) as [[y m] d]. cbn [tm_year tm_mon tm_mday tm_hour tm_min tm_sec tm_wday tm_yday tm_isdst].
  destruct S as [V E]. repeat split; try assumption; apply V.
Qed.

Theorem timegm_gmtime t : timegm (gmtime t) = t.
Proof.
  rewrite timegm_eq. destruct (gmtime_fields t) as (_ & E & H & M & S & _). rewrite E, H, M, S. lia.
Qed.

Theorem gmtime_valid t : valid_tm (gmtime t).
Proof.
  destruct (gmtime_fields t) as (V & E & H & M & S & W & Y & D).
  unfold valid_tm, valid8. rewrite E, H, M, S, W, Y, D. repeat split; try apply V; try lia.
  unfold ordinal in E. lia.
Qed.

Theorem gmtime_timegm c : valid_tm c -> gmtime (timegm c) = c.
Proof.
  intros [(V & H & M & S & W & Y) D]. destruct c as [y mo d h mi s wd yd dst]. cbn [tm_year tm_mon tm_mday tm_hour tm_min tm_sec tm_wday tm_yday tm_isdst] in *.
  set (c := {| tm_year := y; tm_mon := mo; tm_mday := d; tm_hour := h; tm_min := mi; tm_sec := s; tm_wday := wd; tm_yday := yd; tm_isdst := dst |}).
  pose proof (timegm_eq c) as T. cbn [c tm_year tm_mon tm_mday tm_hour tm_min tm_sec] in T.
  assert (timegm c / 86400 + EPOCH_ORD = ordinal y mo d) as Q by lia.
  assert (timegm c mod 86400 = h * 3600 + mi * 60 + s) as R by lia.
  unfold gmtime. rewrite Q, R, (civil_of_ordinal_inv _ _ _ V). unfold c. f_equal; try lia.
  unfold ordinal. lia.
Qed.

(* ---- tuple order = instant order ---- *)
Lemma cmp_lt a b : a < b -> (a ?= b) = Lt. Proof. apply Z.compare_lt_iff. Qed.
Lemma cmp_gt a b : b < a -> (a ?= b) = Gt. Proof. intros H. apply Z.compare_gt_iff. exact H. Qed.

Lemma tuple_cmp_valid8 a b : valid8 a -> valid8 b ->
  tuple_cmp a b = match timegm a ?= timegm b with Eq => tm_isdst a ?= tm_isdst b | r => r end.
Proof.
  intros (Va & Ha & Ma & Sa & Wa & Ya) (Vb & Hb & Mb & Sb & Wb & Yb).
  rewrite !timegm_eq. unfold tuple_cmp, tm_list.
  destruct a as [y mo d h mi s wd yd dst], b as [y' mo' d' h' mi' s' wd' yd' dst'].
  cbn [tm_year tm_mon tm_mday tm_hour tm_min tm_sec tm_wday tm_yday tm_isdst list_cmp] in *.
  destruct (Z.compare_spec y y') as [->|L|L].
  2:{ pose proof (ordinal_lt _ _ _ _ _ _ Va Vb (or_introl L)). rewrite cmp_lt by lia. reflexivity. }
  2:{ pose proof (ordinal_lt _ _ _ _ _ _ Vb Va (or_introl L)). rewrite cmp_gt by lia. reflexivity. }
  destruct (Z.compare_spec mo mo') as [->|L|L].
  2:{ pose proof (ordinal_lt _ _ _ _ _ _ Va Vb (or_intror (conj eq_refl (or_introl L)))). rewrite cmp_lt by lia. reflexivity. }
  2:{ pose proof (ordinal_lt _ _ _ _ _ _ Vb Va (or_intror (conj eq_refl (or_introl L)))). rewrite cmp_gt by lia. reflexivity. }
  unfold ordinal in *.
  destruct (Z.compare_spec d d') as [->|L|L]; [|rewrite cmp_lt by lia; reflexivity|rewrite cmp_gt by lia; reflexivity].
  destruct (Z.compare_spec h h') as [->|L|L]; [|rewrite cmp_lt by lia; reflexivity|rewrite cmp_gt by lia; reflexivity].
  destruct (Z.compare_spec mi mi') as [->|L|L]; [|rewrite cmp_lt by lia; reflexivity|rewrite cmp_gt by lia; reflexivity].
  destruct (Z.compare_spec s s') as [->|L|L]; [|rewrite cmp_lt by lia; reflexivity|rewrite cmp_gt by lia; reflexivity].
  subst wd wd' yd yd'. rewrite !Z.compare_refl. destruct (dst ?= dst'); reflexivity.
Qed.

Theorem tuple_cmp_is_instant_cmp a b : valid_tm a -> valid_tm b -> tuple_cmp a b = (timegm a ?= timegm b).
Proof.
  intros [Va Da] [Vb Db]. rewrite (tuple_cmp_valid8 a b Va Vb), Da, Db. destruct (timegm a ?= timegm b); reflexivity.
Qed.

Lemma tuple_leb_instant a b : valid_tm a -> valid_tm b -> tuple_leb a b = (timegm a <=? timegm b).
Proof. intros Va Vb. unfold tuple_leb, Z.leb. rewrite (tuple_cmp_is_instant_cmp a b Va Vb). reflexivity. Qed.
Lemma tuple_geb_instant a b : valid_tm a -> valid_tm b -> tuple_geb a b = (timegm a >=? timegm b).
Proof. intros Va Vb. unfold tuple_geb, Z.geb. rewrite (tuple_cmp_is_instant_cmp a b Va Vb). reflexivity. Qed.
Lemma tuple_ltb_instant a b : valid_tm a -> valid_tm b -> tuple_ltb a b = (timegm a <? timegm b).
Proof. intros Va Vb. unfold tuple_ltb, Z.ltb. rewrite (tuple_cmp_is_instant_cmp a b Va Vb). reflexivity. Qed.

(* datetime.timetuple(): tm_isdst = -1 breaks the tie at equal instants *)
Lemma timetuple_valid8 t : valid8 (timetuple t) /\ timegm (timetuple t) = t /\ tm_isdst (timetuple t) = -1.
Proof.
  destruct (gmtime_valid t) as [V _]. split; [exact V|]. split; [|reflexivity].
  rewrite <- (timegm_gmtime t) at 2. unfold timegm, timetuple. cbn [tm_year tm_mon tm_mday tm_hour tm_min tm_sec]. reflexivity.
Qed.
Lemma timetuple_ltb_l t c : valid_tm c -> tuple_ltb (timetuple t) c = (t <=? timegm c).
Proof.
  intros [V D]. destruct (timetuple_valid8 t) as (V' & T & D'). unfold tuple_ltb, Z.leb.
  rewrite (tuple_cmp_valid8 _ _ V' V), T, D, D'. destruct (t ?= timegm c); reflexivity.
Qed.
Lemma timetuple_ltb_r t c : valid_tm c -> tuple_ltb c (timetuple t) = (timegm c <? t).
Proof.
  intros [V D]. destruct (timetuple_valid8 t) as (V' & T & D'). unfold tuple_ltb, Z.ltb.
  rewrite (tuple_cmp_valid8 _ _ V V'), T, D, D'. destruct (timegm c ?= t); reflexivity.
Qed.
