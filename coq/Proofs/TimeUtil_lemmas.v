(* Proofs/TimeUtil_lemmas.v — the calendar of Model/TimeUtil.v: gmtime and timegm are inverse, the day number is
   strictly monotone in (year, month, day), tuple order of normalised struct_time values is the order of instants,
   what strptime reads, instant / str_to_time round trip, and the text tests = the integer tests. *)
From Coq Require Import ZifyN ZifyBool.
From PV Require Import Lib.Base Model.TimeUtil.
Open Scope Z_scope.
Ltac Zify.zify_post_hook ::= Z.to_euclidean_division_equations.

(* ---------- years ---------- *)
Lemma is_leap_spec y : is_leap y = true <-> (y mod 4 = 0 /\ (y mod 100 <> 0 \/ y mod 400 = 0)).
Proof. unfold is_leap. rewrite andb_true_iff, orb_true_iff, negb_true_iff, !Z.eqb_eq, Z.eqb_neq. tauto. Qed.

Lemma dby_succ y : days_before_year (y + 1) = days_before_year y + (if is_leap y then 366 else 365).
Proof.
  unfold days_before_year. destruct (is_leap y) eqn:E.
  - apply is_leap_spec in E. replace (y + 1 - 1) with y by lia. lia.
  - assert (~ (y mod 4 = 0 /\ (y mod 100 <> 0 \/ y mod 400 = 0))) as N by (rewrite <- is_leap_spec; congruence).
    replace (y + 1 - 1) with y by lia. lia.
Qed.

Lemma dby_mono y y' : y <= y' -> days_before_year y <= days_before_year y'.
Proof. unfold days_before_year. intros H. lia. Qed.

Lemma year_of_ordinal_spec n : days_before_year (year_of_ordinal n) < n <= days_before_year (year_of_ordinal n + 1).
Proof.
  unfold year_of_ordinal. set (q := 400 * n / 146097).
  assert (days_before_year q < n) as L by (unfold days_before_year, q; lia).
  assert (n <= days_before_year (q + 3)) as U by (unfold days_before_year, q; lia).
  destruct (Z.leb_spec n (days_before_year (q + 1))) as [A|A].
  - split; [exact L|exact A].
  - destruct (Z.ltb_spec (days_before_year (q + 2)) n) as [B|B].
    + replace (q + 2 + 1) with (q + 3) by lia. split; [exact B|exact U].
    + replace (q + 1 + 1) with (q + 2) by lia. split; [exact A|exact B].
Qed.

(* ---------- months, day numbers ---------- *)
Ltac month_cases m :=
  let H := fresh "Hm" in
  assert (m = 1 \/ m = 2 \/ m = 3 \/ m = 4 \/ m = 5 \/ m = 6 \/ m = 7 \/ m = 8 \/ m = 9 \/ m = 10 \/ m = 11 \/ m = 12) as H by lia;
  repeat (destruct H as [H|H]; [subst m|]); [..|subst m].

Definition year_len (y : Z) : Z := if is_leap y then 366 else 365.

Lemma dbm_step y m : 1 <= m <= 12 -> days_before_month y (m + 1) = days_before_month y m + days_in_month y m.
Proof. intros H. unfold days_before_month, days_in_month. month_cases m; destruct (is_leap y); reflexivity. Qed.
Lemma dim_pos y m : 1 <= m <= 12 -> 28 <= days_in_month y m <= 31.
Proof. intros H. unfold days_in_month. month_cases m; destruct (is_leap y); lia. Qed.
Lemma dbm_1 y : days_before_month y 1 = 0.
Proof. reflexivity. Qed.
Lemma dbm_13 y : days_before_month y 13 = year_len y.
Proof. unfold days_before_month, year_len. destruct (is_leap y); reflexivity. Qed.
Lemma dbm_mono y a b : 1 <= a -> a <= b -> b <= 13 -> days_before_month y a <= days_before_month y b.
Proof.
  intros H1 H2 H3. unfold days_before_month.
  assert (b = 13 \/ b <= 12) as [->|Hb] by lia.
  - assert (a = 13 \/ a <= 12) as [->|Ha] by lia; [lia|]. month_cases a; destruct (is_leap y); cbn; lia.
  - month_cases a; month_cases b; try lia; destruct (is_leap y); cbn; lia.
Qed.

(* the day number is strictly monotone in (year, month, day) read lexicographically *)
Lemma ordinal_lt y m d y' m' d' : valid_date y m d -> valid_date y' m' d' ->
  (y < y' \/ (y = y' /\ (m < m' \/ (m = m' /\ d < d')))) -> ordinal y m d < ordinal y' m' d'.
Proof.
  intros [Hm Hd] [Hm' Hd'] H. unfold ordinal.
  assert (days_before_month y m + days_in_month y m <= year_len y) as E.
  { rewrite <- dbm_step, <- dbm_13 by exact Hm. apply dbm_mono; lia. }
  assert (0 <= days_before_month y' m') as P by (rewrite <- (dbm_1 y'); apply dbm_mono; lia).
  destruct H as [H|[-> [H|[-> H]]]].
  - assert (days_before_year (y + 1) <= days_before_year y') as M by (apply dby_mono; lia).
    rewrite dby_succ in M. fold (year_len y) in M. lia.
  - assert (days_before_month y' (m + 1) <= days_before_month y' m') as M by (apply dbm_mono; lia).
    rewrite dbm_step in M by exact Hm. lia.
  - lia.
Qed.

Lemma ordinal_inj y m d y' m' d' : valid_date y m d -> valid_date y' m' d' ->
  ordinal y m d = ordinal y' m' d' -> y = y' /\ m = m' /\ d = d'.
Proof.
  intros V V' E.
  destruct (Z.lt_trichotomy y y') as [H|[H|H]].
  - pose proof (ordinal_lt _ _ _ _ _ _ V V' (or_introl H)). lia.
  - subst y'. destruct (Z.lt_trichotomy m m') as [Hm|[Hm|Hm]].
    + pose proof (ordinal_lt _ _ _ _ _ _ V V' (or_intror (conj eq_refl (or_introl Hm)))). lia.
    + subst m'. unfold ordinal in E. repeat split; lia.
    + pose proof (ordinal_lt _ _ _ _ _ _ V' V (or_intror (conj eq_refl (or_introl Hm)))). lia.
  - pose proof (ordinal_lt _ _ _ _ _ _ V' V (or_introl H)). lia.
Qed.

Lemma month_of_spec y k : 1 <= k <= year_len y ->
  1 <= month_of y k <= 12 /\ days_before_month y (month_of y k) < k <= days_before_month y (month_of y k) + days_in_month y (month_of y k).
Proof.
  intros H. unfold month_of, month_search, year_len in *. unfold days_before_month, days_in_month.
  destruct (is_leap y); cbn [andb cum_days Z.ltb Z.compare Pos.compare Pos.compare_cont];
  repeat match goal with |- context [?a <? k] => destruct (Z.ltb_spec a k) end; cbn; lia.
Qed.

Lemma civil_of_ordinal_spec n : let '(y, m, d) := civil_of_ordinal n in valid_date y m d /\ ordinal y m d = n.
Proof.
  unfold civil_of_ordinal. pose proof (year_of_ordinal_spec n) as Y. set (y := year_of_ordinal n) in *.
  rewrite dby_succ in Y. fold (year_len y) in Y.
  assert (1 <= n - days_before_year y <= year_len y) as K by lia.
  pose proof (month_of_spec y _ K) as M. set (m := month_of y (n - days_before_year y)) in *.
  unfold valid_date, ordinal. lia.
Qed.

Lemma civil_of_ordinal_inv y m d : valid_date y m d -> civil_of_ordinal (ordinal y m d) = (y, m, d).
Proof.
  intros V. pose proof (civil_of_ordinal_spec (ordinal y m d)) as S.
  destruct (civil_of_ordinal (ordinal y m d)) as [[y' m'] d']. destruct S as [V' E].
  destruct (ordinal_inj _ _ _ _ _ _ V' V E) as (-> & -> & ->). reflexivity.
Qed.

(* ---------- gmtime / timegm ---------- *)
Lemma timegm_eq c :
  timegm c = (ordinal (tm_year c) (tm_mon c) (tm_mday c) - EPOCH_ORD) * 86400 + tm_hour c * 3600 + tm_min c * 60 + tm_sec c.
Proof. unfold timegm, timegm6, days_from_civil, ordinal. lia. Qed.

Lemma gmtime_fields t :
  let c := gmtime t in
  valid_date (tm_year c) (tm_mon c) (tm_mday c) /\ ordinal (tm_year c) (tm_mon c) (tm_mday c) = t / 86400 + EPOCH_ORD /\
  tm_hour c = t mod 86400 / 3600 /\ tm_min c = t mod 86400 mod 3600 / 60 /\ tm_sec c = t mod 86400 mod 60 /\
  tm_wday c = (t / 86400 + EPOCH_ORD + 6) mod 7 /\ tm_yday c = t / 86400 + EPOCH_ORD - days_before_year (tm_year c) /\ tm_isdst c = 0.
Proof.
  unfold gmtime. pose proof (civil_of_ordinal_spec (t / 86400 + EPOCH_ORD)) as S.
  destruct (civil_of_ordinal (t / 86400 + EPOCH_ORD)) as [[y m] d]. cbn [tm_year tm_mon tm_mday tm_hour tm_min tm_sec tm_wday tm_yday tm_isdst].
  destruct S as [V E]. repeat split; try assumption; apply V.
Qed.

Theorem timegm_gmtime t : timegm (gmtime t) = t.
Proof.
  rewrite timegm_eq. destruct (gmtime_fields t) as (_ & E & H & M & S & _). rewrite E, H, M, S. lia.
Qed.

Theorem gmtime_valid t : valid_tm (gmtime t).
Proof.
  destruct (gmtime_fields t) as (V & E & H & M & S & W & Y & D).
  unfold valid_tm, valid8. rewrite E, H, M, S, W, Y, D. repeat split; try apply V; try lia.
  unfold ordinal in E. lia.
Qed.

Theorem gmtime_timegm c : valid_tm c -> gmtime (timegm c) = c.
Proof.
  intros [(V & H & M & S & W & Y) D]. destruct c as [y mo d h mi s wd yd dst]. cbn [tm_year tm_mon tm_mday tm_hour tm_min tm_sec tm_wday tm_yday tm_isdst] in *.
  set (c := {| tm_year := y; tm_mon := mo; tm_mday := d; tm_hour := h; tm_min := mi; tm_sec := s; tm_wday := wd; tm_yday := yd; tm_isdst := dst |}).
  pose proof (timegm_eq c) as T. cbn [c tm_year tm_mon tm_mday tm_hour tm_min tm_sec] in T.
  assert (timegm c / 86400 + EPOCH_ORD = ordinal y mo d) as Q by lia.
  assert (timegm c mod 86400 = h * 3600 + mi * 60 + s) as R by lia.
  unfold gmtime. rewrite Q, R, (civil_of_ordinal_inv _ _ _ V). unfold c. f_equal; try lia.
  unfold ordinal. lia.
Qed.

(* ---- tuple order = instant order ---- *)
Lemma cmp_lt a b : a < b -> (a ?= b) = Lt. Proof. apply Z.compare_lt_iff. Qed.
Lemma cmp_gt a b : b < a -> (a ?= b) = Gt. Proof. intros H. apply Z.compare_gt_iff. exact H. Qed.

Lemma tuple_cmp_valid8 a b : valid8 a -> valid8 b ->
  tuple_cmp a b = match timegm a ?= timegm b with Eq => tm_isdst a ?= tm_isdst b | r => r end.
Proof.
  intros (Va & Ha & Ma & Sa & Wa & Ya) (Vb & Hb & Mb & Sb & Wb & Yb).
  rewrite !timegm_eq. unfold tuple_cmp, tm_list.
  destruct a as [y mo d h mi s wd yd dst], b as [y' mo' d' h' mi' s' wd' yd' dst'].
  cbn [tm_year tm_mon tm_mday tm_hour tm_min tm_sec tm_wday tm_yday tm_isdst list_cmp] in *.
  destruct (Z.compare_spec y y') as [->|L|L].
  2:{ pose proof (ordinal_lt _ _ _ _ _ _ Va Vb (or_introl L)). rewrite cmp_lt by lia. reflexivity. }
  2:{ pose proof (ordinal_lt _ _ _ _ _ _ Vb Va (or_introl L)). rewrite cmp_gt by lia. reflexivity. }
  destruct (Z.compare_spec mo mo') as [->|L|L].
  2:{ pose proof (ordinal_lt _ _ _ _ _ _ Va Vb (or_intror (conj eq_refl (or_introl L)))). rewrite cmp_lt by lia. reflexivity. }
  2:{ pose proof (ordinal_lt _ _ _ _ _ _ Vb Va (or_intror (conj eq_refl (or_introl L)))). rewrite cmp_gt by lia. reflexivity. }
  unfold ordinal in *.
  destruct (Z.compare_spec d d') as [->|L|L]; [|rewrite cmp_lt by lia; reflexivity|rewrite cmp_gt by lia; reflexivity].
  destruct (Z.compare_spec h h') as [->|L|L]; [|rewrite cmp_lt by lia; reflexivity|rewrite cmp_gt by lia; reflexivity].
  destruct (Z.compare_spec mi mi') as [->|L|L]; [|rewrite cmp_lt by lia; reflexivity|rewrite cmp_gt by lia; reflexivity].
  destruct (Z.compare_spec s s') as [->|L|L]; [|rewrite cmp_lt by lia; reflexivity|rewrite cmp_gt by lia; reflexivity].
  subst wd wd' yd yd'. rewrite !Z.compare_refl. destruct (dst ?= dst'); reflexivity.
Qed.

Theorem tuple_cmp_is_instant_cmp a b : valid_tm a -> valid_tm b -> tuple_cmp a b = (timegm a ?= timegm b).
Proof.
  intros [Va Da] [Vb Db]. rewrite (tuple_cmp_valid8 a b Va Vb), Da, Db. destruct (timegm a ?= timegm b); reflexivity.
Qed.

Lemma tuple_leb_instant a b : valid_tm a -> valid_tm b -> tuple_leb a b = (timegm a <=? timegm b).
Proof. intros Va Vb. unfold tuple_leb, Z.leb. rewrite (tuple_cmp_is_instant_cmp a b Va Vb). reflexivity. Qed.
Lemma tuple_geb_instant a b : valid_tm a -> valid_tm b -> tuple_geb a b = (timegm a >=? timegm b).
Proof. intros Va Vb. unfold tuple_geb, Z.geb. rewrite (tuple_cmp_is_instant_cmp a b Va Vb). reflexivity. Qed.
Lemma tuple_ltb_instant a b : valid_tm a -> valid_tm b -> tuple_ltb a b = (timegm a <? timegm b).
Proof. intros Va Vb. unfold tuple_ltb, Z.ltb. rewrite (tuple_cmp_is_instant_cmp a b Va Vb). reflexivity. Qed.

(* datetime.timetuple(): tm_isdst = -1 breaks the tie at equal instants *)
Lemma timetuple_valid8 t : valid8 (timetuple t) /\ timegm (timetuple t) = t /\ tm_isdst (timetuple t) = -1.
Proof.
  destruct (gmtime_valid t) as [V _]. split; [exact V|]. split; [|reflexivity].
  rewrite <- (timegm_gmtime t) at 2. unfold timegm, timetuple. cbn [tm_year tm_mon tm_mday tm_hour tm_min tm_sec]. reflexivity.
Qed.
Lemma timetuple_ltb_l t c : valid_tm c -> tuple_ltb (timetuple t) c = (t <=? timegm c).
Proof.
  intros [V D]. destruct (timetuple_valid8 t) as (V' & T & D'). unfold tuple_ltb, Z.leb.
  rewrite (tuple_cmp_valid8 _ _ V' V), T, D, D'. destruct (t ?= timegm c); reflexivity.
Qed.
Lemma timetuple_ltb_r t c : valid_tm c -> tuple_ltb c (timetuple t) = (timegm c <? t).
Proof.
  intros [V D]. destruct (timetuple_valid8 t) as (V' & T & D'). unfold tuple_ltb, Z.ltb.
  rewrite (tuple_cmp_valid8 _ _ V V'), T, D, D'. destruct (timegm c ?= t); reflexivity.
Qed.


(* ---------- texts ---------- *)
Definition zrange (lo : Z) (n : nat) : list Z := map (fun i => lo + Z.of_nat i) (seq 0 n).
Lemma forall_zrange (f : Z -> bool) lo n : forallb f (zrange lo n) = true -> forall k, lo <= k < lo + Z.of_nat n -> f k = true.
Proof.
  intros H k Hk. rewrite forallb_forall in H. apply H. unfold zrange. apply in_map_iff.
  exists (Z.to_nat (k - lo)). split; [lia|]. apply in_seq. lia.
Qed.

Definition reads (f : str -> option Z) (k : Z) : bool := match f (pad2 k) with Some v => v =? k | None => false end.
Lemma reads_spec f k : reads f k = true -> f (pad2 k) = Some k.
Proof. unfold reads. destruct (f (pad2 k)) as [v|]; [|discriminate]. intros H. apply Z.eqb_eq in H. now subst. Qed.

Lemma field_m_pad2 k : 1 <= k <= 12 -> field_m (pad2 k) = Some k.
Proof. intros H. apply reads_spec. apply (forall_zrange (reads field_m) 1 12); [vm_compute; reflexivity|lia]. Qed.
Lemma field_d_pad2 k : 1 <= k <= 31 -> field_d (pad2 k) = Some k.
Proof. intros H. apply reads_spec. apply (forall_zrange (reads field_d) 1 31); [vm_compute; reflexivity|lia]. Qed.
Lemma field_H_pad2 k : 0 <= k <= 23 -> field_H (pad2 k) = Some k.
Proof. intros H. apply reads_spec. apply (forall_zrange (reads field_H) 0 24); [vm_compute; reflexivity|lia]. Qed.
Lemma field_M_pad2 k : 0 <= k <= 59 -> field_M (pad2 k) = Some k.
Proof. intros H. apply reads_spec. apply (forall_zrange (reads field_M) 0 60); [vm_compute; reflexivity|lia]. Qed.
Lemma field_S_pad2 k : 0 <= k <= 61 -> field_S (pad2 k) = Some k.
Proof. intros H. apply reads_spec. apply (forall_zrange (reads field_S) 0 62); [vm_compute; reflexivity|lia]. Qed.

Definition is_sep (c : N) : bool := is_dash c || is_colon c || is_T c || is_Z c.
Lemma dchar_facts j : 0 <= j <= 9 -> udigit (dchar j) = Some j /\ is_sep (dchar j) = false.
Proof.
  intros H. assert (j = 0 \/ j = 1 \/ j = 2 \/ j = 3 \/ j = 4 \/ j = 5 \/ j = 6 \/ j = 7 \/ j = 8 \/ j = 9) as C by lia.
  repeat (destruct C as [C|C]; [subst j; split; reflexivity|]). subst j; split; reflexivity.
Qed.
Lemma is_sep_false c : is_sep c = false -> is_dash c = false /\ is_colon c = false /\ is_T c = false /\ is_Z c = false.
Proof. unfold is_sep. rewrite !orb_false_iff. tauto. Qed.

Lemma take_field_two sep a b c r : sep b = false -> sep c = true -> take_field sep (a :: b :: c :: r) = Some ([a; b], r).
Proof. intros Hb Hc. cbn [take_field]. rewrite Hb, Hc. reflexivity. Qed.
Lemma take_field_one sep a c r : sep c = true -> take_field sep (a :: c :: r) = Some ([a], r).
Proof. intros Hc. cbn [take_field]. rewrite Hc. reflexivity. Qed.

(* the parser, one equation: the text is year - month - day T hour : minute : second Z, each field cut at its separator *)
Lemma strptime_iso_fields y1 y2 y3 y4 r1 y fm r2 fd r3 fH r4 fM r5 fS mo d h mi s :
  field_Y y1 y2 y3 y4 = Some y ->
  take_field is_dash r1 = Some (fm, r2) -> take_field is_T r2 = Some (fd, r3) -> take_field is_colon r3 = Some (fH, r4) ->
  take_field is_colon r4 = Some (fM, r5) -> take_field is_Z r5 = Some (fS, []) ->
  field_m fm = Some mo -> field_d fd = Some d -> field_H fH = Some h -> field_M fM = Some mi -> field_S fS = Some s ->
  strptime_iso (y1 :: y2 :: y3 :: y4 :: c_dash :: r1) =
    if (y <? 1) || (days_in_month y mo <? d) then None else Some (mk_parsed y mo d h mi s).
Proof.
  intros HY T1 T2 T3 T4 T5 F1 F2 F3 F4 F5. unfold strptime_iso. rewrite HY. cbn [is_dash c_dash N.eqb Pos.eqb negb].
  rewrite T1, T2, T3, T4, T5, F1, F2, F3, F4, F5. reflexivity.
Qed.

Lemma field_Y_dchar a b c d : 0 <= a <= 9 -> 0 <= b <= 9 -> 0 <= c <= 9 -> 0 <= d <= 9 ->
  field_Y (dchar a) (dchar b) (dchar c) (dchar d) = Some (1000 * a + 100 * b + 10 * c + d).
Proof.
  intros Ha Hb Hc Hd. unfold field_Y.
  destruct (dchar_facts a Ha) as [-> _], (dchar_facts b Hb) as [-> _], (dchar_facts c Hc) as [-> _], (dchar_facts d Hd) as [-> _]. reflexivity.
Qed.

Lemma take_field_pad2 sep k c r : 0 <= k <= 99 -> (forall j, is_sep j = false -> sep j = false) -> sep c = true ->
  take_field sep (pad2 k ++ c :: r) = Some (pad2 k, r).
Proof.
  intros Hk Hs Hc. unfold pad2. cbn [app]. apply take_field_two; [|exact Hc]. apply Hs. apply dchar_facts. lia.
Qed.

(* what strftime writes is read back (4-digit years: this platform's %Y does not pad) *)
Lemma strptime_strftime c : valid8 c -> 1000 <= tm_year c <= 9999 ->
  strptime_iso (strftime_iso c) = Some (mk_parsed (tm_year c) (tm_mon c) (tm_mday c) (tm_hour c) (tm_min c) (tm_sec c)).
Proof.
  intros ((Vm & Vd) & Vh & Vmi & Vs & _) Vy. destruct c as [y mo d h mi s wd yd dst].
  cbn [tm_year tm_mon tm_mday tm_hour tm_min tm_sec] in *.
  pose proof (dim_pos y mo Vm) as Dm.
  unfold strftime_iso, year_text. cbn [tm_year tm_mon tm_mday tm_hour tm_min tm_sec].
  destruct (Z.ltb_spec y 10); [lia|]. destruct (Z.ltb_spec y 100); [lia|]. destruct (Z.ltb_spec y 1000); [lia|].
  cbn [app].
  erewrite (strptime_iso_fields _ _ _ _ _ y (pad2 mo) _ (pad2 d) _ (pad2 h) _ (pad2 mi) _ (pad2 s) mo d h mi s).
  - destruct (Z.ltb_spec y 1) as [L|L]; [lia|]. destruct (Z.ltb_spec (days_in_month y mo) d); [lia|]. reflexivity.
  - rewrite field_Y_dchar by lia. f_equal. lia.
  - apply take_field_pad2; [lia| |reflexivity]. intros j Hj. apply is_sep_false in Hj. tauto.
  - apply take_field_pad2; [lia| |reflexivity]. intros j Hj. apply is_sep_false in Hj. tauto.
  - apply take_field_pad2; [lia| |reflexivity]. intros j Hj. apply is_sep_false in Hj. tauto.
  - apply take_field_pad2; [lia| |reflexivity]. intros j Hj. apply is_sep_false in Hj. tauto.
  - unfold pad2. apply take_field_two; [|reflexivity]. assert (is_sep (dchar (s mod 10)) = false) as Hj by (apply dchar_facts; lia). apply is_sep_false in Hj. tauto.
  - apply field_m_pad2; lia.
  - apply field_d_pad2; lia.
  - apply field_H_pad2; lia.
  - apply field_M_pad2; lia.
  - apply field_S_pad2; lia.
Qed.

Lemma timegm_mk_parsed y mo d h mi s : timegm (mk_parsed y mo d h mi s) = timegm6 y mo d h mi s.
Proof. reflexivity. Qed.
Lemma timegm_fields c : timegm6 (tm_year c) (tm_mon c) (tm_mday c) (tm_hour c) (tm_min c) (tm_sec c) = timegm c.
Proof. reflexivity. Qed.

Lemma strftime_nonempty c : strftime_iso c <> [].
Proof. unfold strftime_iso, year_text. destruct (tm_year c <? 10), (tm_year c <? 100), (tm_year c <? 1000); discriminate. Qed.

Theorem str_to_time_strftime c : valid_tm c -> 1000 <= tm_year c <= 9999 -> str_to_time (strftime_iso c) = Ok (Some c).
Proof.
  intros V Y. unfold str_to_time. pose proof (strftime_nonempty c) as NE. destruct (strftime_iso c) as [|x r] eqn:E; [congruence|].
  rewrite <- E, (strptime_strftime c (proj1 V) Y), timegm_mk_parsed, timegm_fields, (gmtime_timegm c V). reflexivity.
Qed.

Theorem instant_round_trip t : 1000 <= tm_year (gmtime t) <= 9999 -> str_to_time (instant_of t) = Ok (Some (gmtime t)).
Proof. intros Y. apply str_to_time_strftime; [apply gmtime_valid|exact Y]. Qed.

(* the year of gmtime t, from the instant: 1000-01-01T00:00:00Z = -30610224000, 9999-12-31T23:59:59Z = 253402300799 *)
Lemma gmtime_year_range t : -30610224000 <= t <= 253402300799 -> 1000 <= tm_year (gmtime t) <= 9999.
Proof.
  intros H. destruct (gmtime_fields t) as (V & E & _). set (c := gmtime t) in *.
  assert (ordinal 1000 1 1 <= ordinal (tm_year c) (tm_mon c) (tm_mday c) <= ordinal 9999 12 31) as R.
  { rewrite E. change (ordinal 1000 1 1) with 364878. change (ordinal 9999 12 31) with 3652059. unfold EPOCH_ORD. lia. }
  assert (valid_date 1000 1 1) as V1 by (unfold valid_date; cbn; lia).
  assert (valid_date 9999 12 31) as V2 by (unfold valid_date; cbn; lia).
  split.
  - destruct (Z.lt_ge_cases (tm_year c) 1000) as [L|L]; [|lia].
    pose proof (ordinal_lt _ _ _ _ _ _ V V1 (or_introl L)). lia.
  - destruct (Z.lt_ge_cases 9999 (tm_year c)) as [L|L]; [|lia].
    pose proof (ordinal_lt _ _ _ _ _ _ V2 V (or_introl L)). lia.
Qed.

(* ---------- the text tests are the integer tests ---------- *)
Lemma str_to_time_valid s c : str_to_time s = Ok (Some c) -> valid_tm c.
Proof.
  unfold str_to_time. destruct s as [|x r]; [discriminate|].
  destruct (strptime_iso (x :: r)) as [p|].
  - intros H. injection H as <-. apply gmtime_valid.
  - destruct (fragment_group (x :: r)) as [g|]; [|discriminate].
    destruct (strptime_iso (g ++ [c_Z])) as [p|]; [|discriminate]. intros H. injection H as <-. apply gmtime_valid.
Qed.
Lemma str_to_time_nonempty s : s <> [] -> str_to_time s <> Ok None.
Proof.
  intros NE. unfold str_to_time. destruct s as [|x r]; [congruence|].
  destruct (strptime_iso (x :: r)); [discriminate|]. destruct (fragment_group (x :: r)); [|discriminate].
  destruct (strptime_iso (_ ++ _)); discriminate.
Qed.
Lemma falsy_text s : falsy (AText s) = false -> s <> [].
Proof. destruct s; [discriminate|discriminate]. Qed.

Theorem before_text now s c : str_to_time s = Ok (Some c) -> before now (AText s) = Ok (now <=? timegm c).
Proof.
  intros H. pose proof (str_to_time_valid s c H) as V. unfold before.
  destruct s as [|x r]; [discriminate|]. cbn [falsy]. rewrite H.
  rewrite (tuple_leb_instant _ _ (gmtime_valid now) V), timegm_gmtime. reflexivity.
Qed.
Theorem after_text now s c : str_to_time s = Ok (Some c) -> after now (AText s) = Ok (negb (now <=? timegm c)).
Proof.
  intros H. unfold after. rewrite (before_text now s c H). destruct s as [|x r]; [discriminate|]. reflexivity.
Qed.
Theorem later_than_text a b ca cb : str_to_time a = Ok (Some ca) -> str_to_time b = Ok (Some cb) ->
  later_than (AText a) (AText b) = Ok (timegm ca >=? timegm cb).
Proof.
  intros Ha Hb. unfold later_than, convert. rewrite Ha, Hb.
  rewrite (tuple_geb_instant _ _ (str_to_time_valid _ _ Ha) (str_to_time_valid _ _ Hb)). reflexivity.
Qed.
Theorem before_int now z : z <> 0 -> before now (AInt z) = Ok (now <=? z) /\ after now (AInt z) = Ok (negb (now <=? z)).
Proof.
  intros NZ. unfold after, before. destruct z; [congruence| |]; cbn [falsy];
  rewrite (tuple_leb_instant _ _ (gmtime_valid now) (gmtime_valid _)), !timegm_gmtime; split; reflexivity.
Qed.
Theorem issue_window_text now slack s c : str_to_time s = Ok (Some c) ->
  issue_window now slack c = (now - 86400 - slack <=? timegm c) && (timegm c <? now + 86400 + slack).
Proof.
  intros H. pose proof (str_to_time_valid s c H) as V. unfold issue_window.
  rewrite (timetuple_ltb_l _ _ V), (timetuple_ltb_r _ _ V). reflexivity.
Qed.


(* ---------- what strptime accepts ---------- *)
Lemma two_none_r x : two x None = None. Proof. destruct x; reflexivity. Qed.
Lemma ascii_digit_udigit b : (48 <= b <= 57)%N -> udigit b = Some (Z.of_N (b - 48)).
Proof. intros H. unfold udigit, digit_zeros. cbn [digit_in]. destruct ((48 <=? b)%N && (b <? 48 + 10)%N) eqn:E; [reflexivity|lia]. Qed.
Lemma adigit_none b lo hi : udigit b = None -> (48 <= lo)%N -> (hi <= 57)%N -> adigit lo hi b = None.
Proof.
  intros U Hl Hh. unfold adigit. destruct ((lo <=? b)%N && (b <=? hi)%N) eqn:E; [|reflexivity].
  rewrite ascii_digit_udigit in U by lia. discriminate.
Qed.
Lemma udigit_not_sep b : is_udigit b = true -> is_sep b = false.
Proof.
  intros U. destruct (is_sep b) eqn:E; [|reflexivity]. unfold is_sep, is_dash, is_colon, is_T, is_Z in E.
  rewrite !orb_true_iff, !N.eqb_eq in E. destruct E as [[[E|E]|[E|E]]|[E|E]]; subst b; vm_compute in U; discriminate.
Qed.

Ltac second_digit H b :=
  destruct (udigit b) eqn:U; [unfold is_udigit; rewrite U; reflexivity|];
  rewrite ?(adigit_none b _ _ U) in H by lia; rewrite ?two_none_r in H; cbn [orelse] in H;
  try discriminate.

(* every field is one or two characters, and the second one is a digit (never a separator) *)
Definition field_shape (f : str) : Prop := (exists a, f = [a]) \/ (exists a b, f = [a; b] /\ is_udigit b = true).
Lemma field_m_shape f v : field_m f = Some v -> field_shape f.
Proof.
  destruct f as [|a [|b [|? ?]]]; try discriminate; intros H; [left; eauto|right; exists a, b; split; [reflexivity|]].
  unfold field_m in H. second_digit H b.
Qed.
Lemma field_d_shape f v : field_d f = Some v -> field_shape f.
Proof.
  destruct f as [|a [|b [|? ?]]]; try discriminate; intros H; [left; eauto|right; exists a, b; split; [reflexivity|]].
  unfold field_d in H. second_digit H b. destruct (a =? 32)%N; discriminate.
Qed.
Lemma field_H_shape f v : field_H f = Some v -> field_shape f.
Proof.
  destruct f as [|a [|b [|? ?]]]; try discriminate; intros H; [left; eauto|right; exists a, b; split; [reflexivity|]].
  unfold field_H in H. second_digit H b.
Qed.
Lemma field_M_shape f v : field_M f = Some v -> field_shape f.
Proof.
  destruct f as [|a [|b [|? ?]]]; try discriminate; intros H; [left; eauto|right; exists a, b; split; [reflexivity|]].
  unfold field_M in H. second_digit H b.
Qed.
Lemma field_S_shape f v : field_S f = Some v -> field_shape f.
Proof.
  destruct f as [|a [|b [|? ?]]]; try discriminate; intros H; [left; eauto|right; exists a, b; split; [reflexivity|]].
  unfold field_S in H. second_digit H b.
Qed.

Lemma take_field_app sep f c r : field_shape f -> (forall j, is_sep j = false -> sep j = false) -> sep c = true ->
  take_field sep (f ++ c :: r) = Some (f, r).
Proof.
  intros [[a ->]|(a & b & -> & U)] Hs Hc; cbn [app].
  - apply take_field_one; exact Hc.
  - apply take_field_two; [|exact Hc]. apply Hs. apply udigit_not_sep. exact U.
Qed.
Lemma take_field_inv sep s f r : take_field sep s = Some (f, r) -> exists c, s = f ++ c :: r /\ sep c = true.
Proof.
  destruct s as [|a [|b r0]]; try discriminate. cbn [take_field]. destruct (sep b) eqn:Eb.
  - intros H. injection H as <- <-. exists b. split; [reflexivity|exact Eb].
  - destruct r0 as [|c r']; [discriminate|]. destruct (sep c) eqn:Ec; [|discriminate].
    intros H. injection H as <- <-. exists c. split; [reflexivity|exact Ec].
Qed.

(* the texts strptime reads: year(4 digits) - month - day T hour : minute : second Z, with the fields as field_* read them *)
Definition iso_text (y1 y2 y3 y4 : N) (fm fd : str) (cT : N) (fH fM fS : str) (cZ : N) : str :=
  [y1; y2; y3; y4] ++ [c_dash] ++ fm ++ [c_dash] ++ fd ++ [cT] ++ fH ++ [c_colon] ++ fM ++ [c_colon] ++ fS ++ [cZ].

Theorem strptime_iso_characterised s c :
  strptime_iso s = Some c <->
  exists y1 y2 y3 y4 fm fd cT fH fM fS cZ y mo d h mi sec,
    s = iso_text y1 y2 y3 y4 fm fd cT fH fM fS cZ /\ is_T cT = true /\ is_Z cZ = true /\
    field_Y y1 y2 y3 y4 = Some y /\ field_m fm = Some mo /\ field_d fd = Some d /\
    field_H fH = Some h /\ field_M fM = Some mi /\ field_S fS = Some sec /\
    1 <= y /\ d <= days_in_month y mo /\ c = mk_parsed y mo d h mi sec.
Proof.
  split.
  - unfold strptime_iso. destruct s as [|y1 [|y2 [|y3 [|y4 [|sep1 r1]]]]]; try discriminate.
    destruct (field_Y y1 y2 y3 y4) as [y|] eqn:HY; [|discriminate].
    destruct (is_dash sep1) eqn:D1; [|discriminate]. cbn [negb].
    destruct (take_field is_dash r1) as [[fm r2]|] eqn:T1; [|discriminate].
    destruct (take_field is_T r2) as [[fd r3]|] eqn:T2; [|discriminate].
    destruct (take_field is_colon r3) as [[fH r4]|] eqn:T3; [|discriminate].
    destruct (take_field is_colon r4) as [[fM r5]|] eqn:T4; [|discriminate].
    destruct (take_field is_Z r5) as [[fS r6]|] eqn:T5; [|discriminate].
    destruct r6 as [|? ?]; [|discriminate].
    destruct (field_m fm) as [mo|] eqn:F1; [|discriminate]. destruct (field_d fd) as [d|] eqn:F2; [|discriminate].
    destruct (field_H fH) as [h|] eqn:F3; [|discriminate]. destruct (field_M fM) as [mi|] eqn:F4; [|discriminate].
    destruct (field_S fS) as [sec|] eqn:F5; [|discriminate].
    destruct (Z.ltb_spec y 1) as [L|L]; [discriminate|]. destruct (Z.ltb_spec (days_in_month y mo) d) as [L2|L2]; [discriminate|].
    cbn [orb]. intros H. injection H as <-.
    apply N.eqb_eq in D1. subst sep1.
    destruct (take_field_inv _ _ _ _ T1) as (c1 & -> & S1). destruct (take_field_inv _ _ _ _ T2) as (c2 & -> & S2).
    destruct (take_field_inv _ _ _ _ T3) as (c3 & -> & S3). destruct (take_field_inv _ _ _ _ T4) as (c4 & -> & S4).
    destruct (take_field_inv _ _ _ _ T5) as (c5 & -> & S5).
    apply N.eqb_eq in S1, S3, S4. subst c1 c3 c4.
    exists y1, y2, y3, y4, fm, fd, c2, fH, fM, fS, c5, y, mo, d, h, mi, sec. repeat split; try assumption; lia.
  - intros (y1 & y2 & y3 & y4 & fm & fd & cT & fH & fM & fS & cZ & y & mo & d & h & mi & sec & -> & HT & HZ & HY & F1 & F2 & F3 & F4 & F5 & Ly & Ld & ->).
    unfold iso_text. cbn [app].
    erewrite (strptime_iso_fields _ _ _ _ _ y fm _ fd _ fH _ fM _ fS mo d h mi sec); try eassumption.
    + destruct (Z.ltb_spec y 1); [lia|]. destruct (Z.ltb_spec (days_in_month y mo) d); [lia|]. reflexivity.
    + apply take_field_app; [eapply field_m_shape; eassumption| |reflexivity]. intros j Hj. apply is_sep_false in Hj. tauto.
    + apply take_field_app; [eapply field_d_shape; eassumption| |exact HT]. intros j Hj. apply is_sep_false in Hj. tauto.
    + apply take_field_app; [eapply field_H_shape; eassumption| |reflexivity]. intros j Hj. apply is_sep_false in Hj. tauto.
    + apply take_field_app; [eapply field_M_shape; eassumption| |reflexivity]. intros j Hj. apply is_sep_false in Hj. tauto.
    + apply take_field_app; [eapply field_S_shape; eassumption| |exact HZ]. intros j Hj. apply is_sep_false in Hj. tauto.
Qed.

(* what is read lies in the ranges of the expression: month 1..12, day 1..31 and inside the month, hour 0..23, minute 0..59, second 0..61 *)
Lemma udigit_range c v : udigit c = Some v -> 0 <= v <= 9.
Proof.
  unfold udigit. generalize digit_zeros. induction l as [|z r IH]; cbn [digit_in]; [discriminate|].
  destruct ((z <=? c)%N && (c <? z + 10)%N) eqn:E; [|exact IH]. intros H. injection H as <-. lia.
Qed.
Lemma adigit_range lo hi c v : adigit lo hi c = Some v -> (48 <= lo)%N -> Z.of_N lo - 48 <= v <= Z.of_N hi - 48.
Proof. unfold adigit. destruct ((lo <=? c)%N && (c <=? hi)%N) eqn:E; [|discriminate]. intros H. injection H as <-. lia. Qed.

Lemma Some_inj (a b : Z) : Some a = Some b -> a = b. Proof. congruence. Qed.
Ltac field_ranges H :=
  repeat match type of H with
  | context [adigit ?lo ?hi ?c] => let E := fresh "E" in let v := fresh "v" in
      destruct (adigit lo hi c) as [v|] eqn:E; [apply adigit_range in E; [|lia]|]
  | context [udigit ?c] => let E := fresh "E" in let v := fresh "v" in
      destruct (udigit c) as [v|] eqn:E; [apply udigit_range in E|]
  | context [(?a =? 32)%N] => destruct (a =? 32)%N
  end; cbn [two orelse] in H; try discriminate; try (apply Some_inj in H; cbn [Z.of_N] in *; lia).

Lemma field_m_range f v : field_m f = Some v -> 1 <= v <= 12.
Proof. destruct f as [|a [|b [|? ?]]]; try discriminate; unfold field_m; intros H; field_ranges H. Qed.
Lemma field_d_range f v : field_d f = Some v -> 1 <= v <= 31.
Proof. destruct f as [|a [|b [|? ?]]]; try discriminate; unfold field_d; intros H; field_ranges H. Qed.
Lemma field_H_range f v : field_H f = Some v -> 0 <= v <= 23.
Proof. destruct f as [|a [|b [|? ?]]]; try discriminate; unfold field_H; intros H; field_ranges H. Qed.
Lemma field_M_range f v : field_M f = Some v -> 0 <= v <= 59.
Proof. destruct f as [|a [|b [|? ?]]]; try discriminate; unfold field_M; intros H; field_ranges H. Qed.
Lemma field_S_range f v : field_S f = Some v -> 0 <= v <= 61.
Proof. destruct f as [|a [|b [|? ?]]]; try discriminate; unfold field_S; intros H; field_ranges H. Qed.

Theorem strptime_iso_ranges s c : strptime_iso s = Some c ->
  1 <= tm_year c <= 9999 /\ valid_date (tm_year c) (tm_mon c) (tm_mday c) /\
  0 <= tm_hour c <= 23 /\ 0 <= tm_min c <= 59 /\ 0 <= tm_sec c <= 61 /\ tm_isdst c = -1.
Proof.
  intros H. apply strptime_iso_characterised in H.
  destruct H as (y1 & y2 & y3 & y4 & fm & fd & cT & fH & fM & fS & cZ & y & mo & d & h & mi & sec & _ & _ & _ & HY & F1 & F2 & F3 & F4 & F5 & Ly & Ld & ->).
  cbn [mk_parsed tm_year tm_mon tm_mday tm_hour tm_min tm_sec tm_isdst].
  pose proof (field_m_range _ _ F1). pose proof (field_d_range _ _ F2). pose proof (field_H_range _ _ F3).
  pose proof (field_M_range _ _ F4). pose proof (field_S_range _ _ F5).
  unfold field_Y in HY.
  destruct (udigit y1) as [a|] eqn:A; [|discriminate]. destruct (udigit y2) as [b|] eqn:B; [|discriminate].
  destruct (udigit y3) as [c'|] eqn:C; [|discriminate]. destruct (udigit y4) as [d'|] eqn:D; [|discriminate].
  apply udigit_range in A, B, C, D. apply Some_inj in HY. unfold valid_date. repeat split; lia.
Qed.

(* an accepted text denotes exactly one instant, computed from the fields read; and str_to_time returns the normalised tuple of it *)
Theorem str_to_time_denotes s c : str_to_time s = Ok (Some c) ->
  valid_tm c /\ c = gmtime (timegm c) /\
  ((exists p, strptime_iso s = Some p /\ timegm c = timegm p) \/
   (strptime_iso s = None /\ exists g p, fragment_group s = Some g /\ strptime_iso (g ++ [c_Z]) = Some p /\ timegm c = timegm p)).
Proof.
  intros H. pose proof (str_to_time_valid s c H) as V. split; [exact V|]. split; [symmetry; apply gmtime_timegm; exact V|].
  unfold str_to_time in H. destruct s as [|x r]; [discriminate|].
  destruct (strptime_iso (x :: r)) as [p|] eqn:P.
  - left. exists p. split; [reflexivity|]. injection H as <-. apply timegm_gmtime.
  - right. split; [reflexivity|]. destruct (fragment_group (x :: r)) as [g|]; [|discriminate].
    destruct (strptime_iso (g ++ [c_Z])) as [p|] eqn:P2; [|discriminate]. exists g, p. split; [reflexivity|]. split; [exact P2|]. injection H as <-. apply timegm_gmtime.
Qed.

(* two spellings of one instant get one verdict from every test *)
Theorem same_instant_same_verdict now s1 s2 c1 c2 other :
  str_to_time s1 = Ok (Some c1) -> str_to_time s2 = Ok (Some c2) -> timegm c1 = timegm c2 ->
  c1 = c2 /\ before now (AText s1) = before now (AText s2) /\ after now (AText s1) = after now (AText s2) /\
  later_than (AText s1) other = later_than (AText s2) other /\ later_than other (AText s1) = later_than other (AText s2).
Proof.
  intros H1 H2 E.
  assert (c1 = c2) as <-.
  { rewrite <- (gmtime_timegm c1 (str_to_time_valid _ _ H1)), <- (gmtime_timegm c2 (str_to_time_valid _ _ H2)), E. reflexivity. }
  split; [reflexivity|]. rewrite (before_text now s1 c1 H1), (before_text now s2 c1 H2), (after_text now s1 c1 H1), (after_text now s2 c1 H2).
  repeat split; unfold later_than; cbn [convert]; rewrite H1, H2; reflexivity.
Qed.
