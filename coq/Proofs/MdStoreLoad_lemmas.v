From PV Require Import Lib.Base Model.Sigver Proofs.Sigver_lemmas Model.MdStoreLoad.
Open Scope N_scope.

Lemma check_source_ok signed has_cert r b :
  check_source signed has_cert r = Ok b ->
  signed && has_cert = false \/ reports_success r = true.
Proof.
  unfold check_source. destruct has_cert; [|intros _; left; now rewrite andb_false_r].
  destruct signed; [|intros _; now left].
  destruct (validate_signature r) as [v|e] eqn:Hv; [|discriminate].
  apply validate_signature_true in Hv as [_ Hs]. intros _. now right.
Qed.

Lemma op_check_ok o b : op_check o = Ok b -> op_must_verify o = false \/ reports_success (op_tool o) = true.
Proof. destruct o as [[[[k d] sg] hc] r]. cbn. apply check_source_ok. Qed.

(* a load that must verify and whose tool run does not report success fails and changes nothing *)
Lemma load_unverified o s :
  op_must_verify o = true -> reports_success (op_tool o) = false ->
  exists e, load o s = (s, Err e).
Proof.
  intros Hm Hr. unfold load. destruct (op_check o) as [b|e] eqn:Hc.
  - apply op_check_ok in Hc as [H|H]; congruence.
  - now exists e.
Qed.

Lemma load_failed_unchanged o s e : snd (load o s) = Err e -> fst (load o s) = s.
Proof. unfold load. destruct (op_check o); cbn; [discriminate|reflexivity]. Qed.

Lemma load_fst o s : fst (load o s) = if op_succeeds o then set_key (op_key o) (op_doc o) s else s.
Proof. unfold load, op_succeeds. now destruct (op_check o). Qed.

(* histories: failed operations are invisible *)
Lemma run_history_filter ops : forall s, run_history ops s = run_history (filter op_succeeds ops) s.
Proof.
  induction ops as [|o ops IH]; intros s; [reflexivity|].
  cbn [run_history filter]. rewrite load_fst. destruct (op_succeeds o) eqn:Ho.
  - cbn [run_history]. rewrite load_fst, Ho. apply IH.
  - apply IH.
Qed.

Lemma run_history_app ops1 : forall ops2 s, run_history (ops1 ++ ops2) s = run_history ops2 (run_history ops1 s).
Proof. induction ops1 as [|o ops1 IH]; intros ops2 s; [reflexivity|]. cbn. apply IH. Qed.

Lemma run_history_all_failed ops s :
  (forall o, In o ops -> op_must_verify o = true /\ reports_success (op_tool o) = false) ->
  run_history ops s = s.
Proof.
  revert s. induction ops as [|o ops IH]; intros s H; [reflexivity|].
  cbn [run_history]. destruct (H o (or_introl eq_refl)) as [Hm Hr].
  destruct (load_unverified o s Hm Hr) as [e He]. rewrite He. cbn [fst].
  apply IH. intros o' Hin. apply H. now right.
Qed.

(* a failed operation in the middle of any history leaves no trace *)
Lemma run_history_failed_in_the_middle ops1 o ops2 s :
  op_must_verify o = true -> reports_success (op_tool o) = false ->
  run_history (ops1 ++ o :: ops2) s = run_history (ops1 ++ ops2) s.
Proof.
  intros Hm Hr. rewrite !run_history_app. cbn [run_history].
  destruct (load_unverified o (run_history ops1 s) Hm Hr) as [e He]. now rewrite He.
Qed.

Lemma set_key_In k d s k' d' : In (k', d') (set_key k d s) -> (k', d') = (k, d) \/ In (k', d') s.
Proof.
  induction s as [|[k0 d0] s IH]; cbn.
  - intros [H|[]]; left; now symmetry.
  - destruct (N.eqb k k0).
    + intros [H|H]; [left; now symmetry|right; now right].
    + intros [H|H]; [right; now left|]. destruct (IH H) as [E|E]; [now left|right; now right].
Qed.

(* provenance: whatever the store holds after a history was there at the start
   or was put there by an operation whose check passed *)
Lemma run_history_provenance ops : forall s k d,
  In (k, d) (run_history ops s) ->
  In (k, d) s \/ exists o, In o ops /\ op_key o = k /\ op_doc o = d /\ op_succeeds o = true.
Proof.
  induction ops as [|o ops IH]; intros s k d H; [now left|].
  cbn [run_history] in H. apply IH in H as [H|(o' & Hin & Hk & Hd & Hs)].
  - rewrite load_fst in H. destruct (op_succeeds o) eqn:Ho; [|now left].
    apply set_key_In in H as [E|H]; [|now left].
    inversion E; subst. right. exists o. repeat split; [now left|exact Ho].
  - right. exists o'. repeat split; [now right|exact Hk|exact Hd|exact Hs].
Qed.

Lemma op_succeeds_verified o : op_succeeds o = true -> op_must_verify o = true -> reports_success (op_tool o) = true.
Proof.
  unfold op_succeeds. destruct (op_check o) as [b|e] eqn:Hc; [|discriminate].
  intros _ Hm. apply op_check_ok in Hc as [H|H]; congruence.
Qed.
