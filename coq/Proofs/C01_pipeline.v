(* Proofs/C01_pipeline.v — composing the element-level statement (Xsw_lemmas) with the SP pipeline model
   (Model/Response.v, whose signature verdicts are inputs) through C02's accept_iff. *)
From PV Require Import Lib.Base Model.Status Model.Response Model.Xsw
  Proofs.Response_lemmas Proofs.Rel_lemmas Proofs.C02_lemmas Proofs.Xsw_lemmas.

Definition elem_covered (certs : list N) (doc : tree) (nm : N) (i : option str) : Prop :=
  exists v px X k D, i = Some v /\ covered doc nm v certs px X k D.

Section Pipeline.
  Variable pol : dup_policy.
  Variable certs : list N.            (* candidate certificates: the issuer's signing certificates in metadata (C03) *)
  Variable RESPn : N.
  Variable ASSNn : N.
  Variable sent : tree.               (* the text as received: handed to the tool for the response signature *)
  Variable c : cfg.
  Variable r : response.              (* pysaml2's parsed view, with the verdict of _check_signature per signed element *)
  Variable rid : option str.          (* response.id *)
  Variable atext : assertion -> tree. (* the text handed to the tool for that assertion: the received one, or the re-serialised decrypted one *)
  Variable aid : assertion -> option str.   (* assertion.id *)
  (* the tie: a positive verdict recorded in the parsed view was produced by _check_signature on that text, name and ID *)
  Hypothesis Hr : r_sig r = Some (Ok tt) -> check_signature_x pol sent RESPn rid certs = true.
  Hypothesis Ha : forall a, In a (processed r) -> a_sig a = Some (Ok tt) ->
                            check_signature_x pol (atext a) ASSNn (aid a) certs = true.

  Lemma present_sigok_ok (x : option (result unit)) : present x = true -> sigok x = true -> x = Some (Ok tt).
  Proof. destruct x as [[[]|]|]; cbn; intros; try discriminate; reflexivity. Qed.

  Theorem pipeline_relied_covered o :
    parse_response c r = Ok o ->
    (* every signature pysaml2 saw was relied upon, and its element is covered *)
    (present (r_sig r) = true -> elem_covered certs sent RESPn rid) /\
    (forall a, In a (processed r) -> present (a_sig a) = true -> elem_covered certs (atext a) ASSNn (aid a)) /\
    (* and the configured requirements say which ones must be there *)
    (wrs c = true -> elem_covered certs sent RESPn rid) /\
    (was c = true -> forall a, In a (processed r) -> elem_covered certs (atext a) ASSNn (aid a)) /\
    (waors c = true -> elem_covered certs sent RESPn rid \/
                       forall a, In a (processed r) -> elem_covered certs (atext a) ASSNn (aid a)).
  Proof.
    intros H. assert (is_ok (parse_response c r) = true) as Hok by (rewrite H; reflexivity).
    rewrite accept_iff in Hok. apply andb_true_iff in Hok as [_ Hd]. unfold documented in Hd.
    repeat (apply andb_true_iff in Hd as [Hd ?]).
    rename H3 into Hall, H2 into Hwrs, H1 into Hwas, H0 into Hwaors.
    assert (present (r_sig r) = true -> elem_covered certs sent RESPn rid) as R.
    { intros Hp. apply relied_is_covered with (pol := pol). apply Hr. now apply present_sigok_ok. }
    assert (forall a, In a (processed r) -> present (a_sig a) = true -> elem_covered certs (atext a) ASSNn (aid a)) as A.
    { intros a Hin Hp. apply relied_is_covered with (pol := pol). apply Ha; [exact Hin|]. apply present_sigok_ok; [exact Hp|].
      unfold all_sigok in Hall. rewrite forallb_forall in Hall. now apply Hall. }
    assert (all_present r = true -> forall a, In a (processed r) -> present (a_sig a) = true) as P.
    { unfold all_present. rewrite forallb_forall. auto. }
    split; [exact R|]. split; [exact A|]. split; [|split].
    - intros W. rewrite W in Hwrs. cbn in Hwrs. auto.
    - intros W a Hin. rewrite W in Hwas. cbn in Hwas. auto.
    - intros W. rewrite W in Hwaors. cbn in Hwaors. apply orb_true_iff in Hwaors as [Hp|Hp]; [left|right]; auto.
  Qed.
End Pipeline.

Open Scope Z_scope.
(* ---- which assertions the application reads: self.assertions only ever receives assertions that were processed ---- *)
Lemma acc_authn c s a s' : authn_statement_ok c s a = Ok s' -> acc s' = acc s.
Proof.
  unfold authn_statement_ok. destruct (a_authn a) as [|[n|] [|? ?]]; try discriminate.
  - destruct (validate_on_or_after c (Some n)) as [[m|]|]; try discriminate; intros H; injection H as <-; reflexivity.
  - intros H; injection H as <-; reflexivity.
Qed.

Lemma acc_condition c s a b s' : condition_ok c s a = Ok (b, s') -> acc s' = acc s.
Proof.
  unfold condition_ok. destruct (a_conditions a) as [k|]; [|intros H; injection H as _ <-; reflexivity].
  destruct (k_empty k); [intros H; injection H as _ <-; reflexivity|].
  match goal with |- (if ?x then _ else _) = _ -> _ => destruct x end; [intros H; injection H as _ <-; reflexivity|].
  destruct (validate_on_or_after c (k_nooa k)) as [ro|e].
  - destruct (validate_before c (k_nb k)) as [[]|e2].
    + destruct (negb (for_me k (entity_id c)) && negb (test_mode c)); [discriminate|].
      destruct (k_unknown_condition k); [discriminate|]. intros H; injection H as _ <-. destruct (k_nooa k); reflexivity.
    + destruct (test_mode c); [|discriminate].
      destruct (negb (for_me k (entity_id c)) && negb true); [discriminate|].
      destruct (k_unknown_condition k); [discriminate|]. intros H; injection H as _ <-. reflexivity.
  - destruct (test_mode c); [|discriminate].
    destruct (negb (for_me k (entity_id c)) && negb true); [discriminate|].
    destruct (k_unknown_condition k); [discriminate|]. intros H; injection H as _ <-. reflexivity.
Qed.

Lemma acc_bearer c irt s d b s' : bearer_confirmed c irt s d = Ok (b, s') -> acc s' = acc s.
Proof.
  unfold bearer_confirmed. destruct d as [d|]; [|intros H; injection H as _ <-; reflexivity].
  destruct (match d_address d with Some _ => negb (d_address_valid d) | None => false end); [discriminate|].
  destruct (validate_on_or_after c (d_nooa d)); [|discriminate].
  destruct (validate_before c (d_nb d)); [|discriminate].
  destruct (negb (later_than (d_nooa d) (d_nb d))); [intros H; injection H as _ <-; reflexivity|].
  destruct (names_other_request c irt d); [discriminate|].
  destruct (asynch c && match came_from s with Some _ => false | None => true end); [|intros H; injection H as _ <-; reflexivity].
  destruct (d_irt d) as [i|]; [|intros H; injection H as _ <-; reflexivity].
  destruct (lookup_str i (outstanding c)); [intros H; injection H as _ <-; reflexivity|].
  destruct (allow_unsolicited c); [intros H; injection H as _ <-; reflexivity|discriminate].
Qed.

Lemma acc_subject_loop c irt : forall confs s kept s', subject_loop c irt s confs = Ok (kept, s') -> acc s' = acc s.
Proof.
  induction confs as [|sc rest IH]; intros s kept s'; cbn [subject_loop]; [intros H; injection H as _ <-; reflexivity|].
  assert (forall (b : bool) t,
    (if b then
       match (match c_data sc with Some d => d_recipient d | None => None end) with
       | None => match c_data sc with None => Err (E "AttributeError") | Some _ => Err (E "VerificationError") end
       | Some r => match verify_recipient c r with
                   | Err e => Err e | Ok false => Err (E "VerificationError")
                   | Ok true => match subject_loop c irt t rest with Err e => Err e | Ok (kept0, s'') => Ok (sc :: kept0, s'') end
                   end
       end
     else subject_loop c irt t rest) = Ok (kept, s') -> acc s' = acc t) as K.
  { intros b t. destruct b; [|apply IH].
    destruct (match c_data sc with Some d => d_recipient d | None => None end); [|destruct (c_data sc); discriminate].
    destruct (verify_recipient c s0) as [[|]|]; try discriminate.
    destruct (subject_loop c irt t rest) as [[k1 u1]|] eqn:El; [|discriminate]. intros H; injection H as _ <-. eapply IH; eauto. }
  destruct (c_method sc).
  - destruct (bearer_confirmed c irt s (c_data sc)) as [[b1 t1]|] eqn:Eb; [|discriminate].
    intros H. apply K in H. rewrite H. eapply acc_bearer; eauto.
  - apply K.
  - apply (K true).
  - discriminate.
Qed.

Lemma acc_get_subject c irt s a kept s' : get_subject c irt s a = Ok (kept, s') -> acc s' = acc s.
Proof.
  unfold get_subject. destruct (negb (a_has_subject a)); [discriminate|].
  destruct (negb (verify_attesting_entity c (a_confirmations a))); [discriminate|].
  destruct (subject_loop c irt s (a_confirmations a)) as [[k1 u1]|] eqn:El; [|discriminate].
  destruct k1; [discriminate|]. intros H; injection H as _ <-. eapply acc_subject_loop; eauto.
Qed.

Lemma acc_check_assertion c irt req v s a s' : check_assertion c irt req v s a = Ok s' -> acc s' = acc s.
Proof.
  unfold check_assertion.
  destruct (match a_sig a with None => if req then Err SignatureError else Ok tt | Some r => if v then Ok tt else r end); [|discriminate].
  destruct (authn_statement_ok c s a) as [t1|] eqn:E1; [|discriminate].
  destruct (condition_ok c t1 a) as [[[|] u1]|] eqn:E2; try discriminate.
  destruct (get_subject c irt u1 a) as [[k1 w1]|] eqn:E3; [|discriminate].
  match goal with |- (if ?x then _ else _) = _ -> _ => destruct x end; [discriminate|].
  intros H; injection H as <-.
  apply acc_authn in E1. apply acc_condition in E2. apply acc_get_subject in E3.
  destruct (a_name_id a); cbn; congruence.
Qed.

Lemma acc_check_assertions c irt req v push : forall l s s',
  check_assertions c irt req v push s l = Ok s' -> incl (acc s') (acc s ++ map a_id l).
Proof.
  induction l as [|a l IH]; intros s s'; cbn [check_assertions map].
  - intros H; injection H as <-. rewrite app_nil_r. apply incl_refl.
  - destruct (check_assertion c irt req v s a) as [t|] eqn:E; [|discriminate]. intros H. apply IH in H.
    apply acc_check_assertion in E. intros n Hn. apply H in Hn. apply in_app_iff in Hn as [Hn|Hn].
    + destruct push; cbn in Hn; rewrite E in Hn; [apply in_app_iff in Hn as [Hn|[<-|[]]]|]; apply in_app_iff; auto.
      right. now left.
    + apply in_app_iff. right. now right.
Qed.

Lemma acc_after_failure_incl c irt req v : forall l s,
  incl (acc (acc_after_failure c irt req v s l)) (acc s ++ map a_id l).
Proof.
  induction l as [|a l IH]; intros s; cbn [acc_after_failure map].
  - rewrite app_nil_r. apply incl_refl.
  - destruct (check_assertion c irt req v s a) as [t|] eqn:E.
    + apply acc_check_assertion in E. intros n Hn. apply IH in Hn. cbn in Hn. rewrite E in Hn.
      apply in_app_iff in Hn as [Hn|Hn]; [apply in_app_iff in Hn as [Hn|[<-|[]]]|]; apply in_app_iff; auto.
      * right. now left.
      * right. now right.
    + intros n Hn. apply in_app_iff. now left.
Qed.

Lemma acc_parse_assertion c req s r s' :
  parse_assertion c req s r = Ok s' -> incl (acc s') (acc s ++ map a_id (processed r)).
Proof.
  unfold parse_assertion, processed. rewrite map_app.
  match goal with |- (if ?x then _ else _) = _ -> _ => destruct x end; [discriminate|].
  destruct (check_assertions c (r_irt r) req false false s (r_assertions r)) as [s1|] eqn:E1; [|discriminate].
  apply acc_check_assertions in E1.
  destruct (r_encrypted r) as [|e encs].
  - intros H; injection H as <-. cbn [decrypted_prefix map app acc push_all].
    intros n Hn. apply in_app_iff in Hn as [Hn|Hn]; [apply E1 in Hn; exact Hn|apply in_app_iff; now right].
  - destruct (verify_decrypted (decrypted_prefix (e :: encs))); [|discriminate].
    destruct (check_assertions c (r_irt r) req true true s1 (decrypted_prefix (e :: encs))) as [s2|] eqn:E2; [|discriminate].
    apply acc_check_assertions in E2. intros H; injection H as <-. cbn [acc push_all].
    intros n Hn. apply in_app_iff in Hn as [Hn|Hn].
    + apply E2 in Hn. apply in_app_iff in Hn as [Hn|Hn].
      * apply E1 in Hn. apply in_app_iff in Hn as [Hn|Hn]; apply in_app_iff; [now left|right; apply in_app_iff; now right].
      * apply in_app_iff. right. apply in_app_iff. now left.
    + apply in_app_iff. right. apply in_app_iff. now right.
Qed.

Lemma acc_residue c req s r :
  incl (acc (parse_assertion_residue c req s r)) (acc s ++ map a_id (processed r)).
Proof.
  unfold parse_assertion_residue, processed. rewrite map_app.
  destruct (check_assertions c (r_irt r) req false false s (r_assertions r)) as [s1|] eqn:E1; [|apply incl_appl, incl_refl].
  apply acc_check_assertions in E1.
  destruct (verify_decrypted (decrypted_prefix (r_encrypted r))); [|apply incl_appl, incl_refl].
  cbn [acc]. intros n Hn. apply (acc_after_failure_incl c (r_irt r) req true _ s1) in Hn. apply in_app_iff in Hn as [Hn|Hn].
  - apply E1 in Hn. apply in_app_iff in Hn as [Hn|Hn]; apply in_app_iff; [now left|right; apply in_app_iff; now right].
  - apply in_app_iff. right. apply in_app_iff. now left.
Qed.

Lemma acc_verify c req s r s' : verify c req s r = Ok (Some s') -> incl (acc s') (acc s ++ map a_id (processed r)).
Proof. intros H. apply verify_some in H as (_ & H & _). eapply acc_parse_assertion; exact H. Qed.

(* the assertions handed to the application (o_assertions: self.assertions) are assertions that were processed *)
Theorem accepted_reads_processed c r o :
  parse_response c r = Ok o -> forall n, In n (o_assertions o) -> exists a, In a (processed r) /\ a_id a = n.
Proof.
  intros H. assert (incl (o_assertions o) (map a_id (processed r))) as I.
  { unfold parse_response in H.
    assert (forall req s, loads c req r = Ok s -> acc s = []) as L0 by (intros req s Hl; now destruct (loads_fields _ _ _ _ Hl) as (_ & _ & ?)).
    assert (forall s0, acc s0 = [] ->
      match (match verify c true s0 r with
             | Ok x => Ok (x, true)
             | Err e => if is_signature_error e then
                          (if was c then Err e
                           else match verify c false (parse_assertion_residue c true s0 r) r with Ok x => Ok (x, false) | Err e' => Err e' end)
                        else Err e
             end) with
      | Ok (Some s', _) => incl (acc s') (map a_id (processed r))
      | _ => True
      end) as V.
    { intros s0 H0. destruct (verify c true s0 r) as [[s'|]|e] eqn:V1; cbn; auto.
      - apply acc_verify in V1. now rewrite H0 in V1.
      - destruct (is_signature_error e); [|exact I]. destruct (was c); [exact I|].
        destruct (verify c false (parse_assertion_residue c true s0 r) r) as [[s'|]|] eqn:V2; auto.
        apply acc_verify in V2. intros n Hn. apply V2 in Hn. apply in_app_iff in Hn as [Hn|Hn]; [|exact Hn].
        apply acc_residue in Hn. now rewrite H0 in Hn. }
    destruct (loads c true r) as [sA|eA] eqn:L1.
    - destruct (negb (r_valid_instance r)); [discriminate|]. specialize (V sA (L0 _ _ L1)).
      destruct (match verify c true sA r with
                | Ok x => Ok (x, true)
                | Err e => if is_signature_error e then (if was c then Err e else match verify c false (parse_assertion_residue c true sA r) r with Ok x => Ok (x, false) | Err e' => Err e' end) else Err e
                end) as [[[s'|] fl]|]; try discriminate.
      destruct (waors c && negb true && negb fl); [discriminate|]. injection H as <-. exact V.
    - destruct (is_sigver_error eA); [|discriminate]. destruct (wrs c); [discriminate|].
      destruct (loads c false r) as [sB|] eqn:L2; [|discriminate].
      destruct (negb (r_valid_instance r)); [discriminate|]. specialize (V sB (L0 _ _ L2)).
      destruct (match verify c true sB r with
                | Ok x => Ok (x, true)
                | Err e => if is_signature_error e then (if was c then Err e else match verify c false (parse_assertion_residue c true sB r) r with Ok x => Ok (x, false) | Err e' => Err e' end) else Err e
                end) as [[[s'|] fl]|]; try discriminate.
      destruct (waors c && negb false && negb fl); [discriminate|]. injection H as <-. exact V. }
  intros n Hn. apply I in Hn. apply in_map_iff in Hn as (a & <- & Ha). eauto.
Qed.
