From PV Require Import Lib.Base Model.Codec Proofs.Base64_lemmas Proofs.Url_lemmas.
Open Scope N_scope.

Fixpoint no_occ (p s : str) : bool :=
  match s with
  | [] => true
  | c :: r => match strip_prefix p s with Some _ => false | None => no_occ p r end
  end.

Lemma remove_all_fuel_id p s : forall fuel, no_occ p s = true -> remove_all_fuel fuel p s = s.
Proof.
  induction s as [|c r IH]; intros [|f] H; try reflexivity.
  cbn [remove_all_fuel]. cbn [no_occ] in H. destruct (strip_prefix p (c :: r)); [discriminate|].
  now rewrite IH.
Qed.

Lemma soap_prepare_plain t :
  starts_xml_decl t = false -> no_occ SOAP_PREFIX t = true -> soap_prepare t = t.
Proof. intros H1 H2. unfold soap_prepare. rewrite H1. unfold remove_all. now apply remove_all_fuel_id. Qed.

Lemma after_qgt_app d body : after_qgt d = None -> after_qgt (d ++ 63 :: 62 :: body) = Some body.
Proof.
  induction d as [|c d IH]; intros H; [reflexivity|].
  destruct d as [|e d'].
  - cbn [app after_qgt]. replace (63 =? 62) with false by reflexivity. rewrite andb_false_r. reflexivity.
  - cbn [app after_qgt] in *. destruct ((c =? 63) && (e =? 62)); [discriminate|]. apply IH. exact H.
Qed.

Lemma soap_prepare_decl d body :
  starts_xml_decl (d ++ 63 :: 62 :: body) = true -> after_qgt d = None ->
  no_occ SOAP_PREFIX body = true -> soap_prepare (d ++ 63 :: 62 :: body) = body.
Proof.
  intros H1 Hd Ho. unfold soap_prepare. rewrite H1, (after_qgt_app d body Hd).
  unfold remove_all. now apply remove_all_fuel_id.
Qed.
