(* The other public ways into response verification (Model/C04Entry.v) and the process time zone. *)
From PV Require Import Lib.Base Model.Status Model.Response Model.C04Kinds Model.C04Entry
  Proofs.Response_lemmas Proofs.C04_lemmas Proofs.C04_kinds.
From PV Require Model.TimeUtil Proofs.TimeUtil_lemmas.
Open Scope Z_scope.

(* ---- the constructors pass on what the caller wrote ---- *)
Lemma flags_passed_on e cf a : flags_of e cf a = asked e cf a.
Proof. destruct e; reflexivity. Qed.

Lemma test_only_when_named e cf a : f_test (flags_of e cf a) = true -> has_test e = true /\ a_test a = Some true.
Proof.
  rewrite flags_passed_on. unfold asked. cbn [f_test]. destruct (has_test e); [|discriminate].
  destruct (a_test a) as [[|]|]; cbn [dflt]; try discriminate. intros _. split; reflexivity.
Qed.

Lemma slack_is_the_callers e cf a :
  f_slack (flags_of e cf a) =
    match a_slack a with
    | Some t => if t =? 0 then (if reads_conf e then dflt (cf_time_diff cf) 0 else 0) else t
    | None => if reads_conf e then dflt (cf_time_diff cf) 0 else 0
    end.
Proof.
  rewrite flags_passed_on. unfold asked, conf_slack. cbn [f_slack]. destruct (reads_conf e), (a_slack a) as [t|]; cbn [dflt]; try reflexivity.
  destruct (Z.eqb_spec t 0) as [->|]; reflexivity.
Qed.

Lemma entry_verify_asked e cf nowv a r :
  entry_verify e cf nowv a r =
  object_verify (ctx_of e) (match e with EFactory => true | _ => false end) (cfg_of cf nowv (asked e cf a)) r.
Proof. unfold entry_verify. rewrite flags_passed_on. reflexivity. Qed.

(* ---- verify itself: whatever state and signature requirement it starts from ---- *)
Lemma verify_windows c req s r s' : verify c req s r = Ok (Some s') -> test_mode c = false -> windows_ok (now c) (slack c) r.
Proof.
  intros Hver Ht. destruct (verify_some _ _ _ _ _ Hver) as (Hcore & Hpa & _).
  destruct (parse_assertion_ok _ _ _ _ _ Hpa) as (Hall & Hp & Hd & _).
  pose proof (verify_core_issue _ _ Hcore) as Hi. split; [exact (issue_instant_ok_window _ _ Hi)|].
  assert (Forall (fun a => Forall (bearer_window_ok c) (a_confirmations a)) (processed r)) as Hw.
  { unfold processed. apply Forall_app. split.
    - eapply Forall_impl; [|exact Hd]. intros a (sa & sa' & Ha). eapply check_assertion_windows; exact Ha.
    - eapply Forall_impl; [|exact Hp]. intros a (sa & sa' & Ha). eapply check_assertion_windows; exact Ha. }
  rewrite Forall_forall in *. intros a Ha. specialize (Hw a Ha). specialize (Hall a Ha). split; [|split].
  - intros k Hk He. exact (af_conditions_time _ _ _ Hall k Hk He Ht).
  - exact (af_session _ _ _ Hall).
  - intros sc d Hin Hm Hd'. rewrite Forall_forall in Hw. exact (Hw sc Hin d Hm Hd').
Qed.

Lemma loads_verify_windows c r s : loads_verify c r = Ok (Some s) -> test_mode c = false -> windows_ok (now c) (slack c) r.
Proof.
  unfold loads_verify. destruct (loads c (wrs c) r) as [s0|]; [|discriminate].
  destruct (negb (r_valid_instance r)); [discriminate|]. apply verify_windows.
Qed.
Lemma factory_verify_windows c r s : factory_verify c r = Ok (Some s) -> test_mode c = false -> windows_ok (now c) (slack c) r.
Proof.
  unfold factory_verify. destruct (response_sig_stage false r) as [[]|]; [|discriminate].
  destruct (negb (r_valid_instance r)); [discriminate|].
  destruct (r_assertions r) as [|a l]; [destruct (r_encrypted r); [discriminate|]|]; apply verify_windows.
Qed.

(* what each context guarantees *)
Definition ctx_windows_ok (x : ectx) (nowv slackv : Z) (r : response) : Prop :=
  match x with
  | XAuthn => windows_ok nowv slackv r
  | XAuthnQuery => query_windows_ok QAuthnQuery nowv slackv r
  | XAttr | XAuthz | XArtifact => query_windows_ok QAttr nowv slackv r
  end.

Lemma view_windows k nowv slackv r : windows_ok nowv slackv (query_view k r) -> query_windows_ok k nowv slackv r.
Proof.
  intros [Hi Hall]. split; [exact Hi|]. rewrite processed_view in Hall. rewrite Forall_forall in *. intros a Ha.
  assert (In (view_assertion k a) (map (view_assertion k) (processed r))) as Hin by (apply in_map; exact Ha).
  destruct (Hall _ Hin) as (Hk & _ & Hb). split; [exact Hb|]. intros ->. exact Hk.
Qed.

Lemma object_verify_windows x fac c r s :
  object_verify x fac c r = Ok (Some s) -> test_mode c = false -> ctx_windows_ok x (now c) (slack c) r.
Proof.
  unfold object_verify. intros H Ht.
  assert (windows_ok (now c) (slack c) (ctx_view x r)) as W.
  { destruct fac; [exact (factory_verify_windows _ _ _ H Ht)|exact (loads_verify_windows _ _ _ H Ht)]. }
  destruct x; cbn [ctx_view ctx_windows_ok] in *; [exact W| | | |]; apply view_windows; exact W.
Qed.

(* every entry point, every way of writing the call: accepted => the windows hold at the allowance the caller gave,
   unless the caller named test=True on a constructor that has the parameter *)
Lemma entry_windows e cf nowv a r s :
  entry_verify e cf nowv a r = Ok (Some s) -> (has_test e = true -> a_test a <> Some true) ->
  ctx_windows_ok (ctx_of e) nowv (f_slack (asked e cf a)) r.
Proof.
  intros H Hn. unfold entry_verify in H.
  assert (f_test (flags_of e cf a) = false) as Ht.
  { destruct (f_test (flags_of e cf a)) eqn:Et; [|reflexivity].
    destruct (test_only_when_named _ _ _ Et) as [A B]. exfalso. exact (Hn A B). }
  pose proof (object_verify_windows _ _ _ _ _ H Ht) as W. cbn [cfg_of now slack] in W.
  rewrite flags_passed_on in W. exact W.
Qed.

(* the flags the caller did NOT touch do not matter for the time rules: asynchop and allow_unsolicited in every
   combination (they are part of [a]), stated once more with the switch spelled out *)
Lemma entry_windows_any_switches e cf nowv a r asy uns s :
  entry_verify e cf nowv {| a_return_addrs := a_return_addrs a; a_outstanding := a_outstanding a; a_slack := a_slack a;
                           a_asynch := asy; a_unsol := uns; a_was := a_was a; a_test := None |} r = Ok (Some s) ->
  ctx_windows_ok (ctx_of e) nowv (f_slack (asked e cf a)) r.
Proof.
  intros H. apply entry_windows in H; [|intros _; cbn; discriminate].
  unfold asked in *. cbn [f_slack a_slack] in *. exact H.
Qed.

(* ---- the process time zone ----
   A zone is its offset from UTC in seconds (fixed for the instant in question).  time.localtime / time.mktime of
   the C library: *)
Module TU := PV.Model.TimeUtil.
Module TL := PV.Proofs.TimeUtil_lemmas.
Definition localtime (zone t : Z) : TU.struct_time := TU.gmtime (t + zone).
Definition mktime (zone : Z) (c : TU.struct_time) : Z := TU.timegm c - zone.
(* utc_now() as the library has it, and the variant that goes through mktime *)
Definition utc_now (zone now : Z) : Z := TU.timegm (TU.gmtime now).
Definition utc_now_mktime (zone now : Z) : Z := mktime zone (TU.gmtime now).

(* every reading the library takes is gmtime / timegm based: the zone does not enter *)
Lemma no_zone_enters zone now :
  utc_now zone now = now /\ mktime zone (localtime zone now) = now /\
  (forall s c, TU.str_to_time s = Ok (Some c) ->
     TU.before now (TU.AText s) = Ok (utc_now zone now <=? TU.timegm c) /\
     TU.after now (TU.AText s) = Ok (negb (utc_now zone now <=? TU.timegm c))).
Proof.
  unfold utc_now, mktime, localtime. rewrite !TL.timegm_gmtime. split; [reflexivity|]. split; [lia|].
  intros s c H. split; [exact (TL.before_text now s c H)|exact (TL.after_text now s c H)].
Qed.

Lemma mixing_mktime_with_timegm zone now : utc_now_mktime zone now = now - zone.
Proof. unfold utc_now_mktime, mktime. rewrite TL.timegm_gmtime. reflexivity. Qed.
