From PV Require Import Lib.Base Model.Sigver Model.CertSelect Proofs.Sigver_lemmas.
Open Scope N_scope.

Lemma memN_In x l : memN x l = true <-> In x l.
Proof.
  unfold memN. rewrite existsb_exists. split.
  - intros (y & Hy & He). apply N.eqb_eq in He. now subst.
  - intros H. exists x. split; [exact H|apply N.eqb_refl].
Qed.

Lemma add_new_In cs : forall res x, In x (add_new res cs) <-> In x res \/ In x cs.
Proof.
  induction cs as [|c cs IH]; intros res x; cbn [add_new].
  - split; [now left|intros [H|[]]; exact H].
  - destruct (memN c res) eqn:M.
    + rewrite IH. apply memN_In in M. split; [intros [H|H]; [now left|right; now right]|].
      intros [H|[<-|H]]; [now left|now left|now right].
    + rewrite IH, in_app_iff. cbn [In]. tauto.
Qed.

(* exact characterisation of extract_certs *)
Lemma extract_certs_In use r : forall res x,
  In x (extract_certs use r res) <-> In x res \/ exists kd, In kd r /\ use_matches use kd = true /\ In x (kd_certs kd).
Proof.
  induction r as [|kd rest IH]; intros res x; cbn [extract_certs].
  - split; [now left|intros [H|(kd & [] & _)]; exact H].
  - rewrite IH. destruct (use_matches use kd) eqn:U.
    + rewrite add_new_In. split.
      * intros [[H|H]|(k & Hk & Hu & Hx)]; [now left|right; exists kd; repeat split; auto; now left|right; exists k; repeat split; auto; now right].
      * intros [H|(k & [<-|Hk] & Hu & Hx)]; [left; now left|left; now right|right; exists k; auto].
    + split.
      * intros [H|(k & Hk & Hu & Hx)]; [now left|right; exists k; repeat split; auto; now right].
      * intros [H|(k & [<-|Hk] & Hu & Hx)]; [now left|congruence|right; exists k; auto].
Qed.

(* MetaData.certs serves exactly: certificates of key descriptors of THAT entity
   (the first entry with that id) whose use equals the requested one or is absent *)
Lemma md_certs_spec m eid use l :
  md_certs m eid use = Some l ->
  exists i e, eid = Some i /\ find_entity m i = Some e /\
    forall x, In x l <-> exists r kd, In r e /\ In kd r /\ use_matches use kd = true /\ In x (kd_certs kd).
Proof.
  unfold md_certs. destruct eid as [i|]; [|discriminate]. destruct (find_entity m i) as [e|] eqn:F; [|discriminate].
  intros H. injection H as <-. exists i, e. repeat split; auto.
  - rewrite in_flat_map. intros (r & Hr & Hx). apply extract_certs_In in Hx as [[]|(kd & Hk & Hu & Hc)]. now exists r, kd.
  - intros (r & kd & Hr & Hk & Hu & Hc). apply in_flat_map. exists r. split; [exact Hr|]. apply extract_certs_In. right. now exists kd.
Qed.

(* the loop over candidate certificates succeeds iff one of them holds the signer's key *)
Lemma tool_for_success signer cert : reports_success (tool_for signer cert) = N.eqb cert signer.
Proof. unfold tool_for, reports_success. cbn. destruct (N.eqb cert signer); reflexivity. Qed.

Lemma validate_tool_for signer cert :
  validate_signature (tool_for signer cert) = if N.eqb cert signer then Ok true else Err XmlsecError.
Proof. unfold tool_for. destruct (N.eqb cert signer); reflexivity. Qed.

Lemma cert_loop_tool_for signer certs : cert_loop (map (tool_for signer) certs) = Ok (memN signer certs).
Proof.
  induction certs as [|c cs IH]; [reflexivity|]. cbn [map cert_loop memN existsb]. rewrite validate_tool_for.
  rewrite (N.eqb_sym signer c). destruct (N.eqb c signer); [reflexivity|].
  replace (is_xmlsec_error XmlsecError) with true by reflexivity. exact IH.
Qed.

Lemma check_signature_spec mp m issuer only_md embedded signer :
  check_signature mp m issuer only_md embedded signer =
  match candidate_certs mp m issuer only_md embedded with
  | Err e => Err e
  | Ok certs => if memN signer certs then Ok tt else Err (s2l "SignatureError")
  end.
Proof.
  unfold check_signature. destruct (candidate_certs mp m issuer only_md embedded) as [certs|e]; [|reflexivity].
  unfold check_signature_runs. rewrite cert_loop_tool_for. destruct (memN signer certs); reflexivity.
Qed.

(* ---- the code before proposed_fix/C03-1 ---- *)
Lemma md_certs_before_fix_char m eid use :
  md_certs_before_fix m eid use = None \/ md_certs_before_fix m eid use = md_certs m eid use.
Proof.
  unfold md_certs_before_fix, md_certs. destruct eid as [i|]; [|now left]. destruct (find_entity m i) as [e|]; [|now left].
  destruct (lacks_x509 use e); [now left|now right].
Qed.

Lemma check_signature_before_fix_spec mp m issuer only_md embedded signer :
  check_signature_before_fix mp m issuer only_md embedded signer =
  match candidate_certs_before_fix mp m issuer only_md embedded with
  | Err e => Err e
  | Ok certs => if memN signer certs then Ok tt else Err (s2l "SignatureError")
  end.
Proof.
  unfold check_signature_before_fix. destruct (candidate_certs_before_fix mp m issuer only_md embedded) as [certs|e]; [|reflexivity].
  unfold check_signature_runs. rewrite cert_loop_tool_for. destruct (memN signer certs); reflexivity.
Qed.

(* default setting: whatever the code before the repair accepted, the repaired code accepts *)
Lemma check_signature_before_fix_default_sound mp m issuer embedded signer :
  check_signature_before_fix mp m issuer true embedded signer = Ok tt ->
  check_signature mp m issuer true embedded signer = Ok tt.
Proof.
  rewrite check_signature_before_fix_spec, check_signature_spec. unfold candidate_certs_before_fix, candidate_certs.
  rewrite !andb_false_r. destruct mp; [|discriminate].
  destruct (md_certs_before_fix_char m issuer SIGNING) as [-> | ->]; [discriminate|]. auto.
Qed.
