(* Proofs/ValidateDeep_lemmas.v - the depth statements of C13: a chain built from a depth number
   (Model/ValidateDeep.v) keeps its innermost instance reachable, for EVERY number of levels
   (induction over the depth), so the rejection theorem applies to it; and a chain of steps that
   preserve goodness around a good innermost instance is accepted. *)
From PV Require Import Lib.Base Model.Schema Model.Validate Model.ValidateDeep
  Proofs.Schema_lemmas Proofs.Validate_lemmas.
Open Scope N_scope.

(* f wraps what it is given as a declared child: f x is an instance of a class of the schema
   whose child list holds x under a member the class row declares *)
Definition child_step (S : schema) (f : inst -> inst) : Prop :=
  forall x, exists c a t K xa xe r m,
    f x = I c a t K xa xe /\ find_row S c = Some r /\ In m (child_members r) /\ In (m, x) K.

Lemma step_of_child_step S c a t before m after xa xe r :
  find_row S c = Some r -> In m (child_members r) ->
  child_step S (step_of c a t before m after xa xe).
Proof.
  intros Hrow Hm x. exists c, a, t, (before ++ (m, x) :: after), xa, xe, r, m.
  split; [reflexivity|]. split; [exact Hrow|]. split; [exact Hm|].
  apply in_or_app. right. left. reflexivity.
Qed.

Lemma child_step_reach S f x j : child_step S f -> reach S x j -> reach S (f x) j.
Proof.
  intros Hf Hr. destruct (Hf x) as (c & a & t & K & xa & xe & r & m & Heq & Hrow & Hm & Hin).
  rewrite Heq. eapply reach_kid; [exact Hrow|exact Hm|exact Hin|exact Hr].
Qed.

Lemma deep_from_reach S all : Forall (child_step S) all ->
  forall n fs leaf, Forall (child_step S) fs -> reach S (deep_from fs all n leaf) leaf.
Proof.
  intros Hall n. induction n as [|n IH]; intros fs leaf Hfs; simpl.
  - apply reach_refl.
  - destruct fs as [|f r].
    + destruct all as [|f r] eqn:Eall.
      * apply reach_refl.
      * rewrite <- Eall in *. rewrite Eall in Hall. inversion Hall as [|f0 r0 Hf Hr]; subst.
        apply child_step_reach; [exact Hf|]. apply IH. exact Hr.
    + inversion Hfs as [|f0 r0 Hf Hr]; subst.
      apply child_step_reach; [exact Hf|]. apply IH. exact Hr.
Qed.

Theorem deep_reach S steps n leaf : Forall (child_step S) steps -> reach S (deep steps n leaf) leaf.
Proof. intros H. unfold deep. apply deep_from_reach; exact H. Qed.

Theorem rejects_deep prim keys S NIL M1 M2 M3 M4 M5 M6 M7 M8 M9 M10 M11 steps n leaf :
  plain_av S -> Forall (child_step S) steps -> violated prim keys S leaf ->
  (exists e, valid_instance prim keys S NIL M1 M2 M3 M4 M5 M6 M7 M8 M9 M10 M11 (deep steps n leaf) = Err e) /\
  (exists e, verify prim keys S NIL M1 M2 M3 M4 M5 M6 M7 M8 M9 M10 M11 (deep steps n leaf) = Err e).
Proof.
  intros Hp Hs Hv. eapply rejects_both; [exact Hp| |exact Hv]. apply deep_reach. exact Hs.
Qed.

(* a violation further down the innermost instance *)
Theorem rejects_deep_below prim keys S NIL M1 M2 M3 M4 M5 M6 M7 M8 M9 M10 M11 steps n leaf j :
  plain_av S -> Forall (child_step S) steps -> reach S leaf j -> violated prim keys S j ->
  (exists e, valid_instance prim keys S NIL M1 M2 M3 M4 M5 M6 M7 M8 M9 M10 M11 (deep steps n leaf) = Err e) /\
  (exists e, verify prim keys S NIL M1 M2 M3 M4 M5 M6 M7 M8 M9 M10 M11 (deep steps n leaf) = Err e).
Proof.
  intros Hp Hs Hr Hv. eapply rejects_both; [exact Hp| |exact Hv].
  assert (Ht : forall a b c, reach S a b -> reach S b c -> reach S a c).
  { intros a b c H1. induction H1 as [i|c0 a0 t K xa xe r m k j0 Hrow Hm Hin Hkj IH]; intros H2; [exact H2|].
    eapply reach_kid; [exact Hrow|exact Hm|exact Hin|apply IH; exact H2]. }
  eapply Ht; [apply deep_reach; exact Hs|exact Hr].
Qed.

(* acceptance: steps that keep a good tree good *)
Section Accept.
  Variables (prim : str -> str -> bool) (keys : list str) (S : schema).
  Variables (NIL M1 M2 M3 M4 M5 M6 M7 M8 M9 M10 M11 : N).
  Let goodi := good prim keys S NIL M1 M2 M3 M4 M5 M6 M7 M8 M9 M10 M11.
  Definition good_step (f : inst -> inst) : Prop := forall x, goodi x -> goodi (f x).

  Lemma deep_from_good all : Forall good_step all ->
    forall n fs leaf, Forall good_step fs -> goodi leaf -> goodi (deep_from fs all n leaf).
  Proof.
    intros Hall n. induction n as [|n IH]; intros fs leaf Hfs Hl; simpl; [exact Hl|].
    destruct fs as [|f r].
    - destruct all as [|f r] eqn:Eall; [exact Hl|].
      rewrite <- Eall in *. rewrite Eall in Hall. inversion Hall as [|f0 r0 Hf Hr]; subst.
      apply Hf. apply IH; [exact Hr|exact Hl].
    - inversion Hfs as [|f0 r0 Hf Hr]; subst. apply Hf. apply IH; [exact Hr|exact Hl].
  Qed.

  Theorem accepts_deep steps n leaf : Forall good_step steps -> goodi leaf ->
    verify prim keys S NIL M1 M2 M3 M4 M5 M6 M7 M8 M9 M10 M11 (deep steps n leaf) = ok /\
    valid_instance prim keys S NIL M1 M2 M3 M4 M5 M6 M7 M8 M9 M10 M11 (deep steps n leaf) = ok.
  Proof.
    intros Hs Hl. apply accepts. unfold deep. apply deep_from_good; assumption.
  Qed.
End Accept.

(* repeated siblings: whatever stands before and after it in a list, and however often an equal
   valid member is repeated, the member that carries the violation is reachable *)
Lemma wide_reach S c a t before m sib w x after xa xe r j :
  find_row S c = Some r -> In m (child_members r) -> reach S x j ->
  reach S (I c a t (before ++ wide m sib w x ++ after) xa xe) j.
Proof.
  intros Hrow Hm Hr. eapply reach_kid; [exact Hrow|exact Hm| |exact Hr].
  apply in_or_app. right. apply in_or_app. left. unfold wide.
  apply in_map_iff. exists x. split; [reflexivity|]. apply in_or_app. right. left. reflexivity.
Qed.

Theorem rejects_sibling prim keys S NIL M1 M2 M3 M4 M5 M6 M7 M8 M9 M10 M11 c a t before m sib w x after xa xe r j :
  plain_av S -> find_row S c = Some r -> In m (child_members r) -> reach S x j -> violated prim keys S j ->
  (exists e, valid_instance prim keys S NIL M1 M2 M3 M4 M5 M6 M7 M8 M9 M10 M11 (I c a t (before ++ wide m sib w x ++ after) xa xe) = Err e) /\
  (exists e, verify prim keys S NIL M1 M2 M3 M4 M5 M6 M7 M8 M9 M10 M11 (I c a t (before ++ wide m sib w x ++ after) xa xe) = Err e).
Proof.
  intros Hp Hrow Hm Hr Hv. eapply rejects_both; [exact Hp| |exact Hv].
  eapply wide_reach; eassumption.
Qed.

(* ---- non-vacuity: a one-class schema in which class 0 holds itself under member 1 and requires
   attribute member 2; the chain of ANY number of levels around an innermost instance without the
   attribute is refused, around one that carries it accepted *)
Definition TOY : schema :=
  [KR 0 100 [CR 10 1 (Some 0) false] [AR 20 2 TNone true] [] [] None [] [] [] [] true].
Definition toy_step : inst -> inst := step_of 0 [(2, s2l "v")] None [] 1 [] [] [].
Definition toy_bad : inst := I 0 [] None [] [] [].
Definition toy_good : inst := I 0 [(2, s2l "v")] None [] [] [].
Definition toy_prim (k v : str) : bool := true.

Lemma toy_plain_av : plain_av TOY.
Proof.
  intros c r Hrow Hv. unfold TOY, find_row in Hrow. cbn [find k_id] in Hrow.
  destruct (0 =? c) eqn:E.
  - inversion Hrow; subst. cbn in Hv. discriminate Hv.
  - discriminate Hrow.
Qed.

Lemma toy_child_step : Forall (child_step TOY) [toy_step].
Proof.
  constructor; [|constructor]. eapply step_of_child_step; [reflexivity|]. left. reflexivity.
Qed.

Example deep_example_rejected : forall n,
  (exists e, valid_instance toy_prim [s2l "string"] TOY 0 0 0 0 0 0 0 0 0 0 0 0 (deep [toy_step] n toy_bad) = Err e) /\
  (exists e, verify toy_prim [s2l "string"] TOY 0 0 0 0 0 0 0 0 0 0 0 0 (deep [toy_step] n toy_bad) = Err e).
Proof.
  intros n. apply rejects_deep; [exact toy_plain_av|exact toy_child_step|].
  exists (KR 0 100 [CR 10 1 (Some 0) false] [AR 20 2 TNone true] [] [] None [] [] [] [] true).
  split; [reflexivity|]. apply node_violationb_sound. vm_compute. reflexivity.
Qed.

Example deep_example_values :
  map (fun n => show_unit (valid_instance toy_prim [s2l "string"] TOY 0 0 0 0 0 0 0 0 0 0 0 0 (deep [toy_step] n toy_bad))) [0; 1; 33; 200]%nat
    = [VE MUST_VALUE; VE MUST_VALUE; VE MUST_VALUE; VE MUST_VALUE] /\
  map (fun n => show_unit (verify toy_prim [s2l "string"] TOY 0 0 0 0 0 0 0 0 0 0 0 0 (deep [toy_step] n toy_good))) [0; 1; 33; 200]%nat
    = [VB true; VB true; VB true; VB true].
Proof. vm_compute. split; reflexivity. Qed.
