(* Proofs/Policy_lemmas.v — what the release path of Model/Policy.v guarantees,
   for every identity, compiled policy, SP declaration, regex matcher and
   attribute map (induction over the lists). *)
From PV Require Import Lib.Base Gen.EntityCat Model.Policy.
Open Scope N_scope.

(* ---------- dict / list helpers ------------------------------------------- *)
Lemma lookup_In {V} (k : str) (d : dict V) v : lookup k d = Some v -> In (k, v) d.
Proof.
  induction d as [|[k' v'] r IH]; cbn [lookup]; [discriminate|].
  destruct (str_eqb k' k) eqn:E; intros H.
  - apply str_eqb_eq in E. inversion H; subst. left; reflexivity.
  - right; apply IH; exact H.
Qed.

Lemma In_has_key {V} (k : str) (v : V) (d : dict V) : In (k, v) d -> has_key k d = true.
Proof.
  unfold has_key. induction d as [|[k' v'] r IH]; cbn [In lookup]; [tauto|].
  intros [H|H].
  - inversion H; subst. rewrite str_eqb_refl. reflexivity.
  - destruct (str_eqb k' k); [reflexivity|apply IH; exact H].
Qed.

Lemma has_key_In {V} (k : str) (d : dict V) : has_key k d = true -> exists v, In (k, v) d.
Proof.
  unfold has_key. destruct (lookup k d) eqn:E; [|discriminate].
  intros _. eexists; apply lookup_In; exact E.
Qed.

Lemma dset_In {V} (k : str) (v : V) (d : dict V) n w :
  In (n, w) (dset k v d) -> (n = k /\ w = v) \/ In (n, w) d.
Proof.
  induction d as [|[k' v'] r IH]; cbn [dset In].
  - intros [H|[]]. inversion H; subst. left; split; reflexivity.
  - destruct (str_eqb k' k) eqn:E; cbn [In].
    + apply str_eqb_eq in E. subst k'. intros [H|H].
      * inversion H; subst. left; split; reflexivity.
      * right; right; exact H.
    + intros [H|H]; [right; left; exact H|].
      destruct (IH H) as [Hl|Hr]; [left; exact Hl|right; right; exact Hr].
Qed.

Lemma filter_map_In {A B} (f : A -> option B) (l : list A) y :
  In y (filter_map f l) <-> exists x, In x l /\ f x = Some y.
Proof.
  induction l as [|x r IH]; cbn [filter_map In].
  - split; [tauto|intros [x [[] _]]].
  - destruct (f x) eqn:E; cbn [In]; rewrite IH; split.
    + intros [H|[x' [Hi Hf]]]; [subst; exists x; split; [left; reflexivity|exact E]|exists x'; split; [right; exact Hi|exact Hf]].
    + intros [x' [[Hi|Hi] Hf]]; [subst; rewrite E in Hf; inversion Hf; left; reflexivity|right; exists x'; split; assumption].
    + intros [x' [Hi Hf]]; exists x'; split; [right; exact Hi|exact Hf].
    + intros [x' [[Hi|Hi] Hf]]; [subst; rewrite E in Hf; discriminate|exists x'; split; assumption].
Qed.

Lemma dedup_In x l : In x (dedup l) -> In x l.
Proof.
  induction l as [|y r IH]; cbn [dedup In]; [tauto|].
  destruct (mem_str y r); cbn [In]; intros H.
  - right; apply IH; exact H.
  - destruct H as [H|H]; [left; exact H|right; apply IH; exact H].
Qed.

Lemma dedup_In_rev x l : In x l -> In x (dedup l).
Proof.
  induction l as [|y r IH]; cbn [dedup In]; [tauto|].
  intros [H|H].
  - subst y. destruct (mem_str x r) eqn:E; [apply IH; apply mem_str_In; exact E|left; reflexivity].
  - destruct (mem_str y r); [apply IH; exact H|right; apply IH; exact H].
Qed.

(* ---------- lower ----------------------------------------------------------- *)
Lemma lower_c_idem c : lower_c (lower_c c) = lower_c c.
Proof.
  unfold lower_c.
  destruct ((65 <=? c) && (c <=? 90)) eqn:E; [|rewrite E; reflexivity].
  apply andb_true_iff in E as [E1 E2]. apply N.leb_le in E1, E2.
  destruct ((65 <=? c + 32) && (c + 32 <=? 90)) eqn:F; [|reflexivity].
  apply andb_true_iff in F as [_ F2]. apply N.leb_le in F2. lia.
Qed.

Lemma lower_idem s : lower (lower s) = lower s.
Proof. unfold lower. rewrite map_map. apply map_ext. exact lower_c_idem. Qed.

(* ---------- _match ---------------------------------------------------------- *)
Lemma find_ci_spec {V} la (d : dict V) k :
  find_ci la d = Some k -> has_key k d = true /\ lower k = la.
Proof.
  induction d as [|[k' v'] r IH]; cbn [find_ci]; [discriminate|].
  destruct (str_eqb (lower k') la) eqn:E; intros H.
  - inversion H; subst. apply str_eqb_eq in E. split; [|exact E].
    apply In_has_key with (v := v'). left; reflexivity.
  - destruct (IH H) as [Hk Hl]. split; [|exact Hl].
    destruct (has_key_In _ _ Hk) as [v Hv]. apply In_has_key with (v := v). right; exact Hv.
Qed.

Lemma py_match_spec {V} attr (a : dict V) k :
  py_match attr a = Some k -> has_key k a = true /\ lower k = lower attr.
Proof.
  unfold py_match. destruct (has_key attr a) eqn:E1.
  - intros H; inversion H; subst. split; [exact E1|reflexivity].
  - destruct (has_key (lower attr) a) eqn:E2.
    + intros H; inversion H; subst. split; [exact E2|apply lower_idem].
    + apply find_ci_spec.
Qed.

(* ---------- _filter_values -------------------------------------------------- *)
Lemma filter_values_ok vals vlist must r :
  filter_values vals vlist must = Ok r ->
  incl r vals /\ (vlist = [] \/ incl r vlist).
Proof.
  unfold filter_values. destruct vlist as [|x vl].
  - intros H; inversion H; subst. split; [apply incl_refl|left; reflexivity].
  - set (res := filter (fun v => mem_str v vals) (x :: vl)).
    assert (Hres : incl res vals /\ incl res (x :: vl)).
    { split; intros v Hv; apply filter_In in Hv as [Hv1 Hv2]; [apply mem_str_In; exact Hv2|exact Hv1]. }
    destruct must.
    + destruct res eqn:Er; [discriminate|]. intros H; inversion H; subst.
      split; [apply Hres|right; apply Hres].
    + intros H; inversion H; subst. split; [apply Hres|right; apply Hres].
Qed.

(* ========================================================================== *)
Section Release.
  Variable matches : str -> str -> bool.
  Variable lname : str -> str -> option str.

  (* ---------- filter_attribute_value_assertions --------------------------- *)
  Definition values_match (rr : option (list str)) (vs : list str) : Prop :=
    forall rxs, rr = Some rxs -> forall v, In v vs -> exists rx, In rx rxs /\ matches rx v = true.

  Lemma favs_entry_spec rest e n vs :
    favs_entry matches rest e = Some (n, vs) ->
    n = fst e /\ incl vs (snd e) /\
    exists rr, lookup (lower n) rest = Some rr /\ (rr = None -> vs = snd e) /\ values_match rr vs.
  Proof.
    unfold favs_entry. destruct (lookup (lower (fst e)) rest) as [[rxs|]|] eqn:El; [| |discriminate].
    - destruct (flat_map (fun rx => filter (matches rx) (snd e)) rxs) as [|x rv] eqn:Ef; [discriminate|].
      intros H. assert (Hnv : n = fst e /\ vs = dedup (x :: rv)) by (inversion H; split; reflexivity). destruct Hnv as [-> ->]. clear H. split; [reflexivity|].
      assert (Hall : forall v, In v (dedup (x :: rv)) -> In v (snd e) /\ exists rx, In rx rxs /\ matches rx v = true).
      { intros v Hv. apply dedup_In in Hv. rewrite <- Ef in Hv. apply in_flat_map in Hv as [rx [Hrx Hv]].
        apply filter_In in Hv as [Hv1 Hv2]. split; [exact Hv1|exists rx; split; assumption]. }
      split; [intros v Hv; apply Hall; exact Hv|].
      exists (Some rxs). split; [exact El|]. split; [discriminate|].
      intros rxs' Heq v Hv. inversion Heq; subst rxs'. apply Hall; exact Hv.
    - intros H. assert (Hnv : n = fst e /\ vs = snd e) by (destruct e; inversion H; split; reflexivity). destruct Hnv as [-> ->]. clear H. split; [reflexivity|]. split; [apply incl_refl|].
      exists None. split; [exact El|]. split; [reflexivity|].
      intros rxs Heq; discriminate.
  Qed.

  (* any restriction (also None / empty): what is left was there, with at most its values *)
  Lemma favs_sub a rest n vs :
    In (n, vs) (favs matches a rest) -> exists vs0, In (n, vs0) a /\ incl vs vs0.
  Proof.
    unfold favs. destruct rest as [[|r0 r]|].
    - intros H; exists vs; split; [exact H|apply incl_refl].
    - intros H. apply filter_map_In in H as [[k w] [Hi Hf]].
      apply favs_entry_spec in Hf as [Hn [Hincl _]]. cbn [fst snd] in *. subst k.
      exists w; split; [exact Hi|exact Hincl].
    - intros H; exists vs; split; [exact H|apply incl_refl].
  Qed.

  (* a non-empty restriction: the (lower-cased) name is one of its keys and the values match *)
  Lemma favs_restricted a r n vs :
    r <> [] -> In (n, vs) (favs matches a (Some r)) ->
    exists rr, lookup (lower n) r = Some rr /\ values_match rr vs.
  Proof.
    intros Hne. unfold favs. destruct r as [|r0 r]; [congruence|].
    intros H. apply filter_map_In in H as [e [_ Hf]].
    apply favs_entry_spec in Hf as [_ [_ [rr [Hl [_ Hv]]]]]. exists rr; split; assumption.
  Qed.

  Lemma lookup_names_only k l (x : option (list str)) : lookup k (names_only l) = Some x -> In k l.
  Proof.
    unfold names_only. induction l as [|y r IH]; cbn [map lookup]; [discriminate|].
    destruct (str_eqb y k) eqn:E; [apply str_eqb_eq in E; left; exact E|intros H; right; apply IH; exact H].
  Qed.

  (* ---------- filter_on_attributes ---------------------------------------- *)
  (* the entry (n, vs) of a result is covered by declarations of ds, for the ava a *)
  Definition covered (ds : list decl) (a : ava) (n : str) (vs : list str) : Prop :=
    (exists d, In d ds /\ match_attr_name lname d a = Some n) /\
    (exists ivs, lookup n a = Some ivs /\ incl vs ivs) /\
    (forall v, In v vs -> exists d, In d ds /\ match_attr_name lname d a = Some n /\
                                   (decl_values d = [] \/ In v (decl_values d))).

  Definition res_inv (ds : list decl) (a res : ava) : Prop :=
    forall n vs, In (n, vs) res -> covered ds a n vs.

  Lemma apply_avr_inv ds a res d fn must res' :
    In d ds -> match_attr_name lname d a = Some fn -> res_inv ds a res ->
    apply_avr d fn a res must = Ok res' -> res_inv ds a res'.
  Proof.
    intros Hd Hm Hinv. unfold apply_avr.
    destruct (lookup fn a) as [vals|] eqn:El; [|discriminate].
    destruct (filter_values vals (decl_values d) false) as [fv|] eqn:Ef; [|discriminate]. cbn [bind].
    destruct (filter_values vals (decl_values d) must) as [u|]; [|discriminate]. cbn [bind].
    intros H; inversion H; subst res'. clear H.
    apply filter_values_ok in Ef as [Hfv1 Hfv2].
    assert (Hnew : covered ds a fn fv).
    { split; [exists d; split; assumption|]. split; [exists vals; split; assumption|].
      intros v Hv. exists d. split; [exact Hd|]. split; [exact Hm|].
      destruct Hfv2 as [He|Hi]; [left; exact He|right; apply Hi; exact Hv]. }
    intros n vs Hin. unfold res_extend in Hin.
    destruct (lookup fn res) as [old|] eqn:Eo.
    - apply dset_In in Hin as [[Hn Hv]|Hin]; [|apply Hinv; exact Hin].
      subst n vs. apply lookup_In in Eo. specialize (Hinv _ _ Eo).
      destruct Hinv as [H1 [[ivs [Hl Hi]] H3]]. destruct Hnew as [_ [[ivs' [Hl' Hi']] H3']].
      split; [exact H1|]. split.
      + exists ivs; split; [exact Hl|]. rewrite Hl in Hl'. inversion Hl'; subst ivs'.
        apply incl_app; assumption.
      + intros v Hv. apply in_app_or in Hv as [Hv|Hv]; [apply H3|apply H3']; exact Hv.
    - apply dset_In in Hin as [[Hn Hv]|Hin]; [subst n vs; exact Hnew|apply Hinv; exact Hin].
  Qed.

  Lemma foa_loop_inv all must fail ds a : forall res res',
    incl ds all -> res_inv all a res -> foa_loop lname must fail ds a res = Ok res' -> res_inv all a res'.
  Proof.
    induction ds as [|d r IH]; intros res res' Hincl Hinv; cbn [foa_loop].
    - intros H; inversion H; subst; exact Hinv.
    - assert (Hd : In d all) by (apply Hincl; left; reflexivity).
      assert (Hr : incl r all) by (intros x Hx; apply Hincl; right; exact Hx).
      destruct (match_attr_name lname d a) as [[|c fn]|] eqn:Em.
      + destruct (must && fail); [discriminate|]. apply IH; assumption.
      + destruct (apply_avr d (c :: fn) a res must) as [res1|] eqn:Ea; [|discriminate]. cbn [bind].
        apply IH; [exact Hr|]. eapply apply_avr_inv; eassumption.
      + destruct (must && fail); [discriminate|]. apply IH; assumption.
  Qed.

  Lemma filter_on_attributes_inv a rq op fail res :
    filter_on_attributes lname a rq op fail = Ok res -> res_inv (rq ++ op) a res.
  Proof.
    unfold filter_on_attributes.
    destruct (foa_loop lname true fail rq a []) as [res1|] eqn:E1; [|discriminate]. cbn [bind].
    intros E2. eapply foa_loop_inv; [| |exact E2].
    - apply incl_appr, incl_refl.
    - eapply foa_loop_inv; [| |exact E1]; [apply incl_appl, incl_refl|intros n vs []].
  Qed.

  (* what "matched by a declaration" means, without reference to the matching code *)
  Definition decl_names (d : decl) (n : str) : Prop :=
    lower n = lower (d_name d) \/ exists ln, local_name lname d = Some ln /\ lower n = lower ln.

  Lemma match_attr_name_spec d a n :
    match_attr_name lname d a = Some n -> has_key n a = true /\ decl_names d n.
  Proof.
    unfold match_attr_name, decl_names.
    destruct (local_name lname d) as [[|c l]|] eqn:El.
    - cbn [truthy]. intros H. apply py_match_spec in H as [H1 H2]. split; [exact H1|left; exact H2].
    - destruct (py_match (c :: l) a) as [[|c' fn]|] eqn:Ep; cbn [truthy].
      + intros H. apply py_match_spec in H as [H1 H2]. split; [exact H1|left; exact H2].
      + intros H; inversion H; subst n. apply py_match_spec in Ep as [H1 H2].
        split; [exact H1|right; exists (c :: l); split; [reflexivity|exact H2]].
      + intros H. apply py_match_spec in H as [H1 H2]. split; [exact H1|left; exact H2].
    - cbn [truthy]. intros H. apply py_match_spec in H as [H1 H2]. split; [exact H1|left; exact H2].
  Qed.

  (* ---------- the property --------------------------------------------------- *)
  (* what the policy p permits to release to sp (declaring rq/op, seen through md) out of identity *)
  Definition within_identity (identity a : ava) : Prop :=
    forall n vs, In (n, vs) a -> exists ivs, In (n, ivs) identity /\ incl vs ivs.

  Definition within_restrictions (p : cpolicy) (sp : str) (a : ava) : Prop :=
    forall r, get_attribute_restrictions p sp = Ok (Some r) -> r <> [] ->
      forall n vs, In (n, vs) a -> exists rr, lookup (lower n) r = Some rr /\ values_match rr vs.

  Definition within_categories (p : cpolicy) (sp : str) (md : option mdview) (rq : list decl) (a : ava) : Prop :=
    forall allow, get_entity_categories p sp md rq = Ok allow -> allow <> [] ->
      forall n vs, In (n, vs) a -> In (lower n) allow.

  Definition within_declarations (p : cpolicy) (sp : str) (md : option mdview) (rq op : list decl) (a : ava) : Prop :=
    get_entity_categories p sp md rq = Ok [] -> rq ++ op <> [] ->
      forall n vs, In (n, vs) a ->
        (exists d, In d (rq ++ op) /\ decl_names d n) /\
        (forall v, In v vs -> exists d, In d (rq ++ op) /\ decl_names d n /\ (decl_values d = [] \/ In v (decl_values d))).

  Definition permitted_for (p : cpolicy) (sp : str) (md : option mdview) (rq op : list decl) (identity a : ava) : Prop :=
    within_identity identity a /\ within_restrictions p sp a /\
    within_categories p sp md rq a /\ within_declarations p sp md rq op a.

  (* the SP's declarations as the store reports them *)
  Definition declared (md : option mdview) : list decl * list decl :=
    match md with
    | Some m => match m_req m with Some x => x | None => ([], []) end
    | None => ([], [])
    end.

  Definition permitted (p : cpolicy) (sp : str) (md : option mdview) (identity a : ava) : Prop :=
    permitted_for p sp md (fst (declared md)) (snd (declared md)) identity a.

  Lemma permitted_for_incl p sp md rq op identity a a' :
    (forall e, In e a' -> In e a) -> permitted_for p sp md rq op identity a -> permitted_for p sp md rq op identity a'.
  Proof.
    intros Hsub [H1 [H2 [H3 H4]]]. split; [|split; [|split]].
    - intros n vs Hin; apply H1, Hsub, Hin.
    - intros r Hr Hne n vs Hin; eapply H2; [exact Hr|exact Hne|apply Hsub, Hin].
    - intros allow Ha Hne n vs Hin; eapply H3; [exact Ha|exact Hne|apply Hsub, Hin].
    - intros Hec Hne n vs Hin. exact (H4 Hec Hne n vs (Hsub _ Hin)).
  Qed.

  Lemma nonempty_app {A} (x y : list A) : x ++ y <> [] -> nonempty x || nonempty y = true.
  Proof. intros H. destruct x; [destruct y; [exfalso; apply H; reflexivity|reflexivity]|reflexivity]. Qed.

  (* Policy.filter *)
  Lemma pfilter_permitted p a sp md rq op out :
    pfilter matches lname p a sp md rq op = Ok out -> permitted_for p sp md rq op a out.
  Proof.
    unfold pfilter.
    destruct (get_entity_categories p sp md rq) as [ecr|] eqn:Eec; [|discriminate]. cbn [bind].
    destruct ecr as [|e0 ecr].
    - (* no category allowance *)
      destruct (nonempty rq || nonempty op) eqn:Ene.
      + destruct (get_fail_on_missing_requested p sp) as [fail|]; [|discriminate]. cbn [bind].
        destruct (filter_on_attributes lname a rq op fail) as [r|] eqn:Ef; [|discriminate]. cbn [bind].
        destruct (get_attribute_restrictions p sp) as [ar|] eqn:Ear; [|discriminate]. cbn [bind].
        intros H; inversion H; subst out; clear H.
        apply filter_on_attributes_inv in Ef.
        split; [|split; [|split]].
        * intros n vs Hin. apply favs_sub in Hin as [vs0 [Hi Hs]].
          destruct (Ef _ _ Hi) as [_ [[ivs [Hl Hi2]] _]]. exists ivs; split; [apply lookup_In; exact Hl|].
          intros v Hv; apply Hi2, Hs, Hv.
        * intros r0 Hr Hne n vs Hin. rewrite Ear in Hr; injection Hr as Hr; subst ar. eapply favs_restricted; eassumption.
        * intros allow Ha Hne. rewrite Eec in Ha; injection Ha as Ha; subst allow. exfalso; apply Hne; reflexivity.
        * intros _ _ n vs Hin. apply favs_sub in Hin as [vs0 [Hi Hs]]. split.
          -- destruct (Ef _ _ Hi) as [[d [Hd Hm]] _].
             exists d; split; [exact Hd|]. apply match_attr_name_spec in Hm as [_ Hm]; exact Hm.
          -- intros v Hv. destruct (Ef _ _ Hi) as [_ [_ Hc]].
             destruct (Hc v (Hs v Hv)) as [d [Hd [Hm Hvals]]]. exists d. split; [exact Hd|]. split; [|exact Hvals].
             apply match_attr_name_spec in Hm as [_ Hm]; exact Hm.
      + cbn [bind].
        destruct (get_attribute_restrictions p sp) as [ar|] eqn:Ear; [|discriminate]. cbn [bind].
        intros H; inversion H; subst out; clear H.
        split; [|split; [|split]].
        * intros n vs Hin. apply favs_sub in Hin. exact Hin.
        * intros r0 Hr Hne n vs Hin. rewrite Ear in Hr; injection Hr as Hr; subst ar. eapply favs_restricted; eassumption.
        * intros allow Ha Hne. rewrite Eec in Ha; injection Ha as Ha; subst allow. exfalso; apply Hne; reflexivity.
        * intros _ Hne. apply nonempty_app in Hne. rewrite Hne in Ene. discriminate.
    - (* the categories yield an allowance *)
      remember (favs matches a (Some (names_only (e0 :: ecr)))) as cur eqn:Ecur.
      cbn [bind].
      destruct (get_attribute_restrictions p sp) as [ar|] eqn:Ear; [|discriminate]. cbn [bind].
      intros H; inversion H; subst out; clear H.
      split; [|split; [|split]].
      + intros n vs Hin. apply favs_sub in Hin as [vs0 [Hi Hs]]. rewrite Ecur in Hi. apply favs_sub in Hi as [vs1 [Hi1 Hs1]].
        exists vs1; split; [exact Hi1|]. intros v Hv; apply Hs1, Hs, Hv.
      + intros r0 Hr Hne n vs Hin. rewrite Ear in Hr; injection Hr as Hr; subst ar. eapply favs_restricted; eassumption.
      + intros allow Ha Hne n vs Hin. rewrite Eec in Ha; injection Ha as Ha; subst allow.
        apply favs_sub in Hin as [vs0 [Hi _]]. rewrite Ecur in Hi.
        assert (Hne' : names_only (e0 :: ecr) <> []) by (cbn; discriminate).
        destruct (favs_restricted _ _ _ _ Hne' Hi) as [rr [Hl _]].
        eapply lookup_names_only; exact Hl.
      + intros Hec. rewrite Eec in Hec. discriminate Hec.
  Qed.

  (* Policy.restrict *)
  Lemma restrict_permitted p a sp md out :
    restrict matches lname p a sp md = Ok out -> permitted p sp md a out.
  Proof.
    unfold restrict, restrict_with, permitted, declared.
    destruct md as [m|]; [destruct (m_req m) as [[rq op]|]|]; cbn [fst snd]; apply pfilter_permitted.
  Qed.

  Lemma narrow_sub self filtered e : In e (narrow self filtered) -> In e filtered.
  Proof.
    unfold narrow. intros H. apply filter_map_In in H as [[k w] [_ Hf]]. cbn [fst] in Hf.
    destruct (lookup k filtered) as [v|] eqn:El; [|discriminate]. inversion Hf; subst e.
    apply lookup_In; exact El.
  Qed.

  (* Assertion.apply_policy *)
  Lemma apply_policy_permitted p identity sp md out :
    apply_policy matches lname p identity sp md = Ok out -> permitted p sp md identity out.
  Proof.
    unfold apply_policy, apply_policy_with. fold (restrict matches lname p identity sp md).
    destruct (restrict matches lname p identity sp md) as [f|] eqn:Er; [|discriminate]. cbn [bind].
    intros H; inversion H; subst out. apply restrict_permitted in Er.
    eapply permitted_for_incl; [|exact Er]. intros e; apply narrow_sub.
  Qed.

  (* ---------- outcomes ----------------------------------------------------------- *)
  Definition outcome_ok (p : cpolicy) (sp : str) (md : option mdview) (identity : ava) (o : outcome) : Prop :=
    match o with
    | Asserted a => permitted p sp md identity a
    | ErrorResponse => True
    | Raised _ => True
    end.

  (* apply_policy raising is restrict raising (narrowing happens afterwards) *)
  Lemma apply_policy_err p identity sp md e :
    apply_policy matches lname p identity sp md = Err e -> restrict matches lname p identity sp md = Err e.
  Proof.
    unfold apply_policy, apply_policy_with. fold (restrict matches lname p identity sp md).
    destruct (restrict matches lname p identity sp md); [discriminate|tauto].
  Qed.

  Lemma permitted_nil p sp md identity : permitted p sp md identity [].
  Proof.
    split; [|split; [|split]].
    - intros n vs Hin; destruct Hin.
    - intros r _ _ n vs Hin; destruct Hin.
    - intros allow _ _ n vs Hin; destruct Hin.
    - intros _ _ n vs Hin; destruct Hin.
  Qed.

  Lemma attribute_response_every_outcome p identity sp md :
    outcome_ok p sp md identity (attribute_response matches lname (Some p) identity sp md).
  Proof.
    unfold attribute_response. destruct identity as [|e r]; [apply permitted_nil|].
    destruct (apply_policy matches lname p (e :: r) sp md) as [a|x] eqn:E; [|exact I].
    apply apply_policy_permitted in E; exact E.
  Qed.

  (* no "aa" policy configured: no policy object is applied at all *)
  Lemma attribute_response_no_policy identity sp md :
    attribute_response matches lname None identity sp md = Asserted identity.
  Proof. destruct identity; reflexivity. Qed.

  (* HISTORY (before proposed_fix/C07-1): the only way out of the permitted set was the swallowed MissingValue *)
  Lemma authn_response_before_fix_characterised p identity sp md a :
    authn_response_before_fix matches lname p identity sp md = Asserted a ->
    permitted p sp md identity a \/
    (restrict matches lname p identity sp md = Err MissingValue /\ a = identity).
  Proof.
    unfold authn_response_before_fix, setup_assertion_before_fix.
    destruct (apply_policy matches lname p identity sp md) as [x|e] eqn:E.
    - intros H; inversion H; subst. left. apply apply_policy_permitted in E; exact E.
    - destruct (str_eqb e MissingValue) eqn:Ee; [|discriminate].
      intros H; inversion H; subst. right. split; [|reflexivity].
      apply str_eqb_eq in Ee; subst e. apply apply_policy_err; exact E.
  Qed.

  Lemma authn_response_before_fix_partial p identity sp md :
    restrict matches lname p identity sp md <> Err MissingValue ->
    outcome_ok p sp md identity (authn_response_before_fix matches lname p identity sp md).
  Proof.
    intros Hno. destruct (authn_response_before_fix matches lname p identity sp md) as [a| |e] eqn:E; cbn; try exact I.
    apply authn_response_before_fix_characterised in E as [H|[H _]]; [exact H|contradiction].
  Qed.

  (* the missing-requirement path itself: the whole identity, untouched *)
  Lemma authn_response_before_fix_missing_value p identity sp md :
    restrict matches lname p identity sp md = Err MissingValue ->
    authn_response_before_fix matches lname p identity sp md = Asserted identity.
  Proof.
    intros H. unfold authn_response_before_fix, setup_assertion_before_fix, apply_policy, apply_policy_with.
    fold (restrict matches lname p identity sp md). rewrite H. reflexivity.
  Qed.

  (* corner: categories configured, SP entitled to nothing, nothing declared, no restrictions:
     no category filter is applied and the whole identity goes out (upstream semantics) *)
  Lemma ec_entitled_to_nothing p a sp md :
    get_entity_categories p sp md [] = Ok [] ->
    get_attribute_restrictions p sp = Ok None ->
    pfilter matches lname p a sp md [] [] = Ok a.
  Proof. intros H1 H2. unfold pfilter. rewrite H1. cbn. rewrite H2. reflexivity. Qed.
End Release.

(* ---------- regenerated entity-category tables vs the documented ones ------- *)
Definition set_eqb (a b : list str) : bool :=
  forallb (fun x => mem_str x b) a && forallb (fun x => mem_str x a) b.

Definition row_in (r : ec_rawkey * (list str * bool)) (m : ecmap) : bool :=
  existsb (fun r' => rawkey_eqb (fst r) (fst r') && set_eqb (fst (snd r)) (fst (snd r')) &&
                     Bool.eqb (snd (snd r)) (snd (snd r'))) m.

Definition ecmap_equiv (m1 m2 : ecmap) : bool :=
  forallb (fun r => row_in r m2) m1 && forallb (fun r => row_in r m1) m2.

Definition tables_equiv (t1 t2 : list (str * ecmap)) : bool :=
  forallb (fun e => match lookup (fst e) t2 with Some m => ecmap_equiv (snd e) m | None => false end) t1 &&
  forallb (fun e => is_some (lookup (fst e) t1)) t2.

Definition compiled_tables : list (str * ecmap) := map (fun e => (fst e, compile_module (snd e))) ec_modules.
(* hand-written: what each entity category entitles an SP to (lower-cased names,
   only-if-required flag), per module.  Not generated. *)
Definition documented_ec : list (str * ecmap) := [
  ((s2l "at_egov_pvp2"), [
     ((true, [(s2l "http://www.ref.gv.at/ns/names/agiz/pvp/egovtoken")]),
      ([(s2l "pvp-version"); (s2l "pvp-principal-name"); (s2l "pvp-givenname"); (s2l "pvp-birthdate"); (s2l "pvp-userid"); (s2l "pvp-gid"); (s2l "pvp-bpk"); (s2l "pvp-mail"); (s2l "pvp-tel"); (s2l "pvp-participant-id"); (s2l "pvp-participant-okz"); (s2l "pvp-ou-okz"); (s2l "pvp-ou"); (s2l "pvp-ou-gv-ou-id"); (s2l "pvp-function"); (s2l "pvp-roles")], false));
     ((true, [(s2l "http://www.ref.gv.at/ns/names/agiz/pvp/egovtoken-charge")]),
      ([(s2l "pvp-invoice-recpt-id"); (s2l "pvp-cost-center-id"); (s2l "pvp-charge-code")], false))]);
  ((s2l "edugain"), [
     ((true, [([]:str)]),
      ([(s2l "edupersontargetedid")], false));
     ((true, [(s2l "http://www.geant.net/uri/dataprotection-code-of-conduct/v1")]),
      ([(s2l "edupersonprincipalname"); (s2l "edupersonscopedaffiliation"); (s2l "edupersonaffiliation"); (s2l "mail"); (s2l "displayname"); (s2l "cn"); (s2l "schachomeorganization")], true))]);
  ((s2l "incommon"), [
     ((true, [([]:str)]),
      ([(s2l "edupersontargetedid")], false));
     ((true, [(s2l "http://id.incommon.org/category/research-and-scholarship")]),
      ([(s2l "edupersonprincipalname"); (s2l "edupersonscopedaffiliation"); (s2l "mail"); (s2l "givenname"); (s2l "sn"); (s2l "displayname")], false))]);
  ((s2l "refeds"), [
     ((true, [([]:str)]),
      ([(s2l "edupersontargetedid")], false));
     ((true, [(s2l "http://refeds.org/category/research-and-scholarship")]),
      ([(s2l "edupersonprincipalname"); (s2l "edupersonscopedaffiliation"); (s2l "mail"); (s2l "givenname"); (s2l "sn"); (s2l "displayname")], false))]);
  ((s2l "swamid"), [
     ((true, [([]:str)]),
      ([(s2l "edupersontargetedid")], false));
     ((true, [(s2l "http://www.swamid.se/category/sfs-1993-1153")]),
      ([(s2l "noredupersonnin"); (s2l "edupersonassurance")], false));
     ((false, [(s2l "http://www.swamid.se/category/research-and-education"); (s2l "http://www.swamid.se/category/eu-adequate-protection")]),
      ([(s2l "givenname"); (s2l "displayname"); (s2l "sn"); (s2l "cn"); (s2l "c"); (s2l "o"); (s2l "co"); (s2l "noreduorgacronym"); (s2l "schachomeorganization"); (s2l "schachomeorganizationtype"); (s2l "edupersonprincipalname"); (s2l "edupersonscopedaffiliation"); (s2l "mail"); (s2l "edupersonassurance")], false));
     ((false, [(s2l "http://www.swamid.se/category/research-and-education"); (s2l "http://www.swamid.se/category/nren-service")]),
      ([(s2l "givenname"); (s2l "displayname"); (s2l "sn"); (s2l "cn"); (s2l "c"); (s2l "o"); (s2l "co"); (s2l "noreduorgacronym"); (s2l "schachomeorganization"); (s2l "schachomeorganizationtype"); (s2l "edupersonprincipalname"); (s2l "edupersonscopedaffiliation"); (s2l "mail"); (s2l "edupersonassurance")], false));
     ((false, [(s2l "http://www.swamid.se/category/research-and-education"); (s2l "http://www.swamid.se/category/hei-service")]),
      ([(s2l "givenname"); (s2l "displayname"); (s2l "sn"); (s2l "cn"); (s2l "c"); (s2l "o"); (s2l "co"); (s2l "noreduorgacronym"); (s2l "schachomeorganization"); (s2l "schachomeorganizationtype"); (s2l "edupersonprincipalname"); (s2l "edupersonscopedaffiliation"); (s2l "mail"); (s2l "edupersonassurance")], false));
     ((true, [(s2l "http://refeds.org/category/research-and-scholarship")]),
      ([(s2l "edupersontargetedid"); (s2l "edupersonprincipalname"); (s2l "mail"); (s2l "displayname"); (s2l "givenname"); (s2l "sn"); (s2l "edupersonscopedaffiliation")], false))])
].

Lemma ec_tables_as_documented : tables_equiv compiled_tables documented_ec = true.
Proof. vm_compute. reflexivity. Qed.

(* every documented module except at_egov_pvp2 has an always-released row, so an
   SP is never entitled to nothing under them (with a store) *)
Definition has_always_row (m : ecmap) : bool :=
  existsb (fun r => rawkey_eqb (fst r) (true, [[]]) && nonempty (fst (snd r))) m.

(* ---------- what the category rules entitle an SP to, declaratively -------------- *)
(* the key of a row is met by the SP's categories: the empty string key always, a string key when it is
   one of the categories, a tuple key when all its members are *)
Definition key_met (ecs : list str) (key : ec_rawkey) : Prop :=
  match key with
  | (true, [k]) => k = [] \/ In k ecs
  | (true, _) => False
  | (false, ks) => forall k, In k ks -> In k ecs
  end.

(* row entitles an SP with categories ecs, whose REQUIRED attributes have the lower-cased friendly
   names req, to the (lower-cased) attribute name a *)
Definition entitles (ecs req : list str) (row : ec_rawkey * (list str * bool)) (a : str) : Prop :=
  In a (fst (snd row)) /\ key_met ecs (fst row) /\
  (fst row = (true, [[]]) \/ (snd (snd row) = true -> In a req)).

Lemma ec_attrs_sound ecs req row a : In a (ec_attrs ecs req row) -> entitles ecs req row a.
Proof.
  destruct row as [[b ks] [atlist onr]]. unfold ec_attrs, entitles. cbn [fst snd].
  assert (Hsel : In a (if onr then filter (fun x => mem_str x req) atlist else atlist) ->
                 In a atlist /\ (onr = true -> In a req)).
  { destruct onr; [|intros H; split; [exact H|discriminate]].
    intros H. apply filter_In in H as [H1 H2]. split; [exact H1|intros _; apply mem_str_In; exact H2]. }
  destruct b.
  - destruct ks as [|k ks']; [simpl; intros []|].
    destruct ks' as [|k2 ks'']; [|destruct k; simpl; intros []].
    destruct k as [|c k']; simpl.
    + intros H. split; [exact H|]. split; [left; reflexivity|left; reflexivity].
    + destruct (mem_str (c :: k') ecs) eqn:E; [|intros []].
      intros H. apply Hsel in H as [H1 H2]. split; [exact H1|]. split; [right; apply mem_str_In; exact E|right; exact H2].
  - destruct (forallb (fun k => mem_str k ecs) ks) eqn:E; [|intros []].
    intros H. apply Hsel in H as [H1 H2]. split; [exact H1|]. split; [|right; exact H2].
    intros k Hk. rewrite forallb_forall in E. apply mem_str_In. apply E; exact Hk.
Qed.

(* and nothing else: the entitlement is exactly what post_entity_categories computes *)
Lemma ec_attrs_complete ecs req row a : entitles ecs req row a -> In a (ec_attrs ecs req row).
Proof.
  destruct row as [[b ks] [atlist onr]]. unfold ec_attrs, entitles. cbn [fst snd].
  intros [H1 [H2 H3]].
  assert (Hsel : (onr = true -> In a req) -> In a (if onr then filter (fun x => mem_str x req) atlist else atlist)).
  { destruct onr; [|intros _; exact H1]. intros H. apply filter_In. split; [exact H1|apply mem_str_In; apply H; reflexivity]. }
  destruct b.
  - destruct ks as [|k ks']; [destruct H2|].
    destruct ks' as [|k2 ks'']; [|destruct H2].
    destruct k as [|c k']; simpl; [exact H1|].
    destruct H2 as [H2|H2]; [discriminate|].
    apply mem_str_In in H2. rewrite H2. apply Hsel. destruct H3 as [H3|H3]; [discriminate|exact H3].
  - assert (E : forallb (fun k => mem_str k ecs) ks = true).
    { apply forallb_forall. intros k Hk. apply mem_str_In. apply H2; exact Hk. }
    rewrite E. apply Hsel. destruct H3 as [H3|H3]; [discriminate|exact H3].
Qed.

Lemma post_ec_spec maps md rq a :
  In a (post_entity_categories maps md rq) <->
  exists m em row, md = Some m /\ In em maps /\ In row em /\ entitles (m_ecs m) (req_friendly rq) row a.
Proof.
  unfold post_entity_categories. destruct md as [m|].
  - split.
    + intros H. apply in_flat_map in H as [em [Hem H]]. apply in_flat_map in H as [row [Hrow H]].
      exists m, em, row. split; [reflexivity|]. split; [exact Hem|]. split; [exact Hrow|]. apply ec_attrs_sound; exact H.
    + intros [m' [em [row [Hm [Hem [Hrow H]]]]]]. injection Hm as Hm; subst m'.
      apply in_flat_map. exists em; split; [exact Hem|]. apply in_flat_map. exists row; split; [exact Hrow|].
      apply ec_attrs_complete; exact H.
  - split; [intros []|intros [m [em [row [Hm _]]]]; discriminate].
Qed.

(* ---- from the compiled maps back to the configured module names and the documented table ---- *)
Lemma rawkey_eqb_eq a b : rawkey_eqb a b = true -> a = b.
Proof.
  destruct a as [ba la], b as [bb lb]. unfold rawkey_eqb. cbn [fst snd].
  intros H. apply andb_true_iff in H as [H1 H2]. apply Bool.eqb_prop in H1. subst bb. f_equal.
  revert lb H2. induction la as [|x la IH]; intros [|y lb] H2; simpl in H2; try discriminate; [reflexivity|].
  apply andb_true_iff in H2 as [Hx Hr]. apply str_eqb_eq in Hx. subst y. f_equal. apply IH. exact Hr.
Qed.

Lemma set_eqb_In a b x : set_eqb a b = true -> In x a -> In x b.
Proof.
  unfold set_eqb. intros H Hx. apply andb_true_iff in H as [H _]. rewrite forallb_forall in H.
  apply mem_str_In. apply H; exact Hx.
Qed.

Lemma entitles_transfer ecs req r r' a :
  rawkey_eqb (fst r) (fst r') = true -> set_eqb (fst (snd r)) (fst (snd r')) = true ->
  Bool.eqb (snd (snd r)) (snd (snd r')) = true ->
  entitles ecs req r a -> entitles ecs req r' a.
Proof.
  intros Hk Hs Hb [H1 [H2 H3]]. apply rawkey_eqb_eq in Hk. apply Bool.eqb_prop in Hb.
  unfold entitles. rewrite <- Hk, <- Hb. split; [eapply set_eqb_In; eassumption|]. split; assumption.
Qed.

Lemma compile_ec_In names : forall maps em, compile_ec names = Ok maps -> In em maps ->
  exists n m, In n names /\ lookup n ec_modules = Some m /\ em = compile_module m.
Proof.
  induction names as [|n r IH]; intros maps em; cbn [compile_ec].
  - intros H; injection H as H; subst maps. intros [].
  - destruct (lookup n ec_modules) as [m|] eqn:El; [|discriminate].
    destruct (compile_ec r) as [rest|] eqn:Er; cbn [bind]; [|discriminate].
    intros H; injection H as H; subst maps. intros [Hin|Hin].
    + exists n, m. split; [left; reflexivity|]. split; [exact El|symmetry; exact Hin].
    + destruct (IH rest em eq_refl Hin) as [n' [m' [H1 [H2 H3]]]].
      exists n', m'. split; [right; exact H1|]. split; assumption.
Qed.

Lemma documented_row n m row :
  lookup n ec_modules = Some m -> In row (compile_module m) ->
  exists dm row', lookup n documented_ec = Some dm /\ In row' dm /\
    rawkey_eqb (fst row) (fst row') = true /\ set_eqb (fst (snd row)) (fst (snd row')) = true /\
    Bool.eqb (snd (snd row)) (snd (snd row')) = true.
Proof.
  intros Hl Hrow. pose proof ec_tables_as_documented as T. unfold tables_equiv in T.
  apply andb_true_iff in T as [T _]. rewrite forallb_forall in T.
  assert (Hin : In (n, compile_module m) compiled_tables).
  { unfold compiled_tables. apply lookup_In in Hl.
    change (n, compile_module m) with ((fun e : str * ec_rawmodule => (fst e, compile_module (snd e))) (n, m)).
    apply in_map; exact Hl. }
  specialize (T _ Hin). cbn [fst snd] in T.
  destruct (lookup n documented_ec) as [dm|]; [|discriminate].
  unfold ecmap_equiv in T. apply andb_true_iff in T as [T _]. rewrite forallb_forall in T.
  specialize (T _ Hrow). unfold row_in in T. apply existsb_exists in T as [row' [Hr' T]].
  apply andb_true_iff in T as [T T3]. apply andb_true_iff in T as [T1 T2].
  exists dm, row'. split; [reflexivity|]. split; [exact Hr'|]. split; [exact T1|]. split; assumption.
Qed.

(* the names a configured list of category modules lets through are names the DOCUMENTED table
   entitles this SP to *)
Lemma allowance_documented names maps md rq a :
  compile_ec names = Ok maps -> In a (post_entity_categories maps md rq) ->
  exists m n dm row, md = Some m /\ In n names /\ lookup n documented_ec = Some dm /\ In row dm /\
    entitles (m_ecs m) (req_friendly rq) row a.
Proof.
  intros Hc Hin. apply post_ec_spec in Hin as [m [em [row [Hm [Hem [Hrow He]]]]]].
  destruct (compile_ec_In _ _ _ Hc Hem) as [n [rm [Hn [Hl Heq]]]]. subst em.
  destruct (documented_row _ _ _ Hl Hrow) as [dm [row' [Hd [Hr' [T1 [T2 T3]]]]]].
  exists m, n, dm, row'. split; [exact Hm|]. split; [exact Hn|]. split; [exact Hd|]. split; [exact Hr'|].
  eapply entitles_transfer; eassumption.
Qed.

(* which module names a compiled policy uses for sp: those of its own entry when that has the key,
   else those of the default entry *)
Definition configured_categories (raw : rawpolicy) (sp : str) (names : list str) : Prop :=
  exists R who rs, raw = Some R /\ (who = sp \/ who = DEFAULT) /\ lookup who R = Some (Some rs) /\ r_ec rs = Some names.

Lemma compile_entries_lookup who : forall R R' s',
  compile_entries R = Ok R' -> lookup who R' = Some (Some s') ->
  exists rs, lookup who R = Some (Some rs) /\ compile_spec rs = Ok s'.
Proof.
  induction R as [|[w [rs|]] R IH]; intros R' s'; cbn [compile_entries].
  - intros H; injection H as H; subst R'. discriminate.
  - destruct (compile_spec rs) as [cs|] eqn:Ec; cbn [bind]; [|discriminate].
    destruct (compile_entries R) as [R1|] eqn:Er; cbn [bind]; [|discriminate].
    intros H; injection H as H; subst R'. cbn [lookup].
    destruct (str_eqb w who); [intros H; injection H as H; subst cs; exists rs; split; [reflexivity|exact Ec]|].
    apply IH; reflexivity.
  - destruct (compile_entries R) as [R1|] eqn:Er; cbn [bind]; [|discriminate].
    intros H; injection H as H; subst R'. cbn [lookup].
    destruct (str_eqb w who); [discriminate|]. apply IH; reflexivity.
Qed.

Lemma compile_spec_ec rs s' maps :
  compile_spec rs = Ok s' -> s_ec s' = Some maps -> exists names, r_ec rs = Some names /\ compile_ec names = Ok maps.
Proof.
  unfold compile_spec. destruct (r_ec rs) as [names|].
  - destruct (compile_ec names) as [m|] eqn:Ec; cbn [bind]; [|discriminate].
    intros H; injection H as H; subst s'. cbn [s_ec]. intros H; injection H as H; subst m.
    exists names; split; [reflexivity|exact Ec].
  - cbn [bind]. intros H; injection H as H; subst s'. cbn [s_ec]. discriminate.
Qed.

Lemma pget_ec_configured raw p sp maps :
  compile raw = Ok p -> pget s_ec p sp = Ok (Some maps) ->
  exists names, configured_categories raw sp names /\ compile_ec names = Ok maps.
Proof.
  unfold compile. destruct raw as [[|x R]|]; try (intros H; injection H as H; subst p; discriminate).
  set (R0 := x :: R). destruct (compile_entries R0) as [R'|] eqn:Ec; cbn [bind]; [|discriminate].
  intros H; injection H as H; subst p. unfold pget.
  destruct R' as [|y R']; [discriminate|]. set (R1 := y :: R') in *.
  assert (Hfrom : forall who s', (who = sp \/ who = DEFAULT) -> lookup who R1 = Some (Some s') -> s_ec s' = Some maps ->
            exists names, configured_categories (Some R0) sp names /\ compile_ec names = Ok maps).
  { intros who s' Hw Hl Hs. destruct (compile_entries_lookup who _ _ _ Ec Hl) as [rs [Hl0 Hc]].
    destruct (compile_spec_ec _ _ _ Hc Hs) as [names [Hn Hm]].
    exists names. split; [|exact Hm]. exists R0, who, rs. split; [reflexivity|]. split; [exact Hw|]. split; assumption. }
  destruct (lookup sp R1) as [[s|]|] eqn:Esp.
  - destruct (s_ec s) as [v|] eqn:Es.
    + intros H; injection H as H; subst v. eapply Hfrom; [left; reflexivity|exact Esp|exact Es].
    + destruct (lookup DEFAULT R1) as [[s2|]|] eqn:Ed; try discriminate.
      intros H; injection H as H. eapply Hfrom; [right; reflexivity|exact Ed|exact H].
  - discriminate.
  - destruct (lookup DEFAULT R1) as [[s2|]|] eqn:Ed; try discriminate.
    intros H; injection H as H. eapply Hfrom; [right; reflexivity|exact Ed|exact H].
Qed.

(* the category clause against the documented table, for a policy compiled from its configuration *)
Lemma get_ec_documented raw p sp md rq allow a :
  compile raw = Ok p -> get_entity_categories p sp md rq = Ok allow -> In a allow ->
  exists names m n dm row, configured_categories raw sp names /\ md = Some m /\ In n names /\
    lookup n documented_ec = Some dm /\ In row dm /\ entitles (m_ecs m) (req_friendly rq) row a.
Proof.
  intros Hc. unfold get_entity_categories.
  destruct (pget s_ec p sp) as [[maps|]|] eqn:Ep; cbn [bind]; try discriminate.
  - intros H; injection H as H; subst allow. intros Hin.
    destruct (pget_ec_configured _ _ _ _ Hc Ep) as [names [Hconf Hm]].
    destruct (allowance_documented _ _ _ _ _ Hm Hin) as [m [n [dm [row [H1 [H2 [H3 [H4 H5]]]]]]]].
    exists names, m, n, dm, row. repeat (split; [assumption|]). exact H5.
  - intros H; injection H as H; subst allow. intros [].
Qed.

(* ---------- the suggested repair of Server.setup_assertion ------------------- *)
Lemma pget_err {A} (sel : spec -> option A) p sp e : pget sel p sp = Err e -> e = TypeError.
Proof.
  unfold pget. destruct p as [[|x R]|]; try discriminate.
  set (R0 := x :: R).
  destruct (lookup sp R0) as [[s|]|].
  - destruct (sel s); [discriminate|].
    destruct (lookup DEFAULT R0) as [[s'|]|]; try discriminate. intros H; injection H as H; congruence.
  - intros H; injection H as H; congruence.
  - destruct (lookup DEFAULT R0) as [[s'|]|]; try discriminate. intros H; injection H as H; congruence.
Qed.

Lemma TypeError_not_MissingValue : TypeError <> MissingValue.
Proof. cbv. discriminate. Qed.

Lemma ec_attrs_mono ecs req row x : In x (ec_attrs ecs [] row) -> In x (ec_attrs ecs req row).
Proof.
  destruct row as [[b ks] [atlist onr]]. unfold ec_attrs.
  assert (Hsel : In x (if onr then filter (fun a => mem_str a []) atlist else atlist) ->
                 In x (if onr then filter (fun a => mem_str a req) atlist else atlist)).
  { destruct onr; [|tauto]. intros H. apply filter_In in H as [_ H]. cbn in H. discriminate. }
  destruct b.
  - destruct ks as [|k [|k2 ks']]; [tauto| |tauto].
    destruct k as [|c k']; [tauto|].
    destruct (mem_str (c :: k') ecs); [exact Hsel|tauto].
  - destruct (forallb (fun k => mem_str k ecs) ks); [exact Hsel|tauto].
Qed.

Lemma post_ec_mono maps md rq x :
  In x (post_entity_categories maps md []) -> In x (post_entity_categories maps md rq).
Proof.
  unfold post_entity_categories. destruct md as [m|]; [|tauto].
  change (req_friendly []) with ([] : list str).
  intros H. apply in_flat_map in H as [em [Hem H]]. apply in_flat_map in H as [row [Hrow H]].
  apply in_flat_map. exists em; split; [exact Hem|]. apply in_flat_map. exists row; split; [exact Hrow|].
  apply ec_attrs_mono; exact H.
Qed.

Lemma get_ec_empty_mono p sp md rq :
  get_entity_categories p sp md rq = Ok [] -> get_entity_categories p sp md [] = Ok [].
Proof.
  unfold get_entity_categories. destruct (pget s_ec p sp) as [[maps|]|e]; cbn [bind]; [|tauto|tauto].
  intros H; injection H as H. f_equal.
  destruct (post_entity_categories maps md []) as [|x l] eqn:E; [reflexivity|].
  assert (Hin : In x (post_entity_categories maps md rq)) by (apply post_ec_mono; rewrite E; left; reflexivity).
  rewrite H in Hin. destruct Hin.
Qed.

Lemma KeyError_not_MissingValue : KeyError <> MissingValue.
Proof. cbv. discriminate. Qed.

Section Outcomes.
  Variable matches : str -> str -> bool.
  Variable lname : str -> str -> option str.

  Lemma pfilter_missing_ec_empty p a sp md rq op :
    pfilter matches lname p a sp md rq op = Err MissingValue -> get_entity_categories p sp md rq = Ok [].
  Proof.
    unfold pfilter.
    destruct (get_entity_categories p sp md rq) as [ecr|e] eqn:Eec.
    - destruct ecr as [|e0 ecr]; [reflexivity|]. cbn [bind].
      destruct (get_attribute_restrictions p sp) as [ar|e] eqn:Ear; cbn [bind]; [discriminate|].
      intros H; injection H as H. exfalso. subst e.
      unfold get_attribute_restrictions, pget_ar in Ear.
      destruct (pget s_ar p sp) as [v|e] eqn:Ep; cbn [bind] in Ear; [discriminate|].
      injection Ear as Ear. apply pget_err in Ep. apply TypeError_not_MissingValue. congruence.
    - cbn [bind]. intros H; injection H as H. exfalso. subst e.
      unfold get_entity_categories in Eec.
      destruct (pget s_ec p sp) as [v|e] eqn:Ep; cbn [bind] in Eec; [discriminate|].
      injection Eec as Eec. apply pget_err in Ep. apply TypeError_not_MissingValue. congruence.
  Qed.

  (* Policy.restrict in terms of the SP's declarations as the store reports them *)
  Lemma restrict_with_declared be p a sp md :
    restrict_with matches lname be p a sp md =
    if be then pfilter matches lname p a sp md [] (fst (declared md) ++ snd (declared md))
    else pfilter matches lname p a sp md (fst (declared md)) (snd (declared md)).
  Proof.
    unfold restrict_with, declared.
    destruct md as [m|]; [destruct (m_req m) as [[rq op]|]|]; destruct be; reflexivity.
  Qed.

  Lemma restrict_missing_ec_empty p a sp md :
    restrict matches lname p a sp md = Err MissingValue ->
    get_entity_categories p sp md (fst (declared md)) = Ok [].
  Proof.
    unfold restrict. rewrite restrict_with_declared. apply pfilter_missing_ec_empty.
  Qed.

  (* ---- wishes never raise MissingValue ------------------------------------ *)
  Lemma filter_values_wish vals vlist : exists r, filter_values vals vlist false = Ok r.
  Proof. unfold filter_values. destruct vlist; eexists; reflexivity. Qed.

  Lemma apply_avr_wish_err d fn a res e : apply_avr d fn a res false = Err e -> e = KeyError.
  Proof.
    unfold apply_avr. destruct (lookup fn a) as [vals|]; [|intros H; injection H as H; congruence].
    destruct (filter_values_wish vals (decl_values d)) as [r ->]. cbn [bind]. discriminate.
  Qed.

  Lemma foa_loop_wish_err fail ds a : forall res e,
    foa_loop lname false fail ds a res = Err e -> e = KeyError.
  Proof.
    induction ds as [|d r IH]; intros res e; cbn [foa_loop]; [discriminate|].
    destruct (match_attr_name lname d a) as [[|c fn]|].
    - cbn [andb]. apply IH.
    - destruct (apply_avr d (c :: fn) a res false) as [res1|e1] eqn:Ea; cbn [bind].
      + apply IH.
      + intros H; injection H as H; subst e1. eapply apply_avr_wish_err; exact Ea.
    - cbn [andb]. apply IH.
  Qed.

  Lemma pfilter_wishes_err p a sp md op e :
    pfilter matches lname p a sp md [] op = Err e -> e = TypeError \/ e = KeyError.
  Proof.
    unfold pfilter.
    destruct (get_entity_categories p sp md []) as [ecr|e0] eqn:Eec; cbn [bind].
    2:{ intros H; injection H as H; subst e0. left. unfold get_entity_categories in Eec.
        destruct (pget s_ec p sp) as [v|e1] eqn:Ep; cbn [bind] in Eec; [discriminate|].
        injection Eec as Eec; subst e1. eapply pget_err; exact Ep. }
    assert (Har : forall x cur, (do ar <- get_attribute_restrictions p sp; Ok (favs matches cur ar)) = Err x -> x = TypeError).
    { intros x cur. unfold get_attribute_restrictions, pget_ar.
      destruct (pget s_ar p sp) as [v|e1] eqn:Ep; cbn [bind]; [discriminate|].
      intros H; injection H as H; subst e1. eapply pget_err; exact Ep. }
    destruct ecr as [|e0 ecr].
    - cbn [nonempty orb]. destruct (nonempty op).
      + unfold get_fail_on_missing_requested.
        destruct (pget s_fail p sp) as [v|e1] eqn:Ep; cbn [bind].
        2:{ intros H; injection H as H; subst e1. left. eapply pget_err; exact Ep. }
        unfold filter_on_attributes. cbn [foa_loop bind].
        destruct (foa_loop lname false (match v with Some b => b | None => true end) op a []) as [r|e1] eqn:Ef; cbn [bind].
        * intros H. left. eapply Har; exact H.
        * intros H; injection H as H; subst e1. right. eapply foa_loop_wish_err; exact Ef.
      + cbn [bind]. intros H. left. eapply Har; exact H.
    - cbn [bind]. intros H. left. eapply Har; exact H.
  Qed.

  Lemma best_effort_never_missing p a sp md :
    restrict_with matches lname true p a sp md <> Err MissingValue.
  Proof.
    rewrite restrict_with_declared. intros H. apply pfilter_wishes_err in H as [H|H].
    - apply TypeError_not_MissingValue; congruence.
    - apply KeyError_not_MissingValue; congruence.
  Qed.

  (* ---- the best-effort assertion is a policy-filtered one ------------------- *)
  Lemma best_effort_permitted p identity sp md out :
    restrict matches lname p identity sp md = Err MissingValue ->
    apply_policy_with matches lname true p identity sp md = Ok out ->
    permitted matches lname p sp md identity out.
  Proof.
    intros Hr. unfold apply_policy_with. rewrite restrict_with_declared.
    apply restrict_missing_ec_empty in Hr.
    pose proof (get_ec_empty_mono _ _ _ _ Hr) as H0.
    set (rq := fst (declared md)) in *. set (op := snd (declared md)) in *.
    destruct (pfilter matches lname p identity sp md [] (rq ++ op)) as [f|e'] eqn:Ef; [|discriminate]. cbn [bind].
    intros H; injection H as H; subst out.
    apply pfilter_permitted in Ef.
    assert (Hn : permitted_for matches lname p sp md [] (rq ++ op) identity (narrow identity f)).
    { eapply permitted_for_incl; [|exact Ef]. intros x; apply narrow_sub. }
    destruct Hn as [H1 [H2 [H3 H4]]].
    unfold permitted. fold rq op. split; [exact H1|]. split; [exact H2|]. split.
    - intros allow Ha Hne. rewrite Hr in Ha. injection Ha as Ha. subst allow. exfalso; apply Hne; reflexivity.
    - intros _ Hne n vs Hin. exact (H4 H0 Hne n vs Hin).
  Qed.

  (* Server.setup_assertion, both values of best_effort *)
  Lemma setup_assertion_every_outcome p identity sp md b :
    outcome_ok matches lname p sp md identity (setup_assertion matches lname p identity sp md b).
  Proof.
    unfold setup_assertion.
    destruct (apply_policy matches lname p identity sp md) as [a|e] eqn:E.
    - apply apply_policy_permitted in E; exact E.
    - destruct (str_eqb e MissingValue) eqn:Ee; [|exact I]. destruct b; [|exact I].
      apply str_eqb_eq in Ee; subst e. apply apply_policy_err in E.
      destruct (apply_policy_with matches lname true p identity sp md) as [a|e'] eqn:E2; [|exact I].
      eapply best_effort_permitted; eassumption.
  Qed.

  Lemma authn_response_every_outcome p identity sp md :
    outcome_ok matches lname p sp md identity (authn_response matches lname p identity sp md).
  Proof. apply setup_assertion_every_outcome. Qed.

  (* create_authn_response never answers with an error response because of MissingValue,
     and MissingValue never leaves it *)
  Lemma authn_response_answers p identity sp md :
    authn_response matches lname p identity sp md <> ErrorResponse /\
    authn_response matches lname p identity sp md <> Raised MissingValue.
  Proof.
    unfold authn_response, setup_assertion.
    destruct (apply_policy matches lname p identity sp md) as [a|e] eqn:E; [split; discriminate|].
    destruct (str_eqb e MissingValue) eqn:Ee.
    - destruct (apply_policy_with matches lname true p identity sp md) as [a|e'] eqn:E2; [split; discriminate|].
      split; [discriminate|]. intros H; injection H as H; subst e'.
      unfold apply_policy_with in E2.
      destruct (restrict_with matches lname true p identity sp md) as [f|e''] eqn:E3; cbn [bind] in E2; [discriminate|].
      injection E2 as E2; subst e''. eapply best_effort_never_missing; exact E3.
    - split; [discriminate|]. intros H; injection H as H; subst e.
      rewrite str_eqb_refl in Ee. discriminate.
  Qed.

  (* what the best-effort assertion is: the identity narrowed by Policy.filter with wishes only *)
  Lemma authn_response_missing_value p identity sp md :
    restrict matches lname p identity sp md = Err MissingValue ->
    authn_response matches lname p identity sp md =
    match pfilter matches lname p identity sp md [] (fst (declared md) ++ snd (declared md)) with
    | Ok f => Asserted (narrow identity f)
    | Err e => Raised e
    end.
  Proof.
    intros H. unfold authn_response, setup_assertion, apply_policy, apply_policy_with.
    fold (restrict matches lname p identity sp md). rewrite H. cbn [bind]. rewrite str_eqb_refl.
    rewrite restrict_with_declared.
    destruct (pfilter matches lname p identity sp md [] (fst (declared md) ++ snd (declared md))); reflexivity.
  Qed.

  Lemma setup_assertion_agrees_when_met p identity sp md b :
    restrict matches lname p identity sp md <> Err MissingValue ->
    setup_assertion matches lname p identity sp md b = setup_assertion_before_fix matches lname p identity sp md b.
  Proof.
    intros Hno. unfold setup_assertion, setup_assertion_before_fix.
    destruct (apply_policy matches lname p identity sp md) as [a|e] eqn:E; [reflexivity|].
    destruct (str_eqb e MissingValue) eqn:Ee; [|reflexivity].
    apply str_eqb_eq in Ee; subst e. apply apply_policy_err in E. contradiction.
  Qed.

  (* the category clause of an assertion, read against the documented table *)
  Lemma permitted_documented raw p sp md identity a :
    compile raw = Ok p -> permitted matches lname p sp md identity a ->
    forall allow, get_entity_categories p sp md (fst (declared md)) = Ok allow -> allow <> [] ->
    forall n vs, In (n, vs) a ->
      exists names m mn dm row, configured_categories raw sp names /\ md = Some m /\ In mn names /\
        lookup mn documented_ec = Some dm /\ In row dm /\
        entitles (m_ecs m) (req_friendly (fst (declared md))) row (lower n).
  Proof.
    intros Hc [_ [_ [H3 _]]] allow Ha Hne n vs Hin.
    eapply get_ec_documented; [exact Hc|exact Ha|]. eapply H3; eassumption.
  Qed.

  Lemma authn_response_documented raw p identity sp md a :
    compile raw = Ok p -> authn_response matches lname p identity sp md = Asserted a ->
    forall allow, get_entity_categories p sp md (fst (declared md)) = Ok allow -> allow <> [] ->
    forall n vs, In (n, vs) a ->
      exists names m mn dm row, configured_categories raw sp names /\ md = Some m /\ In mn names /\
        lookup mn documented_ec = Some dm /\ In row dm /\
        entitles (m_ecs m) (req_friendly (fst (declared md))) row (lower n).
  Proof.
    intros Hc Ha. pose proof (authn_response_every_outcome p identity sp md) as H. rewrite Ha in H.
    eapply permitted_documented; eassumption.
  Qed.
End Outcomes.
