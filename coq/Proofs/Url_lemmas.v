From PV Require Import Lib.Base Model.Codec Proofs.Base64_lemmas.
From Coq Require Import ZifyN ZifyBool.
Open Scope N_scope.

(* per-byte facts by finite check over 0..255 *)
Definition qb_ok (plus : bool) (b : N) : bool :=
  match quote_byte plus b with
  | [c] => negb (c =? PCT) && (if plus && (c =? PLUS) then b =? SPACE else c =? b)
  | [p; h; l] => (p =? PCT) && match hexval h, hexval l with Some x, Some y => (x * 16 + y =? b) | _, _ => false end
  | _ => false
  end.
Lemma qb_all : forallb (qb_ok true) (upto 256) && forallb (qb_ok false) (upto 256) = true.
Proof. vm_compute. reflexivity. Qed.
Lemma qb plus b : byte b -> qb_ok plus b = true.
Proof.
  intros H. pose proof qb_all as A. apply andb_true_iff in A as [A1 A2].
  rewrite forallb_forall in A1, A2. destruct plus; [apply A1|apply A2]; apply upto_In; exact H.
Qed.

Lemma unquote_quote_byte plus b rest : byte b ->
  unquote_gen plus (quote_byte plus b ++ rest) = b :: unquote_gen plus rest.
Proof.
  intros H. pose proof (qb plus b H) as Q. unfold qb_ok in Q.
  destruct (quote_byte plus b) as [|c [|h [|l [|? ?]]]] eqn:E; try discriminate.
  - apply andb_true_iff in Q as [Q1 Q2]. cbn [app unquote_gen].
    destruct (c =? PCT); [discriminate|].
    destruct (plus && (c =? PLUS)).
    + apply N.eqb_eq in Q2. now subst b.
    + apply N.eqb_eq in Q2. now subst c.
  - apply andb_true_iff in Q as [Q1 Q2]. cbn [app unquote_gen]. rewrite Q1.
    destruct (hexval h) as [x|]; [|discriminate]. destruct (hexval l) as [y|]; [|discriminate].
    apply N.eqb_eq in Q2. now rewrite Q2.
Qed.

Theorem unquote_quote_gen plus bs : Forall byte bs -> unquote_gen plus (flat_map (quote_byte plus) bs) = bs.
Proof.
  induction 1 as [|b bs Hb _ IH]; [reflexivity|]. cbn [flat_map].
  rewrite (unquote_quote_byte plus b _ Hb), IH. reflexivity.
Qed.

Corollary quote_plus_roundtrip bs : Forall byte bs -> unquote_plus (quote_plus bs) = bs.
Proof. exact (unquote_quote_gen true bs). Qed.
Corollary quote_roundtrip bs : Forall byte bs -> unquote (quote bs) = bs.
Proof. exact (unquote_quote_gen false bs). Qed.

(* output alphabet *)
Definition url_safe (c : N) : bool := is_unreserved c || (c =? PCT) || (c =? PLUS).
Lemma qsafe_all : forallb (fun b => forallb url_safe (quote_byte true b) && forallb url_safe (quote_byte false b)) (upto 256) = true.
Proof. vm_compute. reflexivity. Qed.
Lemma quote_byte_safe plus b : byte b -> forallb url_safe (quote_byte plus b) = true.
Proof.
  intros H. pose proof qsafe_all as A. rewrite forallb_forall in A. specialize (A b (upto_In 256 b H)).
  apply andb_true_iff in A as [A1 A2]. now destruct plus.
Qed.
Theorem quote_gen_alphabet plus bs : Forall byte bs -> forallb url_safe (flat_map (quote_byte plus) bs) = true.
Proof.
  induction 1 as [|b bs Hb _ IH]; [reflexivity|]. cbn [flat_map]. rewrite forallb_app, IH, (quote_byte_safe plus b Hb). reflexivity.
Qed.

(* a url_safe character is no URL or HTML delimiter *)
Lemma url_safe_not_special c : url_safe c = true ->
  c <> AMP /\ c <> EQ /\ c <> 35 /\ c <> 63 /\ c <> 32 /\ c <> 34 /\ c <> 60 /\ c <> 62 /\ c <> 47 /\ c <> 44.
Proof. unfold url_safe, is_unreserved, is_alnum, AMP, EQ, PCT, PLUS. intros H. repeat split; lia. Qed.

Lemma safe_no (sep : N) s : (forall c, url_safe c = true -> c <> sep) -> forallb url_safe s = true ->
  forallb (fun c => negb (c =? sep)) s = true.
Proof.
  intros Hs H. rewrite forallb_forall in *. intros c Hc. specialize (H c Hc). apply Hs in H.
  apply N.eqb_neq in H. now rewrite H.
Qed.

(* split / join *)
Lemma split_on_app_nosep sep p s cur :
  forallb (fun c => negb (c =? sep)) p = true -> split_on sep (p ++ s) cur = split_on sep s (rev p ++ cur).
Proof.
  revert cur; induction p as [|c p IH]; intros cur H; [reflexivity|].
  cbn [forallb] in H. apply andb_true_iff in H as [Hc Hp]. cbn [app split_on].
  destruct (c =? sep); [discriminate|]. rewrite (IH _ Hp). cbn [rev]. now rewrite <- app_assoc.
Qed.

Lemma split_on_nosep sep p : forallb (fun c => negb (c =? sep)) p = true -> split_on sep p [] = [p].
Proof.
  intros H. rewrite <- (app_nil_r p) at 1. rewrite (split_on_app_nosep sep p [] [] H).
  cbn [split_on]. now rewrite app_nil_r, rev_involutive.
Qed.

Lemma split_join sep parts : parts <> [] ->
  Forall (fun p => forallb (fun c => negb (c =? sep)) p = true) parts ->
  split_on sep (join_with sep parts) [] = parts.
Proof.
  intros Hne H. induction H as [|p parts Hp Hrest IH]; [congruence|].
  destruct parts as [|q parts].
  - cbn [join_with]. now apply split_on_nosep.
  - cbn [join_with] in *. rewrite (split_on_app_nosep sep p _ [] Hp). cbn [split_on]. rewrite N.eqb_refl.
    rewrite app_nil_r, rev_involutive. f_equal. apply IH. discriminate.
Qed.

Lemma split_first_app_nosep sep p s cur :
  forallb (fun c => negb (c =? sep)) p = true -> split_first sep (p ++ sep :: s) cur = Some (rev cur ++ p, s).
Proof.
  revert cur; induction p as [|c p IH]; intros cur H.
  - cbn [app split_first]. rewrite N.eqb_refl. now rewrite app_nil_r.
  - cbn [forallb] in H. apply andb_true_iff in H as [Hc Hp]. cbn [app split_first].
    destruct (c =? sep); [discriminate|]. rewrite (IH _ Hp). cbn [rev]. now rewrite <- app_assoc.
Qed.

Definition bytes_pair (kv : list N * list N) : Prop := Forall byte (fst kv) /\ Forall byte (snd kv).

Lemma parse_field_encode kv : bytes_pair kv -> parse_field (encode_pair kv) = Some kv.
Proof.
  intros [Hk Hv]. unfold parse_field, encode_pair.
  rewrite (split_first_app_nosep EQ (quote_plus (fst kv)) (quote_plus (snd kv)) []).
  - cbn [rev app]. rewrite (quote_plus_roundtrip _ Hk), (quote_plus_roundtrip _ Hv). now destruct kv.
  - apply safe_no; [intros c Hc; apply (url_safe_not_special c Hc)|]. now apply quote_gen_alphabet.
Qed.

Lemma encode_pair_no_amp kv : bytes_pair kv -> forallb (fun c => negb (c =? AMP)) (encode_pair kv) = true.
Proof.
  intros [Hk Hv]. unfold encode_pair. rewrite forallb_app. cbn [forallb].
  rewrite !(safe_no AMP); try (now apply quote_gen_alphabet); try (intros c Hc; apply (url_safe_not_special c Hc)).
  reflexivity.
Qed.

Theorem parse_qsl_urlencode ps : Forall bytes_pair ps -> parse_qsl (urlencode ps) = ps.
Proof.
  intros H. destruct ps as [|kv0 ps0]; [reflexivity|].
  unfold parse_qsl, urlencode.
  assert (join_with AMP (map encode_pair (kv0 :: ps0)) <> []) as Hne.
  { intros Hn. cbn [map join_with] in Hn. destruct (map encode_pair ps0); unfold encode_pair in Hn;
      [|rewrite <- app_assoc in Hn; cbn [app] in Hn]; symmetry in Hn; apply app_cons_not_nil in Hn; exact Hn. }
  destruct (join_with AMP (map encode_pair (kv0 :: ps0))) eqn:E; [congruence|]. rewrite <- E. clear E Hne.
  rewrite split_join.
  - induction H as [|kv ps Hkv _ IH]; [reflexivity|]. cbn [map filter_some].
    rewrite (parse_field_encode kv Hkv). cbn [filter_some]. now rewrite IH.
  - discriminate.
  - rewrite Forall_map. eapply Forall_impl; [|exact H]. intros kv Hkv. now apply encode_pair_no_amp.
Qed.

(* the whole query string is free of every URL delimiter except the separators it puts itself *)
Theorem urlencode_alphabet ps : Forall bytes_pair ps ->
  forallb (fun c => url_safe c || (c =? AMP) || (c =? EQ)) (urlencode ps) = true.
Proof.
  intros H. unfold urlencode. induction H as [|kv ps [Hk Hv] Hrest IH]; [reflexivity|].
  assert (forallb (fun c => url_safe c || (c =? AMP) || (c =? EQ)) (encode_pair kv) = true) as Hp.
  { assert (forall s, forallb url_safe s = true -> forallb (fun c => url_safe c || (c =? AMP) || (c =? EQ)) s = true) as W.
    { intros s Hs. rewrite forallb_forall in *. intros c Hc. now rewrite (Hs c Hc). }
    unfold encode_pair. rewrite forallb_app. cbn [forallb].
    replace (url_safe EQ || (EQ =? AMP) || (EQ =? EQ)) with true by reflexivity. cbn [andb].
    rewrite andb_true_iff. split; apply W; now apply quote_gen_alphabet. }
  cbn [map join_with]. destruct (map encode_pair ps) eqn:E; [exact Hp|].
  rewrite forallb_app. cbn [forallb]. rewrite Hp.
  replace (url_safe AMP || (AMP =? AMP) || (AMP =? EQ)) with true by reflexivity. cbn [andb]. exact IH.
Qed.

(* redirect URL: cutting after the location and the glue character gives the parameters back *)
Theorem redirect_roundtrip location hq ps : Forall bytes_pair ps ->
  parse_qsl (skipn (S (List.length location)) (redirect_url location hq ps)) = ps.
Proof.
  intros H. unfold redirect_url.
  replace (skipn (S (List.length location)) (location ++ (if hq then AMP else 63) :: urlencode ps)) with (urlencode ps).
  - now apply parse_qsl_urlencode.
  - induction location as [|c l IH]; [reflexivity|]. cbn [List.length app]. rewrite IH at 1. reflexivity.
Qed.
