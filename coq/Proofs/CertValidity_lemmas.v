(* Proofs/CertValidity_lemmas.v — the validity window of a certificate is carried through the certificate
   selection of _check_signature and read nowhere: erasure onto Model/CertSelect.v, re-dating invariance,
   and the fallback to KeyInfo certificates decided by the DECLARED metadata list alone. *)
From PV Require Import Lib.Base Model.Sigver Model.CertSelect Model.CertValidity Proofs.Sigver_lemmas Proofs.CertSelect_lemmas.
Open Scope N_scope.

Lemma validity_eqb_eq a b : validity_eqb a b = true <-> a = b.
Proof. destruct a, b; cbn; split; intros H; try reflexivity; discriminate. Qed.

Lemma cert_eqb_eq a b : cert_eqb a b = true <-> a = b.
Proof.
  destruct a as [ka va], b as [kb vb]. unfold cert_eqb. cbn [c_key c_valid].
  rewrite andb_true_iff, N.eqb_eq, validity_eqb_eq. split.
  - intros [-> ->]. reflexivity.
  - intros H. injection H as -> ->. split; reflexivity.
Qed.

Lemma memC_In x l : memC x l = true <-> In x l.
Proof.
  unfold memC. rewrite existsb_exists. split.
  - intros (y & Hy & He). apply cert_eqb_eq in He. now subst.
  - intros H. exists x. split; [exact H|now apply cert_eqb_eq].
Qed.

Lemma vadd_new_In cs : forall res x, In x (vadd_new res cs) <-> In x res \/ In x cs.
Proof.
  induction cs as [|c cs IH]; intros res x; cbn [vadd_new].
  - split; [now left|intros [H|[]]; exact H].
  - destruct (memC c res) eqn:M.
    + rewrite IH. apply memC_In in M. split; [intros [H|H]; [now left|right; now right]|].
      intros [H|[<-|H]]; [now left|now left|now right].
    + rewrite IH, in_app_iff. cbn [In]. tauto.
Qed.

Lemma vextract_certs_In use r : forall res x,
  In x (vextract_certs use r res) <-> In x res \/ exists kd, In kd r /\ vuse_matches use kd = true /\ In x (vkd_certs kd).
Proof.
  induction r as [|kd rest IH]; intros res x; cbn [vextract_certs].
  - split; [now left|intros [H|(kd & [] & _)]; exact H].
  - rewrite IH. destruct (vuse_matches use kd) eqn:U.
    + rewrite vadd_new_In. split.
      * intros [[H|H]|(k & Hk & Hu & Hx)]; [now left|right; exists kd; repeat split; auto; now left|right; exists k; repeat split; auto; now right].
      * intros [H|(k & [<-|Hk] & Hu & Hx)]; [left; now left|left; now right|right; exists k; auto].
    + split.
      * intros [H|(k & Hk & Hu & Hx)]; [now left|right; exists k; repeat split; auto; now right].
      * intros [H|(k & [<-|Hk] & Hu & Hx)]; [now left|congruence|right; exists k; auto].
Qed.

(* certs() with the dates: exactly the certificates (whatever their window) of the use-matching key descriptors
   of THAT entity *)
Lemma vmd_certs_spec m eid use l :
  vmd_certs m eid use = Some l ->
  exists i e, eid = Some i /\ vfind_entity m i = Some e /\
    forall x, In x l <-> exists r kd, In r e /\ In kd r /\ vuse_matches use kd = true /\ In x (vkd_certs kd).
Proof.
  unfold vmd_certs. destruct eid as [i|]; [|discriminate]. destruct (vfind_entity m i) as [e|] eqn:F; [|discriminate].
  intros H. injection H as <-. exists i, e. repeat split; auto.
  - rewrite in_flat_map. intros (r & Hr & Hx). apply vextract_certs_In in Hx as [[]|(kd & Hk & Hu & Hc)]. now exists r, kd.
  - intros (r & kd & Hr & Hk & Hu & Hc). apply in_flat_map. exists r. split; [exact Hr|]. apply vextract_certs_In. right. now exists kd.
Qed.

(* ---------------------------------------------------------------- verdict from the keys of the candidates *)
Definition same_keys (a b : list N) : Prop := forall k, In k a <-> In k b.

Definition verdict_of_keys (ks : list N) (s : N) : result unit :=
  match ks with [] => Err (s2l "MissingKey") | _ => if memN s ks then Ok tt else Err (s2l "SignatureError") end.

Lemma same_keys_nil a b : same_keys a b -> nilb a = nilb b.
Proof.
  intros H. destruct a as [|x a], b as [|y b]; try reflexivity.
  - destruct (proj2 (H y)); now left.
  - destruct (proj1 (H x)); now left.
Qed.

Lemma same_keys_mem a b s : same_keys a b -> memN s a = memN s b.
Proof. intros H. apply Bool.eq_iff_eq_true. rewrite !memN_In. apply H. Qed.

Lemma verdict_same_keys a b s : same_keys a b -> verdict_of_keys a s = verdict_of_keys b s.
Proof.
  intros H. unfold verdict_of_keys. pose proof (same_keys_nil _ _ H) as Hn. rewrite (same_keys_mem _ _ s H).
  destruct a, b; try discriminate; reflexivity.
Qed.

Definition chosen (metadata_present : bool) (m : mdstore) (issuer : option str) (only_md : bool) (embedded : list N) : list N :=
  let from_md := if metadata_present then match md_certs m issuer SIGNING with Some l => l | None => [] end else [] in
  if nilb from_md && negb only_md then embedded else from_md.

Definition vchosen (metadata_present : bool) (m : vmdstore) (issuer : option str) (only_md : bool) (embedded : list cert) : list cert :=
  if consults_embedded metadata_present m issuer only_md then embedded else declared_signing metadata_present m issuer.

Lemma check_signature_verdict mp m issuer only_md embedded signer :
  check_signature mp m issuer only_md embedded signer = verdict_of_keys (chosen mp m issuer only_md embedded) signer.
Proof.
  rewrite check_signature_spec. unfold candidate_certs, chosen, verdict_of_keys. cbv zeta.
  match goal with |- context [if ?c then embedded else ?l] => destruct (if c then embedded else l) end; reflexivity.
Qed.

Lemma vcheck_signature_verdict mp m issuer only_md embedded signer :
  vcheck_signature mp m issuer only_md embedded signer = verdict_of_keys (map c_key (vchosen mp m issuer only_md embedded)) signer.
Proof.
  unfold vcheck_signature, vcandidate_certs, verdict_of_keys. fold (vchosen mp m issuer only_md embedded).
  destruct (vchosen mp m issuer only_md embedded) as [|c l]; [reflexivity|].
  unfold check_signature_runs. unfold vtool_for. rewrite <- (map_map c_key (tool_for signer)), cert_loop_tool_for.
  cbn [map]. destruct (memN signer (c_key c :: map c_key l)); reflexivity.
Qed.

(* ---------------------------------------------------------------- erasure *)
Lemma vuse_erase use kd : use_matches use (erase_kd kd) = vuse_matches use kd.
Proof. reflexivity. Qed.

Lemma find_erase m i : find_entity (erase_md m) i = option_map erase_entity (vfind_entity m i).
Proof.
  induction m as [|[k e] m IH]; [reflexivity|]. cbn [erase_md map find_entity vfind_entity fst snd].
  destruct (str_eqb i k); [reflexivity|exact IH].
Qed.

Lemma extract_erase use r : same_keys (map c_key (vextract_certs use r [])) (extract_certs use (map erase_kd r) []).
Proof.
  intros k. rewrite in_map_iff, extract_certs_In. split.
  - intros (c & <- & Hc). apply vextract_certs_In in Hc as [[]|(kd & Hk & Hu & Hx)].
    right. exists (erase_kd kd). split; [now apply in_map|]. split; [exact Hu|]. cbn [erase_kd kd_certs]. now apply in_map.
  - intros [[]|(kd' & Hk & Hu & Hx)]. apply in_map_iff in Hk as (kd & <- & Hk). cbn [erase_kd kd_certs] in Hx.
    apply in_map_iff in Hx as (c & <- & Hc). exists c. split; [reflexivity|]. apply vextract_certs_In. right. now exists kd.
Qed.

Lemma flat_erase use e :
  same_keys (map c_key (flat_map (fun r => vextract_certs use r []) e)) (flat_map (fun r => extract_certs use r []) (erase_entity e)).
Proof.
  intros k. unfold erase_entity. rewrite in_map_iff, in_flat_map. split.
  - intros (c & <- & Hc). apply in_flat_map in Hc as (r & Hr & Hc). exists (map erase_kd r). split; [now apply in_map|].
    apply extract_erase. now apply in_map.
  - intros (r' & Hr & Hk). apply in_map_iff in Hr as (r & <- & Hr). apply extract_erase in Hk.
    apply in_map_iff in Hk as (c & <- & Hc). exists c. split; [reflexivity|]. apply in_flat_map. now exists r.
Qed.

Lemma declared_erase mp m issuer :
  same_keys (map c_key (declared_signing mp m issuer))
            (if mp then match md_certs (erase_md m) issuer SIGNING with Some l => l | None => [] end else []).
Proof.
  unfold declared_signing, vmd_certs, md_certs. destruct mp; [|intros k; reflexivity].
  destruct issuer as [i|]; [|intros k; reflexivity]. rewrite find_erase.
  destruct (vfind_entity m i) as [e|]; [|intros k; reflexivity]. cbn [option_map]. apply flat_erase.
Qed.

Lemma nilb_map {A B} (f : A -> B) l : nilb (map f l) = nilb l.
Proof. destruct l; reflexivity. Qed.

Lemma chosen_erase mp m issuer only_md embedded :
  same_keys (map c_key (vchosen mp m issuer only_md embedded)) (chosen mp (erase_md m) issuer only_md (map c_key embedded)).
Proof.
  unfold vchosen, chosen, consults_embedded. cbv zeta. pose proof (declared_erase mp m issuer) as H.
  rewrite <- (same_keys_nil _ _ H), nilb_map.
  destruct (nilb (declared_signing mp m issuer) && negb only_md); [intros k; reflexivity|exact H].
Qed.

(* the validity-aware model and the model that does not know about dates give the same verdict *)
Theorem vcheck_erase mp m issuer only_md embedded signer :
  vcheck_signature mp m issuer only_md embedded signer =
  check_signature mp (erase_md m) issuer only_md (map c_key embedded) signer.
Proof. rewrite vcheck_signature_verdict, check_signature_verdict. apply verdict_same_keys, chosen_erase. Qed.

(* ---------------------------------------------------------------- re-dating *)
Lemma erase_redate f m : erase_md (redate_md f m) = erase_md m.
Proof.
  unfold erase_md, redate_md. rewrite map_map. apply map_ext. intros [k e]. cbn [fst snd]. f_equal.
  unfold erase_entity. rewrite map_map. apply map_ext. intros r. rewrite map_map. apply map_ext. intros kd.
  unfold erase_kd, redate_kd. cbn [vkd_use vkd_certs]. f_equal. rewrite map_map. apply map_ext. reflexivity.
Qed.

(* give every certificate - in metadata and in KeyInfo - any other validity window: same verdict *)
Theorem vcheck_redate f g mp m issuer only_md embedded signer :
  vcheck_signature mp (redate_md f m) issuer only_md (map (redate_cert g) embedded) signer =
  vcheck_signature mp m issuer only_md embedded signer.
Proof. rewrite !vcheck_erase, erase_redate, map_map. reflexivity. Qed.

(* ---------------------------------------------------------------- the fallback: decided by the declared list *)
Lemma consults_embedded_iff mp m issuer only_md :
  consults_embedded mp m issuer only_md = true <-> only_md = false /\ declared_signing mp m issuer = [].
Proof.
  unfold consults_embedded. rewrite andb_true_iff, negb_true_iff. destruct (declared_signing mp m issuer); cbn; intuition congruence.
Qed.

(* the declared list itself does not depend on the dates (its keys, in particular whether it is empty) *)
Lemma declared_redate f mp m issuer :
  map c_key (declared_signing mp (redate_md f m) issuer) = map c_key (declared_signing mp m issuer) \/
  same_keys (map c_key (declared_signing mp (redate_md f m) issuer)) (map c_key (declared_signing mp m issuer)).
Proof.
  right. intros k. rewrite (declared_erase mp (redate_md f m) issuer k), erase_redate. symmetry. apply declared_erase.
Qed.

Lemma consults_embedded_redate f mp m issuer only_md :
  consults_embedded mp (redate_md f m) issuer only_md = consults_embedded mp m issuer only_md.
Proof.
  unfold consults_embedded. f_equal. rewrite <- !(nilb_map c_key). apply same_keys_nil.
  destruct (declared_redate f mp m issuer) as [-> | H]; [intros k; reflexivity|exact H].
Qed.

(* metadata declares ANY certificate (valid, expired, not yet valid) in a signing / use-less key descriptor of the
   issuer's entity: KeyInfo is not consulted, whatever the setting - the verdict is the one with the setting on
   and no KeyInfo at all *)
Lemma declared_blocks_fallback m i e r kd c only_md embedded signer :
  vfind_entity m i = Some e -> In r e -> In kd r -> vuse_matches SIGNING kd = true -> In c (vkd_certs kd) ->
  consults_embedded true m (Some i) only_md = false /\
  vcheck_signature true m (Some i) only_md embedded signer = vcheck_signature true m (Some i) true [] signer.
Proof.
  intros F Hr Hk Hu Hc.
  assert (Hd : In c (declared_signing true m (Some i))).
  { unfold declared_signing, vmd_certs. rewrite F. apply in_flat_map. exists r. split; [exact Hr|].
    apply vextract_certs_In. right. now exists kd. }
  assert (Hn : forall o, consults_embedded true m (Some i) o = false).
  { intros o. unfold consults_embedded. destruct (declared_signing true m (Some i)); [destruct Hd|reflexivity]. }
  split; [apply Hn|]. rewrite !vcheck_signature_verdict. unfold vchosen. rewrite !Hn. reflexivity.
Qed.

(* acceptance, with the dates visible: the key is held by a certificate DECLARED for the issuer (default setting) *)
Lemma vcheck_accepts_declared mp m issuer embedded signer :
  vcheck_signature mp m issuer true embedded signer = Ok tt ->
  exists c, In c (declared_signing mp m issuer) /\ c_key c = signer.
Proof.
  rewrite vcheck_signature_verdict. unfold vchosen, consults_embedded. rewrite andb_false_r. unfold verdict_of_keys.
  destruct (map c_key (declared_signing mp m issuer)) as [|k ks] eqn:E; [discriminate|].
  destruct (memN signer (k :: ks)) eqn:M; [|discriminate]. intros _. apply memN_In in M. rewrite <- E in M.
  apply in_map_iff in M as (c & Hk & Hc). now exists c.
Qed.

(* and conversely: a key held by a declared certificate is accepted whatever that certificate's window *)
Lemma vcheck_declared_accepted mp m issuer only_md embedded c :
  In c (declared_signing mp m issuer) ->
  vcheck_signature mp m issuer only_md embedded (c_key c) = Ok tt.
Proof.
  intros Hc. rewrite vcheck_signature_verdict. unfold vchosen, consults_embedded.
  destruct (declared_signing mp m issuer) as [|c0 l] eqn:E; [destruct Hc|]. cbn [nilb andb]. unfold verdict_of_keys.
  cbn [map]. replace (memN (c_key c) (c_key c0 :: map c_key l)) with true; [reflexivity|].
  symmetry. apply memN_In. change (In (c_key c) (map c_key (c0 :: l))). now apply in_map.
Qed.
