(* Proofs/Duration_lemmas.v - what time_util.parse_duration (Model/Duration.v) accepts.
   shape: the items of D_FORMAT in their order, each a number followed by its designator, T before the time
   items and never last, the last item possibly with a fraction.  Soundness is proved for ANY pair of number
   readers (so also for the python int() / float() grammar of the code as it was); alphabet, last character
   and junk theorems for the repaired grammar. *)
From PV Require Import Lib.Base Model.Duration.
Open Scope N_scope.

Section Shape.
  Variable isint : str -> bool.       (* the number of an item that something follows *)
  Variable islast : str -> bool.      (* the number of the last item *)
  (* shape fmt r : r is made of items of the format list fmt, in its order; never empty *)
  Inductive shape : list (N * option slot) -> str -> Prop :=
  | sh_skip c t fmt r : shape fmt r -> shape ((c, Some t) :: fmt) r                         (* the item is absent *)
  | sh_last c t fmt v : islast v = true -> shape ((c, Some t) :: fmt) (v ++ [c])            (* the last item *)
  | sh_item c t fmt v r : isint v = true -> shape fmt r -> shape ((c, Some t) :: fmt) (v ++ c :: r)
  | sh_T c fmt r : shape fmt r -> shape ((c, None) :: fmt) (C_T :: r).                      (* T, and items after it *)

  Lemma shape_nonempty fmt r : shape fmt r -> r <> [].
  Proof.
    induction 1 as [| c t fmt v _ | c t fmt v r _ _ _ |]; try assumption; try discriminate.
    - destruct v; discriminate.
    - destruct v; discriminate.
  Qed.

  (* the last character is the designator of an item of the format list *)
  Lemma shape_ends fmt r : shape fmt r -> exists r0 c t, r = r0 ++ [c] /\ In (c, Some t) fmt.
  Proof.
    induction 1 as [c t fmt r _ IH | c t fmt v _ | c t fmt v r _ _ IH | c fmt r _ IH].
    - destruct IH as (r0 & c' & t' & -> & Hin). exists r0, c', t'. split; [reflexivity|right; exact Hin].
    - exists v, c, t. split; [reflexivity|left; reflexivity].
    - destruct IH as (r0 & c' & t' & -> & Hin). exists (v ++ c :: r0), c', t'. split; [|right; exact Hin].
      rewrite <- app_assoc. reflexivity.
    - destruct IH as (r0 & c' & t' & -> & Hin). exists (C_T :: r0), c', t'. split; [reflexivity|right; exact Hin].
  Qed.
End Shape.

Definition is_some {A} (o : option A) : bool := match o with Some _ => true | None => false end.

Section Sound.
  Variable int_of : str -> option Z.
  Variable float_of : str -> option num.
  Variable cut : bool.
  Definition int_ok (v : str) : bool := is_some (int_of v).
  Definition last_ok (v : str) : bool :=
    is_some (int_of v) || is_some (float_of v) || (existsb (N.eqb 44) v && is_some (float_of (comma_to_dot v))).

  Lemma find_code_spec code b r : forall v a, find_code code b r = Some (v, a) -> r = v ++ code :: a.
  Proof.
    induction r as [|x r IH]; intros v a H; cbn [find_code] in H; [discriminate|].
    destruct (N.eqb_spec x code) as [->|Hne].
    - injection H as <- <-. reflexivity.
    - destruct (b && (x =? C_T)); [discriminate|].
      destruct (find_code code b r) as [[v' a']|] eqn:E; [|discriminate].
      injection H as <- <-. rewrite (IH v' a' eq_refl). reflexivity.
  Qed.

  Lemma item_advance code tp r n after :
    item int_of float_of cut code tp r = Advance n after ->
    exists v, r = v ++ code :: after /\ (after <> [] -> int_ok v = true) /\ (after = [] -> last_ok v = true).
  Proof.
    unfold item. destruct (find_code code (cut && negb tp) r) as [[v a]|] eqn:Ef; [|discriminate].
    apply find_code_spec in Ef. unfold int_ok, last_ok.
    destruct (int_of v) as [z|] eqn:Ei.
    - intros H. injection H as _ <-. exists v. rewrite Ei. cbn. repeat split; exact Ef.
    - destruct (is_nil a) eqn:En; [|discriminate].
      destruct a; [|discriminate].
      destruct (float_of v) as [f|] eqn:Ef1.
      + intros H. injection H as _ <-. exists v. rewrite Ei, Ef1. cbn. repeat split; [exact Ef|intros X; contradiction].
      + destruct (existsb (N.eqb 44) v) eqn:Ec; [|discriminate].
        destruct (float_of (comma_to_dot v)) as [f|] eqn:Ef2; [|discriminate].
        intros H. injection H as _ <-. exists v. rewrite Ei, Ef1, Ec, Ef2. cbn. repeat split; [exact Ef|intros X; contradiction].
  Qed.

  Theorem loop_sound : forall fmt tp r dic r' dic',
    loop int_of float_of cut fmt tp r dic = Ok (r', dic') -> r <> [] -> r' = [] -> shape int_ok last_ok fmt r.
  Proof.
    induction fmt as [|[code typ] fmt IH]; intros tp r dic r' dic' H Hne Hr'.
    - cbn [loop] in H. injection H as <- _. contradiction.
    - cbn [loop] in H. destruct r as [|ch r0]; [contradiction|].
      destruct (ch =? 45); [discriminate|].
      destruct typ as [t|].
      + destruct (ch =? C_T) eqn:ET.
        * apply sh_skip. exact (IH _ _ _ _ _ H Hne Hr').
        * destruct (item int_of float_of cut code tp (ch :: r0)) as [|n after|e] eqn:Ei.
          -- apply sh_skip. exact (IH _ _ _ _ _ H Hne Hr').
          -- apply item_advance in Ei as (v & Er & Hint & Hlast). rewrite Er.
             destruct after as [|a0 after]; cbn [is_nil] in H.
             ++ apply sh_last. apply Hlast. reflexivity.
             ++ apply sh_item; [apply Hint; discriminate|].
                apply (IH _ _ _ _ _ H); [discriminate|exact Hr'].
          -- discriminate.
      + destruct (N.eqb_spec ch C_T) as [->|]; [|discriminate].
        destruct r0 as [|a0 r0]; cbn [is_nil] in H; [discriminate|].
        apply sh_T. apply (IH _ _ _ _ _ H); [discriminate|exact Hr'].
  Qed.

  Definition sign_text (neg : bool) : str := if neg then [45] else [].

  Theorem parse_with_sound s neg f :
    parse_with int_of float_of cut true s = Ok (neg, f) ->
    exists r, s = sign_text neg ++ 80 :: r /\ shape int_ok last_ok D_FORMAT r.
  Proof.
    unfold parse_with. destruct s as [|c0 s0]; [discriminate|].
    destruct (N.eqb_spec c0 45) as [->|Hc0].
    - destruct s0 as [|p r]; [discriminate|].
      destruct (N.eqb_spec p 80) as [->|]; [|discriminate].
      destruct (loop int_of float_of cut D_FORMAT false r zero_fields) as [[r' dic]|e] eqn:El; [|discriminate].
      cbn [andb]. destruct r' as [|x r']; cbn [is_nil negb]; [|discriminate].
      intros H. injection H as <- _. exists r. split; [reflexivity|].
      apply (loop_sound _ _ _ _ _ _ El); [|reflexivity].
      intros ->. cbn in El. discriminate.
    - destruct (N.eqb_spec c0 80) as [->|]; [|discriminate].
      destruct (loop int_of float_of cut D_FORMAT false s0 zero_fields) as [[r' dic]|e] eqn:El; [|discriminate].
      cbn [andb]. destruct r' as [|x r']; cbn [is_nil negb]; [|discriminate].
      intros H. injection H as <- _. exists s0. split; [reflexivity|].
      apply (loop_sound _ _ _ _ _ _ El); [|reflexivity].
      intros ->. cbn in El. discriminate.
  Qed.
End Sound.

(* ------------------------------------------------------------ the repaired grammar *)
Definition is_dec (v : str) : bool := is_some (dec_float v).
(* digits *)
Definition num_int (v : str) : bool := all_digits v.
(* digits, or digits mark digits with . or , as the mark *)
Definition num_last (v : str) : bool :=
  all_digits v || is_dec v || (existsb (N.eqb 44) v && is_dec (comma_to_dot v)).

Lemma dec_int_ok v : int_ok dec_int v = num_int v.
Proof. unfold int_ok, dec_int, num_int. destruct (all_digits v); reflexivity. Qed.
Lemma dec_last_ok v : last_ok dec_int dec_float v = num_last v.
Proof. unfold last_ok, num_last, is_dec, dec_int. destruct (all_digits v); reflexivity. Qed.

Lemma shape_ext (P1 P2 Q1 Q2 : str -> bool) fmt r :
  (forall v, P1 v = P2 v) -> (forall v, Q1 v = Q2 v) -> shape P1 Q1 fmt r -> shape P2 Q2 fmt r.
Proof.
  intros HP HQ. induction 1.
  - apply sh_skip; assumption.
  - apply sh_last. rewrite <- HQ. assumption.
  - apply sh_item; [rewrite <- HP|]; assumption.
  - apply sh_T; assumption.
Qed.

(* s is, as a whole: an optional -, P, then the items in the order Y M D T H M S *)
Definition duration_shape (s : str) : Prop :=
  exists neg r, s = sign_text neg ++ 80 :: r /\ shape num_int num_last D_FORMAT r.

Theorem duration_whole_value s neg f : parse_duration s = Ok (neg, f) ->
  exists r, s = sign_text neg ++ 80 :: r /\ shape num_int num_last D_FORMAT r.
Proof.
  intros H. apply parse_with_sound in H as (r & Hs & Hsh). exists r. split; [exact Hs|].
  exact (shape_ext _ _ _ _ _ _ dec_int_ok dec_last_ok Hsh).
Qed.

Corollary duration_whole_value' s x : parse_duration s = Ok x -> duration_shape s.
Proof. destruct x as [neg f]. intros H. apply duration_whole_value in H as (r & H1 & H2). exists neg, r. split; assumption. Qed.

(* ---- alphabet *)
Definition num_char (c : N) : bool := d_digit c || (c =? 46) || (c =? 44).
Definition item_code (c : N) : bool := (c =? 89) || (c =? 77) || (c =? 68) || (c =? 72) || (c =? 83).
Definition dur_char (c : N) : bool := num_char c || item_code c || (c =? C_T).

Lemma all_digits_chars v : all_digits v = true -> forallb num_char v = true.
Proof.
  unfold all_digits. destruct v as [|c v]; [discriminate|]. intros H.
  apply forallb_forall. intros x Hx. rewrite forallb_forall in H. unfold num_char. rewrite (H x Hx). reflexivity.
Qed.

Lemma split_at_spec c s : forall a b, split_at c s = Some (a, b) -> s = a ++ c :: b.
Proof.
  induction s as [|x s IH]; intros a b H; cbn [split_at] in H; [discriminate|].
  destruct (N.eqb_spec x c) as [->|].
  - injection H as <- <-. reflexivity.
  - destruct (split_at c s) as [[a' b']|]; [|discriminate]. injection H as <- <-. rewrite (IH a' b' eq_refl). reflexivity.
Qed.

Lemma is_dec_chars v : is_dec v = true -> forallb num_char v = true.
Proof.
  unfold is_dec, dec_float. destruct (split_at 46 v) as [[a b]|] eqn:E; [|discriminate].
  apply split_at_spec in E. destruct (all_digits a) eqn:Ea; [|discriminate]. destruct (all_digits b) eqn:Eb; [|discriminate].
  intros _. rewrite E, forallb_app. cbn [forallb]. rewrite (all_digits_chars _ Ea), (all_digits_chars _ Eb). reflexivity.
Qed.

Lemma comma_chars v : forallb num_char (comma_to_dot v) = true -> forallb num_char v = true.
Proof.
  unfold comma_to_dot. induction v as [|c v IH]; [reflexivity|]. cbn [map forallb].
  intros H. apply andb_true_iff in H as [Hc Hv]. rewrite (IH Hv), andb_true_r.
  destruct (N.eqb_spec c 44) as [->|]; [reflexivity|exact Hc].
Qed.

Lemma num_last_chars v : num_last v = true -> forallb num_char v = true.
Proof.
  unfold num_last. intros H. apply orb_true_iff in H as [H|H]; [apply orb_true_iff in H as [H|H]|].
  - exact (all_digits_chars _ H).
  - exact (is_dec_chars _ H).
  - apply andb_true_iff in H as [_ H]. exact (comma_chars _ (is_dec_chars _ H)).
Qed.

Lemma num_dur v : forallb num_char v = true -> forallb dur_char v = true.
Proof.
  intros H. apply forallb_forall. intros x Hx. rewrite forallb_forall in H. unfold dur_char. rewrite (H x Hx). reflexivity.
Qed.

Definition codes_known (fmt : list (N * option slot)) : Prop := forall c t, In (c, Some t) fmt -> item_code c = true.

Lemma D_FORMAT_codes : codes_known D_FORMAT.
Proof.
  intros c t H. cbv [D_FORMAT] in H. cbn [In] in H.
  repeat (destruct H as [H|H]; [try (injection H as <- _; reflexivity); discriminate|]). contradiction.
Qed.

Lemma shape_alphabet fmt r : codes_known fmt -> shape num_int num_last fmt r -> forallb dur_char r = true.
Proof.
  intros Hk Hs. induction Hs as [c t fmt r _ IH | c t fmt v Hv | c t fmt v r Hv _ IH | c0 fmt r _ IH].
  - apply IH. intros c' t' Hin. apply (Hk c' t'). right. exact Hin.
  - rewrite forallb_app. rewrite (num_dur _ (num_last_chars _ Hv)). cbn [forallb andb].
    unfold dur_char. rewrite (Hk c t (or_introl eq_refl)), orb_true_r. reflexivity.
  - rewrite forallb_app. unfold num_int in Hv. rewrite (num_dur _ (all_digits_chars _ Hv)). cbn [forallb andb].
    rewrite IH; [|intros c' t' Hin; apply (Hk c' t'); right; exact Hin].
    unfold dur_char. rewrite (Hk c t (or_introl eq_refl)), orb_true_r. reflexivity.
  - cbn [forallb]. rewrite IH; [|intros c' t' Hin; apply (Hk c' t'); right; exact Hin].
    unfold dur_char. rewrite N.eqb_refl, orb_true_r. reflexivity.
Qed.

(* every character after the P of an accepted value is a digit, a decimal mark or one of Y M D T H S, and the
   last one is the designator of an item (Y M D H S) *)
Theorem duration_alphabet s neg f : parse_duration s = Ok (neg, f) ->
  exists r, s = sign_text neg ++ 80 :: r /\ forallb dur_char r = true /\ exists r0 c, r = r0 ++ [c] /\ item_code c = true.
Proof.
  intros H. apply duration_whole_value in H as (r & Hs & Hsh). exists r. split; [exact Hs|]. split.
  - exact (shape_alphabet _ _ D_FORMAT_codes Hsh).
  - destruct (shape_ends _ _ _ _ Hsh) as (r0 & c & t & Hr & Hin). exists r0, c. split; [exact Hr|exact (D_FORMAT_codes c t Hin)].
Qed.

Lemma sign_P_inj n1 n2 r1 r2 : sign_text n1 ++ 80 :: r1 = sign_text n2 ++ 80 :: r2 -> r1 = r2.
Proof. destruct n1, n2; cbn; intros H; try discriminate; injection H as H; exact H. Qed.

Lemma last_app_ne (a j : str) d : j <> [] -> last (a ++ j) d = last j d.
Proof.
  intros Hj. induction a as [|x a IH]; [reflexivity|].
  cbn [app]. destruct (a ++ j) as [|y l] eqn:E.
  - destruct a; [cbn in E; contradiction|discriminate].
  - cbn [last]. cbn [last] in IH. exact IH.
Qed.

(* nothing may follow an accepted value: junk that holds a character outside the alphabet, or that does not end
   with an item designator (more digits, a T, a blank, a line break, ...), makes the whole value refused *)
Theorem duration_junk_refused s j :
  is_ok (parse_duration s) = true -> j <> [] ->
  existsb (fun c => negb (dur_char c)) j = true \/ item_code (last j 0) = false ->
  exists e, parse_duration (s ++ j) = Err e.
Proof.
  intros Hs Hj Hjunk.
  destruct (parse_duration s) as [[neg f]|] eqn:E1; [|discriminate].
  destruct (parse_duration (s ++ j)) as [[neg2 f2]|e] eqn:E2; [|exists e; reflexivity]. exfalso.
  apply duration_whole_value in E1 as (r1 & Hs1 & _).
  apply duration_alphabet in E2 as (r2 & Hs2 & Hal & r0 & c & Hr2 & Hc).
  rewrite Hs1, <- app_assoc in Hs2. cbn [app] in Hs2. apply sign_P_inj in Hs2. subst r2.
  destruct Hjunk as [Hbad|Hend].
  - rewrite forallb_app in Hal. apply andb_true_iff in Hal as [_ Hal].
    apply existsb_exists in Hbad as (x & Hx & Hnx). rewrite forallb_forall in Hal. rewrite (Hal x Hx) in Hnx. discriminate.
  - assert (L : last (r1 ++ j) 0 = c) by (rewrite Hr2; apply last_last).
    rewrite (last_app_ne _ _ _ Hj) in L. rewrite L, Hc in Hend. discriminate.
Qed.

(* ------------------------------------------------------------ completeness (repaired code): every value of the shape is accepted *)
Lemma item_code_facts c : item_code c = true -> num_char c = false /\ (c =? C_T) = false /\ (c =? 45) = false.
Proof.
  unfold item_code. intros H.
  repeat (apply orb_true_iff in H as [H|H]); apply N.eqb_eq in H; subst c; vm_compute; repeat split; reflexivity.
Qed.

Lemma num_char_not_code x c : num_char x = true -> item_code c = true -> (x =? c) = false.
Proof.
  intros Hx Hc. destruct (N.eqb_spec x c) as [->|]; [|reflexivity].
  destruct (item_code_facts c Hc) as [H _]. rewrite H in Hx. discriminate.
Qed.

Lemma num_char_not_T x : num_char x = true -> (x =? C_T) = false.
Proof. intros Hx. destruct (N.eqb_spec x C_T) as [->|]; [vm_compute in Hx; discriminate|reflexivity]. Qed.

Lemma digit_facts c : d_digit c = true -> (c =? 45) = false /\ (c =? C_T) = false.
Proof.
  unfold d_digit, C_T. intros H. apply andb_true_iff in H as [H1 H2]. apply N.leb_le in H1. apply N.leb_le in H2.
  split; apply N.eqb_neq; lia.
Qed.

Lemma find_code_num_prefix c stop v rest : item_code c = true -> forallb num_char v = true ->
  find_code c stop (v ++ rest) = match find_code c stop rest with Some (a, b) => Some (v ++ a, b) | None => None end.
Proof.
  intros Hc. induction v as [|x v IH]; intros Hv.
  - cbn [app]. destruct (find_code c stop rest) as [[a b]|]; reflexivity.
  - cbn [forallb] in Hv. apply andb_true_iff in Hv as [Hx Hv]. cbn [app find_code].
    rewrite (num_char_not_code x c Hx Hc), (num_char_not_T x Hx), andb_false_r, (IH Hv).
    destruct (find_code c stop rest) as [[a b]|]; reflexivity.
Qed.

Lemma find_code_found c stop v a : item_code c = true -> forallb num_char v = true ->
  find_code c stop (v ++ c :: a) = Some (v, a).
Proof.
  intros Hc Hv. rewrite (find_code_num_prefix c stop v _ Hc Hv). cbn [find_code]. rewrite N.eqb_refl, app_nil_r. reflexivity.
Qed.

(* the designators find_code can meet: those of the items before the T entry when it stops at T, else all *)
Fixpoint scope_codes (stop : bool) (fmt : list (N * option slot)) : list N :=
  match fmt with
  | [] => []
  | (c, Some _) :: fmt' => c :: scope_codes stop fmt'
  | (_, None) :: fmt' => if stop then [] else scope_codes stop fmt'
  end.
Definition memN' (c : N) (l : list N) : bool := existsb (N.eqb c) l.

Lemma shape_not_found fmt r : shape num_int num_last fmt r ->
  forall c stop, item_code c = true -> memN' c (scope_codes stop fmt) = false -> find_code c stop r = None.
Proof.
  induction 1 as [c0 t0 fmt r _ IH | c0 t0 fmt v Hv | c0 t0 fmt v r Hv _ IH | c0 fmt r _ IH]; intros c stop Hc Hm.
  - apply (IH c stop Hc). cbn [scope_codes memN' existsb] in Hm. apply orb_false_iff in Hm as [_ Hm]. exact Hm.
  - cbn [scope_codes memN' existsb] in Hm. apply orb_false_iff in Hm as [Hne _].
    rewrite (find_code_num_prefix c stop v _ Hc (num_last_chars _ Hv)). cbn [find_code].
    rewrite N.eqb_sym, Hne. destruct (stop && (c0 =? C_T)); reflexivity.
  - cbn [scope_codes memN' existsb] in Hm. apply orb_false_iff in Hm as [Hne Hm].
    unfold num_int in Hv. rewrite (find_code_num_prefix c stop v _ Hc (all_digits_chars _ Hv)). cbn [find_code].
    rewrite N.eqb_sym, Hne. destruct (stop && (c0 =? C_T)); [reflexivity|].
    rewrite (IH c stop Hc Hm). reflexivity.
  - cbn [find_code]. destruct (item_code_facts c Hc) as (_ & HT & _). rewrite N.eqb_sym, HT, N.eqb_refl, andb_true_r.
    destruct stop; [reflexivity|]. cbn [scope_codes] in Hm. rewrite (IH c false Hc Hm). reflexivity.
Qed.

Lemma all_digits_head v : all_digits v = true -> exists d v', v = d :: v' /\ d_digit d = true.
Proof.
  unfold all_digits. destruct v as [|d v']; [discriminate|]. cbn [forallb]. intros H. apply andb_true_iff in H as [H _].
  exists d, v'. split; [reflexivity|exact H].
Qed.

Lemma is_dec_head v : is_dec v = true -> exists d v', v = d :: v' /\ d_digit d = true.
Proof.
  unfold is_dec, dec_float. destruct (split_at 46 v) as [[a b]|] eqn:E; [|discriminate].
  apply split_at_spec in E. destruct (all_digits a) eqn:Ea; [|discriminate]. intros _.
  destruct (all_digits_head a Ea) as (d & a' & -> & Hd). exists d, (a' ++ 46 :: b). split; [exact E|exact Hd].
Qed.

Lemma num_last_head v : num_last v = true -> exists d v', v = d :: v' /\ d_digit d = true.
Proof.
  unfold num_last. intros H. apply orb_true_iff in H as [H|H]; [apply orb_true_iff in H as [H|H]|].
  - exact (all_digits_head v H).
  - exact (is_dec_head v H).
  - apply andb_true_iff in H as [_ H]. destruct (is_dec_head _ H) as (d & w & E & Hd).
    destruct v as [|x v']; [discriminate|]. cbn [comma_to_dot map] in E. injection E as E _.
    exists x, v'. split; [reflexivity|]. destruct (N.eqb_spec x 44) as [->|]; [subst d; vm_compute in Hd; discriminate|subst d; exact Hd].
Qed.

Lemma shape_head fmt r : shape num_int num_last fmt r -> exists ch r0, r = ch :: r0 /\ (d_digit ch = true \/ ch = C_T).
Proof.
  induction 1 as [c0 t0 fmt r _ IH | c0 t0 fmt v Hv | c0 t0 fmt v r Hv _ _ | c0 fmt r _ _].
  - exact IH.
  - destruct (num_last_head v Hv) as (d & v' & -> & Hd). exists d, (v' ++ [c0]). split; [reflexivity|left; exact Hd].
  - destruct (all_digits_head v Hv) as (d & v' & -> & Hd). exists d, (v' ++ c0 :: r). split; [reflexivity|left; exact Hd].
  - exists C_T, r. split; [reflexivity|right; reflexivity].
Qed.

(* the format list as the loop meets it: every item designator is one of Y M D H S and differs from the
   designators find_code can meet further on (before the T the search stops at the T) *)
Fixpoint fmt_ok (tp : bool) (fmt : list (N * option slot)) : bool :=
  match fmt with
  | [] => true
  | (c, Some _) :: fmt' => item_code c && negb (memN' c (scope_codes (negb tp) fmt')) && fmt_ok tp fmt'
  | (_, None) :: fmt' => fmt_ok true fmt'
  end.

Lemma item_last c tp v : item_code c = true -> num_last v = true ->
  exists n, item dec_int dec_float true c tp (v ++ [c]) = Advance n [].
Proof.
  intros Hc Hv. unfold item. rewrite (find_code_found c _ v [] Hc (num_last_chars _ Hv)).
  unfold dec_int. destruct (all_digits v) eqn:Ea; [eexists; reflexivity|]. cbn [is_nil].
  unfold num_last in Hv. rewrite Ea in Hv. cbn [orb] in Hv. unfold is_dec in Hv.
  destruct (dec_float v) as [f|]; [eexists; reflexivity|]. cbn [is_some orb] in Hv.
  apply andb_true_iff in Hv as [Hcm Hd]. rewrite Hcm.
  destruct (dec_float (comma_to_dot v)) as [f|]; [eexists; reflexivity|discriminate].
Qed.

Theorem loop_complete : forall fmt r, shape num_int num_last fmt r ->
  forall tp dic, fmt_ok tp fmt = true -> exists dic', loop dec_int dec_float true fmt tp r dic = Ok ([], dic').
Proof.
  induction 1 as [c0 t0 fmt r Hsh IH | c0 t0 fmt v Hv | c0 t0 fmt v r Hv Hsh IH | c0 fmt r Hsh IH]; intros tp dic Hok; cbn [fmt_ok] in Hok.
  - apply andb_true_iff in Hok as [Hok Hrest]. apply andb_true_iff in Hok as [Hc Hm]. apply negb_true_iff in Hm.
    destruct (shape_head _ _ Hsh) as (ch & r0 & -> & Hch). cbn [loop].
    destruct Hch as [Hd| ->].
    + destruct (digit_facts ch Hd) as [H45 HT]. rewrite H45, HT.
      unfold item. cbn [andb]. rewrite (shape_not_found _ _ Hsh c0 (negb tp) Hc Hm). apply IH. exact Hrest.
    + cbn. apply IH. exact Hrest.
  - apply andb_true_iff in Hok as [Hok _]. apply andb_true_iff in Hok as [Hc _].
    destruct (num_last_head v Hv) as (d & v' & Ev & Hd). destruct (digit_facts d Hd) as [H45 HT].
    destruct (item_last c0 tp v Hc Hv) as (n & Hi). rewrite Ev in *. cbn [loop app]. cbn [app] in Hi.
    rewrite H45, HT, Hi. cbn [is_nil]. eexists; reflexivity.
  - apply andb_true_iff in Hok as [Hok Hrest]. apply andb_true_iff in Hok as [Hc _].
    destruct (all_digits_head v Hv) as (d & v' & Ev & Hd). destruct (digit_facts d Hd) as [H45 HT].
    assert (Hi : item dec_int dec_float true c0 tp (v ++ c0 :: r) = Advance (NInt (digits_val v 0%Z)) r).
    { unfold item. rewrite (find_code_found c0 _ v r Hc (all_digits_chars _ Hv)). unfold dec_int. unfold num_int in Hv. rewrite Hv. reflexivity. }
    rewrite Ev in *. cbn [loop app]. cbn [app] in Hi. rewrite H45, HT, Hi.
    destruct r as [|x r]; [exfalso; exact (shape_nonempty _ _ _ _ Hsh eq_refl)|]. cbn [is_nil]. apply IH. exact Hrest.
  - cbn [loop]. cbn. destruct r as [|x r]; [exfalso; exact (shape_nonempty _ _ _ _ Hsh eq_refl)|]. cbn [is_nil]. apply IH. exact Hok.
Qed.

Theorem duration_complete neg r : shape num_int num_last D_FORMAT r -> is_ok (parse_duration (sign_text neg ++ 80 :: r)) = true.
Proof.
  intros Hsh. destruct (loop_complete _ _ Hsh false zero_fields eq_refl) as (dic' & Hl).
  unfold parse_duration, parse_with. destruct neg; cbn [sign_text app].
  - cbn -[loop D_FORMAT zero_fields]. rewrite Hl. reflexivity.
  - cbn -[loop D_FORMAT zero_fields]. rewrite Hl. reflexivity.
Qed.

(* the characterisation: accepted = of the shape *)
Theorem duration_iff s : is_ok (parse_duration s) = true <-> duration_shape s.
Proof.
  split.
  - destruct (parse_duration s) as [x|] eqn:E; [|discriminate]. intros _. exact (duration_whole_value' s x E).
  - intros (neg & r & -> & Hsh). exact (duration_complete neg r Hsh).
Qed.

(* ---- witnesses *)
Lemma before_fix_refuted :
  is_ok (parse_duration_before_fix (s2l "PT1Hjunk")) = true /\ parse_duration (s2l "PT1Hjunk") = Err D_EXCEPTION /\
  parse_duration_py_numbers (s2l "PT1Hjunk") = Err D_EXCEPTION.
Proof. repeat split; vm_compute; reflexivity. Qed.

(* C13-4, first half: whatever int() / float() read was a number of a duration *)
Definition LIBERAL_NUMBERS : list str :=
  map s2l ["P 1D"; "P+1D"; "P -1D"; "P1_0D"; "PT1e3S"; "PT1E3S"; "PTinfS"; "PTnanS"; "PT.5S"; "PT5.S"; "PINFINITYD"; "PT 1 S"; "PT+1.5S"]%string.
Lemma numbers_before_fix_refuted :
  forallb (fun s => is_ok (parse_duration_py_numbers s)) LIBERAL_NUMBERS = true /\
  forallb (fun s => negb (is_ok (parse_duration s))) LIBERAL_NUMBERS = true.
Proof. split; vm_compute; reflexivity. Qed.

(* C13-4, second half: the M of the minutes was taken for the month designator: valid values refused *)
Definition MINUTES_LAST : list str := map s2l ["P1DT1M"; "P1DT30M"; "P1Y2DT5M"; "P1DT1H1M"; "-P2DT3M"]%string.
Lemma minutes_before_fix_refuted :
  forallb (fun s => negb (is_ok (parse_duration_py_numbers s))) MINUTES_LAST = true /\
  forallb (fun s => is_ok (parse_duration s)) MINUTES_LAST = true.
Proof. split; vm_compute; reflexivity. Qed.

Lemma duration_example :
  parse_duration (s2l "-P1Y2M3DT4H5M6.50S") =
    Ok (true, F (NInt 1) (NInt 2) (NInt 3) (NInt 4) (NInt 5) (NDec 6 (s2l "50"))) /\
  parse_duration (s2l "P1DT30M") = Ok (false, F (NInt 0) (NInt 0) (NInt 1) (NInt 0) (NInt 30) (NInt 0)) /\
  duration_shape (s2l "-P1Y2M3DT4H5M6.50S") /\
  (exists e, parse_duration (s2l "-P1Y2M3DT4H5M6.50S" ++ s2l " ") = Err e).
Proof.
  assert (E : parse_duration (s2l "-P1Y2M3DT4H5M6.50S") =
    Ok (true, F (NInt 1) (NInt 2) (NInt 3) (NInt 4) (NInt 5) (NDec 6 (s2l "50")))) by (vm_compute; reflexivity).
  split; [exact E|]. split; [vm_compute; reflexivity|]. split; [exact (duration_whole_value' _ _ E)|].
  apply duration_junk_refused; [rewrite E; reflexivity|discriminate|left; vm_compute; reflexivity].
Qed.
