(* Proofs/IdpBuildFlow_lemmas.v — C08, tree level: the message the IdP builds
   (any sign_response x sign_assertion x encrypt_assertion setting that meets
   the SP's signature requirements) is accepted by the SP pipeline of
   Model/Response.v and every value the application reads is the asserted one. *)
From Coq Require Import ZifyBool.
From PV Require Import Lib.Base Model.Status Model.Response Model.Sigver Model.CertSelect Model.IdpBuild
     Gen.AttrMaps Gen.StatusTable Proofs.CertSelect_lemmas.
Open Scope Z_scope.

(* an SP that loaded the IdP's generated metadata verifies the IdP's signatures *)
Lemma verdict_ok k i :
  k_md k = generated_idp_md (i_entity_id i) (i_key i) -> strip (i_entity_id i) = i_entity_id i ->
  verdict k i = Ok tt.
Proof.
  intros Hm Hs. unfold verdict. rewrite check_signature_spec, Hm, Hs. unfold candidate_certs, md_certs, generated_idp_md.
  cbn [find_entity]. rewrite str_eqb_refl. cbn [flat_map extract_certs app].
  replace (use_matches SIGNING {| kd_use := Some SIGNING; kd_certs := [i_key i] |}) with true by reflexivity.
  cbn [kd_certs add_new memN existsb app nilb negb andb orb]. cbn [memN existsb]. rewrite N.eqb_refl. reflexivity.
Qed.

(* ---- the hypotheses of the round trip ---- *)
Definition expected_cf (c : cfg) (a : args) : option str :=
  if asynch c then lookup_str (g_irt a) (outstanding c) else None.

Record setting (i : idp) (m : sp_md) (s : sp) (a : args) : Prop := {
  (* configured from each other's generated metadata *)
  st_md : k_md (s_keys s) = generated_idp_md (i_entity_id i) (i_key i);
  st_idp_id : strip (i_entity_id i) = i_entity_id i;
  st_sp_id : strip (g_sp a) = g_sp a;
  st_me : entity_id (s_cfg s) = g_sp a;
  st_enc : forall c, w_enc (sign_encrypt i m a) = Some c -> memN c (k_dec (s_keys s)) = true;
  (* the response answers a request of this SP and is sent to its endpoint *)
  st_dest : g_destination a <> [];
  st_regex : dest_regex_set (s_cfg s) = false;
  st_addrs : asynch (s_cfg s) = true -> exists addrs, return_addrs (s_cfg s) = Some addrs /\ mem_str (g_destination a) addrs = true;
  st_conv : conv_info (s_cfg s) = None;
  st_test : test_mode (s_cfg s) = false;
  st_solicited : asynch (s_cfg s) = true -> allow_unsolicited (s_cfg s) = false ->
                 exists cf, lookup_str (g_irt a) (outstanding (s_cfg s)) = Some cf;
  (* it carries an authentication statement and is really built *)
  st_authn : has_authn a = true;
  st_built : build_fails (sign_encrypt i m a) a = false;
  (* delivered inside the validity window *)
  st_slack : 0 <= slack (s_cfg s);
  st_life : 0 <= lifetime i;
  st_pos : 0 < i_now i + lifetime i;
  st_not_early : i_now i <= now (s_cfg s) + slack (s_cfg s);
  st_not_late : now (s_cfg s) <= i_now i + lifetime i + slack (s_cfg s);
  st_fresh : now (s_cfg s) <= i_now i + 86400 + slack (s_cfg s);
  st_session : forall sn, g_session_nooa a = Some sn -> 0 < sn /\ now (s_cfg s) <= sn + slack (s_cfg s)
}.

(* the SP's signature requirements, in terms of what the IdP was asked to sign (C02's rule) *)
Definition requirements_met (c : cfg) (w : wire) : bool :=
  implb (wrs c) (w_rsig w) && implb (was c) (w_asig w) && implb (waors c) (w_rsig w || w_asig w).

Definition expected_view (i : idp) (s : sp) (a : args) : app_view :=
  {| v_name_id := Some (g_name_id a);
     v_ava := list_to_local (s_acs s) (s_allow_unknown s) (p_attributes (build_payload i a));
     v_irt := Some (g_irt a);
     v_issuer := i_entity_id i;
     v_authn := read_authn (build_payload i a);
     v_nooa := match g_session_nooa a with Some sn => sn | None => i_now i + lifetime i end;
     v_came_from := expected_cf (s_cfg s) a |}.

(* ---- one assertion through the SP's checks ---- *)
Definition after_checks (i : idp) (a : args) (s : st) : st :=
  {| came_from := came_from s; not_on_or_after := i_now i + lifetime i;
     session_nooa := match g_session_nooa a with Some sn => sn | None => session_nooa s end;
     nid := Some (n_text (g_name_id a)); acc := acc s |}.

Section Checks.
  Variables (i : idp) (m : sp_md) (s : sp) (a : args).
  Hypothesis H : setting i m s a.
  Let c := s_cfg s.
  Let k := s_keys s.

  Lemma vooa_ok : validate_on_or_after c (Some (i_now i + lifetime i)) = Ok (Some (i_now i + lifetime i)).
  Proof. unfold validate_on_or_after. pose proof (st_not_late _ _ _ _ H). fold c in H0.
    destruct (now c >? i_now i + lifetime i + slack c) eqn:E; [lia|reflexivity]. Qed.
  Lemma vb_ok : validate_before c (Some (i_now i)) = Ok tt.
  Proof. unfold validate_before. pose proof (st_not_early _ _ _ _ H). fold c in H0.
    destruct (i_now i >? now c + slack c) eqn:E; [lia|reflexivity]. Qed.

  Lemma authn_ok st0 :
    authn_statement_ok c st0 (built_assertion i a k true) =
      Ok (match g_session_nooa a with Some sn => set_snooa st0 sn | None => st0 end) /\
    authn_statement_ok c st0 (built_assertion i a k false) =
      Ok (match g_session_nooa a with Some sn => set_snooa st0 sn | None => st0 end).
  Proof.
    unfold authn_statement_ok, built_assertion. cbn [a_authn]. rewrite (st_authn _ _ _ _ H).
    destruct (g_session_nooa a) as [sn|] eqn:E; [|split; reflexivity].
    destruct (st_session _ _ _ _ H sn E) as [_ Hs]. fold c in Hs.
    unfold validate_on_or_after. destruct (now c >? sn + slack c) eqn:E2; [lia|]. split; reflexivity.
  Qed.

  Lemma condition_built b st0 :
    condition_ok c st0 (built_assertion i a k b) = Ok (true, set_nooa st0 (i_now i + lifetime i)).
  Proof.
    unfold condition_ok, built_assertion. cbn [a_conditions k_empty k_nb k_nooa k_audiences k_unknown_condition].
    rewrite (st_test _ _ _ _ H : test_mode c = false).
    unfold later_than. pose proof (st_life _ _ _ _ H).
    destruct (i_now i + lifetime i >=? i_now i) eqn:E; [|lia]. cbn [negb].
    rewrite vooa_ok, vb_ok.
    unfold for_me. cbn [k_audiences forallb mem_str existsb].
    rewrite (st_me _ _ _ _ H : entity_id c = g_sp a), (st_sp_id _ _ _ _ H), str_eqb_refl. reflexivity.
  Qed.

  Lemma subject_built b st0 : came_from st0 = expected_cf c a ->
    get_subject c (Some (g_irt a)) st0 (built_assertion i a k b) =
      Ok ([{| c_method := Bearer;
              c_data := Some {| d_address := None; d_address_valid := true; d_nooa := Some (i_now i + lifetime i); d_nb := None;
                                d_irt := Some (g_irt a); d_recipient := Some (g_destination a) |} |}], st0).
  Proof.
    intros Hcf. unfold get_subject, built_assertion. cbn [a_has_subject a_confirmations negb].
    unfold verify_attesting_entity. rewrite (st_conv _ _ _ _ H : conv_info c = None). cbn [existsb c_data d_address orb negb].
    cbn [subject_loop c_method c_data]. unfold bearer_confirmed. cbn [d_address d_nooa d_nb d_irt d_recipient].
    rewrite vooa_ok. cbn [validate_before later_than negb].
    unfold names_other_request. cbn [d_irt]. rewrite str_eqb_refl. cbn [negb]. rewrite andb_false_r.
    assert ((if asynch c && match came_from st0 with None => true | Some _ => false end
             then match lookup_str (g_irt a) (outstanding c) with
                  | Some cf => Ok (true, set_cf st0 (Some cf))
                  | None => if allow_unsolicited c then Ok (true, st0) else Err (E "Exception")
                  end
             else Ok (true, st0)) = Ok (true, st0)) as ->.
    { rewrite Hcf. unfold expected_cf. destruct (asynch c) eqn:Ea; [|reflexivity].
      destruct (lookup_str (g_irt a) (outstanding c)) as [cf|] eqn:El; [reflexivity|]. cbn [andb].
      destruct (allow_unsolicited c) eqn:Eu; [reflexivity|].
      destruct (st_solicited _ _ _ _ H Ea Eu) as [cf Hc]. fold c in Hc. congruence. }
    unfold verify_recipient. rewrite (st_conv _ _ _ _ H : conv_info c = None). reflexivity.
  Qed.

  (* the whole of AuthnResponse._assertion on the built assertion *)
  Lemma check_built b req verified st0 : came_from st0 = expected_cf c a ->
    check_assertion c (Some (g_irt a)) req verified st0 (built_assertion i a k b) =
      if negb b && req then Err SignatureError else Ok (after_checks i a st0).
  Proof.
    intros Hcf. unfold check_assertion.
    assert (a_sig (built_assertion i a k b) = if b then Some (Ok tt) else None) as ->.
    { unfold built_assertion. cbn [a_sig]. destruct b; [|reflexivity]. now rewrite (verdict_ok k i (st_md _ _ _ _ H) (st_idp_id _ _ _ _ H)). }
    destruct b; cbn [negb andb].
    - replace (match (if verified then Ok tt else Ok tt) with Ok _ => _ | Err e => Err e end)
        with (match authn_statement_ok c st0 (built_assertion i a k true) with
              | Ok s1 => match condition_ok c s1 (built_assertion i a k true) with
                         | Ok (true, s2) => match get_subject c (Some (g_irt a)) s2 (built_assertion i a k true) with
                                            | Ok (_, s3) => if asynch c && negb (allow_unsolicited c) && match came_from s3 with None => true | Some _ => false end
                                                            then Err (E "VerificationError")
                                                            else Ok (match a_name_id (built_assertion i a k true) with Some n => set_nid s3 (Some n) | None => s3 end)
                                            | Err e => Err e end
                         | Ok (false, _) => Err (E "VerificationError")
                         | Err e => Err e end
              | Err e => Err e end) by (destruct verified; reflexivity).
      destruct (authn_ok st0) as [-> _]. rewrite condition_built.
      rewrite subject_built by (destruct (g_session_nooa a); exact Hcf).
      apply (f_equal (fun x => x)). 
      assert (asynch c && negb (allow_unsolicited c) &&
              match came_from (set_nooa (match g_session_nooa a with Some sn => set_snooa st0 sn | None => st0 end) (i_now i + lifetime i)) with
              | None => true | Some _ => false end = false) as ->.
      { replace (came_from (set_nooa (match g_session_nooa a with Some sn => set_snooa st0 sn | None => st0 end) (i_now i + lifetime i)))
          with (came_from st0) by (destruct (g_session_nooa a); reflexivity).
        rewrite Hcf. unfold expected_cf. destruct (asynch c) eqn:Ea; [|reflexivity].
        destruct (allow_unsolicited c) eqn:Eu; [reflexivity|].
        destruct (st_solicited _ _ _ _ H Ea Eu) as [cf Hc]. fold c in Hc. now rewrite Hc. }
      cbn [built_assertion a_name_id]. unfold after_checks. destruct (g_session_nooa a); reflexivity.
    - destruct req; [reflexivity|].
      destruct (authn_ok st0) as [_ ->]. rewrite condition_built.
      rewrite subject_built by (destruct (g_session_nooa a); exact Hcf).
      assert (asynch c && negb (allow_unsolicited c) &&
              match came_from (set_nooa (match g_session_nooa a with Some sn => set_snooa st0 sn | None => st0 end) (i_now i + lifetime i)) with
              | None => true | Some _ => false end = false) as ->.
      { replace (came_from (set_nooa (match g_session_nooa a with Some sn => set_snooa st0 sn | None => st0 end) (i_now i + lifetime i)))
          with (came_from st0) by (destruct (g_session_nooa a); reflexivity).
        rewrite Hcf. unfold expected_cf. destruct (asynch c) eqn:Ea; [|reflexivity].
        destruct (allow_unsolicited c) eqn:Eu; [reflexivity|].
        destruct (st_solicited _ _ _ _ H Ea Eu) as [cf Hc]. fold c in Hc. now rewrite Hc. }
      cbn [built_assertion a_name_id]. unfold after_checks. destruct (g_session_nooa a); reflexivity.
  Qed.
End Checks.

Definition final_state (i : idp) (a : args) (s0 : st) : st :=
  {| came_from := came_from s0; not_on_or_after := i_now i + lifetime i;
     session_nooa := match g_session_nooa a with Some sn => sn | None => session_nooa s0 end;
     nid := Some (n_text (g_name_id a)); acc := acc s0 ++ [1%N] |}.

Section Flow.
  Variables (i : idp) (m : sp_md) (s : sp) (a : args).
  Hypothesis H : setting i m s a.
  Local Notation c := (s_cfg s).
  Local Notation k := (s_keys s).
  Local Notation w := (sign_encrypt i m a).
  Local Notation r := (built_view (sign_encrypt i m a) i a (s_keys s)).

  Lemma opens cert : w_enc w = Some cert -> memN cert (k_dec k) = true.
  Proof. apply (st_enc _ _ _ _ H). Qed.

  Lemma parse_assertion_built req st0 : came_from st0 = expected_cf c a ->
    parse_assertion c req st0 r = if negb (w_asig w) && req then Err SignatureError else Ok (final_state i a st0).
  Proof.
    intros Hcf. unfold parse_assertion, built_view. cbn [r_assertions r_encrypted r_irt].
    destruct (w_enc w) as [cert|] eqn:Ee.
    - cbn [List.length Nat.eqb orb negb check_assertions]. rewrite (opens cert Ee). cbn [decrypted_prefix e_opens e_inner].
      assert (verify_decrypted [built_assertion i a k (w_asig w)] = Ok tt) as ->.
      { cbn [verify_decrypted]. unfold built_assertion at 1. cbn [a_sig]. destruct (w_asig w); [|reflexivity].
        now rewrite (verdict_ok k i (st_md _ _ _ _ H) (st_idp_id _ _ _ _ H)). }
      cbn [check_assertions]. rewrite (check_built i m s a H (w_asig w) req true st0 Hcf).
      destruct (negb (w_asig w) && req); [reflexivity|].
      unfold push_all, push_acc, after_checks, final_state. cbn [came_from not_on_or_after session_nooa nid acc map]. now rewrite app_nil_r.
    - cbn [List.length Nat.eqb orb negb check_assertions]. rewrite (check_built i m s a H (w_asig w) req false st0 Hcf).
      destruct (negb (w_asig w) && req); [reflexivity|].
      unfold push_all, after_checks, final_state. cbn [came_from not_on_or_after session_nooa nid acc map]. cbn [built_assertion a_id]. reflexivity.
  Qed.

  Lemma residue_built st0 : came_from st0 = expected_cf c a -> w_asig w = false ->
    parse_assertion_residue c true st0 r = st0.
  Proof.
    intros Hcf Hs. unfold parse_assertion_residue, built_view. cbn [r_assertions r_encrypted r_irt]. rewrite Hs.
    destruct (w_enc w) as [cert|] eqn:Ee.
    - cbn [check_assertions]. rewrite (opens cert Ee). cbn [decrypted_prefix e_opens e_inner verify_decrypted built_assertion a_sig].
      cbn [acc_after_failure]. rewrite (check_built i m s a H false true true st0 Hcf). cbn [negb andb]. destruct st0; reflexivity.
    - cbn [check_assertions]. rewrite (check_built i m s a H false true false st0 Hcf). reflexivity.
  Qed.

  Lemma status_success : status_ok (Some success_status) = Ok tt.
  Proof. unfold status_ok, status_ok_with, status_ok_gen, success_status. cbn [st_code]. unfold is_success. now rewrite str_eqb_refl. Qed.

  Lemma verify_built req st0 : came_from st0 = expected_cf c a ->
    verify c req st0 r = if negb (w_asig w) && req then Err SignatureError else Ok (Some (final_state i a st0)).
  Proof.
    intros Hcf. unfold verify.
    assert (r_destination r = Some (g_destination a)) as Hd.
    { unfold built_view. cbn [r_destination]. pose proof (st_dest _ _ _ _ H). destruct (g_destination a); [congruence|reflexivity]. }
    assert (r_version r = Some V20) as Hv by reflexivity.
    rewrite Hd, Hv, (st_regex _ _ _ _ H : dest_regex_set c = false).
    assert (asynch c && version_is_20 (Some V20) && match return_addrs c with Some _ => false | None => true end = false) as ->.
    { destruct (asynch c) eqn:Ea; [|reflexivity]. destruct (st_addrs _ _ _ _ H Ea) as (addrs & Hr & _).  now rewrite Hr. }
    unfold authn_verify, verify_core, verify_in_of.
    cbn [id_mismatch version ver_lt2 asynchop dest_ok issue_ok status]. rewrite Hd, Hv.
    replace (negb (version_is_20 (Some V20))) with false by reflexivity.
    rewrite (st_regex _ _ _ _ H : dest_regex_set c = false).
    assert (asynch c && negb match return_addrs c with Some a0 => mem_str (g_destination a) a0 | None => true end = false) as ->.
    { destruct (asynch c) eqn:Ea; [|reflexivity]. destruct (st_addrs _ _ _ _ H Ea) as (addrs & Hr & Hm).  now rewrite Hr, Hm. }
    assert (issue_instant_ok c (r_issue_instant r) = true) as ->.
    { unfold issue_instant_ok, built_view. cbn [r_issue_instant].
      pose proof (st_not_early _ _ _ _ H). pose proof (st_fresh _ _ _ _ H). pose proof (st_slack _ _ _ _ H). 
      apply andb_true_iff. split; [apply Z.leb_le|apply Z.ltb_lt]; lia. }
    replace (r_status r) with (Some success_status) by reflexivity. rewrite status_success.
    rewrite (parse_assertion_built req st0 Hcf). destruct (negb (w_asig w) && req); reflexivity.
  Qed.

  Definition init_state : st :=
    {| came_from := expected_cf c a; not_on_or_after := 0; session_nooa := 0; nid := None; acc := [] |}.

  Lemma loads_rest_built : loads_rest c r = Ok init_state.
  Proof.
    unfold loads_rest, built_view. cbn [r_valid_instance r_irt r_assertions]. unfold init_state, expected_cf.
    destruct (asynch c) eqn:Ea; [|reflexivity].
    destruct (lookup_str (g_irt a) (outstanding c)) as [cf|] eqn:El.
    - assert (assertions_name_irt (Some (g_irt a)) match w_enc w with Some _ => [] | None => [built_assertion i a k (w_asig w)] end = Some true) as ->.
      { destruct (w_enc w); [reflexivity|]. cbn [assertions_name_irt built_assertion a_has_subject a_confirmations negb confs_name_irt c_data d_irt].
        now rewrite str_eqb_refl. }
      reflexivity.
    - destruct (allow_unsolicited c) eqn:Eu; [reflexivity|].
      destruct (st_solicited _ _ _ _ H Ea Eu) as [cf Hc].  congruence.
  Qed.

  Lemma loads_built req : loads c req r = if negb (w_rsig w) && req then Err SignatureError else Ok init_state.
  Proof.
    unfold loads, response_sig_stage. unfold built_view at 1. cbn [r_sig].
    destruct (w_rsig w).
    - rewrite (verdict_ok k i (st_md _ _ _ _ H) (st_idp_id _ _ _ _ H)). cbn [negb andb]. apply loads_rest_built.
    - destruct req; [reflexivity|]. cbn [negb andb]. apply loads_rest_built.
  Qed.

  Theorem parse_response_built : requirements_met c w = true ->
    parse_response c r =
      Ok {| o_assertions := [1%N]; o_name_id := Some (n_text (g_name_id a)); o_came_from := expected_cf c a;
            o_nooa := match g_session_nooa a with Some sn => sn | None => i_now i + lifetime i end;
            o_irt := Some (g_irt a) |}.
  Proof.
    unfold requirements_met. intros Hreq.
    apply andb_true_iff in Hreq as [Hreq R3]. apply andb_true_iff in Hreq as [R1 R2].
    unfold parse_response. rewrite !loads_built. cbn [andb negb].
    replace (r_valid_instance r) with true by reflexivity. cbn [negb].
    assert (came_from init_state = expected_cf c a) as Hcf by reflexivity.
    assert (forall fs : st, (if session_nooa fs >? 0 then session_nooa fs else not_on_or_after fs) =
                            (if session_nooa fs >? 0 then session_nooa fs else not_on_or_after fs)) as _ by reflexivity.
    assert ((if session_nooa (final_state i a init_state) >? 0 then session_nooa (final_state i a init_state)
             else not_on_or_after (final_state i a init_state)) =
            match g_session_nooa a with Some sn => sn | None => i_now i + lifetime i end) as Hn.
    { unfold final_state, init_state. cbn [session_nooa not_on_or_after].
      destruct (g_session_nooa a) as [sn|] eqn:Es; [|reflexivity].
      destruct (st_session _ _ _ _ H sn Es) as [Hp _]. destruct (sn >? 0) eqn:E; [reflexivity|lia]. }
    destruct (w_rsig w) eqn:Er, (w_asig w) eqn:Ea; cbn [negb andb orb implb] in *.
    - rewrite (verify_built true init_state Hcf), Ea. cbn [negb andb]. rewrite andb_false_r. cbn [o_nooa]. rewrite Hn. reflexivity.
    - rewrite (verify_built true init_state Hcf), Ea. cbn [negb andb].
      replace (is_signature_error SignatureError) with true by reflexivity.
      destruct (was c); [discriminate|].
      rewrite (residue_built init_state Hcf Ea), (verify_built false init_state Hcf), Ea. cbn [negb andb].
      rewrite andb_false_r. rewrite Hn. reflexivity.
    - replace (is_sigver_error SignatureError) with true by reflexivity.
      destruct (wrs c); [discriminate|].
      rewrite (verify_built true init_state Hcf), Ea. cbn [negb andb]. rewrite andb_false_r. rewrite Hn. reflexivity.
    - replace (is_sigver_error SignatureError) with true by reflexivity.
      destruct (wrs c); [discriminate|].
      rewrite (verify_built true init_state Hcf), Ea. cbn [negb andb].
      replace (is_signature_error SignatureError) with true by reflexivity.
      destruct (was c); [discriminate|].
      rewrite (residue_built init_state Hcf Ea), (verify_built false init_state Hcf), Ea. cbn [negb andb].
      destruct (waors c); [discriminate|]. cbn [andb]. rewrite Hn. reflexivity.
  Qed.

  (* the round trip *)
  Theorem roundtrip_ok : requirements_met c w = true -> roundtrip i m s a = Ok (expected_view i s a).
  Proof.
    intros Hreq. unfold roundtrip, roundtrip_with. rewrite (st_built _ _ _ _ H : build_fails w a = false).
    unfold read. rewrite (parse_response_built Hreq).
    cbn [o_assertions o_name_id o_irt o_nooa o_came_from]. unfold expected_view.
    rewrite (st_idp_id _ _ _ _ H). reflexivity.
  Qed.
End Flow.

(* ------------------------------------------------------------------ *)
(* the requirement predicate is C02's documented rule on the built message *)
(* ------------------------------------------------------------------ *)
From PV Require Import Proofs.Response_lemmas Proofs.Rel_lemmas Proofs.C02_lemmas.

Lemma documented_built i m s a : setting i m s a ->
  documented (s_cfg s) (built_view (sign_encrypt i m a) i a (s_keys s)) = requirements_met (s_cfg s) (sign_encrypt i m a).
Proof.
  intros H. unfold documented, requirements_met, all_sigok, all_present, processed, built_view.
  cbn [r_sig r_assertions r_encrypted].
  pose proof (verdict_ok (s_keys s) i (st_md _ _ _ _ H) (st_idp_id _ _ _ _ H)) as V.
  assert (forall b, sigok (a_sig (built_assertion i a (s_keys s) b)) = true) as S1.
  { intros b. unfold built_assertion. cbn [a_sig]. destruct b; [rewrite V|]; reflexivity. }
  assert (forall b, present (a_sig (built_assertion i a (s_keys s) b)) = b) as P1.
  { intros b. unfold built_assertion. cbn [a_sig]. destruct b; reflexivity. }
  destruct (w_enc (sign_encrypt i m a)) as [cert|] eqn:Ee.
  - rewrite (st_enc _ _ _ _ H cert Ee). cbn [decrypted_prefix e_opens e_inner app forallb]. rewrite S1, P1.
    destruct (w_rsig (sign_encrypt i m a)); [rewrite V|]; cbn [sigok present andb]; rewrite ?andb_true_r; reflexivity.
  - cbn [decrypted_prefix app forallb]. rewrite S1, P1.
    destruct (w_rsig (sign_encrypt i m a)); [rewrite V|]; cbn [sigok present andb]; rewrite ?andb_true_r; reflexivity.
Qed.

(* the requirement in terms of the flags the IdP was called with *)
Lemma requirements_flags i m s a :
  requirements_met (s_cfg s) (sign_encrypt i m a) =
  let sr := eff (g_sign_response a) (i_sign_response i) in
  let sa := eff (g_sign_assertion a) (i_sign_assertion i) in
  implb (wrs (s_cfg s)) sr && implb (was (s_cfg s)) sa && implb (waors (s_cfg s)) (sr || sa).
Proof. reflexivity. Qed.

(* ------------------------------------------------------------------ *)
(* everything together: literally what was asserted                       *)
(* ------------------------------------------------------------------ *)
From PV Require Import Proofs.IdpBuild_lemmas Proofs.IdpBuildTree_lemmas Proofs.IdpBuildAttr_lemmas.

Theorem roundtrip_exact i m s a cv locals :
  setting i m s a -> requirements_met (s_cfg s) (sign_encrypt i m a) = true ->
  first_conv (i_acs i) (name_form i) = Some cv ->
  map (fun kv => sp_name cv (s_acs s) (fst kv)) (g_identity a) = map Some locals ->
  Forall (fun kv => eptid_named cv (s_acs s) (fst kv) = true) (g_identity a) ->
  NoDup locals ->
  roundtrip i m s a =
    Ok {| v_name_id := Some (g_name_id a);
          v_ava := combine locals (map (fun kv => plain_values (snd kv)) (g_identity a));
          v_irt := Some (g_irt a);
          v_issuer := i_entity_id i;
          v_authn := read_authn (build_payload i a);
          v_nooa := match g_session_nooa a with Some sn => sn | None => i_now i + lifetime i end;
          v_came_from := expected_cf (s_cfg s) a |}.
Proof.
  intros H Hreq Hc Hn He Hd. rewrite (roundtrip_ok i m s a H Hreq). unfold expected_view. f_equal. f_equal.
  unfold build_payload. cbn [p_attributes]. rewrite from_local_first, Hc. cbn [option_map].
  apply attributes_exact; assumption.
Qed.

(* identity -> attributes -> XML TEXT -> reader -> harvested attributes -> to_local, in one statement *)
Theorem attributes_via_text cv sp_acs allow ident locals :
  legal_attributes (map (to_attr cv) ident) = true -> forallb no_cr_attribute (map (to_attr cv) ident) = true ->
  map (fun kv => sp_name cv sp_acs (fst kv)) ident = map Some locals ->
  Forall (fun kv => eptid_named cv sp_acs (fst kv) = true) ident ->
  NoDup locals ->
  option_map (fun t => list_to_local sp_acs allow (attrs_of_statement_xml t))
             (xml_parse (serialise (attr_statement_xml (map (to_attr cv) ident)))) =
  Some (combine locals (map (fun kv => plain_values (snd kv)) ident)).
Proof.
  intros Hl Hc Hn He Hd.
  pose proof (attributes_through_text_exact _ Hl Hc) as T.
  destruct (xml_parse (serialise (attr_statement_xml (map (to_attr cv) ident)))) as [t|]; [|discriminate].
  cbn [option_map] in T |- *. injection T as ->. f_equal. apply attributes_exact; assumption.
Qed.

(* ... over tables that lose no name (the SP reports every key of the IdP-side table): every identity
   over the table's keys, in any spelling, is read name by name under its own name or the listed alias *)
Theorem roundtrip_table i m s a cv :
  setting i m s a -> requirements_met (s_cfg s) (sign_encrypt i m a) = true ->
  first_conv (i_acs i) (name_form i) = Some cv ->
  lost_rows cv (s_acs s) = [] -> eptid_rows_ok cv (s_acs s) = true ->
  Forall (fun kv => In (lower (fst kv)) (table_keys cv)) (g_identity a) ->
  exists locals, Forall2 (reported_as cv (s_acs s)) (g_identity a) locals /\
    (NoDup locals ->
     roundtrip i m s a =
       Ok {| v_name_id := Some (g_name_id a);
             v_ava := combine locals (map (fun kv => plain_values (snd kv)) (g_identity a));
             v_irt := Some (g_irt a);
             v_issuer := i_entity_id i;
             v_authn := read_authn (build_payload i a);
             v_nooa := match g_session_nooa a with Some sn => sn | None => i_now i + lifetime i end;
             v_came_from := expected_cf (s_cfg s) a |}).
Proof.
  intros H Hreq Hc Hl He Hk.
  destruct (table_identity_reported cv (s_acs s) Hl He (g_identity a) Hk) as (locals & En & R & N).
  exists locals. split; [exact R|]. intros Hd. now apply (roundtrip_exact i m s a cv locals).
Qed.
