(* Proofs/Schema_lemmas.v — round trip of the generic SamlBase engine model *)
From PV Require Import Lib.Base Model.Schema.
Open Scope N_scope.

(* ------------------------------------------------------------ list helpers *)
Lemma memN_In x l : memN x l = true <-> In x l.
Proof.
  unfold memN. rewrite existsb_exists. split.
  - intros [y [Hy He]]. apply N.eqb_eq in He. subst; exact Hy.
  - intros H. exists x. split; [exact H|apply N.eqb_refl].
Qed.

Lemma memN_false x l : memN x l = false <-> ~ In x l.
Proof.
  rewrite <- memN_In. destruct (memN x l); split; intros H; try congruence;
    try (exfalso; apply H; reflexivity).
Qed.

Lemma nodupN_NoDup l : nodupN l = true -> NoDup l.
Proof.
  induction l as [|x l IH]; cbn [nodupN]; intros H; [constructor|].
  apply andb_true_iff in H as [H1 H2]. apply negb_true_iff, memN_false in H1.
  constructor; auto.
Qed.

Lemma subsetN_In a b : subsetN a b = true -> forall x, In x a -> In x b.
Proof.
  unfold subsetN. rewrite forallb_forall. intros H x Hx. apply memN_In, H, Hx.
Qed.

Lemma alookup_None {A} k (l : list (N * A)) : ~ In k (map fst l) -> alookup k l = None.
Proof.
  induction l as [|[k' v] l IH]; cbn [alookup map fst]; intros H; [reflexivity|].
  destruct (N.eqb_spec k' k) as [->|Hn]; [exfalso; apply H; left; reflexivity|].
  apply IH. intros Hi; apply H; right; exact Hi.
Qed.

Lemma alookup_Some_In {A} k (v : A) l : alookup k l = Some v -> In (k, v) l.
Proof.
  induction l as [|[k' v'] l IH]; cbn [alookup]; intros H; [discriminate|].
  destruct (N.eqb_spec k' k) as [->|Hn]; [inversion H; subst; left; reflexivity|right; auto].
Qed.

Lemma alookup_app {A} k (a b : list (N * A)) :
  alookup k (a ++ b) = match alookup k a with Some v => Some v | None => alookup k b end.
Proof.
  induction a as [|[k' v] a IH]; cbn [alookup app]; [reflexivity|].
  destruct (k' =? k); [reflexivity|exact IH].
Qed.

Lemma aset_fresh {A} k (v : A) d : ~ In k (map fst d) -> aset k v d = d ++ [(k, v)].
Proof.
  induction d as [|[k' v'] d IH]; cbn [aset map fst app]; intros H; [reflexivity|].
  destruct (N.eqb_spec k' k) as [->|Hn]; [exfalso; apply H; left; reflexivity|].
  f_equal. apply IH. intros Hi; apply H; right; exact Hi.
Qed.

Lemma aset_same {A} k (v : A) d : alookup k d = Some v -> aset k v d = d.
Proof.
  induction d as [|[k' v'] d IH]; cbn [aset alookup]; intros H; [discriminate|].
  destruct (N.eqb_spec k' k) as [->|Hn]; [inversion H; reflexivity|f_equal; auto].
Qed.

Lemma fold_aset_nodup {A} (l acc : list (N * A)) :
  NoDup (map fst (acc ++ l)) ->
  fold_left (fun d kv => aset (fst kv) (snd kv) d) l acc = acc ++ l.
Proof.
  revert acc; induction l as [|[k v] l IH]; intros acc H; cbn [fold_left fst snd].
  - rewrite app_nil_r; reflexivity.
  - rewrite aset_fresh.
    + rewrite IH; rewrite <- app_assoc; [reflexivity|exact H].
    + rewrite map_app in H. apply NoDup_remove_2 in H. intros Hi; apply H.
      apply in_or_app; left; exact Hi.
Qed.

Lemma dict_of_nodup {A} (l : list (N * A)) : NoDup (map fst l) -> dict_of l = l.
Proof. intros H. unfold dict_of. rewrite fold_aset_nodup; [reflexivity|exact H]. Qed.

Lemma sequence_map_ok {A B} (f : A -> result B) (g : A -> B) l :
  (forall x, In x l -> f x = Ok (g x)) -> sequence (map f l) = Ok (map g l).
Proof.
  induction l as [|x l IH]; intros H; cbn [map sequence]; [reflexivity|].
  rewrite (H x (or_introl eq_refl)). rewrite IH; [reflexivity|].
  intros y Hy; apply H; right; exact Hy.
Qed.

Lemma kids_of_map {A B} (f : A -> B) m (l : list (N * A)) :
  kids_of m (map (fun p => let '(m', k) := p in (m', f k)) l) = map f (kids_of m l).
Proof.
  unfold kids_of. induction l as [|[m' k] l IH]; cbn [map filter fst]; [reflexivity|].
  destruct (m' =? m); cbn [map snd]; [f_equal|]; exact IH.
Qed.

Lemma kids_of_In {A} m (k : A) l : In k (kids_of m l) -> In (m, k) l.
Proof.
  unfold kids_of. rewrite in_map_iff. intros [[m' k'] [He Hf]]. cbn in He; subst k'.
  apply filter_In in Hf as [Hi Hm]. cbn in Hm. apply N.eqb_eq in Hm; subst; exact Hi.
Qed.

Lemma flat_map_pick {A} (f : N -> list A) m0 l :
  NoDup l -> In m0 l -> flat_map (fun m => if m =? m0 then f m else []) l = f m0.
Proof.
  induction l as [|m l IH]; intros Hnd Hin; [destruct Hin|].
  cbn [flat_map]. inversion Hnd as [|? ? Hni Hnd']; subst.
  destruct (N.eqb_spec m m0) as [->|Hne].
  - assert (Hz : flat_map (fun m => if m =? m0 then f m else []) l = []).
    { clear IH Hnd' Hin Hnd. induction l as [|y l IHl]; [reflexivity|]. cbn [flat_map].
      destruct (N.eqb_spec y m0) as [->|_]; [exfalso; apply Hni; left; reflexivity|].
      apply IHl. intros Hi; apply Hni; right; exact Hi. }
    rewrite Hz, app_nil_r; reflexivity.
  - destruct Hin as [->|Hin]; [congruence|]. cbn [app]. apply IH; assumption.
Qed.

Lemma flat_map_ext_in {A B} (f g : A -> list B) l :
  (forall x, In x l -> f x = g x) -> flat_map f l = flat_map g l.
Proof.
  induction l as [|x l IH]; intros H; cbn [flat_map]; [reflexivity|].
  rewrite (H x (or_introl eq_refl)), IH; [reflexivity|]. intros y Hy; apply H; right; exact Hy.
Qed.

Lemma flat_map_nil {A B} (f : A -> list B) l : (forall x, In x l -> f x = []) -> flat_map f l = [].
Proof.
  induction l as [|x l IH]; intros H; cbn [flat_map]; [reflexivity|].
  rewrite (H x (or_introl eq_refl)), IH; [reflexivity|]. intros y Hy; apply H; right; exact Hy.
Qed.

Lemma flat_map_flat_map {A B C} (f : A -> list B) (g : B -> list C) l :
  flat_map g (flat_map f l) = flat_map (fun x => flat_map g (f x)) l.
Proof.
  induction l as [|x l IH]; cbn [flat_map]; [reflexivity|]. rewrite flat_map_app, IH; reflexivity.
Qed.

Lemma find_unique {A} (key : A -> N) (l : list A) (a : A) :
  NoDup (map key l) -> In a l -> find (fun x => key x =? key a) l = Some a.
Proof.
  induction l as [|x l IH]; intros Hnd Hin; [destruct Hin|].
  cbn [find]. cbn [map] in Hnd. inversion Hnd as [|? ? Hni Hnd']; subst.
  destruct Hin as [->|Hin]; [rewrite N.eqb_refl; reflexivity|].
  destruct (N.eqb_spec (key x) (key a)) as [He|_]; [|apply IH; assumption].
  exfalso; apply Hni. rewrite He. apply in_map; exact Hin.
Qed.

Lemma find_none_key {A} (key : A -> N) (l : list A) k :
  ~ In k (map key l) -> find (fun x => key x =? k) l = None.
Proof.
  induction l as [|x l IH]; intros H; cbn [find]; [reflexivity|].
  destruct (N.eqb_spec (key x) k) as [He|_]; [exfalso; apply H; left; exact He|].
  apply IH. intros Hi; apply H; right; exact Hi.
Qed.

Lemma find_some_key {A} (key : A -> N) (l : list A) k a :
  find (fun x => key x =? k) l = Some a -> In a l /\ key a = k.
Proof.
  intros H. apply find_some in H as [H1 H2]. apply N.eqb_eq in H2. split; assumption.
Qed.

(* lookup in a table-ordered projection: kx = output key, km = looked-up member *)
Lemma proj_lookup {R} (kx km : R -> N) (attrs : list (N * str)) (L : list R) (a : R) :
  NoDup (map kx L) -> In a L ->
  alookup (kx a) (flat_map (fun a' => match alookup (km a') attrs with Some v => [(kx a', v)] | None => [] end) L)
  = alookup (km a) attrs.
Proof.
  induction L as [|a' L IH]; intros Hnd Hin; [destruct Hin|].
  cbn [map] in Hnd. inversion Hnd as [|? ? Hni Hnd']; subst. cbn [flat_map].
  rewrite alookup_app.
  destruct Hin as [->|Hin].
  - destruct (alookup (km a) attrs) as [v|]; cbn [alookup]; [rewrite N.eqb_refl; reflexivity|].
    apply alookup_None. intros Hi. apply Hni.
    apply in_map_iff in Hi as [[k v] [Hk Hi]]. cbn in Hk; subst k.
    apply in_flat_map in Hi as [b [Hb Hi]].
    destruct (alookup (km b) attrs); [|destruct Hi].
    destruct Hi as [Hi|[]]. injection Hi as He Hv. rewrite <- He. apply in_map; exact Hb.
  - assert (Hne : kx a' <> kx a).
    { intros He. apply Hni. rewrite He. apply in_map; exact Hin. }
    destruct (alookup (km a') attrs) as [v|]; cbn [alookup].
    + destruct (N.eqb_spec (kx a') (kx a)); [congruence|]. apply IH; assumption.
    + apply IH; assumption.
Qed.

Lemma proj_keys {R} (kx km : R -> N) (attrs : list (N * str)) (L : list R) k :
  In k (map fst (flat_map (fun a' => match alookup (km a') attrs with Some v => [(kx a', v)] | None => [] end) L)) ->
  In k (map kx L).
Proof.
  intros Hi. apply in_map_iff in Hi as [[k' v] [Hk Hi]]. cbn in Hk; subst k'.
  apply in_flat_map in Hi as [b [Hb Hi]].
  destruct (alookup (km b) attrs); [|destruct Hi].
  destruct Hi as [Hi|[]]. injection Hi as He Hv. rewrite <- He. apply in_map; exact Hb.
Qed.

Lemma proj_nodup {R} (kx km : R -> N) (attrs : list (N * str)) (L : list R) :
  NoDup (map kx L) ->
  NoDup (map fst (flat_map (fun a' => match alookup (km a') attrs with Some v => [(kx a', v)] | None => [] end) L)).
Proof.
  induction L as [|a L IH]; intros Hnd; cbn [flat_map map]; [constructor|].
  cbn [map] in Hnd. inversion Hnd as [|? ? Hni Hnd']; subst.
  destruct (alookup (km a) attrs) as [v|]; cbn [app map fst]; [|apply IH; exact Hnd'].
  constructor; [|apply IH; exact Hnd'].
  intros Hi. apply Hni. eapply proj_keys; exact Hi.
Qed.

(* --------------------------------------------------- induction over instances *)
Section InstInd.
  Variable P : inst -> Prop.
  Hypothesis HN : P INone.
  Hypothesis HI : forall c a t k xa xe, Forall (fun p => P (snd p)) k -> P (I c a t k xa xe).
  Fixpoint inst_ind' (i : inst) : P i :=
    match i with
    | INone => HN
    | I c a t k xa xe =>
        HI c a t k xa xe
          ((fix go (l : list (N * inst)) : Forall (fun p => P (snd p)) l :=
              match l with
              | [] => Forall_nil _
              | (m, x) :: l' => Forall_cons (m, x) (inst_ind' x) (go l')
              end) k)
    end.
End InstInd.

(* ------------------------------------------------------------ wf facts *)
Lemma wf_row_facts S r : wf_row S r = true ->
  (forall ch, In ch (k_children r) -> child_ok S ch = true) /\
  NoDup (map c_tagkey (k_children r)) /\
  NoDup (declared_members r) /\
  NoDup (order_of r) /\
  (forall m, In m (order_of r) -> In m (child_members r)) /\
  (forall m, In m (child_members r) -> In m (order_of r)) /\
  NoDup (map a_xml (k_attrs r)) /\
  k_missing r = [] /\ k_init_ok r = true /\ over_kind r <> OUnknown /\
  (over_kind r = OAttrValue -> k_children r = [] /\ k_attrs r = []).
Proof.
  unfold wf_row. intros H.
  repeat (apply andb_true_iff in H as [H ?]).
  repeat split.
  - apply forallb_forall; assumption.
  - apply nodupN_NoDup; assumption.
  - apply nodupN_NoDup; assumption.
  - apply nodupN_NoDup; assumption.
  - apply subsetN_In; assumption.
  - apply subsetN_In; assumption.
  - apply nodupN_NoDup; assumption.
  - destruct (k_missing r); [reflexivity|discriminate].
  - assumption.
  - destruct (over_kind r); congruence.
  - destruct (over_kind r); try discriminate. destruct (k_children r); [reflexivity|discriminate].
  - destruct (over_kind r); try discriminate. destruct (k_children r); [|discriminate].
    destruct (k_attrs r); [reflexivity|discriminate].
Qed.

Lemma NoDup_app_disjoint {A} (a b : list A) x : NoDup (a ++ b) -> In x a -> In x b -> False.
Proof.
  induction a as [|y a IH]; intros Hnd Ha Hb; [destruct Ha|].
  cbn [app] in Hnd. inversion Hnd as [|? ? Hni Hnd']; subst.
  destruct Ha as [->|Ha]; [apply Hni, in_or_app; right; exact Hb|apply IH; assumption].
Qed.

Lemma NoDup_app_l {A} (a b : list A) : NoDup (a ++ b) -> NoDup a.
Proof.
  induction a as [|y a IH]; intros Hnd; [constructor|].
  cbn [app] in Hnd. inversion Hnd as [|? ? Hni Hnd']; subst. constructor; [|apply IH; exact Hnd'].
  intros Hi; apply Hni, in_or_app; left; exact Hi.
Qed.

Lemma NoDup_app_r {A} (a b : list A) : NoDup (a ++ b) -> NoDup b.
Proof.
  induction a as [|y a IH]; intros Hnd; [exact Hnd|].
  cbn [app] in Hnd. inversion Hnd; subst. apply IH; assumption.
Qed.

Lemma find_child_by_member_In r ch :
  NoDup (declared_members r) -> In ch (k_children r) -> find_child_by_member r (c_member ch) = Some ch.
Proof.
  intros Hnd Hin. unfold find_child_by_member. apply (find_unique c_member); [|exact Hin].
  unfold declared_members, child_members in Hnd. eapply NoDup_app_l; exact Hnd.
Qed.

Definition ser_tot (S : schema) (k : inst) : xtree :=
  match serialise S k with Ok x => x | Err _ => X 0 [] None [] end.

(* ------------------------------------------------------------ serialise, one node *)
Lemma NoDup_app_intro {A} (a b : list A) :
  NoDup a -> NoDup b -> (forall x, In x a -> ~ In x b) -> NoDup (a ++ b).
Proof.
  induction a as [|y a IH]; intros Ha Hb Hd; [exact Hb|].
  inversion Ha as [|? ? Hni Ha']; subst. cbn [app]. constructor.
  - intros Hi. apply in_app_or in Hi as [Hi|Hi]; [contradiction|]. apply (Hd y (or_introl eq_refl)); exact Hi.
  - apply IH; [assumption|assumption|]. intros x Hx. apply Hd; right; exact Hx.
Qed.

Lemma NoDup_nodupN l : NoDup l -> nodupN l = true.
Proof.
  induction l as [|x l IH]; intros Hnd; cbn [nodupN]; [reflexivity|].
  inversion Hnd; subst. apply andb_true_iff; split; [|auto].
  apply negb_true_iff, memN_false; assumption.
Qed.

Lemma known_plus_x_nodup r attrs (xattrs : list (N * str)) :
  NoDup (map a_xml (k_attrs r)) -> NoDup (map fst xattrs) ->
  (forall n, In n (map fst xattrs) -> ~ In n (map a_xml (k_attrs r))) ->
  NoDup (map fst (known_attrs r attrs ++ xattrs)).
Proof.
  intros Hxml Hxa Hdisj. rewrite map_app. apply NoDup_app_intro.
  - apply (proj_nodup a_xml a_member); exact Hxml.
  - exact Hxa.
  - intros n Hn Hx. apply (Hdisj n Hx). eapply (proj_keys a_xml a_member); exact Hn.
Qed.

Lemma ser_node_wf S r attrs text (K : list (N * inst)) xattrs xelems :
  NoDup (declared_members r) -> k_missing r = [] ->
  (forall m, In m (order_of r) -> In m (child_members r)) ->
  (forall m, In m (map fst attrs) -> In m (attr_members r)) ->
  (forall m k, In (m, k) K -> In m (order_of r) -> serialise S k = Ok (ser_tot S k)) ->
  NoDup (map a_xml (k_attrs r)) -> NoDup (map fst xattrs) ->
  (forall n, In n (map fst xattrs) -> ~ In n (map a_xml (k_attrs r))) ->
  ser_node r attrs text (map (fun p => let '(m, k) := p in (m, serialise S k)) K) xattrs xelems
  = Ok (X (k_qtag r) (known_attrs r attrs ++ xattrs) text
          (flat_map (fun m => map (ser_tot S) (kids_of m K)) (order_of r) ++ xelems)).
Proof.
  intros Hnd Hmiss Hord Hattrs Hser Hxml Hxa Hdisj.
  unfold ser_node. rewrite (NoDup_nodupN _ Hnd). cbn [negb].
  set (sk := map (fun p => let '(m, k) := p in (m, serialise S k)) K).
  assert (Hhm : forall m, has_member r attrs sk m = true).
  { intros m. unfold has_member. rewrite Hmiss. reflexivity. }
  rewrite (sequence_map_ok _ (fun m => map (ser_tot S) (kids_of m K))).
  - assert (He : forall l, existsb (fun a => negb (has_member r attrs sk (a_member a))) l = false).
    { induction l as [|a l IH]; cbn [existsb]; [reflexivity|]. rewrite Hhm. cbn [negb orb]. exact IH. }
    rewrite He. rewrite dict_of_nodup by (apply known_plus_x_nodup; assumption).
    rewrite <- flat_map_concat_map. reflexivity.
  - intros m Hm. unfold ser_member. rewrite Hhm. cbn [negb].
    rewrite alookup_None.
    + unfold sk. rewrite kids_of_map. apply sequence_map_ok.
      intros k Hk. apply (Hser m); [apply kids_of_In; exact Hk|exact Hm].
    + intros Hi. apply (NoDup_app_disjoint _ _ m Hnd); [apply Hord; exact Hm|apply Hattrs; exact Hi].
Qed.

(* ------------------------------------------------------------ parse, one node *)
Section ParseNode.
  Variables (NIL TYPE XMLNS_XS : N).
  Notation parse := (parse NIL TYPE XMLNS_XS).
  Notation parse_node := (parse_node NIL TYPE XMLNS_XS).

  Definition mk (S : schema) (k : xtree) : pkid := (xtag k, fun c' => parse S c' k, k).

  Lemma parse_unfold S c tag attrs text kids :
    parse S c (X tag attrs text kids) = parse_node S c tag attrs text (map (mk S) kids).
  Proof. reflexivity. Qed.

  Lemma classify_ext S r e :
    ~ In (xtag e) (map c_tagkey (k_children r)) -> classify r (mk S e) = Ok None.
  Proof.
    intros H. unfold classify, find_child, pk_tag, mk. cbn [fst snd].
    rewrite find_none_key; [reflexivity|exact H].
  Qed.

  Lemma classify_kid S r ch c' x j :
    In ch (k_children r) -> NoDup (map c_tagkey (k_children r)) -> k_missing r = [] ->
    c_cls ch = Some c' -> xtag x = c_tagkey ch -> parse S c' x = Ok j ->
    classify r (mk S x) = Ok (Some (c_tagkey ch, j)).
  Proof.
    intros Hin Hnd Hmiss Hc Ht Hp. unfold classify, find_child, pk_tag, pk_parse, mk. cbn [fst snd].
    rewrite Ht. rewrite (find_unique c_tagkey _ ch Hnd Hin).
    rewrite Hmiss. cbn [memN existsb]. rewrite andb_false_r. rewrite Hc, Hp. reflexivity.
  Qed.

  Definition sel (ch0 : child_row) (o : option (N * inst)) : list inst :=
    match o with Some (t, x) => if t =? c_tagkey ch0 then [x] else [] | None => [] end.

  Lemma sel_map ch0 t (f : inst -> inst) l :
    flat_map (sel ch0) (map (fun k => Some (t, f k)) l) = if t =? c_tagkey ch0 then map f l else [].
  Proof.
    induction l as [|k l IH]; cbn [map flat_map sel]; [destruct (t =? c_tagkey ch0); reflexivity|].
    rewrite IH. destruct (t =? c_tagkey ch0); reflexivity.
  Qed.

  Lemma select_eq ch cl :
    select ch cl =
    let l := flat_map (sel ch) cl in
    if c_islist ch then map (fun x => (c_member ch, x)) l
    else match last_opt l with Some (I c a t k xa xe) => [(c_member ch, I c a t k xa xe)] | _ => [] end.
  Proof. reflexivity. Qed.

  Definition KidOK (S : schema) (r : class_row) (m : N) (k : inst) : Prop :=
    exists ch c', In ch (k_children r) /\ c_member ch = m /\ c_cls ch = Some c' /\
      xtag (ser_tot S k) = c_tagkey ch /\ parse S c' (ser_tot S k) = Ok (norm S k) /\ norm S k <> INone.

  Definition tk (r : class_row) (m : N) : N :=
    match find_child_by_member r m with Some ch => c_tagkey ch | None => 0 end.

  Lemma parse_node_wf S r c attrs text (K : list (N * inst)) xattrs xelems :
    find_row S c = Some r -> wf_row S r = true -> over_kind r = OGeneric ->
    (forall m k, In (m, k) K -> KidOK S r m k) ->
    (forall ch, In ch (k_children r) -> c_islist ch = false -> (List.length (kids_of (c_member ch) K) <= 1)%nat) ->
    (forall d, In d (k_defaults r) -> alookup (fst d) attrs <> None) ->
    NoDup (map fst xattrs) ->
    (forall n, In n (map fst xattrs) -> ~ In n (map a_xml (k_attrs r))) ->
    (forall e, In e xelems -> ~ In (xtag e) (map c_tagkey (k_children r))) ->
    parse_node S c (k_qtag r) (known_attrs r attrs ++ xattrs) text
      (map (mk S) (flat_map (fun m => map (ser_tot S) (kids_of m K)) (order_of r) ++ xelems))
    = Ok (I c (norm_attrs r attrs) text
            (flat_map (fun ch => map (fun x => (c_member ch, x)) (map (norm S) (kids_of (c_member ch) K))) (k_children r))
            xattrs xelems).
  Proof.
    intros Hrow Hwf Hgen Hkids Hsingle Hdef Hxa Hdisj Hxe.
    destruct (wf_row_facts S r Hwf) as (Hchild & Htk & Hnd & Hord & Hsub1 & Hsub2 & Hxml & Hmiss & Hinit & _ & _).
    unfold Schema.parse_node. rewrite Hrow, N.eqb_refl. cbn [negb]. rewrite Hinit. cbn [negb].
    rewrite (NoDup_nodupN _ Hnd). cbn [negb].
    (* classification of every document child *)
    set (g := fun x => match classify r (mk S x) with Ok o => o | Err _ => None end).
    assert (Hcl_kid : forall m k, In (m, k) K -> classify r (mk S (ser_tot S k)) = Ok (Some (tk r m, norm S k))).
    { intros m k Hin. destruct (Hkids m k Hin) as (ch & c' & Hch & Hm & Hc & Ht & Hp & _).
      unfold tk. rewrite <- Hm. rewrite (find_child_by_member_In r ch Hnd Hch).
      apply (classify_kid S r ch c'); assumption. }
    rewrite map_map.
    rewrite (sequence_map_ok _ g).
    2:{ intros x Hx. unfold g. apply in_app_or in Hx as [Hx|Hx].
        - apply in_flat_map in Hx as [m [Hm Hx]]. apply in_map_iff in Hx as [k [Hk Hx]]. subst x.
          rewrite (Hcl_kid m k (kids_of_In _ _ _ Hx)). reflexivity.
        - rewrite (classify_ext S r x (Hxe x Hx)). reflexivity. }
    rewrite Hgen.
    f_equal. f_equal.
    - (* attributes *)
      unfold parse_attrs, norm_attrs. apply flat_map_ext_in. intros a Ha.
      rewrite alookup_app. unfold known_attrs. rewrite (proj_lookup a_xml a_member attrs (k_attrs r) a Hxml Ha).
      destruct (alookup (a_member a) attrs) as [v|] eqn:El; [reflexivity|].
      rewrite (alookup_None (a_xml a) xattrs).
      2:{ intros Hi. apply (Hdisj _ Hi). apply in_map; exact Ha. }
      destruct (alookup (a_member a) (k_defaults r)) as [d|] eqn:Ed; [|reflexivity].
      exfalso. apply (Hdef _ (alookup_Some_In _ _ _ Ed)). exact El.
    - (* children *)
      apply flat_map_ext_in. intros ch Hch.
      rewrite select_eq. cbv zeta.
      assert (Hl : flat_map (sel ch) (map g (flat_map (fun m => map (ser_tot S) (kids_of m K)) (order_of r) ++ xelems))
                   = map (norm S) (kids_of (c_member ch) K)).
      { rewrite map_app, flat_map_app.
        rewrite (flat_map_nil (sel ch) (map g xelems)).
        2:{ intros o Ho. apply in_map_iff in Ho as [e [He Hi]]. subst o. unfold g.
            rewrite (classify_ext S r e (Hxe e Hi)). reflexivity. }
        rewrite app_nil_r.
        assert (Hmm : map g (flat_map (fun m => map (ser_tot S) (kids_of m K)) (order_of r))
                      = flat_map (fun m => map (fun k => Some (tk r m, norm S k)) (kids_of m K)) (order_of r)).
        { clear -Hcl_kid. induction (order_of r) as [|m l IH]; cbn [flat_map map]; [reflexivity|].
          rewrite map_app, IH. f_equal. rewrite map_map. apply map_ext_in. intros k Hk. unfold g.
          rewrite (Hcl_kid m k (kids_of_In _ _ _ Hk)). reflexivity. }
        rewrite Hmm, flat_map_flat_map.
        rewrite (flat_map_ext_in _ (fun m => if m =? c_member ch then map (norm S) (kids_of m K) else [])).
        - apply (flat_map_pick (fun m => map (norm S) (kids_of m K))); [exact Hord|].
          apply Hsub2. apply in_map; exact Hch.
        - intros m Hm. rewrite sel_map.
          apply Hsub1 in Hm. unfold child_members in Hm. apply in_map_iff in Hm as [chm [Hcm Hchm]].
          unfold tk. rewrite <- Hcm. rewrite (find_child_by_member_In r chm Hnd Hchm).
          destruct (N.eqb_spec (c_member chm) (c_member ch)) as [He|Hne].
          + assert (chm = ch).
            { pose proof (find_child_by_member_In r chm Hnd Hchm) as H1.
              pose proof (find_child_by_member_In r ch Hnd Hch) as H2. rewrite He in H1. congruence. }
            subst chm. rewrite N.eqb_refl. reflexivity.
          + destruct (N.eqb_spec (c_tagkey chm) (c_tagkey ch)) as [He|_]; [|reflexivity].
            exfalso. apply Hne.
            pose proof (find_unique c_tagkey _ chm Htk Hchm) as H1.
            pose proof (find_unique c_tagkey _ ch Htk Hch) as H2. rewrite He in H1. congruence. }
      rewrite Hl. destruct (c_islist ch) eqn:El; [reflexivity|].
      specialize (Hsingle ch Hch El).
      destruct (kids_of (c_member ch) K) as [|k [|k2 rest]] eqn:Ek; cbn [map last_opt]; [reflexivity| |cbn in Hsingle; lia].
      assert (Hin : In (c_member ch, k) K) by (apply kids_of_In; rewrite Ek; left; reflexivity).
      destruct (Hkids _ _ Hin) as (_ & _ & _ & _ & _ & _ & _ & Hnn).
      destruct (norm S k); [congruence|reflexivity].
    - (* foreign attributes *)
      unfold foreign_attrs. rewrite filter_app.
      assert (H1 : filter (fun p : N * str => negb (memN (fst p) (map a_xml (k_attrs r)))) (known_attrs r attrs) = []).
      { assert (Hk : forall p, In p (known_attrs r attrs) -> In (fst p) (map a_xml (k_attrs r))).
        { intros p Hp. apply (proj_keys a_xml a_member attrs). apply in_map; exact Hp. }
        induction (known_attrs r attrs) as [|p l IH]; cbn [filter]; [reflexivity|].
        assert (Hm : memN (fst p) (map a_xml (k_attrs r)) = true) by (apply memN_In, Hk; left; reflexivity).
        rewrite Hm. cbn [negb]. apply IH. intros q Hq; apply Hk; right; exact Hq. }
      rewrite H1. cbn [app].
      clear -Hdisj. induction xattrs as [|p l IH]; cbn [filter]; [reflexivity|].
      assert (Hm : memN (fst p) (map a_xml (k_attrs r)) = false).
      { apply memN_false. apply Hdisj. left; reflexivity. }
      rewrite Hm. cbn [negb]. f_equal. apply IH. intros n Hn. apply Hdisj. right; exact Hn.
    - (* foreign children *)
      unfold foreign_kids. rewrite map_app, filter_app, map_app.
      assert (H1 : filter (fun p => negb (memN (pk_tag p) (map c_tagkey (k_children r))))
                     (map (mk S) (flat_map (fun m => map (ser_tot S) (kids_of m K)) (order_of r))) = []).
      { assert (Hk : forall x, In x (flat_map (fun m => map (ser_tot S) (kids_of m K)) (order_of r)) ->
                               In (xtag x) (map c_tagkey (k_children r))).
        { intros x Hx. apply in_flat_map in Hx as [m [Hm Hx]]. apply in_map_iff in Hx as [k [Hk Hx]]. subst x.
          destruct (Hkids m k (kids_of_In _ _ _ Hx)) as (ch & c' & Hch & _ & _ & Ht & _). rewrite Ht. apply in_map; exact Hch. }
        induction (flat_map (fun m => map (ser_tot S) (kids_of m K)) (order_of r)) as [|x l IH]; cbn [map filter]; [reflexivity|].
        assert (Hm : memN (pk_tag (mk S x)) (map c_tagkey (k_children r)) = true) by (apply memN_In, Hk; left; reflexivity).
        rewrite Hm. cbn [negb]. apply IH. intros q Hq; apply Hk; right; exact Hq. }
      rewrite H1. cbn [app map].
      clear -Hxe. induction xelems as [|e l IH]; cbn [map filter]; [reflexivity|].
      assert (Hm : memN (pk_tag (mk S e)) (map c_tagkey (k_children r)) = false).
      { apply memN_false. apply Hxe. left; reflexivity. }
      rewrite Hm. cbn [negb map]. f_equal. apply IH. intros x Hx. apply Hxe. right; exact Hx.
  Qed.
End ParseNode.

(* ------------------------------------------------------------ the round trip *)
Lemma adel_notin {A} k (l : list (N * A)) : ~ In k (map fst l) -> adel k l = l.
Proof.
  unfold adel. induction l as [|[k' v] l IH]; cbn [filter map fst]; intros H; [reflexivity|].
  destruct (N.eqb_spec k' k) as [->|_]; [exfalso; apply H; left; reflexivity|].
  cbn [negb]. f_equal. apply IH. intros Hi; apply H; right; exact Hi.
Qed.

Lemma split_colon_join s a b : split_colon s = Some (a, b) -> s = a ++ 58 :: b.
Proof.
  revert a b; induction s as [|c s IH]; intros a b H; cbn [split_colon] in H; [discriminate|].
  destruct (N.eqb_spec c 58) as [->|_].
  - inversion H; subst. reflexivity.
  - destruct (split_colon s) as [[a' b']|]; [|discriminate]. inversion H; subst.
    cbn [app]. f_equal. apply IH. reflexivity.
Qed.

Section Main.
  Variables (NIL TYPE XMLNS_XS : N).
  Hypothesis HNT : NIL <> TYPE.
  Notation parse := (parse NIL TYPE XMLNS_XS).
  Notation wf_inst := (wf_inst NIL TYPE XMLNS_XS).

  Lemma wf_inst_I S c a t K xa xe :
    wf_inst S (I c a t K xa xe) = true ->
    exists r, find_row S c = Some r /\ wf_row S r = true /\ NoDup (map fst a) /\
      (forall m, In m (map fst a) -> In m (attr_members r)) /\
      (forall d, In d (k_defaults r) -> alookup (fst d) a <> None) /\
      (forall m k, In (m, k) K -> exists ch, find_child_by_member r m = Some ch /\
                                    optN_eqb (c_cls ch) (cls_of k) = true /\ wf_inst S k = true) /\
      (forall ch, In ch (k_children r) -> c_islist ch = false -> (List.length (kids_of (c_member ch) K) <= 1)%nat) /\
      NoDup (map fst xa) /\
      (forall n, In n (map fst xa) -> ~ In n (map a_xml (k_attrs r))) /\
      (forall e, In e xe -> ~ In (xtag e) (map c_tagkey (k_children r))) /\
      (over_kind r = OAttrValue -> av_ok NIL TYPE XMLNS_XS t xa = true).
  Proof.
    cbn [Schema.wf_inst]. destruct (find_row S c) as [r|]; [|discriminate].
    remember (wf_row S r) as w eqn:Ew.
    intros H. repeat (apply andb_true_iff in H as [H ?]).
    exists r. subst w. repeat split.
    - assumption.
    - apply nodupN_NoDup; assumption.
    - apply subsetN_In; assumption.
    - intros d Hd. match goal with Hx : forallb _ (k_defaults r) = true |- _ => rewrite forallb_forall in Hx; pose proof (Hx d Hd) as Hq end.
      destruct (alookup (fst d) a); [congruence|discriminate].
    - intros m k Hk. match goal with Hx : forallb _ K = true |- _ => rewrite forallb_forall in Hx; pose proof (Hx _ Hk) as Hq end.
      cbn in Hq. destruct (find_child_by_member r m) as [ch|]; [|discriminate].
      apply andb_true_iff in Hq as [H1' H2']. exists ch. repeat split; assumption.
    - intros ch Hch El. match goal with Hx : forallb _ (k_children r) = true |- _ => rewrite forallb_forall in Hx; pose proof (Hx _ Hch) as Hq end.
      rewrite El in Hq. cbn [orb] in Hq. apply Nat.leb_le in Hq. exact Hq.
    - apply nodupN_NoDup; assumption.
    - intros n Hn. apply in_map_iff in Hn as [p [Hp Hn]]. subst n.
      match goal with Hx : forallb _ xa = true |- _ => rewrite forallb_forall in Hx; pose proof (Hx _ Hn) as Hq end.
      apply negb_true_iff, memN_false in Hq. exact Hq.
    - intros e He. match goal with Hx : forallb _ xe = true |- _ => rewrite forallb_forall in Hx; pose proof (Hx _ He) as Hq end.
      apply negb_true_iff, memN_false in Hq. exact Hq.
    - intros Ho. match goal with Hx : match over_kind r with _ => _ end = true |- _ => rewrite Ho in Hx; exact Hx end.
  Qed.

  Definition RT (S : schema) (k : inst) : Prop :=
    wf_inst S k = true ->
    exists c r, cls_of k = Some c /\ find_row S c = Some r /\ serialise S k = Ok (ser_tot S k) /\
      xtag (ser_tot S k) = k_qtag r /\ parse S c (ser_tot S k) = Ok (norm S k) /\ norm S k <> INone.

  Lemma norm_I S c r a t K xa xe :
    find_row S c = Some r ->
    norm S (I c a t K xa xe) =
    I c (norm_attrs r a) t
      (flat_map (fun ch => map (fun x => (c_member ch, x)) (map (norm S) (kids_of (c_member ch) K))) (k_children r)) xa xe.
  Proof.
    intros Hrow. cbn [norm]. rewrite Hrow. f_equal.
    apply flat_map_ext_in. intros ch _. rewrite kids_of_map. reflexivity.
  Qed.

  Lemma av_parse_ok S c r t xa xe :
    find_row S c = Some r -> wf_row S r = true -> over_kind r = OAttrValue ->
    NoDup (map fst xa) -> av_ok NIL TYPE XMLNS_XS t xa = true ->
    parse_node NIL TYPE XMLNS_XS S c (k_qtag r) xa t (map (mk NIL TYPE XMLNS_XS S) xe) = Ok (I c [] t [] xa xe).
  Proof.
    intros Hrow Hwf Hav Hxa Hok.
    destruct (wf_row_facts S r Hwf) as (_ & _ & Hnd & _ & _ & _ & _ & Hmiss & Hinit & _ & Hnil).
    destruct (Hnil Hav) as [Hc Ha].
    unfold parse_node. rewrite Hrow, N.eqb_refl. cbn [negb]. rewrite Hinit. cbn [negb].
    rewrite (NoDup_nodupN _ Hnd). cbn [negb].
    rewrite map_map. rewrite (sequence_map_ok _ (fun _ => None)).
    2:{ intros e _. apply classify_ext. rewrite Hc. intros []. }
    rewrite Hav. unfold parse_attrs, foreign_attrs, foreign_kids. rewrite Hc, Ha. cbn [flat_map map].
    assert (Hf1 : filter (fun p : N * str => negb (memN (fst p) [])) xa = xa).
    { clear. induction xa as [|p l IH]; cbn [filter memN existsb negb]; [reflexivity|]. f_equal; exact IH. }
    assert (Hf2 : map pk_tree (filter (fun p : pkid => negb (memN (pk_tag p) [])) (map (mk NIL TYPE XMLNS_XS S) xe)) = xe).
    { clear. induction xe as [|e l IH]; cbn [map filter memN existsb negb]; [reflexivity|]. f_equal; exact IH. }
    rewrite Hf1, Hf2. clear Hf1 Hf2.
    unfold av_ok in Hok. unfold av_text.
    destruct t as [[|ch t0]|]; [| |discriminate].
    - (* empty text: xsi:nil first *)
      destruct xa as [|[n v] rest]; [discriminate|]. apply N.eqb_eq in Hok. subst n.
      cbn [fold_left fst snd aset]. rewrite N.eqb_refl.
      rewrite fold_aset_nodup; [reflexivity|exact Hxa].
    - apply andb_true_iff in Hok as [Hnil' Hty]. apply negb_true_iff, memN_false in Hnil'.
      rewrite fold_aset_nodup.
      2:{ cbn [app map fst]. constructor; assumption. }
      cbn [app alookup]. destruct (N.eqb_spec NIL TYPE) as [He|_]; [contradiction|].
      destruct (alookup TYPE xa) as [ty|] eqn:Ety; [|discriminate].
      destruct (split_colon ty) as [[[|c0 ns'] tn]|] eqn:Esp; try discriminate.
      apply andb_true_iff in Hty as [Hcv Hxs].
      pose proof (split_colon_join _ _ _ Esp) as Hj.
      destruct ty as [|a b]; [discriminate|]. rewrite Esp.
      destruct (av_conv tn (ch :: t0)) as [t'| |]; try discriminate.
      apply str_eqb_eq in Hcv. subst t'.
      rewrite <- Hj.
      assert (Hd : adel NIL ((NIL, s2l "true") :: xa) = xa).
      { unfold adel. cbn [filter fst]. rewrite N.eqb_refl. cbn [negb]. apply adel_notin; exact Hnil'. }
      rewrite Hd. rewrite (aset_same TYPE _ xa Ety).
      destruct (starts_xs (a :: b)); [|reflexivity].
      destruct (alookup XMLNS_XS xa) as [v|] eqn:Ex; [|discriminate].
      apply str_eqb_eq in Hxs. subst v. rewrite (aset_same _ _ _ Ex). reflexivity.
  Qed.

  Lemma roundtrip_node S c a t K xa xe :
    Forall (fun p => RT S (snd p)) K -> RT S (I c a t K xa xe).
  Proof.
    intros IH Hwf.
    destruct (wf_inst_I _ _ _ _ _ _ _ Hwf) as (r & Hrow & Hwr & Hna & Hsub & Hdef & Hkids & Hsingle & Hxa & Hdisj & Hxe & Hav).
    destruct (wf_row_facts S r Hwr) as (Hchild & Htk & Hnd & Hord & Hsub1 & Hsub2 & Hxml & Hmiss & Hinit & Hunk & Hnil).
    rewrite Forall_forall in IH.
    assert (HK : forall m k, In (m, k) K ->
              serialise S k = Ok (ser_tot S k) /\ KidOK NIL TYPE XMLNS_XS S r m k).
    { intros m k Hin. destruct (Hkids m k Hin) as (ch & Hfc & Hcls & Hwk).
      destruct (IH (m, k) Hin Hwk) as (ck & rk & Hck & Hrk & Hs & Ht & Hp & Hnn).
      split; [exact Hs|].
      apply (find_some_key c_member) in Hfc as [Hch Hm].
      cbn [snd] in *. rewrite Hck in Hcls.
      destruct (c_cls ch) as [c'|] eqn:Ec; [|discriminate]. cbn [optN_eqb] in Hcls. apply N.eqb_eq in Hcls. subst c'.
      exists ch, ck. repeat split; try assumption.
      pose proof (Hchild ch Hch) as Hco. unfold child_ok in Hco. rewrite Ec, Hrk in Hco.
      apply N.eqb_eq in Hco. rewrite Ht. exact Hco. }
    assert (Hser : serialise S (I c a t K xa xe)
                   = Ok (X (k_qtag r) (known_attrs r a ++ xa) t
                           (flat_map (fun m => map (ser_tot S) (kids_of m K)) (order_of r) ++ xe))).
    { cbn [serialise]. rewrite Hrow. apply ser_node_wf; try assumption.
      intros m k Hin _. apply (HK m k Hin). }
    exists c, r. unfold ser_tot at 1 2 3. rewrite Hser. cbn [xtag cls_of].
    repeat split; try reflexivity; try assumption.
    - rewrite parse_unfold. rewrite (norm_I S c r); [|exact Hrow].
      destruct (over_kind r) eqn:Eo; [| |congruence].
      + apply parse_node_wf; try assumption. intros m k Hin. apply (HK m k Hin).
      + destruct (Hnil eq_refl) as [Hc Ha].
        assert (K = []).
        { destruct K as [|[m k] K']; [reflexivity|]. destruct (Hkids m k (or_introl eq_refl)) as (ch & Hfc & _).
          unfold find_child_by_member in Hfc. rewrite Hc in Hfc. discriminate. }
        assert (a = []).
        { destruct a as [|[m v] a']; [reflexivity|]. specialize (Hsub m (or_introl eq_refl)).
          unfold attr_members in Hsub. rewrite Ha in Hsub. destruct Hsub. }
        subst K a. unfold norm_attrs, known_attrs. rewrite Hc, Ha. cbn [flat_map app].
        assert (Ho : order_of r = []).
        { destruct (order_of r) as [|m l] eqn:Eor; [reflexivity|]. specialize (Hsub1 m (or_introl eq_refl)).
          unfold child_members in Hsub1. rewrite Hc in Hsub1. destruct Hsub1. }
        rewrite Ho. cbn [flat_map app].
        apply (av_parse_ok S c r); try assumption. apply Hav; reflexivity.
    - rewrite (norm_I S c r); [|exact Hrow]. discriminate.
  Qed.

  Theorem roundtrip_parse S : forall k, RT S k.
  Proof.
    apply inst_ind'.
    - intros H. discriminate.
    - intros c a t k xa xe IH. apply roundtrip_node; exact IH.
  Qed.
End Main.

(* ------------------------------------------------------------ norm re-serialises identically *)
Lemma kids_of_app {A} m (a b : list (N * A)) : kids_of m (a ++ b) = kids_of m a ++ kids_of m b.
Proof. unfold kids_of. rewrite filter_app, map_app. reflexivity. Qed.

Lemma kids_of_pair {A} m m' (l : list A) :
  kids_of m (map (fun x => (m', x)) l) = if m' =? m then l else [].
Proof.
  unfold kids_of. induction l as [|x l IH]; cbn [map filter fst]; [destruct (m' =? m); reflexivity|].
  destruct (m' =? m) eqn:E; cbn [map snd]; [f_equal|]; exact IH.
Qed.

Lemma kids_of_grouped {A} (f : N -> list A) m (L : list child_row) :
  NoDup (map c_member L) -> In m (map c_member L) ->
  kids_of m (flat_map (fun ch => map (fun x => (c_member ch, x)) (f (c_member ch))) L) = f m.
Proof.
  induction L as [|ch L IH]; intros Hnd Hin; [destruct Hin|].
  cbn [flat_map]. rewrite kids_of_app, kids_of_pair.
  cbn [map] in Hnd, Hin. inversion Hnd as [|? ? Hni Hnd']; subst.
  destruct (N.eqb_spec (c_member ch) m) as [He|Hne].
  - subst m.
    assert (Hz : kids_of (c_member ch) (flat_map (fun ch0 => map (fun x => (c_member ch0, x)) (f (c_member ch0))) L) = []).
    { clear IH Hnd Hnd' Hin. induction L as [|c2 L IHL]; [reflexivity|].
      cbn [flat_map]. rewrite kids_of_app, kids_of_pair.
      destruct (N.eqb_spec (c_member c2) (c_member ch)) as [He|_]; [exfalso; apply Hni; left; exact He|].
      apply IHL. intros Hi; apply Hni; right; exact Hi. }
    rewrite Hz, app_nil_r. reflexivity.
  - destruct Hin as [Hin|Hin]; [congruence|]. cbn [app]. apply IH; assumption.
Qed.

Section NormSer.
  Variables (NIL TYPE XMLNS_XS : N).
  Hypothesis HNT : NIL <> TYPE.
  Notation wf_inst := (wf_inst NIL TYPE XMLNS_XS).

  Theorem norm_serialise S : forall k, wf_inst S k = true -> serialise S (norm S k) = serialise S k.
  Proof.
    apply (inst_ind' (fun k => wf_inst S k = true -> serialise S (norm S k) = serialise S k)).
    - reflexivity.
    - intros c a t K xa xe IH Hwf. rewrite Forall_forall in IH.
      destruct (wf_inst_I _ _ _ _ _ _ _ _ _ _ Hwf) as (r & Hrow & Hwr & Hna & Hsub & Hdef & Hkids & Hsingle & Hxa & Hdisj & Hxe & Hav).
      destruct (wf_row_facts S r Hwr) as (Hchild & Htk & Hnd & Hord & Hsub1 & Hsub2 & Hxml & Hmiss & Hinit & Hunk & Hnil).
      assert (HK : forall m k, In (m, k) K -> serialise S k = Ok (ser_tot S k) /\ ser_tot S (norm S k) = ser_tot S k).
      { intros m k Hin. destruct (Hkids m k Hin) as (ch & _ & _ & Hwk).
        destruct (roundtrip_parse NIL TYPE XMLNS_XS HNT S k Hwk) as (_ & _ & _ & _ & Hs & _).
        split; [exact Hs|]. pose proof (IH (m, k) Hin Hwk) as Hi. cbn [snd] in Hi.
        unfold ser_tot. rewrite Hi. reflexivity. }
      rewrite (norm_I S c r) by exact Hrow.
      cbn [serialise]. rewrite Hrow.
      rewrite ser_node_wf; try assumption.
      + rewrite ser_node_wf; try assumption.
        * f_equal. f_equal.
          -- f_equal. unfold known_attrs, norm_attrs. apply flat_map_ext_in. intros x Hx.
             rewrite (proj_lookup a_member a_member a (k_attrs r) x); [reflexivity| |exact Hx].
             unfold declared_members, attr_members in Hnd. eapply NoDup_app_r; exact Hnd.
          -- f_equal. apply flat_map_ext_in. intros m Hm.
             rewrite (kids_of_grouped (fun m => map (norm S) (kids_of m K))).
             ++ rewrite map_map. apply map_ext_in. intros k Hk. apply (HK m k). apply kids_of_In; exact Hk.
             ++ unfold declared_members, child_members in Hnd. eapply NoDup_app_l; exact Hnd.
             ++ apply Hsub1; exact Hm.
        * intros m k Hin _. apply (HK m k Hin).
      + intros m Hm. apply (proj_keys a_member a_member a). exact Hm.
      + intros m k' Hin _.
        apply in_flat_map in Hin as [ch [Hch Hin]]. apply in_map_iff in Hin as [k2 [He Hin]].
        inversion He; subst. apply in_map_iff in Hin as [k [He2 Hin]]. subst k'.
        apply kids_of_In in Hin. destruct (HK _ _ Hin) as [Hs Ht].
        destruct (Hkids _ _ Hin) as (_ & _ & _ & Hwk).
        pose proof (IH (c_member ch, k) Hin Hwk) as Hi. cbn [snd] in Hi.
        rewrite Hi. rewrite Ht. exact Hs.
  Qed.
End NormSer.

(* ------------------------------------------------------------ sequence order, foreign content *)
Section Shape.
  Variables (NIL TYPE XMLNS_XS : N).
  Hypothesis HNT : NIL <> TYPE.
  Notation wf_inst := (wf_inst NIL TYPE XMLNS_XS).
  Notation parse := (parse NIL TYPE XMLNS_XS).

  (* what a well-formed object serialises to: known attributes in c_attributes order then the
     extension attributes; children grouped by member in c_child_order order, each member's list
     in list order, then the extension elements *)
  Theorem serialise_shape S c a t K xa xe r :
    wf_inst S (I c a t K xa xe) = true -> find_row S c = Some r ->
    serialise S (I c a t K xa xe)
    = Ok (X (k_qtag r) (known_attrs r a ++ xa) t
            (flat_map (fun m => map (ser_tot S) (kids_of m K)) (order_of r) ++ xe))
    /\ (forall m k, In (m, k) K -> serialise S k = Ok (ser_tot S k)).
  Proof.
    intros Hwf Hrow0.
    destruct (wf_inst_I _ _ _ _ _ _ _ _ _ _ Hwf) as (r' & Hrow & Hwr & Hna & Hsub & Hdef & Hkids & Hsingle & Hxa & Hdisj & Hxe & Hav).
    rewrite Hrow0 in Hrow. inversion Hrow; subst r'.
    destruct (wf_row_facts S r Hwr) as (Hchild & Htk & Hnd & Hord & Hsub1 & Hsub2 & Hxml & Hmiss & Hinit & Hunk & Hnil).
    assert (HK : forall m k, In (m, k) K -> serialise S k = Ok (ser_tot S k)).
    { intros m k Hin. destruct (Hkids m k Hin) as (ch & _ & _ & Hwk).
      destruct (roundtrip_parse NIL TYPE XMLNS_XS HNT S k Hwk) as (_ & _ & _ & _ & Hs & _). exact Hs. }
    split; [|exact HK].
    cbn [serialise]. rewrite Hrow0. apply ser_node_wf; try assumption.
    intros m k Hin _. apply (HK m k Hin).
  Qed.

  (* whatever the document holds beyond the class's tables is kept, in order, as extension content *)
  Theorem foreign_kept S c tag attrs text kids c2 a t K xa xe r :
    parse S c (X tag attrs text kids) = Ok (I c2 a t K xa xe) ->
    find_row S c = Some r -> over_kind r = OGeneric ->
    xe = filter (fun k => negb (memN (xtag k) (map c_tagkey (k_children r)))) kids /\
    xa = filter (fun p => negb (memN (fst p) (map a_xml (k_attrs r)))) attrs /\ t = text.
  Proof.
    intros Hp Hrow Hgen. rewrite parse_unfold in Hp. unfold parse_node in Hp. rewrite Hrow in Hp.
    destruct (negb (tag =? k_qtag r)); [discriminate|].
    destruct (negb (k_init_ok r)); [discriminate|].
    destruct (negb (nodupN (declared_members r))); [discriminate|].
    destruct (sequence _) as [cl|]; [|discriminate]. rewrite Hgen in Hp. inversion Hp; subst.
    repeat split. unfold foreign_kids. clear.
    induction kids as [|k l IH]; cbn [map filter]; [reflexivity|].
    unfold pk_tag at 1. cbn [mk fst]. destruct (negb (memN (xtag k) (map c_tagkey (k_children r)))); cbn [map]; [f_equal|]; exact IH.
  Qed.
End Shape.

(* norm keeps every member: same attribute values, same children (normalised), same text and
   extension content *)
Theorem norm_same_members NIL TYPE XMLNS_XS S c a t K xa xe r :
  wf_inst NIL TYPE XMLNS_XS S (I c a t K xa xe) = true -> find_row S c = Some r ->
  exists a' K', norm S (I c a t K xa xe) = I c a' t K' xa xe /\
    (forall x, In x (k_attrs r) -> alookup (a_member x) a' = alookup (a_member x) a) /\
    (forall ch, In ch (k_children r) -> kids_of (c_member ch) K' = map (norm S) (kids_of (c_member ch) K)).
Proof.
  intros Hwf Hrow0.
  destruct (wf_inst_I _ _ _ _ _ _ _ _ _ _ Hwf) as (r' & Hrow & Hwr & _).
  rewrite Hrow0 in Hrow. inversion Hrow; subst r'.
  destruct (wf_row_facts S r Hwr) as (_ & _ & Hnd & _).
  eexists. eexists. split; [apply (norm_I S c r); exact Hrow0|]. split.
  - intros x Hx. unfold norm_attrs. apply (proj_lookup a_member a_member); [|exact Hx].
    unfold declared_members, attr_members in Hnd. eapply NoDup_app_r; exact Hnd.
  - intros ch Hch. apply (kids_of_grouped (fun m => map (norm S) (kids_of m K))).
    + unfold declared_members, child_members in Hnd. eapply NoDup_app_l; exact Hnd.
    + apply in_map; exact Hch.
Qed.

(* ------------------------------------------------------------ whole-schema form *)
(* over a schema all of whose rows are well-formed, the object-level conditions are all
   that wf_inst asks *)
Lemma wf_schema_row S c r : wf_schema S = true -> find_row S c = Some r -> wf_row S r = true.
Proof.
  intros HS Hf. unfold find_row in Hf. apply find_some in Hf as [Hin _].
  unfold wf_schema in HS. rewrite forallb_forall in HS. apply HS. exact Hin.
Qed.

Lemma obj_ok_wf_inst NIL TYPE XMLNS_XS S :
  wf_schema S = true ->
  forall i, obj_ok NIL TYPE XMLNS_XS S i = true -> wf_inst NIL TYPE XMLNS_XS S i = true.
Proof.
  intros HS.
  apply (inst_ind' (fun i => obj_ok NIL TYPE XMLNS_XS S i = true -> wf_inst NIL TYPE XMLNS_XS S i = true)).
  - intros H. exact H.
  - intros c a t K xa xe IH H. cbn [obj_ok] in H. cbn [wf_inst].
    destruct (find_row S c) as [r|] eqn:Er; [|discriminate].
    rewrite (wf_schema_row S c r HS Er). cbn [andb].
    apply andb_true_iff in H as [H H9]. apply andb_true_iff in H as [H H8].
    apply andb_true_iff in H as [H H7]. apply andb_true_iff in H as [H H6].
    apply andb_true_iff in H as [H H5]. apply andb_true_iff in H as [H H4].
    apply andb_true_iff in H as [H H3]. apply andb_true_iff in H as [H1 H2].
    rewrite H1, H2, H3, H5, H6, H7, H8, H9. cbn [andb]. rewrite !andb_true_r.
    rewrite forallb_forall in H4. rewrite Forall_forall in IH.
    apply forallb_forall. intros [m k] Hin. specialize (H4 _ Hin). cbn in H4. cbn.
    destruct (find_child_by_member r m) as [ch|]; [|discriminate].
    apply andb_true_iff in H4 as [Ha Hb]. rewrite Ha. cbn [andb].
    apply (IH (m, k) Hin). exact Hb.
Qed.

(* the converse direction is immediate and not needed; wf_inst = wf_row at every node + obj_ok *)
