(* Proofs/Schema_table.v — obligations the kernel evaluates on the REGENERATED tables *)
From PV Require Import Lib.Base Model.Schema Model.SchemaBeforeFix Gen.SchemaTables Proofs.Schema_lemmas.
Open Scope N_scope.

(* every regenerated row is well-formed: no exception list *)
Lemma actual_schema_wf : wf_schema actual_schema = true.
Proof. vm_compute. reflexivity. Qed.

Lemma actual_row_wf r : In r actual_schema -> wf_row actual_schema r = true.
Proof.
  intros Hin. pose proof actual_schema_wf as H. unfold wf_schema in H.
  rewrite forallb_forall in H. exact (H r Hin).
Qed.

Lemma no_bad_rows : bad_rows actual_schema = [].
Proof. vm_compute. reflexivity. Qed.

Lemma no_bad_members : bad_members actual_schema = [].
Proof. vm_compute. reflexivity. Qed.

(* the per-member diagnosis used for reports is exact *)
Lemma row_defects_exact :
  forallb (fun r => Bool.eqb (wf_row actual_schema r) (match row_defects actual_schema r with [] => true | _ => false end))
          actual_schema = true.
Proof. vm_compute. reflexivity. Qed.

Lemma element_maps_agree : maps_ok class_local_tag element_maps = true.
Proof. vm_compute. reflexivity. Qed.

Lemma class_ids_are_positions :
  forallb (fun p => fst p =? k_id (snd p)) (combine (map N.of_nat (seq 0 (List.length actual_schema))) actual_schema) = true.
Proof. vm_compute. reflexivity. Qed.

Lemma xsi_names_distinct : x_xsi_nil <> x_xsi_type.
Proof. vm_compute. discriminate. Qed.

(* every class has instances the round-trip theorem speaks about: the object cls() satisfies
   obj_ok, serialises, parses back to itself and re-serialises to the same tree *)
Definition fresh_roundtrips (r : class_row) : bool :=
  let i := fresh_inst x_xsi_nil r in
  obj_ok x_xsi_nil x_xsi_type x_xmlns_xs actual_schema i
  && match serialise actual_schema i with
     | Ok x => match parse x_xsi_nil x_xsi_type x_xmlns_xs actual_schema (k_id r) x with
               | Ok j => match serialise actual_schema j with
                         | Ok y => val_eqb (show_xtree x) (show_xtree y)
                                   && val_eqb (show_inst actual_schema j) (show_inst actual_schema i)
                         | Err _ => false end
               | Err _ => false end
     | Err _ => false
     end.
Lemma every_class_fresh_roundtrips : forallb fresh_roundtrips actual_schema = true.
Proof. vm_compute. reflexivity. Qed.

Lemma example_ok : obj_ok x_xsi_nil x_xsi_type x_xmlns_xs actual_schema example_inst = true.
Proof. vm_compute. reflexivity. Qed.

Lemma example_roundtrip :
  match serialise actual_schema example_inst with
  | Ok x => match parse x_xsi_nil x_xsi_type x_xmlns_xs actual_schema (match cls_of example_inst with Some c => c | None => 0 end) x with
            | Ok j => match serialise actual_schema j with Ok y => true | Err _ => false end
            | Err _ => false end
  | Err _ => false
  end = true.
Proof. vm_compute. reflexivity. Qed.
