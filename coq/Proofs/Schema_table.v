(* Proofs/Schema_table.v — obligations the kernel evaluates on the REGENERATED tables *)
From PV Require Import Lib.Base Model.Schema Gen.SchemaTables Proofs.Schema_lemmas.
Open Scope N_scope.

(* every regenerated row is well-formed, except the rows recorded as findings *)
Lemma actual_rows_checked :
  forallb (fun r => wf_row actual_schema r || memN (k_id r) known_bad_rows) actual_schema = true.
Proof. vm_compute. reflexivity. Qed.

Lemma actual_schema_wf r :
  In r actual_schema -> ~ In (k_id r) known_bad_rows -> wf_row actual_schema r = true.
Proof.
  intros Hin Hnk. pose proof actual_rows_checked as H. rewrite forallb_forall in H.
  specialize (H r Hin). apply orb_true_iff in H as [H|H]; [exact H|].
  apply memN_In in H. contradiction.
Qed.

Lemma bad_rows_known : forall c, In c (bad_rows actual_schema) -> In c known_bad_rows.
Proof.
  assert (H : forallb (fun c => memN c known_bad_rows) (bad_rows actual_schema) = true) by (vm_compute; reflexivity).
  rewrite forallb_forall in H. intros c Hc. apply memN_In, H, Hc.
Qed.

(* the per-member diagnosis used for reports is exact *)
Lemma row_defects_exact :
  forallb (fun r => Bool.eqb (wf_row actual_schema r) (match row_defects actual_schema r with [] => true | _ => false end))
          actual_schema = true.
Proof. vm_compute. reflexivity. Qed.

Lemma element_maps_agree : maps_ok class_local_tag element_maps = true.
Proof. vm_compute. reflexivity. Qed.

Lemma class_ids_are_positions :
  forallb (fun p => fst p =? k_id (snd p)) (combine (map N.of_nat (seq 0 (List.length actual_schema))) actual_schema) = true.
Proof. vm_compute. reflexivity. Qed.

Lemma xsi_names_distinct : x_xsi_nil <> x_xsi_type.
Proof. vm_compute. discriminate. Qed.

Lemma example_wf : wf_inst x_xsi_nil x_xsi_type x_xmlns_xs actual_schema example_inst = true.
Proof. vm_compute. reflexivity. Qed.

Lemma example_roundtrip :
  match serialise actual_schema example_inst with
  | Ok x => match parse x_xsi_nil x_xsi_type x_xmlns_xs actual_schema (match cls_of example_inst with Some c => c | None => 0 end) x with
            | Ok j => match serialise actual_schema j with Ok y => true | Err _ => false end
            | Err _ => false end
  | Err _ => false
  end = true.
Proof. vm_compute. reflexivity. Qed.
