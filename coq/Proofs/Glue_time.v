(* Proofs/Glue_time.v — GLUE: the time tests, stated once.

     time_util.before / valid / not_on_or_after  (now <= point)      Model/MdStore.v valid, Model/Cache.v t_before / t_after
     validate.validate_on_or_after / validate_before (with slack)     Model/Response.v (C04, C05, C17)
     issue_instant_ok (one day either side, with slack)               Model/Response.v (C04) and Model/Request.v (C10)

   [not_past now p] and [day_window now slack t] are the two arithmetic facts; every copy is one of them. *)
From PV Require Import Lib.Base.
From PV Require Model.Status Model.Response Model.Request Model.Cache Model.MdStore.
Module RS := PV.Model.Response.
Module RQ := PV.Model.Request.
Module CA := PV.Model.Cache.
Module MS := PV.Model.MdStore.
Open Scope Z_scope.

(* time_util.before(point) for a point that is present: the point has not passed *)
Definition not_past (now p : Z) : bool := now <=? p.
(* issue_instant_ok: lower <= t < upper, one day and the allowance either side of now *)
Definition day_window (now slack t : Z) : bool := (now - 86400 - slack <=? t) && (t <? now + 86400 + slack).

Lemma not_past_spec now p : not_past now p = true <-> now <= p.
Proof. apply Z.leb_le. Qed.
Lemma day_window_spec now slack t : day_window now slack t = true <-> now - 86400 - slack <= t < now + 86400 + slack.
Proof. unfold day_window. rewrite andb_true_iff, Z.leb_le, Z.ltb_lt. tauto. Qed.

(* a larger allowance only widens the window; the window is never empty for a non-negative allowance *)
Lemma day_window_mono now s1 s2 t : s1 <= s2 -> day_window now s1 t = true -> day_window now s2 t = true.
Proof. rewrite !day_window_spec. lia. Qed.
Lemma day_window_now now slack : 0 <= slack -> day_window now slack now = true.
Proof. rewrite day_window_spec. lia. Qed.

(* ---- the copies ---- *)
Theorem mdstore_valid_is_not_past now t : MS.valid now (Some t) = not_past now t /\ MS.valid now None = true.
Proof. split; reflexivity. Qed.

Theorem cache_tests_are_not_past now z :
  CA.t_before now (CA.At z) = not_past now z /\ CA.t_after now (CA.At z) = negb (not_past now z) /\
  CA.t_before now CA.Falsy = true /\ CA.t_after now CA.Falsy = true.
Proof. repeat split; reflexivity. Qed.

(* validate_on_or_after(not_on_or_after, slack) raises unless now <= nooa + slack; validate_before(not_before, slack)
   raises unless not_before <= now + slack *)
Theorem response_lifetime_tests_are_not_past c t :
  is_ok (RS.validate_on_or_after c (Some t)) = not_past (RS.now c) (t + RS.slack c) /\
  is_ok (RS.validate_before c (Some t)) = not_past t (RS.now c + RS.slack c).
Proof.
  unfold RS.validate_on_or_after, RS.validate_before, not_past. split.
  - rewrite Z.gtb_ltb. destruct (Z.ltb_spec (t + RS.slack c) (RS.now c)); destruct (Z.leb_spec (RS.now c) (t + RS.slack c)); cbn; try reflexivity; lia.
  - rewrite Z.gtb_ltb. destruct (Z.ltb_spec (RS.now c + RS.slack c) t); destruct (Z.leb_spec t (RS.now c + RS.slack c)); cbn; try reflexivity; lia.
Qed.

(* the IssueInstant window of responses (C04) and of requests (C10): one predicate *)
Theorem issue_instant_windows_are_day_window :
  (forall c t, RS.issue_instant_ok c t = day_window (RS.now c) (RS.slack c) t) /\
  (forall c t, RQ.issue_instant_ok c t = day_window (RQ.c_now c) (RQ.c_slack c) t).
Proof. split; reflexivity. Qed.

Theorem issue_instant_same cs cq t :
  RS.now cs = RQ.c_now cq -> RS.slack cs = RQ.c_slack cq -> RS.issue_instant_ok cs t = RQ.issue_instant_ok cq t.
Proof. intros Hn Hs. unfold RS.issue_instant_ok, RQ.issue_instant_ok. now rewrite Hn, Hs. Qed.

Theorem request_in_window_is_day_window c t : RQ.in_window c t <-> day_window (RQ.c_now c) (RQ.c_slack c) t = true.
Proof. unfold RQ.in_window. now rewrite day_window_spec. Qed.

(* C04 and C19 side by side: the SP accepts an assertion up to [slack] seconds after its NotOnOrAfter, the session
   cache (which stores that NotOnOrAfter) applies no allowance: an assertion accepted inside the allowance is stored
   already expired - cache.get raises ToOld for it, cache.active says false *)
Theorem accepted_inside_allowance_is_expired_in_cache c nooa :
  is_ok (RS.validate_on_or_after c (Some nooa)) = true -> nooa < RS.now c ->
  CA.t_after (RS.now c) (CA.At nooa) = true /\ CA.t_before (RS.now c) (CA.At nooa) = false.
Proof.
  intros _ Hlt. cbn [CA.t_after CA.t_before]. destruct (Z.leb_spec (RS.now c) nooa); [lia|]. split; reflexivity.
Qed.
(* ... and outside the allowance nothing differs: accepted and not yet past => served *)
Theorem accepted_before_expiry_is_live_in_cache c nooa :
  RS.now c <= nooa -> is_ok (RS.validate_on_or_after c (Some nooa)) = true \/ RS.slack c < 0.
Proof.
  intros H. destruct (Z.ltb_spec (RS.slack c) 0) as [Hs|Hs]; [now right|left].
  destruct (response_lifetime_tests_are_not_past c nooa) as [-> _]. apply not_past_spec. lia.
Qed.
