(* Proofs/IdpBuildTree_lemmas.v — C08, tree level: the one-pass reader recovers
   exactly the tree ElementTree serialised, whatever the text and attribute values are. *)
From PV Require Import Lib.Base Model.Codec Model.IdpBuild Proofs.IdpBuild_lemmas.
Open Scope N_scope.

(* ------------------------------------------------------------------ *)
(* trees: induction principle, tokens                                    *)
(* ------------------------------------------------------------------ *)
Fixpoint xml_ind' (P : xml -> Prop)
         (H : forall tag attrs text kids, Forall P kids -> P (Node tag attrs text kids)) (t : xml) : P t :=
  match t with
  | Node tag attrs text kids =>
      H tag attrs text kids
        ((fix go (l : list xml) : Forall P l :=
            match l with [] => Forall_nil P | k :: r => Forall_cons k (xml_ind' P H k) (go r) end) kids)
  end.

Definition text_tok (text : str) : list token := match text with [] => [] | _ => [TText (norm_eol text)] end.
Fixpoint tokens (t : xml) : list token :=
  match t with
  | Node tag attrs text kids =>
      match text, kids with
      | [], [] => [TEmpty tag attrs]
      | _, _ => TOpen tag attrs :: text_tok text ++ flat_map tokens kids ++ [TClose tag]
      end
  end.

Lemma tsteps_app st a b out :
  tsteps st (a ++ b) out = match tsteps st a out with Some (st', out') => tsteps st' b out' | None => None end.
Proof.
  revert st out. induction a as [|c a IH]; intros st out; [reflexivity|].
  cbn [app tsteps]. destruct (tstep st c out) as [[st' out']|]; [apply IH|reflexivity].
Qed.

(* name characters are none of the delimiters the tokenizer looks for *)
Lemma name_char_plain c : name_char c = true ->
  (c =? 62) = false /\ (c =? 47) = false /\ is_ws c = false /\ (c =? 61) = false /\ (c =? 34) = false /\ (c =? 60) = false.
Proof.
  unfold name_char, is_alpha, is_digit, is_ws. intros H.
  repeat (apply orb_true_iff in H; destruct H as [H|H]);
    repeat (apply andb_true_iff in H; destruct H as [? H]);
    repeat match goal with
           | X : (_ <=? _) = true |- _ => apply N.leb_le in X
           | X : (_ =? _) = true |- _ => apply N.eqb_eq in X
           end;
    repeat split; try (apply N.eqb_neq; lia);
    repeat (apply orb_false_iff; split); apply N.eqb_neq; lia.
Qed.
Lemma name_start_char c : name_start c = true -> name_char c = true.
Proof.
  unfold name_start, name_char. intros H. apply orb_true_iff in H as [H|H]; rewrite H; [reflexivity|].
  now rewrite !orb_true_r.
Qed.

Lemma name_ok_inv s : name_ok s = true -> exists c r, s = c :: r /\ name_start c = true /\ forallb name_char r = true.
Proof.
  destruct s as [|c r]; [discriminate|]. cbn [name_ok]. intros H. apply andb_true_iff in H as [A B]. now exists c, r.
Qed.

Lemma name_ok_snoc buf : forall acc,
  forallb name_char buf = true ->
  name_ok (rev acc) = true -> name_ok (rev (rev buf ++ acc)) = true.
Proof.
  intros acc Hb Ha. rewrite rev_app_distr, rev_involutive.
  apply name_ok_inv in Ha as (c & r & E & S & R). rewrite E. cbn [app name_ok]. rewrite S, forallb_app, R, Hb. reflexivity.
Qed.

(* reading a name character by character *)
Lemma open_name_run rest : forall buf out, forallb name_char rest = true ->
  tsteps (SOpenName buf) rest out = Some (SOpenName (rev rest ++ buf), out).
Proof.
  induction rest as [|c rest IH]; intros buf out H; [reflexivity|].
  cbn [forallb] in H. apply andb_true_iff in H as [Hc Hr].
  destruct (name_char_plain c Hc) as (E62 & E47 & Ews & _).
  cbn [tsteps tstep]. rewrite E62, E47, Ews, Hc. rewrite IH by exact Hr. cbn [rev]. now rewrite <- app_assoc.
Qed.
Lemma attr_name_run rest : forall tag attrs buf out, forallb name_char rest = true ->
  tsteps (SAttrName tag attrs buf) rest out = Some (SAttrName tag attrs (rev rest ++ buf), out).
Proof.
  induction rest as [|c rest IH]; intros tag attrs buf out H; [reflexivity|].
  cbn [forallb] in H. apply andb_true_iff in H as [Hc Hr].
  destruct (name_char_plain c Hc) as (_ & _ & Ews & E61 & _).
  cbn [tsteps tstep]. rewrite E61, Ews, Hc. rewrite IH by exact Hr. cbn [rev]. now rewrite <- app_assoc.
Qed.
Lemma close_name_run rest : forall buf out, forallb name_char rest = true -> buf <> [] ->
  tsteps (SCloseName buf) rest out = Some (SCloseName (rev rest ++ buf), out).
Proof.
  induction rest as [|c rest IH]; intros buf out H Hb; [reflexivity|].
  cbn [forallb] in H. apply andb_true_iff in H as [Hc Hr].
  destruct (name_char_plain c Hc) as (E62 & _ & Ews & _).
  cbn [tsteps tstep]. rewrite E62, Ews. destruct buf as [|b0 buf]; [congruence|]. rewrite Hc.
  rewrite IH by (assumption || discriminate). cbn [rev]. now rewrite <- app_assoc.
Qed.
Lemma attr_val_run v : forall tag attrs name buf out,
  forallb (fun c => negb (c =? 34)) v = true ->
  tsteps (SAttrVal tag attrs name buf) v out = Some (SAttrVal tag attrs name (rev v ++ buf), out).
Proof.
  induction v as [|c v IH]; intros tag attrs name buf out H; [reflexivity|].
  cbn [forallb] in H. apply andb_true_iff in H as [Hc Hr]. apply negb_true_iff in Hc.
  cbn [tsteps tstep]. rewrite Hc. rewrite IH by exact Hr. cbn [rev]. now rewrite <- app_assoc.
Qed.
Lemma content_run v : forall buf out,
  forallb (fun c => negb (c =? 60)) v = true ->
  tsteps (SContent buf) v out = Some (SContent (rev v ++ buf), out).
Proof.
  induction v as [|c v IH]; intros buf out H; [reflexivity|].
  cbn [forallb] in H. apply andb_true_iff in H as [Hc Hr]. apply negb_true_iff in Hc.
  cbn [tsteps tstep]. rewrite Hc. rewrite IH by exact Hr. cbn [rev]. now rewrite <- app_assoc.
Qed.

Lemma escape_attrib_no_quote v : forallb (fun c => negb (c =? 34)) (escape_attrib v) = true.
Proof.
  destruct (escape_attrib_safe v) as [H _]. rewrite forallb_forall in H |- *. intros c Hc. specialize (H c Hc).
  apply negb_true_iff in H. apply negb_true_iff. repeat (apply orb_false_iff in H; destruct H as [H ?]). assumption.
Qed.
Lemma escape_cdata_no_lt v : forallb (fun c => negb (c =? 60)) (escape_cdata v) = true.
Proof.
  destruct (escape_cdata_safe v) as [H _]. rewrite forallb_forall in H |- *. intros c Hc. specialize (H c Hc).
  apply negb_true_iff in H. apply negb_true_iff. apply orb_false_iff in H. tauto.
Qed.

(* one attribute: from "just after the tag name / a value" to "just after its value" *)
Lemma has_key_false_rev k l : has_key k l = false -> has_key k (rev l) = false.
Proof.
  unfold has_key. intros H. destruct (existsb (fun kv => str_eqb k (fst kv)) (rev l)) eqn:E; [|reflexivity].
  apply existsb_exists in E as (x & Hx & Ex). apply in_rev in Hx.
  assert (existsb (fun kv => str_eqb k (fst kv)) l = true) by (apply existsb_exists; now exists x). congruence.
Qed.

Lemma one_attr tag acc kv out :
  name_ok (fst kv) = true -> has_key (fst kv) acc = false ->
  tsteps (SAfterVal tag acc) (ser_attr kv) out = Some (SAfterVal tag (kv :: acc), out).
Proof.
  intros Hn Hk. destruct kv as [k v]. cbn [fst snd] in *. unfold ser_attr. cbn [fst snd].
  apply name_ok_inv in Hn as (c & r & -> & S & R).
  assert (name_char c = true) as Hc by now apply name_start_char.
  destruct (name_char_plain c Hc) as (E62 & E47 & Ews & E61 & _).
  cbn [app tsteps tstep N.eqb Pos.eqb is_ws orb]. cbn [tstep]. rewrite E62, E47, Ews, S.
  rewrite tsteps_app, attr_name_run by exact R. cbn [tsteps tstep N.eqb Pos.eqb].
  assert (rev (rev r ++ [c]) = c :: r) as -> by (rewrite rev_app_distr, rev_involutive; reflexivity).
  rewrite Hk. cbn [tsteps tstep N.eqb Pos.eqb]. rewrite tsteps_app, attr_val_run by apply escape_attrib_no_quote.
  cbn [tsteps tstep N.eqb Pos.eqb]. rewrite app_nil_r, rev_involutive, unescape_attr_escape. reflexivity.
Qed.

Fixpoint disjoint_keys (l acc : list (str * str)) : bool :=
  match l with [] => true | kv :: r => negb (has_key (fst kv) acc) && disjoint_keys r acc end.

Lemma has_key_cons k kv acc : has_key k (kv :: acc) = str_eqb k (fst kv) || has_key k acc.
Proof. reflexivity. Qed.

Lemma attrs_run tag l : forall acc out,
  forallb (fun kv => name_ok (fst kv)) l = true -> nodup_keys l = true -> disjoint_keys l acc = true ->
  tsteps (SAfterVal tag acc) (ser_attrs l) out = Some (SAfterVal tag (rev l ++ acc), out).
Proof.
  induction l as [|kv l IH]; intros acc out Hn Hd Hj; [reflexivity|].
  cbn [forallb] in Hn. apply andb_true_iff in Hn as [Hn1 Hn2].
  cbn [nodup_keys] in Hd. apply andb_true_iff in Hd as [Hd1 Hd2]. apply negb_true_iff in Hd1.
  cbn [disjoint_keys] in Hj. apply andb_true_iff in Hj as [Hj1 Hj2]. apply negb_true_iff in Hj1.
  unfold ser_attrs. cbn [flat_map]. rewrite tsteps_app, one_attr by assumption.
  fold (ser_attrs l). rewrite IH; try assumption.
  - cbn [rev]. now rewrite <- app_assoc.
  - clear IH Hn2 Hd2. induction l as [|kv' l IHl]; [reflexivity|].
    cbn [disjoint_keys] in Hj2 |- *. apply andb_true_iff in Hj2 as [A B].
    cbn [has_key existsb] in Hd1. apply orb_false_iff in Hd1 as [D1 D2].
    rewrite has_key_cons. apply negb_true_iff in A. rewrite A, orb_false_r.
    assert (str_eqb (fst kv') (fst kv) = false) as ->.
    { destruct (str_eqb_spec (fst kv') (fst kv)) as [E|]; [|reflexivity]. rewrite E, str_eqb_refl in D1. discriminate. }
    cbn [negb andb]. apply IHl; assumption.
Qed.

Lemma disjoint_nil l : disjoint_keys l [] = true.
Proof. induction l as [|kv l IH]; [reflexivity|]. cbn. exact IH. Qed.

(* after the tag name the tokenizer moves exactly as after an attribute value *)
Definition head_delim (s : str) : bool :=
  match s with x :: _ => (x =? 62) || (x =? 47) || is_ws x | [] => false end.
Lemma open_as_after buf s out : head_delim s = true ->
  tsteps (SOpenName buf) s out = tsteps (SAfterVal (rev buf) []) s out.
Proof.
  destruct s as [|x xs]; [discriminate|]. cbn [head_delim]. intros H. cbn [tsteps tstep rev].
  destruct (x =? 62); [reflexivity|]. destruct (x =? 47); [reflexivity|]. cbn [orb] in H. rewrite H. reflexivity.
Qed.

Lemma head_delim_app a b : head_delim a = true -> head_delim (a ++ b) = true.
Proof. destruct a; [discriminate|]. intros H; exact H. Qed.

(* "<tag attrs" : from content (with pending text buf) to the point after the last attribute *)
Lemma open_tag_run tag attrs buf out out' rest :
  name_ok tag = true -> forallb (fun kv => name_ok (fst kv)) attrs = true -> nodup_keys attrs = true ->
  flush buf out = Some out' -> head_delim rest = true ->
  tsteps (SContent buf) (60 :: tag ++ ser_attrs attrs ++ rest) out = tsteps (SAfterVal tag (rev attrs)) rest out'.
Proof.
  intros Ht Hn Hd Hf Hrest.
  apply name_ok_inv in Ht as (c & r & -> & S & R).
  assert (name_char c = true) as Hc by now apply name_start_char.
  destruct (name_char_plain c Hc) as (_ & E47 & _).
  cbn [app tsteps tstep N.eqb Pos.eqb]. rewrite Hf. cbn [tstep]. rewrite E47, S.
  rewrite tsteps_app, open_name_run by exact R.
  rewrite open_as_after.
  - assert (rev (rev r ++ [c]) = c :: r) as -> by (rewrite rev_app_distr, rev_involutive; reflexivity).
    rewrite tsteps_app, attrs_run; try assumption; [now rewrite app_nil_r|apply disjoint_nil].
  - destruct attrs as [|kv attrs]; [exact Hrest|reflexivity].
Qed.

Lemma flush_text text o : flush (rev (escape_cdata text)) o = Some (rev (text_tok text) ++ o).
Proof.
  destruct text as [|c text]; [reflexivity|].
  unfold flush. rewrite rev_involutive, unescape_text_escape.
  assert (rev (escape_cdata (c :: text)) <> []) as Hne.
  { rewrite escape_cdata_cons. intros E. apply (f_equal (@List.length N)) in E. rewrite rev_length, app_length in E.
    destruct (etc_cases c) as [[_ X]|[[_ X]|[[_ X]|(_ & _ & _ & X)]]]; rewrite X in E; cbn in E; lia. }
  destruct (rev (escape_cdata (c :: text))); [congruence|]. reflexivity.
Qed.

Lemma content_lt buf o o' r : flush buf o = Some o' -> tsteps (SContent buf) (60 :: r) o = tsteps SLt r o'.
Proof. intros H. cbn [tsteps tstep N.eqb Pos.eqb]. now rewrite H. Qed.

Lemma close_tag_run tag o r : name_ok tag = true ->
  tsteps SLt (47 :: tag ++ 62 :: r) o = tsteps (SContent []) r (TClose tag :: o).
Proof.
  intros Ht. pose proof Ht as Ht0. apply name_ok_inv in Ht as (c & rest & -> & S & R).
  assert (name_char c = true) as Hc by now apply name_start_char.
  destruct (name_char_plain c Hc) as (E62 & _ & Ews & _).
  cbn [app tsteps tstep N.eqb Pos.eqb]. rewrite E62, Ews, S.
  rewrite tsteps_app, close_name_run by (assumption || discriminate).
  cbn [tsteps tstep N.eqb Pos.eqb].
  assert (rev (rev rest ++ [c]) = c :: rest) as -> by (rewrite rev_app_distr, rev_involutive; reflexivity).
  rewrite Ht0. reflexivity.
Qed.

Lemma wf_xml_inv tag attrs text kids : wf_xml (Node tag attrs text kids) = true ->
  name_ok tag = true /\ forallb (fun kv => name_ok (fst kv)) attrs = true /\ nodup_keys attrs = true /\
  forallb (fun kv => forallb xml_char (snd kv)) attrs = true /\ forallb xml_char text = true /\ forallb wf_xml kids = true.
Proof.
  cbn [wf_xml]. intros H.
  apply andb_true_iff in H as [H Hkids]. apply andb_true_iff in H as [H Htext].
  apply andb_true_iff in H as [H Hnd]. apply andb_true_iff in H as [Htag Hattrs].
  repeat split; try assumption.
  - rewrite forallb_forall in *. intros kv Hk. specialize (Hattrs kv Hk). apply andb_true_iff in Hattrs. tauto.
  - rewrite forallb_forall in *. intros kv Hk. specialize (Hattrs kv Hk). apply andb_true_iff in Hattrs. tauto.
Qed.

Ltac finish_lists := f_equal; cbn [text_tok flat_map rev app]; repeat (progress (rewrite ?rev_app_distr, <- ?app_assoc; cbn [rev app])); reflexivity.
Ltac norm_app := repeat (progress (rewrite <- ?app_assoc; cbn [app])).

(* the tokenizer on a serialised tree (with pending character data [buf] in front of it) *)
Lemma tok_node : forall t, wf_xml t = true -> forall buf out out' r, flush buf out = Some out' ->
  tsteps (SContent buf) (serialise t ++ r) out = tsteps (SContent []) r (rev (tokens t) ++ out').
Proof.
  induction t as [tag attrs text kids IH] using xml_ind'. intros W buf out out' r Hf.
  apply wf_xml_inv in W as (Ht & Hn & Hd & _ & _ & Hk).
  (* the children, followed by the '<' of whatever comes next *)
  assert (forall ks, Forall (fun t => wf_xml t = true -> forall buf out out' r, flush buf out = Some out' ->
                                tsteps (SContent buf) (serialise t ++ r) out = tsteps (SContent []) r (rev (tokens t) ++ out')) ks ->
                     forallb wf_xml ks = true ->
                     forall b o o' r', flush b o = Some o' ->
                     tsteps (SContent b) (flat_map serialise ks ++ 60 :: r') o = tsteps SLt r' (rev (flat_map tokens ks) ++ o')) as KIDS.
  { induction ks as [|k ks IHk]; intros F Wk b o o' r' Hfl.
    - cbn [flat_map app tsteps tstep N.eqb Pos.eqb rev]. rewrite Hfl. reflexivity.
    - cbn [flat_map]. inversion F as [|? ? Pk Pks]; subst. cbn [forallb] in Wk. apply andb_true_iff in Wk as [W1 W2].
      rewrite <- app_assoc. rewrite (Pk W1 b o o' _ Hfl). rewrite (IHk Pks W2 [] _ _ r' eq_refl).
      rewrite rev_app_distr, <- app_assoc. reflexivity. }
  cbn [serialise tokens].
  destruct text as [|c0 text0], kids as [|k0 kids0].
  - (* empty element *)
    norm_app.
    rewrite (open_tag_run tag attrs buf out out' (s2l " />" ++ r)) by (assumption || reflexivity).
    change (s2l " />") with [32; 47; 62]. cbn [app tsteps tstep N.eqb Pos.eqb is_ws orb]. rewrite rev_involutive. reflexivity.
  - (* children only *)
    norm_app.
    rewrite (open_tag_run tag attrs buf out out') by (assumption || reflexivity).
    cbn [tsteps tstep N.eqb Pos.eqb]. rewrite rev_involutive. cbn [escape_cdata flat_map app].
    change (serialise k0 ++ flat_map serialise kids0) with (flat_map serialise (k0 :: kids0)).
    rewrite <- ?app_assoc. cbn [app].
    rewrite (KIDS (k0 :: kids0) IH Hk [] _ _ _ eq_refl).
    rewrite close_tag_run by exact Ht.
    finish_lists.
  - (* text only *)
    norm_app.
    rewrite (open_tag_run tag attrs buf out out') by (assumption || reflexivity).
    cbn [tsteps tstep N.eqb Pos.eqb]. rewrite rev_involutive. cbn [flat_map app].
    rewrite tsteps_app, content_run by apply escape_cdata_no_lt. rewrite app_nil_r.
    rewrite (content_lt _ _ _ _ (flush_text _ _)).
    rewrite close_tag_run by exact Ht.
    finish_lists.
  - (* text and children *)
    norm_app.
    rewrite (open_tag_run tag attrs buf out out') by (assumption || reflexivity).
    cbn [tsteps tstep N.eqb Pos.eqb]. rewrite rev_involutive.
    rewrite <- ?app_assoc. rewrite tsteps_app, content_run by apply escape_cdata_no_lt. rewrite app_nil_r.
    cbn [app].
    rewrite (KIDS (k0 :: kids0) IH Hk _ _ _ _ (flush_text (c0 :: text0) _)).
    rewrite close_tag_run by exact Ht.
    finish_lists.
Qed.

Theorem tokenize_serialise t : wf_xml t = true -> tokenize (serialise t) = Some (tokens t).
Proof.
  intros W. unfold tokenize. rewrite <- (app_nil_r (serialise t)).
  rewrite (tok_node t W [] [] [] [] eq_refl). cbn [tsteps flush]. now rewrite app_nil_r, rev_involutive.
Qed.

(* ------------------------------------------------------------------ *)
(* the tree builder on the token stream of a tree                        *)
(* ------------------------------------------------------------------ *)
Lemma norm_eol_nonempty c s : norm_eol (c :: s) <> [].
Proof.
  destruct (N.eq_dec c 13) as [->|N]; [rewrite norm_eol_cr|rewrite norm_eol_other by exact N]; discriminate.
Qed.

Lemma build_node : forall t f up rest,
  build (tokens t ++ rest) (f :: up) None = build rest (add_kid f (norm_xml t) :: up) None.
Proof.
  induction t as [tag attrs text kids IH] using xml_ind'. intros f up rest.
  assert (forall ks, Forall (fun t => forall f up rest, build (tokens t ++ rest) (f :: up) None = build rest (add_kid f (norm_xml t) :: up) None) ks ->
          forall g up' rest', build (flat_map tokens ks ++ rest') (g :: up') None =
                              build rest' ({| f_tag := f_tag g; f_attrs := f_attrs g; f_text := f_text g;
                                              f_kids := rev (map norm_xml ks) ++ f_kids g |} :: up') None) as KIDS.
  { induction ks as [|k ks IHk]; intros F g up' rest'.
    - cbn [flat_map app map rev]. destruct g; reflexivity.
    - inversion F as [|? ? Pk Pks]; subst. cbn [flat_map]. rewrite <- app_assoc, Pk, (IHk Pks).
      cbn [add_kid f_tag f_attrs f_text f_kids map rev]. rewrite <- app_assoc. reflexivity. }
  cbn [tokens norm_xml].
  destruct text as [|c0 text0], kids as [|k0 kids0].
  - cbn [app build norm_eol map]. reflexivity.
  - cbn [text_tok app build]. rewrite <- app_assoc. rewrite (KIDS (k0 :: kids0) IH).
    cbn [app build f_tag f_attrs f_text f_kids]. rewrite str_eqb_refl.
    unfold close_frame; cbn [f_tag f_attrs f_text f_kids norm_eol]. rewrite app_nil_r, rev_involutive. reflexivity.
  - cbn [text_tok flat_map app build f_kids f_text f_tag f_attrs].
    destruct (norm_eol (c0 :: text0)) as [|n0 nt] eqn:En; [exfalso; exact (norm_eol_nonempty _ _ En)|].
    cbn [build f_tag f_attrs f_text f_kids]. rewrite str_eqb_refl. unfold close_frame; cbn [f_tag f_attrs f_text f_kids rev map]. reflexivity.
  - cbn [text_tok app build f_kids f_text f_tag f_attrs].
    destruct (norm_eol (c0 :: text0)) as [|n0 nt] eqn:En; [exfalso; exact (norm_eol_nonempty _ _ En)|].
    rewrite <- app_assoc. rewrite (KIDS (k0 :: kids0) IH).
    cbn [app build f_tag f_attrs f_text f_kids]. rewrite str_eqb_refl.
    unfold close_frame; cbn [f_tag f_attrs f_text f_kids]. rewrite app_nil_r, rev_involutive. reflexivity.
Qed.

Theorem build_tokens t : build (tokens t) [] None = Some (norm_xml t).
Proof.
  destruct t as [tag attrs text kids].
  assert (forall ks g rest', build (flat_map tokens ks ++ rest') [g] None =
                             build rest' [{| f_tag := f_tag g; f_attrs := f_attrs g; f_text := f_text g;
                                             f_kids := rev (map norm_xml ks) ++ f_kids g |}] None) as KIDS.
  { induction ks as [|k ks IHk]; intros g rest'.
    - cbn [flat_map app map rev]. destruct g; reflexivity.
    - cbn [flat_map]. rewrite <- app_assoc, build_node, IHk.
      cbn [add_kid f_tag f_attrs f_text f_kids map rev]. rewrite <- app_assoc. reflexivity. }
  cbn [tokens norm_xml].
  destruct text as [|c0 text0], kids as [|k0 kids0].
  - reflexivity.
  - cbn [text_tok app build]. rewrite KIDS. cbn [app build f_tag f_attrs f_text f_kids]. rewrite str_eqb_refl.
    cbn [build]; unfold close_frame; cbn [f_tag f_attrs f_text f_kids norm_eol]. rewrite app_nil_r, rev_involutive. reflexivity.
  - cbn [text_tok flat_map app build f_kids f_text f_tag f_attrs].
    destruct (norm_eol (c0 :: text0)) as [|n0 nt] eqn:En; [exfalso; exact (norm_eol_nonempty _ _ En)|].
    cbn [build f_tag f_attrs f_text f_kids]. rewrite str_eqb_refl. reflexivity.
  - cbn [text_tok app build f_kids f_text f_tag f_attrs].
    destruct (norm_eol (c0 :: text0)) as [|n0 nt] eqn:En; [exfalso; exact (norm_eol_nonempty _ _ En)|].
    rewrite KIDS. cbn [app build f_tag f_attrs f_text f_kids]. rewrite str_eqb_refl.
    cbn [build]; unfold close_frame; cbn [f_tag f_attrs f_text f_kids]. rewrite app_nil_r, rev_involutive. reflexivity.
Qed.

(* ------------------------------------------------------------------ *)
(* legal characters in, legal characters out                             *)
(* ------------------------------------------------------------------ *)
Lemma name_char_legal c : name_char c = true -> xml_char c = true.
Proof.
  unfold name_char, is_alpha, is_digit, xml_char. intros H.
  assert ((32 <=? c) && (c <=? 55295) = true) as ->; [|now rewrite !orb_true_r].
  repeat (apply orb_true_iff in H; destruct H as [H|H]);
    repeat (apply andb_true_iff in H; destruct H as [? H]);
    repeat match goal with
           | X : (_ <=? _) = true |- _ => apply N.leb_le in X
           | X : (_ =? _) = true |- _ => apply N.eqb_eq in X
           end; apply andb_true_iff; split; apply N.leb_le; lia.
Qed.
Lemma name_legal s : name_ok s = true -> forallb xml_char s = true.
Proof.
  intros H. apply name_ok_inv in H as (c & r & -> & S & R). cbn [forallb].
  rewrite (name_char_legal c (name_start_char c S)). cbn [andb]. rewrite forallb_forall in R |- *. intros x Hx. apply name_char_legal, R, Hx.
Qed.

Lemma serialise_legal : forall t, wf_xml t = true -> forallb xml_char (serialise t) = true.
Proof.
  induction t as [tag attrs text kids IH] using xml_ind'. intros W.
  apply wf_xml_inv in W as (Ht & Hn & _ & Hv & Hx & Hk).
  assert (forallb xml_char (ser_attrs attrs) = true) as HA.
  { clear - Hn Hv. induction attrs as [|kv l IHl]; [reflexivity|].
    cbn [forallb] in Hn, Hv. apply andb_true_iff in Hn as [N1 N2]. apply andb_true_iff in Hv as [V1 V2].
    unfold ser_attrs. cbn [flat_map]. rewrite forallb_app. fold (ser_attrs l). rewrite (IHl N2 V2), andb_true_r.
    unfold ser_attr. cbn [forallb]. rewrite forallb_app. cbn [forallb]. rewrite forallb_app.
    cbv beta in N1, V1. pose proof (name_legal _ N1) as Q1. pose proof (escape_attrib_legal _ V1) as Q2.
    repeat (apply andb_true_iff; split); try reflexivity; assumption. }
  assert (forallb xml_char (flat_map serialise kids) = true) as HK.
  { clear - IH Hk. induction kids as [|k l IHl]; [reflexivity|].
    inversion IH as [|? ? Pk Pl]; subst. cbn [forallb] in Hk. apply andb_true_iff in Hk as [K1 K2].
    cbn [flat_map]. rewrite forallb_app, (Pk K1), (IHl Pl K2). reflexivity. }
  cbn [serialise].
  destruct text as [|c0 text0], kids as [|k0 kids0];
    repeat (progress (cbn [forallb app]; rewrite ?forallb_app));
    rewrite ?(name_legal _ Ht), ?HA, ?HK, ?(escape_cdata_legal _ Hx); reflexivity.
Qed.

(* ------------------------------------------------------------------ *)
(* parse (serialise t) = t                                               *)
(* ------------------------------------------------------------------ *)
Theorem parse_serialise t : wf_xml t = true -> xml_parse (serialise t) = Some (norm_xml t).
Proof.
  intros W. unfold xml_parse. rewrite (serialise_legal t W), (tokenize_serialise t W). apply build_tokens.
Qed.

Lemma skeleton_norm : forall t, skeleton (norm_xml t) = skeleton t.
Proof.
  induction t as [tag attrs text kids IH] using xml_ind'. cbn [norm_xml skeleton]. f_equal.
  rewrite map_map. induction kids as [|k l IHl]; [reflexivity|]. inversion IH as [|? ? Pk Pl]; subst.
  cbn [map]. now rewrite Pk, (IHl Pl).
Qed.

(* the structure read back is the structure written - whatever the values are *)
Theorem skeleton_parse t : wf_xml t = true -> option_map skeleton (xml_parse (serialise t)) = Some (skeleton t).
Proof. intros W. rewrite (parse_serialise t W). cbn [option_map]. now rewrite skeleton_norm. Qed.

Theorem values_are_data t1 t2 : wf_xml t1 = true -> wf_xml t2 = true -> skeleton t1 = skeleton t2 ->
  option_map skeleton (xml_parse (serialise t1)) = option_map skeleton (xml_parse (serialise t2)).
Proof. intros W1 W2 E. now rewrite (skeleton_parse t1 W1), (skeleton_parse t2 W2), E. Qed.

(* without CR in character data nothing at all changes *)
Fixpoint no_cr_xml (t : xml) : bool :=
  match t with Node _ _ text kids => forallb (fun c => negb (c =? 13)) text && forallb no_cr_xml kids end.
Lemma norm_xml_id : forall t, no_cr_xml t = true -> norm_xml t = t.
Proof.
  induction t as [tag attrs text kids IH] using xml_ind'. cbn [no_cr_xml norm_xml]. intros H.
  apply andb_true_iff in H as [Ht Hk]. rewrite (norm_eol_id _ Ht). f_equal.
  induction kids as [|k l IHl]; [reflexivity|]. inversion IH as [|? ? Pk Pl]; subst.
  cbn [forallb] in Hk. apply andb_true_iff in Hk as [K1 K2]. cbn [map]. now rewrite (Pk K1), (IHl Pl K2).
Qed.
Theorem parse_serialise_exact t : wf_xml t = true -> no_cr_xml t = true -> xml_parse (serialise t) = Some t.
Proof. intros W C. rewrite (parse_serialise t W). now rewrite (norm_xml_id t C). Qed.
