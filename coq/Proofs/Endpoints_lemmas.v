(* Proofs/Endpoints_lemmas.v — what Config.endpoint / Base.service_urls return *)
From PV Require Import Lib.Base Model.Status Model.Response Model.Endpoints.
Open Scope Z_scope.

Lemma spec_urls_In eps b u : In u (spec_urls eps b) <-> In (EP u b) eps.
Proof.
  unfold spec_urls. rewrite in_flat_map. split.
  - intros (e & He & Hu). destruct e as [u' b'| |]; try (now destruct Hu).
    destruct (str_eqb_spec b' b) as [->|Hn]; [|now destruct Hu].
    destruct Hu as [<-|[]]. exact He.
  - intros H. exists (EP u b). split; [exact H|]. rewrite str_eqb_refl. now left.
Qed.

Lemma unspec_In eps u : In (Some u) (unspec_entries eps) <-> In (Unspec u) eps.
Proof.
  unfold unspec_entries. rewrite in_flat_map. split.
  - intros (e & He & Hu). destruct e as [u' b'|u'|]; cbn in Hu.
    + destruct Hu.
    + destruct Hu as [Hu|[]]. injection Hu as ->. exact He.
    + destruct Hu as [Hu|[]]. discriminate.
  - intros H. exists (Unspec u). split; [exact H|]. now left.
Qed.

Lemma somes_In l u : In u (somes l) <-> In (Some u) l.
Proof.
  unfold somes. rewrite in_flat_map. split.
  - intros (x & Hx & Hu). destruct x as [v|]; [|destruct Hu]. destruct Hu as [<-|[]]. exact Hx.
  - intros H. exists (Some u). split; [exact H|]. now left.
Qed.

Lemma somes_map_Some l : somes (map Some l) = l.
Proof. induction l as [|x l IH]; [reflexivity|]. cbn. now rewrite <- IH at 2. Qed.

(* the addresses service_urls hands out are exactly the ones registered for the binding *)
Lemma service_urls_some eps b l :
  service_urls eps b = Some l -> forall u, In u l <-> registered_for eps b u.
Proof.
  unfold service_urls, config_endpoint, registered_for. intros H u.
  destruct (spec_urls eps b) as [|x xs] eqn:Es.
  - assert (Hno : forall u', ~ In (EP u' b) eps).
    { intros u' Hin. apply spec_urls_In in Hin. rewrite Es in Hin. destruct Hin. }
    destruct (unspec_entries eps) as [|y ys] eqn:Eu; [discriminate|]. injection H as <-.
    change (In u (somes (y :: ys)) <-> In (EP u b) eps \/ (forall u', ~ In (EP u' b) eps) /\ In (Unspec u) eps).
    rewrite somes_In, <- Eu, unspec_In. split.
    + intros Hin. right. split; [exact Hno|exact Hin].
    + intros [Hin|[_ Hin]]; [now apply Hno in Hin|exact Hin].
  - cbn [map] in H. injection H as <-. change (Some x :: map Some xs) with (map Some (x :: xs)).
    rewrite somes_map_Some, <- Es, spec_urls_In. split.
    + intros Hin. now left.
    + intros [Hin|[Hno _]]; [exact Hin|].
      exfalso. apply (Hno x). apply spec_urls_In. rewrite Es. now left.
Qed.

Lemma service_urls_none eps b :
  service_urls eps b = None -> forall u, ~ registered_for eps b u.
Proof.
  unfold service_urls, config_endpoint, registered_for. intros H u.
  destruct (spec_urls eps b) as [|x xs] eqn:Es; [|discriminate].
  destruct (unspec_entries eps) as [|y ys] eqn:Eu; [|discriminate].
  intros [Hin|[_ Hin]].
  - apply spec_urls_In in Hin. rewrite Es in Hin. destruct Hin.
  - apply unspec_In in Hin. rewrite Eu in Hin. destruct Hin.
Qed.

(* an endpoint of ANOTHER binding is not handed out when the arriving binding has entries of its own
   or the table has no binding-less entry for it *)
Lemma other_binding_not_registered eps b u :
  ~ In (EP u b) eps -> ~ In (Unspec u) eps -> ~ registered_for eps b u.
Proof. intros H1 H2 [H|[_ H]]; auto. Qed.

Lemma nth_error_run_calls eps calls n :
  nth_error (run_calls eps calls) n =
  match nth_error calls n with
  | Some (c, b, r) => Some (parse_authn_response {| base := c; acs_table := eps; arriving := b |} r)
  | None => None
  end.
Proof.
  unfold run_calls. revert n. induction calls as [|[[c b] r] calls IH]; intros [|n]; cbn; try reflexivity. apply IH.
Qed.
