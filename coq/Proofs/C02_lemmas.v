(* C02: the three signature options and the signatures' verdicts decide acceptance exactly *)
From PV Require Import Lib.Base Model.Status Model.Response Proofs.Response_lemmas Proofs.Rel_lemmas.
Open Scope Z_scope.

Definition strip_a (a : assertion) : assertion :=
  {| a_id := a_id a; a_sig := None; a_authn := a_authn a; a_conditions := a_conditions a; a_has_subject := a_has_subject a;
     a_confirmations := a_confirmations a; a_name_id := a_name_id a |}.
Definition strip_e (e : enc_assertion) : enc_assertion := {| e_opens := e_opens e; e_inner := strip_a (e_inner e) |}.
Definition strip (r : response) : response :=
  {| r_sig := None; r_valid_instance := r_valid_instance r; r_irt := r_irt r; r_version := r_version r; r_ver_lt2 := r_ver_lt2 r;
     r_destination := r_destination r; r_issue_instant := r_issue_instant r; r_status := r_status r;
     r_assertions := map strip_a (r_assertions r); r_encrypted := map strip_e (r_encrypted r) |}.

Definition sigok (x : option (result unit)) : bool := match x with Some (Err _) => false | _ => true end.
Definition present (x : option (result unit)) : bool := match x with None => false | _ => true end.

(* all non-signature checks of the pipeline pass *)
Definition otherwise_valid (c : cfg) (r : response) : bool :=
  match loads_rest c r with
  | Ok s => r_valid_instance r && okS (verify c false s (strip r))
  | Err _ => false
  end.

Definition all_sigok (r : response) : bool := forallb (fun a => sigok (a_sig a)) (processed r).
Definition all_present (r : response) : bool := forallb (fun a => present (a_sig a)) (processed r).

(* the documented rule *)
Definition documented (c : cfg) (r : response) : bool :=
  sigok (r_sig r) && all_sigok r &&
  implb (wrs c) (present (r_sig r)) && implb (was c) (all_present r) &&
  implb (waors c) (present (r_sig r) || all_present r).

(* ---- stripping does not change the non-signature parts ---- *)
Lemma check_assertion_strip c irt req v s a :
  check_assertion c irt req v s a =
  match (match a_sig a with None => if req then Err SignatureError else Ok tt | Some r => if v then Ok tt else r end) with
  | Err e => Err e
  | Ok _ => check_assertion c irt false v s (strip_a a)
  end.
Proof.
  unfold check_assertion at 1.
  destruct (match a_sig a with None => if req then Err SignatureError else Ok tt | Some r => if v then Ok tt else r end) as [[]|e]; reflexivity.
Qed.

Definition sigp (req v : bool) (a : assertion) : bool :=
  match a_sig a with None => negb req | Some r => v || is_ok r end.

Lemma check_assertions_strip c irt req v push : forall l s,
  (forallb (sigp req v) l = true ->
     check_assertions c irt req v push s l = check_assertions c irt false v push s (map strip_a l)) /\
  (forallb (sigp req v) l = false -> exists e, check_assertions c irt req v push s l = Err e).
Proof.
  induction l as [|a l IH]; intros s; cbn [forallb map check_assertions]; [split; [reflexivity|discriminate]|].
  rewrite (check_assertion_strip c irt req v s a). unfold sigp at 1 3.
  destruct (a_sig a) as [[[]|e]|] eqn:Es.
  - cbn [is_ok orb]. rewrite orb_true_r. cbn [andb]. destruct v; cbn [orb].
    + destruct (check_assertion c irt false true s (strip_a a)) as [s1|e1]; [apply IH|split; [reflexivity|intros _; now exists e1]].
    + destruct (check_assertion c irt false false s (strip_a a)) as [s1|e1]; [apply IH|split; [reflexivity|intros _; now exists e1]].
  - cbn [is_ok]. rewrite orb_false_r. destruct v; cbn [andb].
    + destruct (check_assertion c irt false true s (strip_a a)) as [s1|e1]; [apply IH|split; [reflexivity|intros _; now exists e1]].
    + split; [discriminate|intros _; now exists e].
  - destruct req; cbn [negb andb].
    + split; [discriminate|intros _; now exists SignatureError].
    + destruct (check_assertion c irt false v s (strip_a a)) as [s1|e1]; [apply IH|split; [reflexivity|intros _; now exists e1]].
Qed.

Lemma decrypted_prefix_strip encs : decrypted_prefix (map strip_e encs) = map strip_a (decrypted_prefix encs).
Proof. induction encs as [|e encs IH]; [reflexivity|]. cbn. destruct (e_opens e); [cbn; now rewrite IH|reflexivity]. Qed.

Lemma verify_decrypted_strip l : verify_decrypted (map strip_a l) = Ok tt.
Proof. induction l as [|a l IH]; [reflexivity|]. cbn. exact IH. Qed.

Lemma verify_decrypted_spec l :
  (forallb (fun a => sigok (a_sig a)) l = true -> verify_decrypted l = Ok tt) /\
  (forallb (fun a => sigok (a_sig a)) l = false -> exists e, verify_decrypted l = Err e).
Proof.
  induction l as [|a l [IH1 IH2]]; cbn [forallb verify_decrypted]; [split; [reflexivity|discriminate]|].
  destruct (a_sig a) as [[[]|e]|]; cbn [sigok andb]; try (split; assumption).
  split; [discriminate|intros _; now exists e].
Qed.

Lemma push_all_strip s l : push_all s (map strip_a l) = push_all s l.
Proof. unfold push_all. now rewrite map_map. Qed.

Lemma map_strip_nil {A} (f : A -> A) l : (match map f l with [] => true | _ => false end) = (match l with [] => true | _ => false end).
Proof. destruct l; reflexivity. Qed.

(* the assertion-signature condition under requirement [req] *)
Definition asig_cond (req : bool) (r : response) : bool :=
  forallb (sigp req false) (r_assertions r) &&
  forallb (fun a => sigok (a_sig a)) (decrypted_prefix (r_encrypted r)) &&
  forallb (sigp req true) (decrypted_prefix (r_encrypted r)).

Lemma parse_assertion_strip c req s r :
  (asig_cond req r = true -> parse_assertion c req s r = parse_assertion c false s (strip r)) /\
  (asig_cond req r = false -> (exists e, parse_assertion c req s r = Err e)).
Proof.
  unfold parse_assertion, asig_cond. cbn [strip r_assertions r_encrypted r_irt]. rewrite !map_length.
  match goal with |- context [if ?x then _ else _] => destruct x end; [split; [reflexivity|intros _; eexists; reflexivity]|].
  destruct (check_assertions_strip c (r_irt r) req false false (r_assertions r) s) as [P1 P2].
  destruct (forallb (sigp req false) (r_assertions r)) eqn:F1; cbn [andb].
  2:{ split; [discriminate|]. intros _. destruct (P2 eq_refl) as [e He]. rewrite He. now exists e. }
  rewrite (P1 eq_refl).
  destruct (check_assertions c (r_irt r) false false false s (map strip_a (r_assertions r))) as [s1|e1];
    [|split; [reflexivity|intros _; now exists e1]].
  destruct (r_encrypted r) as [|e encs] eqn:Ee.
  - cbn [map decrypted_prefix forallb andb]. rewrite push_all_strip. split; [reflexivity|discriminate].
  - rewrite <- Ee. assert (map strip_e (r_encrypted r) <> []) as Hne by (rewrite Ee; discriminate).
    destruct (map strip_e (r_encrypted r)) as [|e' encs'] eqn:Em; [congruence|]. rewrite <- Em. clear Hne.
    rewrite decrypted_prefix_strip, verify_decrypted_strip.
    destruct (verify_decrypted_spec (decrypted_prefix (r_encrypted r))) as [V1 V2].
    destruct (forallb (fun a => sigok (a_sig a)) (decrypted_prefix (r_encrypted r))) eqn:F2; cbn [andb].
    2:{ split; [discriminate|]. intros _. destruct (V2 eq_refl) as [e2 He2]. rewrite Ee in He2 |- *. rewrite He2. now exists e2. }
    rewrite Ee in V1 |- *. rewrite (V1 eq_refl). rewrite <- Ee.
    destruct (check_assertions_strip c (r_irt r) req true true (decrypted_prefix (r_encrypted r)) s1) as [Q1 Q2].
    destruct (forallb (sigp req true) (decrypted_prefix (r_encrypted r))) eqn:F3.
    + rewrite (Q1 eq_refl). split; [|discriminate]. intros _.
      destruct (check_assertions c (r_irt r) false true true s1 (map strip_a (decrypted_prefix (r_encrypted r)))); [|reflexivity].
      now rewrite push_all_strip.
    + split; [discriminate|]. intros _. destruct (Q2 eq_refl) as [e3 He3]. rewrite He3. now exists e3.
Qed.

(* ---- the assertion-signature condition in terms of sigok / present ---- *)
Lemma forallb_and_or {A} (f h : A -> bool) (b : bool) l :
  forallb (fun a => f a && (b || h a)) l = forallb f l && (b || forallb h l).
Proof.
  induction l as [|a l IH]; cbn [forallb]; [now rewrite orb_true_r|]. rewrite IH.
  destruct (f a), (forallb f l), b, (h a), (forallb h l); reflexivity.
Qed.

Lemma forallb_andb {A} (f g : A -> bool) l : forallb f l && forallb g l = forallb (fun a => f a && g a) l.
Proof.
  induction l as [|a l IH]; [reflexivity|]. cbn [forallb]. rewrite <- IH.
  destruct (f a), (g a), (forallb f l), (forallb g l); reflexivity.
Qed.

Lemma forallb_ext' {A} (f g : A -> bool) l : (forall a, f a = g a) -> forallb f l = forallb g l.
Proof. intros H. induction l as [|a l IH]; [reflexivity|]. cbn [forallb]. now rewrite H, IH. Qed.

Definition kcond (req : bool) (a : assertion) : bool := sigok (a_sig a) && (negb req || present (a_sig a)).

Lemma asig_cond_spec req r : asig_cond req r = all_sigok r && (negb req || all_present r).
Proof.
  unfold all_sigok, all_present. rewrite <- forallb_and_or. fold (kcond req). unfold processed. rewrite forallb_app.
  unfold asig_cond. rewrite <- andb_assoc, forallb_andb.
  rewrite andb_comm. f_equal; apply forallb_ext'; intros a; unfold kcond, sigp, sigok, present;
    destruct (a_sig a) as [[[]|?]|], req; reflexivity.
Qed.

(* ---- verify: with requirement [req] vs the stripped document ---- *)
Lemma verify_strip c req s r :
  (asig_cond req r = true -> verify c req s r = verify c false s (strip r)) /\
  (asig_cond req r = false -> okS (verify c req s r) = false).
Proof.
  unfold verify. cbn [strip r_version r_destination].
  match goal with |- context [if ?x then _ else _] => destruct x end; [split; reflexivity|].
  replace (verify_in_of c (strip r)) with (verify_in_of c r) by reflexivity.
  unfold authn_verify. destruct (verify_core (verify_in_of c r)) as [[[]|]|]; try (split; reflexivity).
  destruct (parse_assertion_strip c req s r) as [P1 P2]. split.
  - intros H. now rewrite (P1 H).
  - intros H. destruct (P2 H) as [e He]. now rewrite He.
Qed.

Lemma okS_verify c req s r : okS (verify c req s r) = asig_cond req r && okS (verify c false s (strip r)).
Proof.
  destruct (verify_strip c req s r) as [V1 V2]. destruct (asig_cond req r) eqn:A; cbn [andb].
  - now rewrite (V1 eq_refl).
  - exact (V2 eq_refl).
Qed.

(* when everything but a signature's PRESENCE is fine, the forced attempt fails with SignatureError *)
Lemma check_assertions_missing c irt v push : forall l s,
  forallb (fun a => sigok (a_sig a)) l = true -> forallb (fun a => present (a_sig a)) l = false ->
  is_ok (check_assertions c irt false v push s (map strip_a l)) = true ->
  check_assertions c irt true v push s l = Err SignatureError.
Proof.
  induction l as [|a l IH]; intros s Hs Hp Hok; [discriminate|]. cbn [forallb map check_assertions] in *.
  rewrite (check_assertion_strip c irt true v s a).
  destruct (a_sig a) as [[[]|e]|]; cbn [sigok present andb] in *; try discriminate.
  - assert ((if v then Ok tt else Ok tt) = (Ok tt : result unit)) as -> by (destruct v; reflexivity).
    destruct (check_assertion c irt false v s (strip_a a)) as [s1|]; [|discriminate]. now apply IH.
  - reflexivity.
Qed.

Lemma check_assertions_present c irt v push : forall l s,
  forallb (fun a => sigok (a_sig a)) l = true -> forallb (fun a => present (a_sig a)) l = true ->
  check_assertions c irt true v push s l = check_assertions c irt false v push s (map strip_a l).
Proof.
  intros l s Hs Hp. apply (proj1 (check_assertions_strip c irt true v push l s)).
  rewrite forallb_forall in *. intros a Ha. specialize (Hs a Ha). specialize (Hp a Ha). unfold sigp, sigok, present in *.
  destruct (a_sig a) as [[[]|]|]; try discriminate; destruct v; reflexivity.
Qed.

Lemma forced_fail_is_signature_error c s r :
  all_sigok r = true -> all_present r = false -> okS (verify c false s (strip r)) = true ->
  verify c true s r = Err SignatureError.
Proof.
  unfold all_sigok, all_present, processed. rewrite !forallb_app. intros Hs Hp Hok.
  apply andb_true_iff in Hs as [Hsd Hsp].
  unfold verify in *. cbn [strip r_version r_destination] in Hok.
  match goal with |- context [if ?x then _ else _] => destruct x end; [discriminate|].
  replace (verify_in_of c (strip r)) with (verify_in_of c r) in Hok by reflexivity.
  unfold authn_verify in *. destruct (verify_core (verify_in_of c r)) as [[[]|]|]; try discriminate.
  assert (is_ok (parse_assertion c false s (strip r)) = true) as Hpa by (destruct (parse_assertion c false s (strip r)); [reflexivity|discriminate]).
  clear Hok. enough (parse_assertion c true s r = Err SignatureError) as -> by reflexivity.
  unfold parse_assertion in *. cbn [strip r_assertions r_encrypted r_irt] in Hpa. rewrite !map_length in Hpa.
  match goal with |- context [if ?x then _ else _] => destruct x end; [discriminate|].
  destruct (forallb (fun a => present (a_sig a)) (r_assertions r)) eqn:Pp.
  - (* all plain ones signed: the unsigned one is among the decrypted *)
    rewrite andb_true_r in Hp.
    rewrite (check_assertions_present c (r_irt r) false false (r_assertions r) s Hsp Pp).
    destruct (check_assertions c (r_irt r) false false false s (map strip_a (r_assertions r))) as [s1|]; [|discriminate].
    destruct (r_encrypted r) as [|e encs] eqn:Ee; [cbn in Hp; discriminate|].
    rewrite <- Ee in *. assert (map strip_e (r_encrypted r) <> []) as Hne by (rewrite Ee; discriminate).
    destruct (map strip_e (r_encrypted r)) as [|e' encs'] eqn:Em; [congruence|]. rewrite <- Em in Hpa. clear Hne.
    rewrite decrypted_prefix_strip, verify_decrypted_strip in Hpa.
    rewrite Ee. rewrite <- Ee. rewrite (proj1 (verify_decrypted_spec _) Hsd).
    destruct (r_encrypted r) eqn:Ee2; [congruence|]. rewrite <- Ee2 in *.
    rewrite (check_assertions_missing c (r_irt r) true true (decrypted_prefix (r_encrypted r)) s1 Hsd Hp); [reflexivity|].
    destruct (check_assertions c (r_irt r) false true true s1 (map strip_a (decrypted_prefix (r_encrypted r)))); [reflexivity|discriminate].
  - rewrite (check_assertions_missing c (r_irt r) false false (r_assertions r) s Hsp Pp); [reflexivity|].
    destruct (check_assertions c (r_irt r) false false false s (map strip_a (r_assertions r))); [reflexivity|discriminate].
Qed.

Lemma verify_none_strip c req s s2 r : verify c req s r = Ok None -> okS (verify c false s2 (strip r)) = false.
Proof.
  unfold verify. cbn [strip r_version r_destination].
  match goal with |- context [if ?x then _ else _] => destruct x end; [discriminate|].
  replace (verify_in_of c (strip r)) with (verify_in_of c r) by reflexivity.
  unfold authn_verify. destruct (verify_core (verify_in_of c r)) as [[[]|]|]; try reflexivity; try discriminate.
  destruct (parse_assertion c req s r); discriminate.
Qed.

Lemma okS_rel c s1 s2 r : rs s1 s2 -> okS (verify c false s1 (strip r)) = okS (verify c false s2 (strip r)).
Proof. intros H. exact (proj1 (rel_verify c false s1 s2 (strip r) H)). Qed.

Lemma loads_split c req r : loads c req r = match response_sig_stage req r with Err e => Err e | Ok _ => loads_rest c r end.
Proof. reflexivity. Qed.

Lemma sigerr_is_sigver : is_sigver_error SignatureError = true /\ is_signature_error SignatureError = true.
Proof. split; reflexivity. Qed.

(* stage 2 of _parse_response, characterised *)
Definition stage2 (c : cfg) (s : st) (r : response) : result (option st * bool) :=
  match verify c true s r with
  | Ok x => Ok (x, true)
  | Err e => if is_signature_error e then
               (if was c then Err e
                else match verify c false (parse_assertion_residue c true s r) r with Ok x => Ok (x, false) | Err e' => Err e' end)
             else Err e
  end.

Definition stage2_ok (x : result (option st * bool)) : option bool :=   (* Some flag = a response object with that flag *)
  match x with Ok (Some _, b) => Some b | _ => None end.

Lemma stage2_spec c s r :
  let SA := all_sigok r in let PA := all_present r in let OV := okS (verify c false s (strip r)) in
  stage2_ok (stage2 c s r) =
    if SA && OV then (if PA then Some true else if was c then None else Some false) else None.
Proof.
  cbv zeta. unfold stage2.
  pose proof (okS_verify c true s r) as K1. rewrite asig_cond_spec in K1. cbn [negb orb] in K1.
  destruct (verify c true s r) as [[s'|]|e] eqn:V1; cbn [okS stage2_ok] in *.
  - symmetry in K1. apply andb_true_iff in K1 as [K1 K3]. apply andb_true_iff in K1 as [K1 K2]. now rewrite K1, K2, K3.
  - rewrite (verify_none_strip c true s s r V1). now rewrite andb_false_r.
  - destruct (all_sigok r && okS (verify c false s (strip r))) eqn:G.
    + apply andb_true_iff in G as [G1 G2]. rewrite G1, G2 in K1. cbn in K1. rewrite andb_true_r in K1.
      rewrite <- K1. rewrite (forced_fail_is_signature_error c s r G1 (eq_sym K1) G2) in V1. injection V1 as <-.
      cbn [is_signature_error]. replace (is_signature_error SignatureError) with true by reflexivity.
      destruct (was c); [reflexivity|].
      pose proof (okS_verify c false (parse_assertion_residue c true s r) r) as K2. rewrite asig_cond_spec in K2.
      cbn [negb orb] in K2. rewrite G1, (okS_rel c _ s r (residue_rs c true s r)), G2 in K2. cbn in K2.
      destruct (verify c false (parse_assertion_residue c true s r) r) as [[s''|]|]; cbn [okS] in K2; try discriminate. reflexivity.
    + destruct (is_signature_error e); [|reflexivity]. destruct (was c); [reflexivity|].
      pose proof (okS_verify c false (parse_assertion_residue c true s r) r) as K2. rewrite asig_cond_spec in K2.
      cbn [negb orb] in K2. rewrite (okS_rel c _ s r (residue_rs c true s r)) in K2. rewrite andb_true_r in K2. rewrite G in K2.
      destruct (verify c false (parse_assertion_residue c true s r) r) as [[s''|]|]; cbn [okS] in K2; try discriminate; reflexivity.
Qed.

Lemma parse_response_stage2 c r :
  is_ok (parse_response c r) =
  match (match loads c true r with
         | Ok s => Ok (s, true)
         | Err e => if is_sigver_error e then (if wrs c then Err e else match loads c false r with Ok s => Ok (s, false) | Err e' => Err e' end) else Err e
         end) with
  | Err _ => false
  | Ok (s, rsigned) =>
      r_valid_instance r &&
      match stage2_ok (stage2 c s r) with
      | None => false
      | Some asigned => negb (waors c && negb rsigned && negb asigned)
      end
  end.
Proof.
  unfold parse_response, stage2.
  match goal with |- is_ok (match ?x with _ => _ end) = _ => destruct x as [[s b]|]; [|reflexivity] end.
  destruct (r_valid_instance r); cbn [negb andb]; [|reflexivity].
  destruct (verify c true s r) as [[s'|]|e]; cbn [stage2_ok].
  - destruct (waors c && negb b && negb true); reflexivity.
  - reflexivity.
  - destruct (is_signature_error e); [|reflexivity]. destruct (was c); [reflexivity|].
    destruct (verify c false (parse_assertion_residue c true s r) r) as [[s''|]|]; cbn [stage2_ok]; try reflexivity.
    destruct (waors c && negb b && negb false); reflexivity.
Qed.

Theorem accept_iff c r : is_ok (parse_response c r) = otherwise_valid c r && documented c r.
Proof.
  rewrite parse_response_stage2. unfold otherwise_valid, documented. rewrite !loads_split.
  unfold response_sig_stage.
  destruct (r_sig r) as [[[]|e]|] eqn:Rs; cbn [sigok present].
  - (* response signed and verified *)
    destruct (loads_rest c r) as [s|e0]; [|destruct (is_sigver_error e0); [destruct (wrs c)|]; reflexivity].
    rewrite stage2_spec. destruct (r_valid_instance r); cbn [andb]; [|reflexivity].
    destruct (all_sigok r), (okS (verify c false s (strip r))), (all_present r), (wrs c), (was c), (waors c); reflexivity.
  - (* response signature present but its check fails: rejected whatever the options *)
    destruct (is_sigver_error e); [destruct (wrs c)|]; cbn; now rewrite andb_false_r.
  - (* response unsigned *)
    replace (is_sigver_error SignatureError) with true by reflexivity.
    destruct (wrs c) eqn:W.
    + cbn. destruct (loads_rest c r); [|reflexivity]. now rewrite !andb_false_r.
    + destruct (loads_rest c r) as [s|]; [|reflexivity].
      rewrite stage2_spec. destruct (r_valid_instance r); cbn [andb]; [|reflexivity].
      destruct (all_sigok r), (okS (verify c false s (strip r))), (all_present r), (was c), (waors c); reflexivity.
Qed.
