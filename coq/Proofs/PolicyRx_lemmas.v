From PV Require Import Lib.Base Model.Policy Proofs.Policy_lemmas Model.PolicyRx.

(* ---------- metadata: only values listed under the asked Name count ---------- *)
Lemma md_entity_attribute_In name ea c :
  In c (md_entity_attribute name ea) <-> exists vs, In (name, vs) ea /\ In c vs.
Proof.
  unfold md_entity_attribute. rewrite in_flat_map. split.
  - intros [[n vs] [Hi Hc]]. cbn [fst snd] in Hc. destruct (str_eqb_spec n name) as [->|Hne]; [|destruct Hc].
    exists vs; split; assumption.
  - intros [vs [Hi Hc]]. exists (name, vs). split; [exact Hi|]. cbn [fst snd]. rewrite str_eqb_refl. exact Hc.
Qed.

Lemma md_entity_categories_In ea c :
  In c (md_entity_categories ea) <-> exists vs, In (ENTITY_CATEGORY, vs) ea /\ In c vs.
Proof. apply md_entity_attribute_In. Qed.

(* attributes under any other Name (entity-category-support, ...) can be added, removed, reordered: no effect *)
Lemma md_entity_categories_other_names ea1 ea2 extra :
  (forall e, In e extra -> fst e <> ENTITY_CATEGORY) ->
  md_entity_categories (ea1 ++ extra ++ ea2) = md_entity_categories (ea1 ++ ea2).
Proof.
  intros Hx. unfold md_entity_categories, md_entity_attribute. rewrite !flat_map_app.
  f_equal. replace (flat_map (fun e : str * list str => if str_eqb (fst e) ENTITY_CATEGORY then snd e else []) extra) with (@nil str); [reflexivity|].
  induction extra as [|e r IH]; [reflexivity|]. cbn [flat_map].
  destruct (str_eqb_spec (fst e) ENTITY_CATEGORY) as [He|_].
  - exfalso. apply (Hx e); [left; reflexivity|exact He].
  - cbn [app]. apply IH. intros e' He'. apply Hx. right; exact He'.
Qed.

Lemma md_support_does_not_count ea c :
  In c (md_entity_categories ea) -> ~ (forall vs, In (ENTITY_CATEGORY, vs) ea -> ~ In c vs).
Proof. intros Hc Hno. apply md_entity_categories_In in Hc as [vs [Hi Hv]]. exact (Hno vs Hi Hv). Qed.

(* ---------- restriction lists: each expression on its own ---------- *)
Section Rx.
  Variable matches : str -> str -> bool.

  Lemma flat_filter_In rxs vals v :
    In v (flat_map (fun rx => filter (matches rx) vals) rxs) <-> In v vals /\ existsb (fun rx => matches rx v) rxs = true.
  Proof.
    rewrite in_flat_map, existsb_exists. split.
    - intros [rx [Hr Hv]]. apply filter_In in Hv as [Hv Hm]. split; [exact Hv|exists rx; split; assumption].
    - intros [Hv [rx [Hr Hm]]]. exists rx. split; [exact Hr|]. apply filter_In. split; assumption.
  Qed.

  (* EXACT: a value of a regex-restricted attribute is released iff it is an identity value and some single
     expression of that attribute's list matches it *)
  Lemma favs_entry_values_exact rest e rxs v :
    lookup (lower (fst e)) rest = Some (Some rxs) ->
    (exists vs, favs_entry matches rest e = Some (fst e, vs) /\ In v vs) <->
    In v (released_by_list matches rxs (snd e)).
  Proof.
    intros Hl. unfold favs_entry, released_by_list. rewrite Hl. rewrite filter_In.
    destruct (flat_map (fun rx => filter (matches rx) (snd e)) rxs) as [|x rv] eqn:Ef.
    - split.
      + intros [vs [H _]]; discriminate.
      + intros H. apply flat_filter_In in H. rewrite Ef in H. destruct H.
    - split.
      + intros [vs [H Hv]]. assert (Hvs : vs = dedup (x :: rv)) by congruence. rewrite Hvs in Hv. apply dedup_In in Hv. rewrite <- Ef in Hv. apply flat_filter_In. exact Hv.
      + intros H. apply flat_filter_In in H. rewrite Ef in H. exists (dedup (x :: rv)). split; [reflexivity|]. apply dedup_In_rev. exact H.
  Qed.
End Rx.

(* the outcome depends on the engine ONLY through the single (expression, value) pairs of that attribute's own list:
   nothing of another expression (its flags, an alternation built from the whole list) enters *)
Lemma favs_entry_pointwise m1 m2 rest e :
  (forall rxs rx v, lookup (lower (fst e)) rest = Some (Some rxs) -> In rx rxs -> In v (snd e) -> m1 rx v = m2 rx v) ->
  favs_entry m1 rest e = favs_entry m2 rest e.
Proof.
  intros H. unfold favs_entry. destruct (lookup (lower (fst e)) rest) as [[rxs|]|] eqn:El; try reflexivity.
  assert (Hf : flat_map (fun rx => filter (m1 rx) (snd e)) rxs = flat_map (fun rx => filter (m2 rx) (snd e)) rxs).
  { assert (Hs : forall rx, In rx rxs -> filter (m1 rx) (snd e) = filter (m2 rx) (snd e)).
    { intros rx Hr. apply filter_ext_in. intros v Hv. apply (H rxs rx v eq_refl Hr Hv). }
    clear H El. induction rxs as [|r0 r IH]; [reflexivity|]. cbn [flat_map]. rewrite (Hs r0 (or_introl eq_refl)).
    f_equal. apply IH. intros rx Hr. apply Hs. right; exact Hr. }
  rewrite Hf. reflexivity.
Qed.

(* a matcher under which a LATER expression also sees the first one's flag is a different engine; witness that the
   list semantics separates them: with expressions [p0; p1], a value only `leaky` accepts for p1 is not released *)
Lemma released_by_list_monotone m rxs1 rxs2 vals v :
  In v (released_by_list m rxs1 vals) -> incl rxs1 rxs2 -> In v (released_by_list m rxs2 vals).
Proof.
  unfold released_by_list. rewrite !filter_In, !existsb_exists. intros [Hv [rx [Hr Hm]]] Hi.
  split; [exact Hv|]. exists rx. split; [apply Hi; exact Hr|exact Hm].
Qed.

Lemma released_by_list_none m rxs vals v :
  (forall rx, In rx rxs -> m rx v = false) -> ~ In v (released_by_list m rxs vals).
Proof.
  intros Hn Hin. unfold released_by_list in Hin. apply filter_In in Hin as [_ He]. apply existsb_exists in He as [rx [Hr Hm]].
  rewrite (Hn rx Hr) in Hm. discriminate.
Qed.

(* every category a met row key names is listed under the entity-category Name of the SP's metadata *)
Lemma key_met_listed ea key :
  key_met (md_entity_categories ea) key ->
  forall k, In k (snd key) -> k = [] \/ exists vs, In (ENTITY_CATEGORY, vs) ea /\ In k vs.
Proof.
  destruct key as [b ks]. destruct b; cbn [key_met snd].
  - destruct ks as [|k0 ks']; [intros []|]. destruct ks' as [|k1 r]; [|intros []].
    intros Hm k Hk. destruct Hk as [<-|[]]. destruct Hm as [He|Hi]; [left; exact He|right; apply md_entity_categories_In; exact Hi].
  - intros H k Hk. right. apply md_entity_categories_In. apply H; exact Hk.
Qed.

Lemma entitles_from_metadata req ea reqf row a :
  entitles (m_ecs (mdview_of req ea)) reqf row a ->
  forall k, In k (snd (fst row)) -> k = [] \/ exists vs, In (ENTITY_CATEGORY, vs) ea /\ In k vs.
Proof. intros [_ [Hk _]]. cbn [mdview_of m_ecs] in Hk. apply key_met_listed. exact Hk. Qed.
