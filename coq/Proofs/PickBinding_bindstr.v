(* Proofs/PickBinding_bindstr.v — binding strings (and entity ids) that contain
   each other: a proper super-/sub-string is a different string for str_eqb,
   the answered binding is one of the admitted bindings, and an issuer whose
   endpoints are registered only under bindings that contain / are contained in
   the admitted ones is refused. *)
From PV Require Import Lib.Base Model.PickBinding Proofs.PickBinding_lemmas.
Open Scope N_scope.

(* x occurs inside y with a non-empty prefix or suffix around it *)
Definition proper_sub (x y : str) : Prop :=
  exists p s, y = p ++ x ++ s /\ (p <> [] \/ s <> []).
(* one of the two strings properly contains the other *)
Definition contain_each_other (x y : str) : Prop := proper_sub x y \/ proper_sub y x.

Lemma proper_sub_length x y : proper_sub x y -> (List.length x < List.length y)%nat.
Proof.
  intros (p & s & -> & Hps). rewrite !app_length.
  destruct Hps as [Hp|Hs].
  - destruct p; [congruence|]. cbn [List.length]. lia.
  - destruct s; [congruence|]. cbn [List.length]. lia.
Qed.

Lemma proper_sub_neq x y : proper_sub x y -> x <> y.
Proof. intros H ->. apply proper_sub_length in H. lia. Qed.

Lemma proper_sub_irrefl x : ~ proper_sub x x.
Proof. intros H. exact (proper_sub_neq _ _ H eq_refl). Qed.

Lemma proper_sub_eqb x y : proper_sub x y -> str_eqb x y = false /\ str_eqb y x = false.
Proof.
  intros H. pose proof (proper_sub_neq _ _ H) as Hne.
  split; apply str_eqb_neq; congruence.
Qed.

Lemma contain_each_other_eqb x y : contain_each_other x y -> str_eqb x y = false /\ str_eqb y x = false.
Proof.
  intros [H|H]; destruct (proper_sub_eqb _ _ H) as [H1 H2]; split; assumption.
Qed.

Lemma contain_each_other_irrefl x : ~ contain_each_other x x.
Proof. intros [H|H]; exact (proper_sub_irrefl _ H). Qed.

(* a suffix / a prefix extension, the two shapes the generators use *)
Lemma proper_sub_suffix x s : s <> [] -> proper_sub x (x ++ s).
Proof. intros Hs. exists [], s. split; [reflexivity|right; exact Hs]. Qed.
Lemma proper_sub_prefix p x : p <> [] -> proper_sub x (p ++ x).
Proof. intros Hp. exists p, []. rewrite app_nil_r. split; [reflexivity|left; exact Hp]. Qed.

(* ------------------------------------------------------------------ *)
(* the answered binding is an element of the effective binding list     *)
(* ------------------------------------------------------------------ *)
Lemma pick_binding_req_admitted both c md s bindings dt r b d :
  pick_binding_with both c md s bindings dt (Some r) [] = Ok (b, d) ->
  exists bl, binding_list c s bindings (Some r) = Ok bl /\ In b bl.
Proof.
  unfold pick_binding_with. cbn [py_truthy].
  destruct (request_entity r) as [eid|e] eqn:He; cbn [bind]; [|discriminate].
  destruct (binding_list c s bindings (Some r)) as [bl|e] eqn:Hbl; cbn [bind]; [|discriminate].
  intros H. exists bl. split; [reflexivity|].
  exact (proj1 (pb_loop_ok _ _ _ _ _ _ _ _ _ H)).
Qed.

Lemma response_args_admitted both c md r bindings dt b d :
  response_args_with both c md r bindings dt = Ok (Some (b, d)) -> ~ soap_only bindings ->
  exists s bl, kind_service (rq_kind r) = Some s /\ binding_list c s bindings (Some r) = Ok bl /\ In b bl.
Proof.
  intros H Hns.
  destruct (response_args_ok _ _ _ _ _ _ _ _ H) as [[Hs _]|[_ (s0 & _ & _ & Hk0 & _)]]; [contradiction|].
  revert H. unfold response_args_with.
  match goal with |- context [bind ?X _] => destruct X as [[os dt']|e] eqn:Hsd end; cbn [bind fst snd]; [|discriminate].
  destruct (match bindings with Some [b0] => str_eqb b0 B_SOAP | _ => false end) eqn:Hsoap.
  - exfalso. exact (Hns (soap_only_dec _ Hsoap)).
  - destruct os as [s|]; [|discriminate].
    destruct (pick_binding_with both c md s bindings (default_descr c dt') (Some r) []) as [[b1 d1]|e] eqn:Hpb;
      [|discriminate].
    intros H. injection H as <- <-.
    destruct (pick_binding_req_admitted _ _ _ _ _ _ _ _ _ Hpb) as (bl & Hbl & Hin).
    exists s, bl. split; [|split; assumption].
    destruct (rq_kind r); cbn [kind_service] in *;
      try (destruct (rq_issuer r); [|discriminate]); try discriminate;
      injection Hsd as <- _; reflexivity.
Qed.

(* the issuer's endpoints are registered only under bindings that are unequal
   to every admitted binding: refused *)
Lemma response_args_no_equal_binding both c md r bindings dt s eid bl :
  kind_service (rq_kind r) = Some s -> request_entity r = Ok eid -> ~ soap_only bindings ->
  binding_list c s bindings (Some r) = Ok bl ->
  (forall b loc, registered md eid (kind_role c (rq_kind r) dt) s b loc -> ~ In b bl) ->
  exists e, response_args_with both c md r bindings dt = Err e.
Proof.
  intros Hk He Hns Hbl Hno. apply (refused_of_not_answered both c md r bindings dt s Hk).
  intros b d H.
  destruct (response_args_registered _ _ _ _ _ _ _ _ H) as [[Hs _]|(s' & eid' & Hk' & He' & Hreg)]; [contradiction|].
  destruct (response_args_admitted _ _ _ _ _ _ _ _ H Hns) as (s'' & bl' & Hk'' & Hbl' & Hin).
  assert (s' = s) by congruence. assert (s'' = s) by congruence. assert (eid' = eid) by congruence. subst.
  rewrite Hbl in Hbl'. injection Hbl' as <-.
  exact (Hno b d Hreg Hin).
Qed.

Lemma response_args_contained_binding_refused both c md r bindings dt s eid bl :
  kind_service (rq_kind r) = Some s -> request_entity r = Ok eid -> ~ soap_only bindings ->
  binding_list c s bindings (Some r) = Ok bl ->
  (forall b loc, registered md eid (kind_role c (rq_kind r) dt) s b loc ->
                 forall x, In x bl -> contain_each_other b x) ->
  exists e, response_args_with both c md r bindings dt = Err e.
Proof.
  intros Hk He Hns Hbl Hrel.
  apply (response_args_no_equal_binding both c md r bindings dt s eid bl Hk He Hns Hbl).
  intros b loc Hreg Hin. exact (contain_each_other_irrefl b (Hrel b loc Hreg b Hin)).
Qed.

(* every entity id in the store contains / is contained in the stripped issuer
   without being equal to it (trailing slash, prefix, ...): refused *)
Lemma response_args_contained_entity_refused both c md r bindings dt s eid :
  ~ soap_only bindings -> kind_service (rq_kind r) = Some s -> request_entity r = Ok eid ->
  (forall src e, In src md -> In e src -> contain_each_other (en_id e) eid) ->
  exists e, response_args_with both c md r bindings dt = Err e.
Proof.
  intros Hns Hk He Hrel.
  apply (response_args_unknown both c md r bindings dt s Hns Hk).
  intros eid' He' src e descs H1 H2 H3 _.
  assert (Heq : en_id e = eid) by congruence.
  pose proof (Hrel src e H1 H2) as Hc. rewrite Heq in Hc.
  exact (contain_each_other_irrefl _ Hc).
Qed.
