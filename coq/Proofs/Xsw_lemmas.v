(* Proofs/Xsw_lemmas.v — what a positive verdict of the tool covers, what the enveloping
   pre-check adds, and what an attacker who cannot forge signature values can assemble (C01).
   Everything is for documents of unbounded size (induction over trees / paths). *)
From PV Require Import Lib.Base Model.Xsw.
Open Scope N_scope.

(* ------------------------------------------------------------------ induction over nested trees *)
Section TreeInd.
  Variable P : tree -> Prop.
  Hypothesis HEl : forall n i pl kids, Forall P kids -> P (El n i pl kids).
  Hypothesis HSg : forall refs key sv i pl kids,
      Forall (fun r => P (snd r)) refs -> Forall P kids -> P (Sg refs key sv i pl kids).
  Fixpoint tree_ind2 (t : tree) : P t :=
    match t with
    | El n i pl kids =>
        HEl n i pl kids
          ((fix go (l : list tree) : Forall P l :=
              match l with [] => Forall_nil P | c :: r => Forall_cons c (tree_ind2 c) (go r) end) kids)
    | Sg refs key sv i pl kids =>
        HSg refs key sv i pl kids
          ((fix go (l : list (str * tree)) : Forall (fun r => P (snd r)) l :=
              match l with
              | [] => Forall_nil _
              | ud :: r => Forall_cons ud (match ud as x return P (snd x) with (u, d) => tree_ind2 d end) (go r)
              end) refs)
          ((fix go (l : list tree) : Forall P l :=
              match l with [] => Forall_nil P | c :: r => Forall_cons c (tree_ind2 c) (go r) end) kids)
    end.
End TreeInd.

(* ------------------------------------------------------------------ digest equality is equality *)
Lemma tree_eqb_El n1 i1 p1 k1 n2 i2 p2 k2 :
  tree_eqb (El n1 i1 p1 k1) (El n2 i2 p2 k2) =
  N.eqb n1 n2 && opt_str_eqb i1 i2 && N.eqb p1 p2 && list_eqb tree_eqb k1 k2.
Proof. reflexivity. Qed.
Lemma tree_eqb_Sg r1 ky1 ok1 i1 p1 k1 r2 ky2 ok2 i2 p2 k2 :
  tree_eqb (Sg r1 ky1 ok1 i1 p1 k1) (Sg r2 ky2 ok2 i2 p2 k2) =
  N.eqb ky1 ky2 && Bool.eqb ok1 ok2 && opt_str_eqb i1 i2 && N.eqb p1 p2 && list_eqb ref_eqb r1 r2 && list_eqb tree_eqb k1 k2.
Proof. reflexivity. Qed.

Lemma opt_str_eqb_eq a b : opt_str_eqb a b = true -> a = b.
Proof. destruct a, b; cbn; try discriminate; auto. intros H. apply str_eqb_eq in H. now subst. Qed.
Lemma opt_str_eqb_refl a : opt_str_eqb a a = true.
Proof. destruct a; cbn; auto using str_eqb_refl. Qed.

Lemma list_eqb_sound {A} (f : A -> A -> bool) (l1 : list A) :
  Forall (fun x => forall y, f x y = true -> x = y) l1 -> forall l2, list_eqb f l1 l2 = true -> l1 = l2.
Proof.
  induction 1 as [|x r1 Hx _ IH]; intros [|y r2] H; cbn in H; try discriminate; [reflexivity|].
  apply andb_true_iff in H as [H1 H2]. f_equal; auto.
Qed.
Lemma list_eqb_refl {A} (f : A -> A -> bool) (l : list A) :
  Forall (fun x => f x x = true) l -> list_eqb f l l = true.
Proof. induction 1 as [|x r Hx _ IH]; cbn; [reflexivity|]. now rewrite Hx, IH. Qed.

Lemma tree_eqb_sound : forall a b, tree_eqb a b = true -> a = b.
Proof.
  induction a as [n1 i1 p1 k1 IHk|r1 ky1 ok1 i1 p1 k1 IHr IHk] using tree_ind2; intros [n2 i2 p2 k2|r2 ky2 ok2 i2 p2 k2] H;
    try discriminate.
  - rewrite tree_eqb_El in H. repeat (apply andb_true_iff in H as [H ?]).
    apply N.eqb_eq in H. apply opt_str_eqb_eq in H2. apply N.eqb_eq in H1.
    apply (list_eqb_sound tree_eqb k1 IHk) in H0. now subst.
  - rewrite tree_eqb_Sg in H. repeat (apply andb_true_iff in H as [H ?]).
    apply N.eqb_eq in H. apply Bool.eqb_prop in H4. apply opt_str_eqb_eq in H3. apply N.eqb_eq in H2.
    apply (list_eqb_sound tree_eqb k1 IHk) in H0.
    assert (r1 = r2) as ->.
    { apply (list_eqb_sound ref_eqb r1); [|exact H1].
      eapply Forall_impl; [|exact IHr]. intros [u1 d1] Hd [u2 d2] He. cbn in *.
      apply andb_true_iff in He as [E1 E2]. apply str_eqb_eq in E1. apply Hd in E2. now subst. }
    now subst.
Qed.

Lemma tree_eqb_refl : forall a, tree_eqb a a = true.
Proof.
  induction a as [n1 i1 p1 k1 IHk|r1 ky1 ok1 i1 p1 k1 IHr IHk] using tree_ind2.
  - rewrite tree_eqb_El, N.eqb_refl, opt_str_eqb_refl, N.eqb_refl, (list_eqb_refl _ _ IHk). reflexivity.
  - rewrite tree_eqb_Sg, N.eqb_refl, Bool.eqb_reflx, opt_str_eqb_refl, N.eqb_refl, (list_eqb_refl _ _ IHk).
    rewrite (list_eqb_refl ref_eqb r1); [reflexivity|].
    eapply Forall_impl; [|exact IHr]. intros [u d] Hd. cbn in *. now rewrite str_eqb_refl, Hd.
Qed.

(* ------------------------------------------------------------------ paths *)
Lemma subtree_at_app : forall p q t,
  subtree_at (p ++ q) t = match subtree_at p t with Some x => subtree_at q x | None => None end.
Proof.
  induction p as [|k p IH]; intros q t; cbn; [reflexivity|].
  destruct (nth_error (t_kids t) k); [apply IH|reflexivity].
Qed.

Lemma is_prefix_app p q : is_prefix p (p ++ q) = true.
Proof. induction p as [|k p IH]; cbn; [reflexivity|]. now rewrite Nat.eqb_refl, IH. Qed.

Lemma skipn_length_app {A} (p q : list A) : skipn (List.length p) (p ++ q) = q.
Proof. induction p; cbn; auto. Qed.

Lemma t_kids_with_kids t k : t_kids (with_kids t k) = k.
Proof. destruct t; reflexivity. Qed.

(* ------------------------------------------------------------------ ID tables *)
Lemma ids_where_unfold f t : ids_where f t = own_id f t ++ ids_in (ids_where f) (t_kids t) O.
Proof. destruct t; reflexivity. Qed.

Lemma ids_in_spec (g : tree -> list (str * path)) v p : forall l k,
  In (v, p) (ids_in g l k) <-> exists j c q, nth_error l j = Some c /\ p = (k + j)%nat :: q /\ In (v, q) (g c).
Proof.
  induction l as [|c l IH]; intros k; cbn [ids_in].
  - split; [intros []|intros (j & c & q & H & _)]. destruct j; discriminate.
  - rewrite in_app_iff, in_map_iff, IH. split.
    + intros [([v' q] & E & Hin)|(j & c' & q & Hn & -> & Hin)].
      * cbn in E. injection E as -> <-. exists O, c, q. rewrite Nat.add_0_r. auto.
      * exists (S j), c', q. rewrite Nat.add_succ_r. auto.
    + intros (j & c' & q & Hn & -> & Hin). destruct j as [|j]; cbn in Hn.
      * injection Hn as <-. left. exists (v, q). rewrite Nat.add_0_r. auto.
      * right. exists j, c', q. rewrite Nat.add_succ_r. auto.
Qed.

Lemma ids_where_spec f v : forall t p,
  In (v, p) (ids_where f t) <-> exists Y, subtree_at p t = Some Y /\ t_id Y = Some v /\ f Y = true.
Proof.
  induction t as [n i pl kids IH|refs key sv i pl kids _ IH] using tree_ind2; intros p;
    rewrite ids_where_unfold, in_app_iff, ids_in_spec; cbn [t_kids];
    (split;
     [ intros [Hown|(j & c & q & Hn & -> & Hin)];
       [ unfold own_id in Hown;
         match type of Hown with In _ (match ?x with _ => _ end) => destruct x as [w|] eqn:Ei; [|destruct Hown] end;
         match type of Hown with In _ (if ?x then _ else _) => destruct x eqn:Ef; [|destruct Hown] end;
         destruct Hown as [E|[]]; injection E as -> <-; eexists; cbn [subtree_at]; repeat split; eassumption
       | cbn [subtree_at t_kids Nat.add]; rewrite Hn;
         rewrite Forall_forall in IH; apply (IH c (nth_error_In _ _ Hn)) in Hin; exact Hin ]
     | intros (Y & Hs & Hi & Hf); destruct p as [|j q];
       [ left; cbn in Hs; injection Hs as <-; unfold own_id; rewrite Hi, Hf; now left
       | right; cbn [subtree_at t_kids] in Hs;
         destruct (nth_error kids j) as [c|] eqn:Hn; [|discriminate];
         exists j, c, q; repeat split; auto;
         rewrite Forall_forall in IH; apply (IH c (nth_error_In _ _ Hn)); eauto ] ]).
Qed.

Lemma registered_spec nm doc v p :
  In (v, p) (registered nm doc) <-> exists Y, subtree_at p doc = Some Y /\ t_id Y = Some v /\ t_name Y = nm.
Proof.
  unfold registered. rewrite ids_where_spec. split; intros (Y & H1 & H2 & H3); exists Y; repeat split; auto.
  - now apply N.eqb_eq. - now apply N.eqb_eq.
Qed.

Lemma carriers_spec v doc p :
  In p (carriers v doc) <-> exists Y, subtree_at p doc = Some Y /\ t_id Y = Some v.
Proof.
  unfold carriers. rewrite in_map_iff. split.
  - intros ([w q] & E & Hin). cbn in E. subst q. apply filter_In in Hin as [Hin Hw]. cbn in Hw.
    apply str_eqb_eq in Hw. subst w. apply ids_where_spec in Hin as (Y & H1 & H2 & _). eauto.
  - intros (Y & H1 & H2). exists (v, p). split; [reflexivity|]. apply filter_In. split.
    + apply ids_where_spec. eauto.
    + cbn. apply str_eqb_refl.
Qed.

(* the ID is carried by exactly one node of the document *)
Lemma carriers_unique v doc px :
  carriers v doc = [px] -> forall q Y, subtree_at q doc = Some Y -> t_id Y = Some v -> q = px.
Proof.
  intros Hc q Y Hs Hi. assert (In q (carriers v doc)) as Hin by (apply carriers_spec; eauto).
  rewrite Hc in Hin. destruct Hin as [<-|[]]. reflexivity.
Qed.

Lemma lookup_id_In i : forall regs p, lookup_id i regs = Some p -> In (i, p) regs.
Proof.
  induction regs as [|[v q] r IH]; intros p H; cbn in H; [discriminate|].
  destruct (str_eqb v i) eqn:E.
  - apply str_eqb_eq in E. injection H as <-. subst. now left.
  - right. auto.
Qed.

Lemma lookup_In pol i regs p : lookup pol i regs = Some p -> In (i, p) regs.
Proof.
  destruct pol; cbn; intros H; try (now apply lookup_id_In).
  apply lookup_id_In in H. now apply in_rev.
Qed.

(* whatever the duplicate-ID policy: a resolved ID names a registered element carrying it *)
Lemma lookup_registered pol nm doc v p :
  lookup pol v (registered nm doc) = Some p ->
  exists Y, subtree_at p doc = Some Y /\ t_id Y = Some v /\ t_name Y = nm.
Proof. intros H. apply lookup_In in H. now apply registered_spec. Qed.

(* ------------------------------------------------------------------ the element's only Signature child *)
Lemma count_sigs_one_unique : forall kids k s,
  count_sigs kids = 1%nat -> nth_error kids k = Some s -> is_sig s = true ->
  forall j c, nth_error kids j = Some c -> is_sig c = true -> j = k.
Proof.
  unfold count_sigs. induction kids as [|x kids IH]; intros k s Hc Hk Hs j c Hj Hcs; [destruct k; discriminate|].
  cbn [filter] in Hc. destruct (is_sig x) eqn:Ex.
  - cbn in Hc. injection Hc as Hc.
    assert (forall m y, nth_error kids m = Some y -> is_sig y = false) as Hno.
    { intros m y Hm. destruct (is_sig y) eqn:Ey; [|reflexivity].
      assert (In y (filter is_sig kids)) as Hin by (apply filter_In; split; [eapply nth_error_In; eauto|exact Ey]).
      destruct (filter is_sig kids); [destruct Hin|discriminate]. }
    destruct k as [|k], j as [|j]; cbn in Hk, Hj; try reflexivity.
    + rewrite (Hno _ _ Hj) in Hcs. discriminate.
    + rewrite (Hno _ _ Hk) in Hs. discriminate.
    + rewrite (Hno _ _ Hj) in Hcs. discriminate.
  - destruct k as [|k], j as [|j]; cbn in Hk, Hj.
    + reflexivity.
    + injection Hk as <-. congruence.
    + injection Hj as <-. congruence.
    + f_equal. eapply IH; eauto.
Qed.

(* ------------------------------------------------------------------ what a positive verdict of the tool covers *)
(* one reference of the processed signature is honoured: it resolves to a registered element whose present
   content, minus the processed signature when that lies inside, IS the digested content *)
Definition ref_covered (pol : dup_policy) (doc : tree) (nm : N) (ps : path) (ud : str * tree) : Prop :=
  exists pt T, resolve pol (fst ud) (registered nm doc) = Some pt /\ subtree_at pt doc = Some T /\
    snd ud = (if is_prefix pt ps then remove_at (skipn (List.length pt) ps) T else T).

Lemma ref_ok_covered pol doc nm ps ud :
  ref_ok pol doc (registered nm doc) ps ud = true -> ref_covered pol doc nm ps ud.
Proof.
  unfold ref_ok, ref_covered. destruct (resolve pol (fst ud) (registered nm doc)) as [pt|]; [|discriminate].
  destruct (subtree_at pt doc) as [T|] eqn:HT; [|discriminate]. intros H. apply tree_eqb_sound in H.
  exists pt, T. split; [reflexivity|]. split; [exact HT|exact H].
Qed.

Theorem verify_ok_covered pol doc nm i cert :
  tool_verify pol doc nm i cert = true ->
  exists px X p refs sid spl skids,
    (* the start node: the root, or the registered element carrying the requested ID *)
    (match i with
     | Some v => lookup pol v (registered nm doc) = Some px /\ t_id X = Some v /\ t_name X = nm
     | None => px = []
     end) /\
    subtree_at px doc = Some X /\
    (* the signature that is processed: the first one in document order at or below the start node *)
    first_sig_incl X = Some p /\
    subtree_at (px ++ p) doc = Some (Sg refs cert true sid spl skids) /\
    refs <> [] /\
    Forall (ref_covered pol doc nm (px ++ p)) refs.
Proof.
  unfold tool_verify. destruct (dup_refused pol (registered nm doc)); [discriminate|].
  destruct (match i with Some v => lookup pol v (registered nm doc) | None => Some [] end) as [px|] eqn:Hl; [|discriminate].
  destruct (subtree_at px doc) as [X|] eqn:HX; [|discriminate].
  destruct (first_sig_incl X) as [p|] eqn:Hp; [|discriminate].
  destruct (subtree_at (px ++ p) doc) as [[|refs key sv sid spl skids]|] eqn:Hs; try discriminate.
  intros H. repeat (apply andb_true_iff in H as [H ?]). subst sv. apply N.eqb_eq in H2. subst key.
  exists px, X, p, refs, sid, spl, skids. repeat split; auto.
  - destruct i as [v|].
    + destruct (lookup_registered _ _ _ _ _ Hl) as (Y & HY & Hi & Hn). rewrite HX in HY. injection HY as <-. auto.
    + now injection Hl as <-.
  - destruct refs; [discriminate|congruence].
  - apply Forall_forall. intros ud Hin. rewrite forallb_forall in H0. apply ref_ok_covered. auto.
Qed.

(* ------------------------------------------------------------------ with the pre-check *)
(* what _check_signature's acceptance means for the element pysaml2 relies on *)
Record covered (doc : tree) (nm : N) (v : str) (certs : list N) (px : path) (X : tree) (k : nat) (D : tree) : Prop := {
  cv_id_nonempty : v <> [];
  cv_at : subtree_at px doc = Some X;
  cv_elem : exists pl kids, X = El nm (Some v) pl kids;
  (* no other node of the document carries that ID: whatever was parsed from an element with this ID was parsed from X *)
  cv_unique : forall q Y, subtree_at q doc = Some Y -> t_id Y = Some v -> q = px;
  (* X directly carries exactly one signature: child k, with a single reference naming X's own ID,
     an intact value made with a key of the candidate certificate list *)
  cv_sig : exists key sid spl skids, nth_error (t_kids X) k = Some (Sg [(HASH :: v, D)] key true sid spl skids) /\ In key certs;
  cv_only : forall j c, nth_error (t_kids X) j = Some c -> is_sig c = true -> j = k;
  (* it is the first signature in document order inside X (the one the tool processes) *)
  cv_first : first_sig X = Some [k];
  (* the digest covers exactly X's present content minus that signature child *)
  cv_digest : D = with_kids X (remove_nth k (t_kids X))
}.

Theorem relied_is_covered pol doc nm i certs :
  check_signature_x pol doc nm i certs = true ->
  exists v px X k D, i = Some v /\ covered doc nm v certs px X k D.
Proof.
  unfold check_signature_x. intros H. apply andb_true_iff in H as [Hpre Hex].
  unfold precheck in Hpre. destruct i as [v|]; [|discriminate]. destruct v as [|c0 v0] eqn:Ev; [discriminate|]. rewrite <- Ev in *.
  assert (v <> []) as Hne by (rewrite Ev; discriminate).
  assert (node_id_arg (Some v) = Some v) as Harg by (rewrite Ev; reflexivity). rewrite Harg in Hex.
  replace (match v with [] => false | _ :: _ => _ end) with
    (match carriers v doc with
     | [px] => match subtree_at px doc with
               | Some (El n xi pl kids) =>
                   N.eqb n nm && match first_sig (El n xi pl kids) with
                                 | Some [k] => Nat.eqb (count_sigs kids) 1 &&
                                               match nth_error kids k with
                                               | Some (Sg [(u, _)] _ _ _ _ _) => str_eqb u (HASH :: v)
                                               | _ => false end
                                 | _ => false end
               | _ => false end
     | _ => false end) in Hpre by (rewrite Ev; reflexivity).
  destruct (carriers v doc) as [|px [|? ?]] eqn:Hc; try discriminate.
  destruct (subtree_at px doc) as [[n xi pl kids|]|] eqn:HX; try discriminate.
  apply andb_true_iff in Hpre as [Hn Hpre]. apply N.eqb_eq in Hn. subst n.
  destruct (first_sig (El nm xi pl kids)) as [[|k [|? ?]]|] eqn:Hf; try discriminate.
  apply andb_true_iff in Hpre as [Hcnt Hpre]. apply Nat.eqb_eq in Hcnt.
  destruct (nth_error kids k) as [[|[|[u D] [|? ?]] key sv sid spl skids]|] eqn:Hk; try discriminate.
  apply str_eqb_eq in Hpre. subst u.
  (* the element's own ID is v (it is a carrier) *)
  assert (xi = Some v) as ->.
  { assert (In px (carriers v doc)) as Hin by (rewrite Hc; now left).
    apply carriers_spec in Hin as (Y & HY & Hi). rewrite HX in HY. injection HY as <-. exact Hi. }
  pose proof (carriers_unique _ _ _ Hc) as Huniq.
  (* some certificate verifies: unfold the tool *)
  apply existsb_exists in Hex as (cert & Hcert & Hv).
  apply verify_ok_covered in Hv as (px' & X' & p & refs & sid' & spl' & skids' & (Hl & Hi' & Hn') & HX' & Hp & Hs & _ & Hrefs).
  assert (px' = px) as -> by (eapply Huniq; eauto).
  rewrite HX in HX'. injection HX' as <-.
  unfold first_sig_incl in Hp. cbn [is_sig] in Hp. rewrite Hf in Hp. injection Hp as <-.
  rewrite subtree_at_app, HX in Hs. cbn [subtree_at t_kids] in Hs. rewrite Hk in Hs.
  injection Hs as E1 E2 E3 _ _ _. subst refs key sv.
  (* the single reference *)
  apply Forall_inv in Hrefs. destruct Hrefs as (pt & T & Hres & HT & Hd). cbn [fst snd] in *.
  unfold resolve in Hres. rewrite N.eqb_refl in Hres. rewrite Hl in Hres. injection Hres as <-.
  rewrite HX in HT. injection HT as <-.
  rewrite is_prefix_app, skipn_length_app in Hd. cbn [remove_at t_kids with_kids] in Hd.
  exists v, px, (El nm (Some v) pl kids), k, D. split; [reflexivity|].
  constructor.
  - exact Hne.
  - exact HX.
  - eauto.
  - exact Huniq.
  - cbn [t_kids]. exists cert, sid, spl, skids. auto.
  - cbn [t_kids]. intros j c Hj Hc'. eapply count_sigs_one_unique; [exact Hcnt|exact Hk|reflexivity|exact Hj|exact Hc'].
  - exact Hf.
  - exact Hd.
Qed.

(* ------------------------------------------------------------------ what an attacker can assemble *)
Section Attacker.
  Variable protected : list N.                     (* keys whose private half the attacker does not hold *)
  Variable signed : list (str * tree) -> Prop.      (* the SignedInfo contents those keys ever signed *)

  (* documents in which every signature value that is valid under a protected key stands over a SignedInfo
     that the key's owner produced (unforgeability, Dolev-Yao) — everything else is arbitrary *)
  Inductive derivable : tree -> Prop :=
  | D_El n i pl kids : Forall derivable kids -> derivable (El n i pl kids)
  | D_Sg refs key sv i pl kids :
      (sv = true -> In key protected -> signed refs) -> Forall derivable kids -> derivable (Sg refs key sv i pl kids).

  Lemma derivable_kids t : derivable t -> Forall derivable (t_kids t).
  Proof. intros H. inversion H; subst; assumption. Qed.

  Lemma derivable_subtree : forall p t Y, derivable t -> subtree_at p t = Some Y -> derivable Y.
  Proof.
    induction p as [|k p IH]; intros t Y Ht H; cbn in H.
    - now injection H as <-.
    - destruct (nth_error (t_kids t) k) as [c|] eqn:Hk; [|discriminate].
      apply (IH c); [|exact H]. apply derivable_kids in Ht. rewrite Forall_forall in Ht. apply Ht.
      eapply nth_error_In; eauto.
  Qed.

  (* acceptance of a derivable document: the relied element minus its signature is a content the owner of a
     protected key signed under that very ID *)
  Theorem accepted_content_was_signed pol doc nm i certs :
    derivable doc -> (forall c, In c certs -> In c protected) ->
    check_signature_x pol doc nm i certs = true ->
    exists v px X k D, i = Some v /\ covered doc nm v certs px X k D /\ signed [(HASH :: v, D)].
  Proof.
    intros Hd Hp H. apply relied_is_covered in H as (v & px & X & k & D & -> & Hc).
    exists v, px, X, k, D. split; [reflexivity|]. split; [exact Hc|].
    destruct (cv_sig _ _ _ _ _ _ _ _ Hc) as (key & sid & spl & skids & Hk & Hin).
    assert (derivable (Sg [(HASH :: v, D)] key true sid spl skids)) as Hs.
    { apply (derivable_subtree [k] X); [eapply derivable_subtree; [exact Hd|apply (cv_at _ _ _ _ _ _ _ _ Hc)]|].
      cbn. now rewrite Hk. }
    inversion Hs as [|refs' key' sv' i' pl' kids' Hsig Hkids]; subst. apply Hsig; [reflexivity|apply Hp; exact Hin].
  Qed.

  (* ---- the mutation operators of the quantifier, as a closure: a document assembled from parts of d0 ---- *)
  Inductive assembled (d0 : tree) : tree -> Prop :=
  (* copy / move / relocate: any part of the original, anywhere *)
  | A_part p t : subtree_at p d0 = Some t -> assembled d0 t
  (* edit / wrap / nest / duplicate / new IDs: any element, with any name, ID, attributes and text, around assembled parts *)
  | A_el n i pl kids : Forall (assembled d0) kids -> assembled d0 (El n i pl kids)
  (* any signature that is not valid under a protected key (stripped value, own key, garbage) *)
  | A_forged_sig refs key sv i pl kids :
      (sv = true -> ~ In key protected) -> Forall (assembled d0) kids -> assembled d0 (Sg refs key sv i pl kids)
  (* an original signature kept verbatim (SignedInfo and value) but re-dressed: other ID, attributes,
     KeyInfo, ds:Object children holding anything *)
  | A_redressed_sig p refs key sv i pl kids i' pl' kids' :
      subtree_at p d0 = Some (Sg refs key sv i pl kids) -> Forall (assembled d0) kids' ->
      assembled d0 (Sg refs key sv i' pl' kids').

  Lemma assembled_derivable d0 : derivable d0 -> forall t, assembled d0 t -> derivable t.
  Proof.
    intros H0. fix IH 2. intros t Ht. destruct Ht as [p t Hp|n i pl kids Hk|refs key sv i pl kids Hn Hk|p refs key sv i pl kids i' pl' kids' Hp Hk].
    - eapply derivable_subtree; eauto.
    - constructor. induction Hk as [|c r Hc _ IHr]; constructor; auto.
    - constructor; [intros -> Hin; destruct (Hn eq_refl Hin)|]. induction Hk as [|c r Hc _ IHr]; constructor; auto.
    - pose proof (derivable_subtree _ _ _ H0 Hp) as Hs. inversion Hs; subst.
      constructor; [assumption|]. induction Hk as [|c r Hc _ IHr]; constructor; auto.
  Qed.
End Attacker.

(* the SignedInfos validly signed under a protected key that occur in a document *)
Definition signed_in (protected : list N) (d0 : tree) (refs : list (str * tree)) : Prop :=
  exists p key i pl kids, subtree_at p d0 = Some (Sg refs key true i pl kids) /\ In key protected.

Lemma derivable_self protected d0 : derivable protected (signed_in protected d0) d0.
Proof.
  assert (forall t q, subtree_at q d0 = Some t -> derivable protected (signed_in protected d0) t) as G.
  { induction t as [n i pl kids IH|refs key sv i pl kids _ IH] using tree_ind2; intros q Hq.
    - constructor. apply Forall_forall. intros c Hc. apply In_nth_error in Hc as [j Hj].
      rewrite Forall_forall in IH. apply (IH c (nth_error_In _ _ Hj) (q ++ [j])).
      rewrite subtree_at_app, Hq. cbn. now rewrite Hj.
    - constructor.
      + intros -> Hin. exists q, key, i, pl, kids. auto.
      + apply Forall_forall. intros c Hc. apply In_nth_error in Hc as [j Hj].
        rewrite Forall_forall in IH. apply (IH c (nth_error_In _ _ Hj) (q ++ [j])).
        rewrite subtree_at_app, Hq. cbn. now rewrite Hj. }
  apply (G d0 []). reflexivity.
Qed.

(* C01 in the quantifier's terms: whatever is assembled from a document d0, if it is accepted then the element
   relied upon, minus its signature child, is a content that a protected key signed IN d0 under that same ID *)
Theorem mutation_rejected protected d0 d pol nm i certs :
  (forall c, In c certs -> In c protected) ->
  assembled protected d0 d ->
  check_signature_x pol d nm i certs = true ->
  exists v px X k D, i = Some v /\ covered d nm v certs px X k D /\ signed_in protected d0 [(HASH :: v, D)].
Proof.
  intros Hp Ha H. eapply accepted_content_was_signed; eauto.
  eapply assembled_derivable; [apply derivable_self|exact Ha].
Qed.

(* ------------------------------------------------------------------ mutations compose *)
Section Compose.
  Variable protected : list N.

  Lemma assembled_kids d0 t : assembled protected d0 t -> Forall (assembled protected d0) (t_kids t).
  Proof.
    intros H. destruct H as [p t Hp|n i pl kids Hk|refs key sv i pl kids Hn Hk|p refs key sv i pl kids i' pl' kids' Hp Hk]; cbn [t_kids]; auto.
    apply Forall_forall. intros c Hc. apply In_nth_error in Hc as [j Hj].
    apply (A_part _ _ (p ++ [j])). rewrite subtree_at_app, Hp. cbn. now rewrite Hj.
  Qed.

  Lemma assembled_subtree d0 : forall p t Y, assembled protected d0 t -> subtree_at p t = Some Y -> assembled protected d0 Y.
  Proof.
    induction p as [|k p IH]; intros t Y Ht H; cbn in H.
    - now injection H as <-.
    - destruct (nth_error (t_kids t) k) as [c|] eqn:Hk; [|discriminate].
      apply (IH c); [|exact H]. apply assembled_kids in Ht. rewrite Forall_forall in Ht. apply Ht. eapply nth_error_In; eauto.
  Qed.

  (* sequences of mutations stay inside the closure *)
  Lemma assembled_trans d0 d : assembled protected d0 d -> forall t, assembled protected d t -> assembled protected d0 t.
  Proof.
    intros Hd. fix IH 2. intros t Ht.
    destruct Ht as [p t Hp|n i pl kids Hk|refs key sv i pl kids Hn Hk|p refs key sv i pl kids i' pl' kids' Hp Hk].
    - eapply assembled_subtree; eauto.
    - apply A_el. induction Hk as [|c r Hc _ IHr]; constructor; auto.
    - apply A_forged_sig; [exact Hn|]. induction Hk as [|c r Hc _ IHr]; constructor; auto.
    - assert (Forall (assembled protected d0) kids') as K by (induction Hk as [|c r Hc _ IHr]; constructor; auto).
      pose proof (assembled_subtree _ _ _ _ Hd Hp) as Hs.
      inversion Hs as [q t' Hq|?|refs0 key0 sv0 i0 pl0 kids0 Hn0 Hk0|q refs0 key0 sv0 i0 pl0 kids0 i0' pl0' kids0' Hq Hk0]; subst.
      + eapply A_redressed_sig; eauto.
      + apply A_forged_sig; assumption.
      + eapply A_redressed_sig; eauto.
  Qed.
End Compose.

Lemma assembled_refl protected d0 : assembled protected d0 d0.
Proof. apply (A_part _ _ []). reflexivity. Qed.
