(* Proofs/Glue_xsw.v — GLUE between the two symbolic document models and the three pre-checks:

     Model/Xmlsec.v  (C10 requests, C16 metadata): tree = El | Sg refs key sv,  tool_verify dupfail, precheck
     Model/Xsw.v     (C01): Sg carries its own ID / payload / element children, three duplicate-ID policies,
                            precheck = sigver._enveloped_signature_ok
     Model/Request.v enveloped_ok = Xmlsec.precheck (which counts the carriers of the ID among ALL elements, as the library)
     Model/MdSig.v   md_precheck  = _enveloped_signature_ok(..., whole_document_ok=True)

   [emb] embeds an Xmlsec document into the Xsw document type (element names shifted by one: Xsw reserves
   name 0 for ds:Signature; an embedded signature has no ID, no payload, no element children).  Through it:
   sub-trees, first signature, ID tables, digests (tree_eqb), the enveloped transform (remove_at), the tool
   (tool_verify, dupfail = DupFail / first-wins = DupFirst) and the pre-check commute; Request.enveloped_ok IS
   Xsw.precheck; Xmlsec.precheck ALONE is strictly weaker (witness: the ID also carried by an element of another
   name - the library refuses, docs/Glue.md); md_precheck with a "#id" reference is Xsw.precheck on the root.
   Consequence: C01_relied_is_covered / C01_accepted_content_was_signed hold for requests (Model/Request.v
   check_sig) and for prechecked metadata. *)
From PV Require Import Lib.Base.
From PV Require Model.Xmlsec Model.Xsw Model.MdSig Model.Request Proofs.Xsw_lemmas Proofs.Request_lemmas.
Module M := PV.Model.Xmlsec.
Module X := PV.Model.Xsw.
Module XL := PV.Proofs.Xsw_lemmas.
Module RQ := PV.Model.Request.
Module MD := PV.Model.MdSig.
Module RL := PV.Proofs.Request_lemmas.
Open Scope N_scope.

(* ------------------------------------------------------------------ *)
(* induction over Xmlsec trees                                         *)
(* ------------------------------------------------------------------ *)
Section MTreeInd.
  Variable P : M.tree -> Prop.
  Hypothesis HEl : forall n i p kids, Forall P kids -> P (M.El n i p kids).
  Hypothesis HSg : forall refs k ok, Forall (fun ud : str * M.tree => P (snd ud)) refs -> P (M.Sg refs k ok).
  Fixpoint mtree_ind2 (t : M.tree) : P t :=
    match t with
    | M.El n i p kids =>
        HEl n i p kids
          ((fix go (l : list M.tree) : Forall P l :=
              match l with [] => Forall_nil P | x :: r => Forall_cons x (mtree_ind2 x) (go r) end) kids)
    | M.Sg refs k ok =>
        HSg refs k ok
          ((fix go (l : list (str * M.tree)) : Forall (fun ud : str * M.tree => P (snd ud)) l :=
              match l with [] => Forall_nil _ | ud :: r => Forall_cons ud (mtree_ind2 (snd ud)) (go r) end) refs)
    end.
End MTreeInd.

(* ------------------------------------------------------------------ *)
(* the embedding                                                       *)
(* ------------------------------------------------------------------ *)
Fixpoint emb (t : M.tree) : X.tree :=
  match t with
  | M.El n i pl kids => X.El (N.succ n) i pl (map emb kids)
  | M.Sg refs key sv => X.Sg (map (fun ud => (fst ud, emb (snd ud))) refs) key sv None 0 []
  end.
Definition emb_ref (ud : str * M.tree) : str * X.tree := (fst ud, emb (snd ud)).
Definition nm' (nm : N) : N := N.succ nm.
(* the tool's duplicate-ID policy *)
Definition pol_of (dupfail : bool) : X.dup_policy := if dupfail then X.DupFail else X.DupFirst.

Lemma succ_eqb a b : N.eqb (N.succ a) (N.succ b) = N.eqb a b.
Proof.
  destruct (N.eqb_spec a b) as [->|Hn]; [apply N.eqb_refl|]. apply N.eqb_neq. intros H. apply N.succ_inj in H. contradiction.
Qed.

Lemma emb_is_sig t : X.is_sig (emb t) = M.is_sig t.
Proof. destruct t; reflexivity. Qed.

Lemma emb_kids_El n i pl kids : X.t_kids (emb (M.El n i pl kids)) = map emb kids.
Proof. reflexivity. Qed.

Lemma emb_name_El n i pl kids : X.t_name (emb (M.El n i pl kids)) = N.succ n.
Proof. reflexivity. Qed.

Lemma count_sigs_emb kids : X.count_sigs (map emb kids) = M.count_sigs kids.
Proof.
  unfold X.count_sigs, M.count_sigs. induction kids as [|c r IH]; [reflexivity|]. cbn [map filter].
  rewrite emb_is_sig. destruct (M.is_sig c); cbn [List.length]; now rewrite IH.
Qed.

(* the two developments define these list functions separately *)
Lemma remove_nth_same {A} k (l : list A) : X.remove_nth k l = M.remove_nth k l.
Proof. reflexivity. Qed.
Lemma replace_nth_same {A} k (y : A) l : X.replace_nth k y l = M.replace_nth k y l.
Proof. reflexivity. Qed.
Lemma remove_nth_map {A B} (f : A -> B) k l : M.remove_nth k (map f l) = map f (M.remove_nth k l).
Proof. revert k. induction l as [|x r IH]; intros [|k]; cbn; try reflexivity. now rewrite IH. Qed.
Lemma replace_nth_map {A B} (f : A -> B) k y l : M.replace_nth k (f y) (map f l) = map f (M.replace_nth k y l).
Proof. revert k. induction l as [|x r IH]; intros [|k]; cbn; try reflexivity. now rewrite IH. Qed.
Lemma is_prefix_same a b : X.is_prefix a b = M.is_prefix a b.
Proof. reflexivity. Qed.
Lemma lookup_id_same i regs : X.lookup_id i regs = M.lookup_id i regs.
Proof. reflexivity. Qed.
Lemma has_dup_same regs : X.has_dup regs = M.has_dup regs.
Proof. reflexivity. Qed.

(* ------------------------------------------------------------------ *)
(* sub-trees, first signature                                          *)
(* ------------------------------------------------------------------ *)
Lemma subtree_emb : forall p t, X.subtree_at p (emb t) = option_map emb (M.subtree_at p t).
Proof.
  induction p as [|k p IH]; intros t; [reflexivity|]. destruct t as [n i pl kids|refs key sv].
  - cbn [X.subtree_at M.subtree_at]. rewrite emb_kids_El, nth_error_map.
    destruct (nth_error kids k) as [c|]; cbn [option_map]; [apply IH|reflexivity].
  - cbn [X.subtree_at M.subtree_at emb X.t_kids]. destruct k; reflexivity.
Qed.

Lemma first_sig_emb : forall t, X.first_sig (emb t) = M.first_sig t.
Proof.
  induction t as [n i pl kids IH|refs key sv _] using mtree_ind2; [|reflexivity].
  cbn [emb X.first_sig M.first_sig]. generalize O.
  induction IH as [|c r Hc _ IHr]; intros k; [reflexivity|].
  cbn [map X.first_in]. rewrite emb_is_sig, Hc. destruct (M.is_sig c); [reflexivity|].
  destruct (M.first_sig c); [reflexivity|]. apply IHr.
Qed.

(* ------------------------------------------------------------------ *)
(* ID tables                                                           *)
(* ------------------------------------------------------------------ *)
Definition shift (here : X.path) (vp : str * X.path) : str * X.path := (fst vp, here ++ snd vp).

Lemma shift_nil l : map (shift []) l = l.
Proof. induction l as [|[v p] r IH]; [reflexivity|]. cbn [map]. now rewrite IH. Qed.

Lemma shift_cons here k l :
  map (shift here) (map (fun vp : str * X.path => (fst vp, k :: snd vp)) l) = map (shift (here ++ [k])) l.
Proof.
  rewrite map_map. apply map_ext. intros [v p]. unfold shift. cbn [fst snd]. now rewrite <- app_assoc.
Qed.

(* --id-attr:ID <name>: the registered IDs, with their paths, in document order *)
Lemma registered_emb nm : forall t here,
  M.registered nm t here = map (shift here) (X.registered (nm' nm) (emb t)).
Proof.
  unfold X.registered, nm'.
  induction t as [n i pl kids IH|refs key sv _] using mtree_ind2; intros here; [|reflexivity].
  rewrite XL.ids_where_unfold, map_app, emb_kids_El. cbn [M.registered]. f_equal.
  - unfold X.own_id. rewrite emb_name_El, succ_eqb. cbn [emb X.t_id]. destruct i as [v|]; [|reflexivity].
    destruct (N.eqb n nm); [|reflexivity]. unfold shift. cbn [map fst snd]. now rewrite app_nil_r.
  - generalize O. induction IH as [|c r Hc _ IHr]; intros k; [reflexivity|].
    cbn [map X.ids_in]. rewrite map_app, shift_cons, <- Hc. f_equal. apply IHr.
Qed.

Lemma registered_emb_root nm t : X.registered (nm' nm) (emb t) = M.registered nm t [].
Proof. now rewrite registered_emb, shift_nil. Qed.

(* ------------------------------------------------------------------ *)
(* digests and the enveloped transform                                 *)
(* ------------------------------------------------------------------ *)
Lemma tree_eqb_emb : forall a b, X.tree_eqb (emb a) (emb b) = M.tree_eqb a b.
Proof.
  induction a as [n1 i1 p1 k1 IH|r1 key1 ok1 IH] using mtree_ind2; intros [n2 i2 p2 k2|r2 key2 ok2]; try reflexivity.
  - cbn [emb X.tree_eqb M.tree_eqb]. rewrite succ_eqb. unfold X.opt_str_eqb. f_equal.
    revert k2. induction IH as [|c r Hc _ IHr]; intros [|c2 r2]; try reflexivity.
    cbn [map X.list_eqb]. now rewrite Hc, IHr.
  - cbn [emb X.tree_eqb M.tree_eqb X.opt_str_eqb X.list_eqb]. rewrite N.eqb_refl, !andb_true_r. f_equal.
    revert r2. induction IH as [|[u d] r Hd _ IHr]; intros [|[u2 d2] r2']; try reflexivity.
    cbn [map X.list_eqb fst snd]. cbn [snd] in Hd. now rewrite Hd, IHr.
Qed.

Lemma X_remove_at_cons2 k k2 p2 t :
  X.remove_at (k :: k2 :: p2) t =
  match nth_error (X.t_kids t) k with
  | Some c => X.with_kids t (X.replace_nth k (X.remove_at (k2 :: p2) c) (X.t_kids t))
  | None => t
  end.
Proof. reflexivity. Qed.
Lemma M_remove_at_cons2 k k2 p2 n i pl kids :
  M.remove_at (k :: k2 :: p2) (M.El n i pl kids) =
  match nth_error kids k with
  | Some c => M.El n i pl (M.replace_nth k (M.remove_at (k2 :: p2) c) kids)
  | None => M.El n i pl kids
  end.
Proof. reflexivity. Qed.

Lemma remove_at_emb : forall p t, X.remove_at p (emb t) = emb (M.remove_at p t).
Proof.
  induction p as [|k p IH]; intros t; [destruct t; reflexivity|].
  destruct t as [n i pl kids|refs key sv].
  - destruct p as [|k2 p2].
    + cbn [X.remove_at M.remove_at emb X.t_kids X.with_kids]. now rewrite remove_nth_same, remove_nth_map.
    + rewrite X_remove_at_cons2, M_remove_at_cons2, emb_kids_El, nth_error_map.
      destruct (nth_error kids k) as [c|]; cbn [option_map]; [|reflexivity].
      rewrite IH. cbn [emb X.with_kids]. now rewrite replace_nth_same, replace_nth_map.
  - destruct p as [|k2 p2]; [destruct k; reflexivity|]. rewrite X_remove_at_cons2. cbn [emb X.t_kids]. destruct k; reflexivity.
Qed.

(* ------------------------------------------------------------------ *)
(* the tool                                                            *)
(* ------------------------------------------------------------------ *)
Lemma lookup_pol dupfail v regs : X.lookup (pol_of dupfail) v regs = M.lookup_id v regs.
Proof. destruct dupfail; reflexivity. Qed.

Lemma resolve_emb dupfail u regs : X.resolve (pol_of dupfail) u regs = M.resolve u regs.
Proof. unfold X.resolve, M.resolve. destruct u as [|c x]; [reflexivity|]. now rewrite lookup_pol. Qed.

Lemma dup_refused_pol dupfail regs : X.dup_refused (pol_of dupfail) regs = dupfail && M.has_dup regs.
Proof. destruct dupfail; reflexivity. Qed.

(* one Reference of the signature being processed *)
Lemma ref_ok_emb dupfail doc regs ps ud :
  X.ref_ok (pol_of dupfail) (emb doc) regs ps (emb_ref ud) =
  match M.resolve (fst ud) regs with
  | None => false
  | Some pt =>
      match M.subtree_at pt doc with
      | None => false
      | Some T => let T' := if M.is_prefix pt ps then M.remove_at (skipn (List.length pt) ps) T else T in
                  M.tree_eqb (snd ud) T'
      end
  end.
Proof.
  unfold X.ref_ok, emb_ref. cbn [fst snd]. rewrite resolve_emb. destruct (M.resolve (fst ud) regs) as [pt|]; [|reflexivity].
  rewrite subtree_emb. destruct (M.subtree_at pt doc) as [T|]; cbn [option_map]; [|reflexivity].
  rewrite is_prefix_same. destruct (M.is_prefix pt ps); [rewrite remove_at_emb|]; apply tree_eqb_emb.
Qed.

(* xmlsec1 --verify: the same verdict on the embedded document (root an element, as every XML document's is) *)
Lemma forallb_map' {A B} (f : B -> bool) (g : A -> B) l : forallb f (map g l) = forallb (fun x => f (g x)) l.
Proof. induction l as [|x r IH]; [reflexivity|]. cbn. now rewrite IH. Qed.
Lemma forallb_ext' {A} (f g : A -> bool) l : (forall x, f x = g x) -> forallb f l = forallb g l.
Proof. intros H. induction l as [|x r IH]; [reflexivity|]. cbn. now rewrite H, IH. Qed.

Lemma tool_from_emb dupfail doc nm cert px :
  (forall refs key sv, M.subtree_at px doc <> Some (M.Sg refs key sv)) ->
  match X.subtree_at px (emb doc) with
  | None => false
  | Some X0 =>
      match X.first_sig_incl X0 with
      | None => false
      | Some p =>
          match X.subtree_at (px ++ p) (emb doc) with
          | Some (X.Sg refs key sv _ _ _) =>
              sv && N.eqb key cert && negb (match refs with [] => true | _ => false end) &&
              forallb (X.ref_ok (pol_of dupfail) (emb doc) (M.registered nm doc []) (px ++ p)) refs
          | _ => false
          end
      end
  end =
  match M.subtree_at px doc with
  | None => false
  | Some X0 =>
      match M.first_sig X0 with
      | None => false
      | Some p =>
          match M.subtree_at (px ++ p) doc with
          | Some (M.Sg refs key sv) =>
              sv && N.eqb key cert && negb (match refs with [] => true | _ => false end) &&
              forallb (fun ud =>
                 match M.resolve (fst ud) (M.registered nm doc []) with
                 | None => false
                 | Some pt =>
                     match M.subtree_at pt doc with
                     | None => false
                     | Some T =>
                         let T' := if M.is_prefix pt (px ++ p) then M.remove_at (skipn (List.length pt) (px ++ p)) T else T in
                         M.tree_eqb (snd ud) T'
                     end
                 end) refs
          | _ => false
          end
      end
  end.
Proof.
  intros Hel. rewrite subtree_emb. destruct (M.subtree_at px doc) as [Xn|] eqn:EX; cbn [option_map]; [|reflexivity].
  unfold X.first_sig_incl. rewrite emb_is_sig, first_sig_emb.
  destruct Xn as [n xi pl kids|refs key sv]; [|exfalso; exact (Hel _ _ _ eq_refl)].
  cbn [M.is_sig]. destruct (M.first_sig (M.El n xi pl kids)) as [p|]; [|reflexivity].
  rewrite subtree_emb. destruct (M.subtree_at (px ++ p) doc) as [[n2 i2 pl2 k2|refs key sv]|]; cbn [option_map emb]; try reflexivity.
  f_equal; [f_equal; destruct refs; reflexivity|].
  change (map (fun ud : str * M.tree => (fst ud, emb (snd ud))) refs) with (map emb_ref refs).
  rewrite forallb_map'. apply forallb_ext'. intros ud. apply ref_ok_emb.
Qed.

(* xmlsec1 --verify: the same verdict on the embedded document (root an element, as every XML document's is) *)
Theorem tool_verify_emb dupfail doc nm i cert :
  M.is_sig doc = false ->
  X.tool_verify (pol_of dupfail) (emb doc) (nm' nm) i cert = M.tool_verify dupfail doc nm i cert.
Proof.
  intros Hroot. unfold X.tool_verify, M.tool_verify. cbv zeta. rewrite registered_emb_root, dup_refused_pol.
  destruct (dupfail && M.has_dup (M.registered nm doc [])); [reflexivity|].
  destruct i as [v|].
  - rewrite lookup_pol. destruct (M.lookup_id v (M.registered nm doc [])) as [px|] eqn:El; [|reflexivity].
    apply tool_from_emb. intros refs key sv EX.
    (* a registered element is never a signature: name 0 is not nm + 1 *)
    rewrite <- registered_emb_root, <- lookup_id_same in El. apply XL.lookup_id_In, XL.registered_spec in El as (Y & HY & _ & Hn).
    rewrite subtree_emb, EX in HY. injection HY as <-. cbn in Hn. unfold nm' in Hn. exact (N.neq_succ_0 _ (eq_sym Hn)).
  - apply (tool_from_emb dupfail doc nm cert []). intros refs key sv EX. cbn in EX. injection EX as ->. discriminate.
Qed.


(* ------------------------------------------------------------------ *)
(* every carrier of an ID, and how many                                *)
(* ------------------------------------------------------------------ *)
Definition Pv (v : str) (r : str * X.path) : bool := str_eqb (fst r) v.

Lemma filter_Pv_map v (g : str * X.path -> X.path) l :
  filter (Pv v) (map (fun vp => (fst vp, g vp)) l) = map (fun vp => (fst vp, g vp)) (filter (Pv v) l).
Proof.
  induction l as [|x r IH]; [reflexivity|]. cbn [map filter].
  replace (Pv v (fst x, g x)) with (Pv v x) by reflexivity. destruct (Pv v x); cbn [map]; now rewrite IH.
Qed.

Lemma all_ids_emb : forall t here, M.all_ids t here = map (shift here) (X.ids_where (fun _ => true) (emb t)).
Proof.
  induction t as [n i pl kids IH|refs key sv _] using mtree_ind2; intros here; [|reflexivity].
  rewrite XL.ids_where_unfold, map_app, emb_kids_El. cbn [M.all_ids]. f_equal.
  - unfold X.own_id. cbn [emb X.t_id]. destruct i as [v|]; [|reflexivity]. unfold shift. cbn [map fst snd]. now rewrite app_nil_r.
  - generalize O. induction IH as [|c r Hc _ IHr]; intros k; [reflexivity|].
    cbn [map X.ids_in]. rewrite map_app, shift_cons, <- Hc. f_equal. apply IHr.
Qed.

Lemma carriers_length v doc : List.length (X.carriers v doc) = List.length (filter (Pv v) (X.ids_where (fun _ => true) doc)).
Proof. unfold X.carriers. now rewrite map_length. Qed.

Lemma all_ids_count v t : List.length (M.with_id v (M.all_ids t [])) = List.length (X.carriers v (emb t)).
Proof. now rewrite all_ids_emb, shift_nil, carriers_length. Qed.

Lemma ids_in_cons g c r k :
  X.ids_in g (c :: r) k = map (fun vp : str * X.path => (fst vp, k :: snd vp)) (g c) ++ X.ids_in g r (S k).
Proof. reflexivity. Qed.

(* the registered carriers are among all carriers, with multiplicity *)
Lemma ids_where_le f v : forall t,
  (List.length (filter (Pv v) (X.ids_where f t)) <= List.length (filter (Pv v) (X.ids_where (fun _ => true) t)))%nat.
Proof.
  assert (forall (kids : list X.tree),
            Forall (fun t => (List.length (filter (Pv v) (X.ids_where f t)) <= List.length (filter (Pv v) (X.ids_where (fun _ => true) t)))%nat) kids ->
            forall k, (List.length (filter (Pv v) (X.ids_in (X.ids_where f) kids k)) <=
                       List.length (filter (Pv v) (X.ids_in (X.ids_where (fun _ => true)) kids k)))%nat) as Hkids.
  { intros kids IH. induction IH as [|c r Hc _ IHr]; intros k; [apply le_n|].
    rewrite !ids_in_cons, !filter_app, !app_length, !(filter_Pv_map v (fun vp => k :: snd vp)), !map_length.
    apply Nat.add_le_mono; [exact Hc|exact (IHr (S k))]. }
  assert (forall t, (List.length (filter (Pv v) (X.own_id f t)) <= List.length (filter (Pv v) (X.own_id (fun _ => true) t)))%nat) as Hown.
  { intros t. unfold X.own_id. destruct (X.t_id t) as [w|]; [|apply le_n]. destruct (f t); [apply le_n|]. apply Nat.le_0_l. }
  induction t as [n i pl kids IH|refs key sv i pl kids _ IH] using XL.tree_ind2;
    rewrite !XL.ids_where_unfold, !filter_app, !app_length; cbn [X.t_kids];
    (apply Nat.add_le_mono; [apply Hown|exact (Hkids kids IH O)]).
Qed.

Lemma with_id_registered v nm doc :
  M.with_id v (M.registered nm doc []) = filter (Pv v) (X.registered (nm' nm) (emb doc)).
Proof. now rewrite registered_emb_root. Qed.

Lemma with_id_member v nm doc w p :
  In (w, p) (M.with_id v (M.registered nm doc [])) ->
  w = v /\ In p (X.carriers v (emb doc)) /\
  exists n xi pl kids, M.subtree_at p doc = Some (M.El n xi pl kids) /\ n = nm.
Proof.
  rewrite with_id_registered. intros H. apply filter_In in H as [H Hw]. unfold Pv in Hw. cbn in Hw. apply str_eqb_eq in Hw. subst w.
  apply XL.registered_spec in H as (Y & HY & Hi & Hn). split; [reflexivity|]. split; [apply XL.carriers_spec; eauto|].
  rewrite subtree_emb in HY. destruct (M.subtree_at p doc) as [[n xi pl kids|refs key sv]|]; try discriminate.
  - injection HY as <-. cbn in Hn. unfold nm' in Hn. apply N.succ_inj in Hn. now exists n, xi, pl, kids.
  - injection HY as <-. cbn in Hn. unfold nm' in Hn. exfalso. exact (N.neq_succ_0 _ (eq_sym Hn)).
Qed.

Lemma carrier_registered v nm doc p xi pl kids :
  In p (X.carriers v (emb doc)) -> M.subtree_at p doc = Some (M.El nm xi pl kids) ->
  In (v, p) (M.with_id v (M.registered nm doc [])).
Proof.
  intros Hc Hs. rewrite with_id_registered. apply filter_In. split; [|unfold Pv; cbn; apply str_eqb_refl].
  apply XL.carriers_spec in Hc as (Y & HY & Hi). apply XL.registered_spec. exists Y. rewrite subtree_emb, Hs in HY.
  injection HY as <-. rewrite subtree_emb, Hs. repeat split; auto.
Qed.

(* ------------------------------------------------------------------ *)
(* the pre-checks                                                      *)
(* ------------------------------------------------------------------ *)
(* what both pre-checks ask of the element at path px once it is singled out *)
Definition tailM (doc : M.tree) (v : str) (px : M.path) : bool :=
  match M.subtree_at px doc with
  | Some (M.El n xi pl kids) =>
      match M.first_sig (M.El n xi pl kids) with
      | Some [k] =>
          Nat.eqb (M.count_sigs kids) 1 &&
          match nth_error kids k with
          | Some (M.Sg [(u, _)] _ _) => str_eqb u (M.HASH :: v)
          | _ => false
          end
      | _ => false
      end
  | _ => false
  end.
Definition tailX (doc : X.tree) (nm : N) (v : str) (px : X.path) : bool :=
  match X.subtree_at px doc with
  | Some (X.El n xi pl kids) =>
      N.eqb n nm &&
      match X.first_sig (X.El n xi pl kids) with
      | Some [k] =>
          Nat.eqb (X.count_sigs kids) 1 &&
          match nth_error kids k with
          | Some (X.Sg [(u, _)] _ _ _ _ _) => str_eqb u (X.HASH :: v)
          | _ => false
          end
      | _ => false
      end
  | _ => false
  end.
Definition named (doc : M.tree) (nm : N) (px : M.path) : bool :=
  match M.subtree_at px doc with Some (M.El n _ _ _) => N.eqb n nm | _ => false end.

Lemma M_precheck_unfold doc nm c0 v0 :
  M.precheck doc nm (Some (c0 :: v0)) =
  match M.with_id (c0 :: v0) (M.all_ids doc []) with [(_, px)] => named doc nm px && tailM doc (c0 :: v0) px | _ => false end.
Proof.
  unfold M.precheck, named, tailM. destruct (M.with_id (c0 :: v0) (M.all_ids doc [])) as [|[w px] [|y l]]; try reflexivity.
  destruct (M.subtree_at px doc) as [[n xi pl kids|refs key sv]|]; reflexivity.
Qed.
Lemma X_precheck_unfold doc nm c0 v0 :
  X.precheck doc nm (Some (c0 :: v0)) =
  match X.carriers (c0 :: v0) doc with [px] => tailX doc nm (c0 :: v0) px | _ => false end.
Proof. reflexivity. Qed.

Lemma tail_emb doc nm v px : tailX (emb doc) (nm' nm) v px = named doc nm px && tailM doc v px.
Proof.
  unfold tailX, tailM, named. rewrite subtree_emb.
  destruct (M.subtree_at px doc) as [[n xi pl kids|refs key sv]|]; cbn [option_map]; try reflexivity.
  cbn [emb]. change (X.first_sig (X.El (N.succ n) xi pl (map emb kids))) with (X.first_sig (emb (M.El n xi pl kids))).
  rewrite first_sig_emb.
  unfold nm'. rewrite succ_eqb. f_equal.
  destruct (M.first_sig (M.El n xi pl kids)) as [[|k [|k2 p2]]|]; try reflexivity.
  rewrite count_sigs_emb, nth_error_map. f_equal.
  destruct (nth_error kids k) as [[n2 i2 pl2 k2|[|[u d] [|ud2 r]] key sv]|]; reflexivity.
Qed.

Lemma with_id_all_ids v doc : M.with_id v (M.all_ids doc []) = filter (Pv v) (X.ids_where (fun _ => true) (emb doc)).
Proof. now rewrite all_ids_emb, shift_nil. Qed.

(* Xmlsec.precheck (= Request.enveloped_ok) IS sigver._enveloped_signature_ok as C01 models it: an equality *)
Theorem xmlsec_precheck_is_xsw_precheck doc nm i :
  X.precheck (emb doc) (nm' nm) i = M.precheck doc nm i.
Proof.
  destruct i as [v|]; [|reflexivity]. destruct v as [|c0 v0]; [reflexivity|].
  rewrite M_precheck_unfold, X_precheck_unfold, with_id_all_ids. set (v := c0 :: v0). unfold X.carriers.
  change (fun r : str * X.path => str_eqb (fst r) v) with (Pv v).
  destruct (filter (Pv v) (X.ids_where (fun _ => true) (emb doc))) as [|[w px] [|y l]]; try reflexivity.
  cbn [map snd]. apply tail_emb.
Qed.

Theorem enveloped_ok_is_xsw_precheck doc nm i :
  X.precheck (emb doc) (nm' nm) i = RQ.enveloped_ok doc nm i.
Proof. exact (xmlsec_precheck_is_xsw_precheck doc nm i). Qed.

(* HISTORY: Xmlsec.precheck as it was before it followed the library - carriers of the ID counted among the elements
   of the asked NAME only (the IDs the tool registers) *)
Definition precheck_registered_only (doc : M.tree) (nm : N) (i : option str) : bool :=
  match i with
  | None => false
  | Some v =>
      match v with [] => false | _ =>
      match M.with_id v (M.registered nm doc []) with [(_, px)] => tailM doc v px | _ => false end end
  end.

(* the ID a-1 on the AuthnRequest (name 1) AND on an element of another name (name 7): the library refuses the document
   (harness/glue_probe.py), and so do all three models now; the old definition accepted it although the tool verifies *)
Definition foreign_carrier_doc : M.tree :=
  M.El 1 (Some (s2l "a-1")) 10
    [M.Sg [(M.HASH :: s2l "a-1", M.El 1 (Some (s2l "a-1")) 10 [M.El 7 (Some (s2l "a-1")) 11 []])] 5 true;
     M.El 7 (Some (s2l "a-1")) 11 []].
Theorem xmlsec_precheck_foreign_carrier_witness :
  precheck_registered_only foreign_carrier_doc 1 (Some (s2l "a-1")) = true /\
  M.tool_verify true foreign_carrier_doc 1 (Some (s2l "a-1")) 5 = true /\
  M.precheck foreign_carrier_doc 1 (Some (s2l "a-1")) = false /\
  M.check_signature_x true foreign_carrier_doc 1 (Some (s2l "a-1")) [5] = false /\
  X.precheck (emb foreign_carrier_doc) (nm' 1) (Some (s2l "a-1")) = false /\
  RQ.enveloped_ok foreign_carrier_doc 1 (Some (s2l "a-1")) = false.
Proof. vm_compute. repeat split; reflexivity. Qed.

(* ------------------------------------------------------------------ *)
(* C01 carried to requests (Model/Request.v, C10)                      *)
(* ------------------------------------------------------------------ *)
Lemma enveloped_ok_root_element doc nm i : RQ.enveloped_ok doc nm i = true -> M.is_sig doc = false.
Proof.
  destruct doc as [n xi pl kids|refs key sv]; [reflexivity|]. unfold RQ.enveloped_ok. intros H.
  destruct i as [[|c0 v0]|]; discriminate.
Qed.

Lemma existsb_ext' {A} (f g : A -> bool) l : (forall x, f x = g x) -> existsb f l = existsb g l.
Proof. intros H. induction l as [|x r IH]; [reflexivity|]. cbn. now rewrite H, IH. Qed.

(* _check_signature after certificate selection: the same verdict in both models *)
Theorem check_signature_x_emb dupfail doc nm i certs :
  X.check_signature_x (pol_of dupfail) (emb doc) (nm' nm) i certs =
  RQ.enveloped_ok doc nm i && existsb (M.tool_verify dupfail doc nm (RQ.node_id_arg i)) certs.
Proof.
  unfold X.check_signature_x. rewrite enveloped_ok_is_xsw_precheck.
  destruct (RQ.enveloped_ok doc nm i) eqn:E; [|reflexivity]. cbn [andb].
  apply existsb_ext'. intros c. apply tool_verify_emb. exact (enveloped_ok_root_element _ _ _ E).
Qed.

(* ... and Xmlsec.check_signature_x is C01's check_signature_x *)
Theorem check_signature_x_is_xmlsec dupfail doc nm i certs :
  X.check_signature_x (pol_of dupfail) (emb doc) (nm' nm) i certs = M.check_signature_x dupfail doc nm i certs.
Proof.
  rewrite check_signature_x_emb. unfold M.check_signature_x, RQ.enveloped_ok.
  destruct (M.precheck doc nm i) eqn:E; [|reflexivity]. cbn [andb].
  destruct i as [[|c0 v0]|]; try discriminate. reflexivity.
Qed.

(* a request whose signature check passes (pre-check in force, F16 repaired) is accepted by C01's check_signature_x
   under the certificates selected for its issuer: so it is COVERED in C01's sense ... *)
Theorem request_check_is_xsw_check c d nm ovc :
  RQ.check_sig true true c d nm ovc = Ok tt ->
  exists certs, RQ.request_certs c d = Ok certs /\
    X.check_signature_x (pol_of (RQ.c_dupfail c)) (emb (RQ.d_tree d)) (nm' nm) (RQ.root_id (RQ.d_tree d)) certs = true.
Proof.
  unfold RQ.check_sig. destruct (RQ.request_certs c d) as [certs|e]; [|discriminate]. cbn [andb].
  destruct (RQ.enveloped_ok (RQ.d_tree d) nm (RQ.root_id (RQ.d_tree d))) eqn:E; cbn [negb]; [|discriminate].
  unfold RQ.verifying_cert.
  destruct (find (M.tool_verify (RQ.c_dupfail c) (RQ.d_tree d) nm (RQ.node_id_arg (RQ.root_id (RQ.d_tree d)))) certs) as [k|] eqn:Ef;
    [|discriminate].
  intros _. exists certs. split; [reflexivity|]. rewrite check_signature_x_emb, E. cbn [andb].
  apply find_some in Ef as [Hin Hv]. apply existsb_exists. now exists k.
Qed.

Theorem request_relied_is_covered c d nm ovc :
  RQ.check_sig true true c d nm ovc = Ok tt ->
  exists certs v Xn k D,
    RQ.request_certs c d = Ok certs /\ RQ.root_id (RQ.d_tree d) = Some v /\
    XL.covered (emb (RQ.d_tree d)) (nm' nm) v certs [] Xn k D /\ Xn = emb (RQ.d_tree d).
Proof.
  intros H. apply request_check_is_xsw_check in H as (certs & Hc & H).
  apply XL.relied_is_covered in H as (v & px & Xn & k & D & Hi & Hcov).
  (* the root carries the ID, the carrier is unique: the covered element is the root *)
  assert (px = []) as ->.
  { symmetry. apply (XL.cv_unique _ _ _ _ _ _ _ _ Hcov [] (emb (RQ.d_tree d))); [reflexivity|].
    destruct (RQ.d_tree d) as [n xi pl kids|refs key sv]; cbn in Hi |- *; [exact Hi|discriminate]. }
  exists certs, v, Xn, k, D. split; [exact Hc|]. split; [exact Hi|]. split; [exact Hcov|].
  pose proof (XL.cv_at _ _ _ _ _ _ _ _ Hcov) as Hat. cbn in Hat. now injection Hat.
Qed.

(* ... and, for an attacker who cannot forge signature values of protected keys (C01's derivability invariant on the
   received document), what the receiver relies on was signed by the owner of a protected key under that very ID *)
Theorem request_accepted_content_was_signed protected (signed : list (str * X.tree) -> Prop) c d nm ovc :
  RQ.check_sig true true c d nm ovc = Ok tt ->
  XL.derivable protected signed (emb (RQ.d_tree d)) ->
  (forall certs x, RQ.request_certs c d = Ok certs -> In x certs -> In x protected) ->
  exists v k D, RQ.root_id (RQ.d_tree d) = Some v /\
    D = X.with_kids (emb (RQ.d_tree d)) (X.remove_nth k (X.t_kids (emb (RQ.d_tree d)))) /\ signed [(X.HASH :: v, D)].
Proof.
  intros H Hd Hp. apply request_check_is_xsw_check in H as (certs & Hc & H).
  destruct (XL.accepted_content_was_signed protected signed _ _ _ _ _ Hd (fun x Hx => Hp certs x Hc Hx) H) as (v & px & Xn & k & D & Hi & Hcov & Hs).
  assert (px = []) as ->.
  { symmetry. apply (XL.cv_unique _ _ _ _ _ _ _ _ Hcov [] (emb (RQ.d_tree d))); [reflexivity|].
    destruct (RQ.d_tree d) as [n xi pl kids|refs key sv]; cbn in Hi |- *; [exact Hi|discriminate]. }
  pose proof (XL.cv_at _ _ _ _ _ _ _ _ Hcov) as Hat. cbn in Hat. injection Hat as <-.
  exists v, k, D. split; [exact Hi|]. split; [exact (XL.cv_digest _ _ _ _ _ _ _ _ Hcov)|exact Hs].
Qed.

(* the entry point: a SIGNED request handed to the application (any kind, binding, configuration) *)
Theorem parse_request_relied_is_covered c k b w d :
  RQ.parse_request true true c k b w = Ok (Some d) -> RQ.root_signed (RQ.d_tree d) = true ->
  exists certs v Xn j D,
    RQ.request_certs c d = Ok certs /\ RQ.root_id (RQ.d_tree d) = Some v /\
    XL.covered (emb (RQ.d_tree d)) (nm' (RQ.kind_name k)) v certs [] Xn j D /\ Xn = emb (RQ.d_tree d).
Proof.
  intros H Hs. destruct (RL.parse_request_ok _ _ _ _ _ _ _ H) as (_ & Hc & _).
  destruct (RL.csm_ok _ _ _ _ _ _ _ _ Hc) as (_ & _ & [[Hns _]|[_ Hcs]]); [congruence|].
  exact (request_relied_is_covered _ _ _ _ Hcs).
Qed.

(* ------------------------------------------------------------------ *)
(* metadata: md_precheck (C16) on the same footing                     *)
(* ------------------------------------------------------------------ *)
(* the Reference is to the whole document (URI empty): the form _enveloped_signature_ok accepts only with
   whole_document_ok *)
Definition whole_ref (doc : M.tree) : bool :=
  match doc with
  | M.Sg _ _ _ => false
  | M.El _ _ _ kids =>
      match M.first_sig doc with
      | Some [k] => Nat.eqb (M.count_sigs kids) 1 &&
                    match nth_error kids k with Some (M.Sg [([], _)] _ _) => true | _ => false end
      | _ => false
      end
  end.

Lemma root_is_carrier n v pl kids : In [] (X.carriers v (emb (M.El n (Some v) pl kids))).
Proof. apply XL.carriers_spec. exists (emb (M.El n (Some v) pl kids)). split; reflexivity. Qed.

Lemma X_precheck_root n i pl kids :
  X.precheck (emb (M.El n i pl kids)) (nm' n) i =
  match i with
  | Some (c0 :: v0) =>
      Nat.eqb (List.length (M.with_id (c0 :: v0) (M.all_ids (M.El n i pl kids) []))) 1 && tailM (M.El n i pl kids) (c0 :: v0) []
  | _ => false
  end.
Proof.
  destruct i as [[|c0 v0]|]; try reflexivity. rewrite X_precheck_unfold, all_ids_count.
  match goal with |- context [X.carriers ?a ?b] => remember (X.carriers a b) as C eqn:EC end.
  assert (In [] C) as Hroot by (rewrite EC; apply root_is_carrier).
  destruct C as [|px [|p2 r]]; [exfalso; exact Hroot| |reflexivity].
  destruct Hroot as [->|[]]. cbn [List.length Nat.eqb andb]. rewrite tail_emb. unfold named. cbn [M.subtree_at].
  now rewrite N.eqb_refl.
Qed.

(* md_precheck = reference to the whole document, or C01's pre-check for the ROOT element under its own name *)
Theorem md_precheck_char n i pl kids :
  MD.md_precheck (M.El n i pl kids) = whole_ref (M.El n i pl kids) || X.precheck (emb (M.El n i pl kids)) (nm' n) i.
Proof.
  rewrite X_precheck_root. unfold MD.md_precheck, whole_ref, tailM. cbn [M.subtree_at].
  destruct (M.first_sig (M.El n i pl kids)) as [[|k [|k2 p2]]|];
    try (destruct i as [[|c0 v0]|]; cbn [orb]; try reflexivity; now rewrite andb_false_r).
  destruct (Nat.eqb (M.count_sigs kids) 1); cbn [andb];
    [|destruct i as [[|c0 v0]|]; cbn [orb]; try reflexivity; now rewrite andb_false_r].
  destruct (nth_error kids k) as [[n2 i2 pl2 k2|[|[u dg] [|ud2 r]] key sv]|];
    try (try destruct u; destruct i as [[|c0 v0]|]; cbn [orb]; try reflexivity; now rewrite andb_false_r).
  destruct u as [|h u']; [reflexivity|]. cbn [orb]. destruct i as [[|c0 v0]|]; try reflexivity.
  cbn [negb andb]. apply andb_comm.
Qed.
