(* Proofs/Glue_certs.v — GLUE between the two models of MetaData.certs:

     Model/CertSelect.v  md_certs      (C03, C08, C10, C17: certificates are numbers, an entity is a
                                        list of key-descriptor groups, a store is ONE association list)
     Model/MdStore.v     store_certs   (C16: certificate TEXTS through repack_cert, role descriptors with
                                        a type, several sources, KeyError cases)

   The abstraction [abs_store num] turns a C16 store into a C03 store: per entity ONE CertSelect role per
   descriptor TYPE, in the order certs(.., any, ..) visits the types, holding the key descriptors of all
   role descriptors of that type in document order (this is what harness/enc_md.py coq_store does by
   hand); certificate texts are numbered by [num] after repack_cert.  [num] only has to be injective on
   the texts of the entity that is served.

   Results: find_entity = store_get through the abstraction; md_certs = store_certs (same list, same
   order, same de-duplication), and both say "unknown" together: ONE function (md_certs_eq).  On top: the
   certificate selection of _check_signature over the C16 store itself (KeyError swallowed into "no
   certificates", as sigver.py does) equals CertSelect.check_signature, and the C03 statement is carried
   down to the loaded metadata documents.

   Both models follow the library WITH proposed_fix/C03-1 (certs() skips a key descriptor without
   X509Data).  Before that repair certs() raised KeyError for a use-matching KeyDescriptor without
   X509Data (MdStore.store_certs_before_fix; CertSelect.md_certs_before_fix) while Model/CertSelect.v as
   it then was skipped the descriptor: that former disagreement is characterised exactly
   (md_certs_before_fix_keyerror), with the witness and its consequences for _check_signature. *)
From PV Require Import Lib.Base Model.Sigver Proofs.Sigver_lemmas.
From PV Require Model.CertSelect Model.MdStore Model.IssuerSel Proofs.CertSelect_lemmas Proofs.MdStore_lemmas Proofs.IssuerSel_lemmas.
Module CS := PV.Model.CertSelect.
Module MS := PV.Model.MdStore.
Module CSL := PV.Proofs.CertSelect_lemmas.
Module MSL := PV.Proofs.MdStore_lemmas.
Open Scope N_scope.

(* ------------------------------------------------------------------ *)
(* the abstraction                                                     *)
(* ------------------------------------------------------------------ *)
Definition abs_kd (num : str -> N) (k : MS.keydesc) : CS.keydesc :=
  CS.Build_keydesc (MS.kd_use k) (map num (map MS.repack_cert (MS.kd_certs k))).
(* all key descriptors of the role descriptors of type d, in document order *)
Definition abs_group (num : str -> N) (e : MS.entity) (d : str) : CS.role :=
  map (abs_kd num) (flat_map MS.r_keys (MS.roles_of e (MS.descr_key d))).
Definition abs_entity (num : str -> N) (e : MS.entity) : CS.entity := map (abs_group num e) MS.ANY_ROLES.
Definition abs_map (num : str -> N) (m : MS.mdmap) : CS.mdstore :=
  map (fun ke => (fst ke, abs_entity num (snd ke))) m.
(* sources in store order, entities in source order: the first hit of find_entity is the first source that has the id *)
Definition abs_store (num : str -> N) (st : MS.store) : CS.mdstore := flat_map (fun km => abs_map num (snd km)) st.

Definition inj_on (P : str -> Prop) (num : str -> N) : Prop := forall a b, P a -> P b -> num a = num b -> a = b.

(* c is the (repacked) text of a certificate of some key descriptor of e *)
Definition entity_text (e : MS.entity) (c : str) : Prop :=
  exists r k c0, In r (MS.e_roles e) /\ In k (MS.r_keys r) /\ In c0 (MS.kd_certs k) /\ c = MS.repack_cert c0.
Definition served_text (st : MS.store) (i : str) (c : str) : Prop :=
  exists e, MS.store_get st i = Some e /\ entity_text e c.

(* a role descriptor of one of the types certs(.., any, ..) visits *)
Definition any_role (r : MS.role) : Prop := exists d, In d MS.ANY_ROLES /\ MS.r_type r = MS.descr_key d.

(* every key descriptor certs(i, any, use) would read has X509Data (only the code BEFORE proposed_fix/C03-1 cares) *)
Definition x509_complete (use : str) (st : MS.store) (i : str) : Prop :=
  forall e r k, MS.store_get st i = Some e -> In r (MS.e_roles e) -> any_role r -> In k (MS.r_keys r) ->
                MS.use_ok use k = true -> MS.kd_certs k <> [].

(* ------------------------------------------------------------------ *)
(* lookups                                                             *)
(* ------------------------------------------------------------------ *)
Lemma find_entity_app a b i :
  CS.find_entity (a ++ b) i = match CS.find_entity a i with Some e => Some e | None => CS.find_entity b i end.
Proof.
  induction a as [|[k e] a IH]; cbn [app CS.find_entity]; [reflexivity|].
  destruct (str_eqb i k); [reflexivity|exact IH].
Qed.

Lemma find_entity_abs_map num m i : CS.find_entity (abs_map num m) i = option_map (abs_entity num) (MS.aget i m).
Proof.
  induction m as [|[k e] m IH]; cbn [abs_map map CS.find_entity MS.aget fst snd]; [reflexivity|].
  destruct (str_eqb i k); [reflexivity|exact IH].
Qed.

(* MetadataStore.__getitem__ is the same function in both models *)
Lemma find_entity_abs_store num st i :
  CS.find_entity (abs_store num st) i = option_map (abs_entity num) (MS.store_get st i).
Proof.
  induction st as [|[k m] st IH]; cbn [abs_store flat_map MS.store_get snd]; [reflexivity|].
  rewrite find_entity_app, find_entity_abs_map. destruct (MS.aget i m) as [e|]; [reflexivity|]. exact IH.
Qed.

(* ------------------------------------------------------------------ *)
(* de-duplication: res.append(cert) unless already there               *)
(* ------------------------------------------------------------------ *)
Lemma memN_map_num P num c res :
  inj_on P num -> P c -> (forall x, In x res -> P x) -> CS.memN (num c) (map num res) = mem_str c res.
Proof.
  intros Hinj Hc Hres. destruct (mem_str c res) eqn:E.
  - apply mem_str_In in E. apply CSL.memN_In. now apply in_map.
  - destruct (CS.memN (num c) (map num res)) eqn:E2; [|reflexivity].
    apply CSL.memN_In in E2. apply in_map_iff in E2 as (y & Hy & Hin).
    apply (Hinj y c (Hres y Hin) Hc) in Hy. subst y. apply mem_str_In in Hin. congruence.
Qed.

Lemma add_new_abs P num : inj_on P num -> forall cs res,
  (forall x, In x cs -> P x) -> (forall x, In x res -> P x) ->
  CS.add_new (map num res) (map num cs) = map num (fold_left MS.add_new cs res).
Proof.
  intros Hinj. induction cs as [|c cs IH]; intros res Hcs Hres; cbn [map CS.add_new fold_left]; [reflexivity|].
  rewrite (memN_map_num P num c res Hinj (Hcs c (or_introl eq_refl)) Hres).
  unfold MS.add_new at 2. destruct (mem_str c res) eqn:E.
  - apply IH; [intros x Hx; apply Hcs; now right|exact Hres].
  - replace (map num res ++ [num c]) with (map num (res ++ [c])) by (now rewrite map_app).
    apply IH; [intros x Hx; apply Hcs; now right|].
    intros x Hx. apply in_app_or in Hx as [Hx|[<-|[]]]; [now apply Hres|apply Hcs; now left].
Qed.

Lemma use_matches_abs num use k : CS.use_matches use (abs_kd num k) = MS.use_ok use k.
Proof. reflexivity. Qed.

(* extract_certs over one descriptor type *)
Lemma extract_loop_abs P num use : inj_on P num -> forall ks res,
  (forall k c0, In k ks -> In c0 (MS.kd_certs k) -> P (MS.repack_cert c0)) -> (forall x, In x res -> P x) ->
  CS.extract_certs use (map (abs_kd num) ks) (map num res) = map num (MS.extract_loop use ks res).
Proof.
  intros Hinj. induction ks as [|k ks IH]; intros res Hks Hres; cbn [MS.extract_loop map CS.extract_certs] in *.
  - reflexivity.
  - rewrite use_matches_abs. destruct (MS.use_ok use k) eqn:Eu.
    + assert (forall x, In x (map MS.repack_cert (MS.kd_certs k)) -> P x) as Hk.
      { intros x Hx. apply in_map_iff in Hx as (c0 & <- & Hc0). apply (Hks k c0); [now left|exact Hc0]. }
      cbn [abs_kd CS.kd_certs]. rewrite (add_new_abs P num Hinj _ _ Hk Hres).
      apply IH; [intros k' c0 Hk' Hc0; apply (Hks k' c0); [now right|exact Hc0]|].
      intros x Hx. apply MSL.add_new_fold_In in Hx as [Hx|Hx]; [now apply Hres|now apply Hk].
    + apply IH; [intros k' c0 Hk' Hc0; apply (Hks k' c0); [now right|exact Hc0]|exact Hres].
Qed.

Lemma group_keys_text e d k c0 :
  In k (flat_map MS.r_keys (MS.roles_of e (MS.descr_key d))) -> In c0 (MS.kd_certs k) ->
  entity_text e (MS.repack_cert c0).
Proof.
  intros Hk Hc. apply in_flat_map in Hk as (r & Hr & Hk). apply MSL.roles_of_In in Hr as [Hr _].
  now exists r, k, c0.
Qed.

(* the loop over the descriptor types *)
Lemma certs_any_abs P num use e : inj_on P num -> (forall c, entity_text e c -> P c) -> forall ds,
  flat_map (fun r => CS.extract_certs use r []) (map (abs_group num e) ds) = map num (MS.certs_any use e ds).
Proof.
  intros Hinj HP. induction ds as [|d ds IH]; cbn [MS.certs_any map flat_map] in *.
  - reflexivity.
  - unfold abs_group at 1. destruct (MS.roles_of e (MS.descr_key d)) as [|r0 rs] eqn:Er.
    + cbn [flat_map map CS.extract_certs app]. exact IH.
    + rewrite <- Er in *. unfold MS.extract_certs.
      assert (CS.extract_certs use (map (abs_kd num) (flat_map MS.r_keys (MS.roles_of e (MS.descr_key d)))) (map num []) =
              map num (MS.extract_loop use (flat_map MS.r_keys (MS.roles_of e (MS.descr_key d))) [])) as Hx.
      { apply (extract_loop_abs P num use Hinj _ []); [|intros x []].
        intros k c0 Hk Hc. apply HP. exact (group_keys_text _ _ _ _ Hk Hc). }
      cbn [map] in Hx. rewrite Hx.
      rewrite map_app. f_equal. exact IH.
Qed.

(* ------------------------------------------------------------------ *)
(* md_certs versus store_certs                                         *)
(* ------------------------------------------------------------------ *)
Definition ANY : str := s2l "any".

Lemma store_certs_any st i use :
  MS.store_certs st i ANY use =
  match MS.store_get st i with None => Err MS.KeyError | Some e => Ok (MS.certs_any use e MS.ANY_ROLES) end.
Proof. unfold MS.store_certs. destruct (MS.store_get st i); reflexivity. Qed.

Lemma store_certs_before_fix_any st i use :
  MS.store_certs_before_fix st i ANY use =
  match MS.store_get st i with None => Err MS.KeyError | Some e => MS.certs_any_before_fix use e MS.ANY_ROLES end.
Proof. unfold MS.store_certs_before_fix. destruct (MS.store_get st i); reflexivity. Qed.

Lemma md_certs_abs num st i use :
  CS.md_certs (abs_store num st) (Some i) use =
  option_map (fun e => flat_map (fun r => CS.extract_certs use r []) (abs_entity num e)) (MS.store_get st i).
Proof. unfold CS.md_certs. rewrite find_entity_abs_store. destruct (MS.store_get st i); reflexivity. Qed.

(* the two models of MetaData.certs are ONE function: same certificates, in the same order, with the same duplicates
   dropped; KeyError there = None here.  No condition on the metadata (num injective on the served entity's texts). *)
Theorem md_certs_eq num st i use :
  inj_on (served_text st i) num ->
  CS.md_certs (abs_store num st) (Some i) use =
  match MS.store_certs st i ANY use with Ok l => Some (map num l) | Err _ => None end.
Proof.
  intros Hinj. rewrite store_certs_any, md_certs_abs.
  destruct (MS.store_get st i) as [e|] eqn:Eg; [|reflexivity]. cbn [option_map]. f_equal. unfold abs_entity.
  apply (certs_any_abs (served_text st i) num use e Hinj).
  intros c Hc. exists e. split; [exact Eg|exact Hc].
Qed.

Theorem md_certs_agree num st i use l :
  inj_on (served_text st i) num ->
  MS.store_certs st i ANY use = Ok l ->
  CS.md_certs (abs_store num st) (Some i) use = Some (map num l).
Proof. intros Hinj H. rewrite (md_certs_eq num st i use Hinj), H. reflexivity. Qed.

(* unknown entity: KeyError there, None here; and md_certs is None ONLY then *)
Theorem md_certs_unknown num st i use :
  (MS.store_get st i = None -> MS.store_certs st i ANY use = Err MS.KeyError /\ CS.md_certs (abs_store num st) (Some i) use = None) /\
  (CS.md_certs (abs_store num st) (Some i) use = None -> MS.store_get st i = None).
Proof.
  rewrite store_certs_any, md_certs_abs. destruct (MS.store_get st i) as [e|]; cbn [option_map]; split; try discriminate; auto.
Qed.

(* certs(.., any, ..) raises for an unknown entity only - and then md_certs says None *)
Theorem md_certs_keyerror num st i use x :
  MS.store_certs st i ANY use = Err x ->
  x = MS.KeyError /\ MS.store_get st i = None /\ CS.md_certs (abs_store num st) (Some i) use = None.
Proof.
  intros H. rewrite store_certs_any in H. rewrite md_certs_abs. destruct (MS.store_get st i) as [e|]; [discriminate|].
  split; [congruence|]. split; reflexivity.
Qed.

(* BEFORE proposed_fix/C03-1: certs() raised KeyError in one more case, exactly: a use-matching key descriptor of the
   served entity (in a role descriptor certs() visits) has no X509Data - while the declared certificates (md_certs:
   what the repaired code returns) exist *)
Theorem md_certs_before_fix_keyerror num st i use x :
  MS.store_certs_before_fix st i ANY use = Err x ->
  x = MS.KeyError /\
  (MS.store_get st i = None \/
   exists e r k, MS.store_get st i = Some e /\ In r (MS.e_roles e) /\ any_role r /\ In k (MS.r_keys r) /\
                 MS.use_ok use k = true /\ MS.kd_certs k = [] /\
                 exists l', CS.md_certs (abs_store num st) (Some i) use = Some l').
Proof.
  intros H. rewrite store_certs_before_fix_any in H. rewrite md_certs_abs. destruct (MS.store_get st i) as [e|].
  - pose proof (MSL.certs_any_before_fix_char use e MS.ANY_ROLES) as C. rewrite H in C.
    destruct C as (-> & d & r & k & Hd & Hr & Hk & Hu & Hc). apply MSL.roles_of_In in Hr as [Hr Ht].
    split; [reflexivity|]. right.
    exists e, r, k. repeat split; auto; [now exists d|]. cbn [option_map]. eexists. reflexivity.
  - split; [congruence|now left].
Qed.

(* under the X509Data side condition the repair changes nothing *)
Theorem store_certs_before_fix_complete st i use :
  x509_complete use st i -> MS.store_certs_before_fix st i ANY use = MS.store_certs st i ANY use.
Proof.
  intros Hx. pose proof (MSL.store_certs_before_fix_char st i ANY use) as C.
  destruct (MS.store_certs_before_fix st i ANY use) as [l|x] eqn:E; [now symmetry|].
  destruct C as (-> & [C|(e & r & k & He & Hr & Hk & Hu & Hc)]); [now symmetry|].
  destruct (md_certs_before_fix_keyerror (fun _ => 0) st i use _ E) as (_ & [Hn|(e' & r' & k' & He' & Hr' & Ha & Hk' & Hu' & Hc' & _)]).
  - rewrite He in Hn. discriminate.
  - exfalso. exact (Hx e' r' k' He' Hr' Ha Hk' Hu' Hc').
Qed.

(* what md_certs of an abstracted store contains, in the C16 vocabulary - no side condition *)
Theorem md_certs_abs_members num st i use l x :
  CS.md_certs (abs_store num st) (Some i) use = Some l ->
  (In x l <-> exists e r k c0, MS.store_get st i = Some e /\ In r (MS.e_roles e) /\ any_role r /\ In k (MS.r_keys r) /\
                               MS.use_ok use k = true /\ In c0 (MS.kd_certs k) /\ x = num (MS.repack_cert c0)).
Proof.
  intros H. destruct (CSL.md_certs_spec _ _ _ _ H) as (i' & ae & Hi & F & S). injection Hi as <-.
  rewrite find_entity_abs_store in F. destruct (MS.store_get st i) as [e|]; [|discriminate]. injection F as <-.
  rewrite S. split.
  - intros (g & kd & Hg & Hkd & Hu & Hx). unfold abs_entity in Hg. apply in_map_iff in Hg as (d & <- & Hd).
    unfold abs_group in Hkd. apply in_map_iff in Hkd as (k & <- & Hk). apply in_flat_map in Hk as (r & Hr & Hk).
    apply MSL.roles_of_In in Hr as [Hr Ht]. rewrite use_matches_abs in Hu. cbn [abs_kd CS.kd_certs] in Hx.
    rewrite map_map in Hx. apply in_map_iff in Hx as (c0 & <- & Hc0).
    exists e, r, k, c0. repeat split; auto. now exists d.
  - intros (e' & r & k & c0 & He & Hr & (d & Hd & Ht) & Hk & Hu & Hc0 & ->). injection He as <-.
    exists (abs_group num e d), (abs_kd num k). split; [unfold abs_entity; now apply in_map|].
    split; [|split; [now rewrite use_matches_abs|]].
    + unfold abs_group. apply in_map. apply in_flat_map. exists r. split; [|exact Hk]. now apply MSL.roles_of_In.
    + cbn [abs_kd CS.kd_certs]. rewrite map_map. now apply (in_map (fun c => num (MS.repack_cert c))).
Qed.

(* ------------------------------------------------------------------ *)
(* _check_signature over the C16 store                                 *)
(* ------------------------------------------------------------------ *)
(* self.metadata.certs(_issuer, any, use) as _check_signature sees it: a KeyError (unknown entity, no issuer) is
   caught and means no certificates *)
Definition store_md_certs (num : str -> N) (st : MS.store) (issuer : option str) (use : str) : option (list N) :=
  match issuer with
  | None => None
  | Some i => match MS.store_certs st i ANY use with Ok l => Some (map num l) | Err _ => None end
  end.

(* ... and before proposed_fix/C03-1: the KeyError for a key descriptor without X509Data was swallowed the same way *)
Definition store_md_certs_before_fix (num : str -> N) (st : MS.store) (issuer : option str) (use : str) : option (list N) :=
  match issuer with
  | None => None
  | Some i => match MS.store_certs_before_fix st i ANY use with Ok l => Some (map num l) | Err _ => None end
  end.

(* CertSelect.candidate_certs / check_signature with the metadata answer as a parameter *)
Definition candidates_of (mp : bool) (from : option (list N)) (only_md : bool) (embedded : list N) : result (list N) :=
  let from_md := if mp then match from with Some l => l | None => [] end else [] in
  let certs := if CS.nilb from_md && negb only_md then embedded else from_md in
  match certs with [] => Err (s2l "MissingKey") | _ => Ok certs end.
Definition check_of (mp : bool) (from : option (list N)) (only_md : bool) (embedded : list N) (signer : N) : result unit :=
  match candidates_of mp from only_md embedded with
  | Err e => Err e
  | Ok certs => check_signature_runs false (map (CS.tool_for signer) certs) false true
  end.

Lemma candidate_certs_of mp m issuer only_md embedded :
  CS.candidate_certs mp m issuer only_md embedded = candidates_of mp (CS.md_certs m issuer CS.SIGNING) only_md embedded.
Proof. reflexivity. Qed.
Lemma check_signature_of mp m issuer only_md embedded signer :
  CS.check_signature mp m issuer only_md embedded signer = check_of mp (CS.md_certs m issuer CS.SIGNING) only_md embedded signer.
Proof. reflexivity. Qed.

(* the same code over the C16 store *)
Definition store_candidate_certs num mp st issuer only_md embedded : result (list N) :=
  candidates_of mp (store_md_certs num st issuer CS.SIGNING) only_md embedded.
Definition store_check_signature num mp st issuer only_md embedded signer : result unit :=
  check_of mp (store_md_certs num st issuer CS.SIGNING) only_md embedded signer.

Definition store_check_signature_before_fix num mp st issuer only_md embedded signer : result unit :=
  check_of mp (store_md_certs_before_fix num st issuer CS.SIGNING) only_md embedded signer.

Lemma check_of_spec mp from only_md embedded signer :
  check_of mp from only_md embedded signer =
  match candidates_of mp from only_md embedded with
  | Err e => Err e
  | Ok certs => if CS.memN signer certs then Ok tt else Err (s2l "SignatureError")
  end.
Proof.
  unfold check_of. destruct (candidates_of mp from only_md embedded) as [certs|e]; [|reflexivity].
  unfold check_signature_runs. rewrite CSL.cert_loop_tool_for. destruct (CS.memN signer certs); reflexivity.
Qed.

Theorem store_check_agrees num mp st issuer only_md embedded signer :
  (forall i, issuer = Some i -> inj_on (served_text st i) num) ->
  store_candidate_certs num mp st issuer only_md embedded = CS.candidate_certs mp (abs_store num st) issuer only_md embedded /\
  store_check_signature num mp st issuer only_md embedded signer = CS.check_signature mp (abs_store num st) issuer only_md embedded signer.
Proof.
  intros H. rewrite candidate_certs_of, check_signature_of. unfold store_candidate_certs, store_check_signature.
  assert (store_md_certs num st issuer CS.SIGNING = CS.md_certs (abs_store num st) issuer CS.SIGNING) as ->; [|now split].
  destruct issuer as [i|]; [|reflexivity]. cbn [store_md_certs].
  symmetry. apply md_certs_eq. now apply H.
Qed.

(* ---- C03 carried down to the C16 store ---- *)
Definition declared_signing_key (num : str -> N) (st : MS.store) (i : str) (signer : N) : Prop :=
  exists e r k c0, MS.store_get st i = Some e /\ In r (MS.e_roles e) /\ any_role r /\ In k (MS.r_keys r) /\
                   (MS.kd_use k = None \/ MS.kd_use k = Some MS.U_SIGNING) /\
                   In c0 (MS.kd_certs k) /\ signer = num (MS.repack_cert c0).

Lemma use_ok_signing k : MS.use_ok CS.SIGNING k = true -> MS.kd_use k = None \/ MS.kd_use k = Some MS.U_SIGNING.
Proof.
  unfold MS.use_ok. destruct (MS.kd_use k) as [u|]; [|now left]. intros H. apply str_eqb_eq in H. right. now subst.
Qed.

(* the check of Model/CertSelect.v (the one C03, C08, C10 are proved about) on the abstraction of a C16 store *)
Theorem accepted_key_declared num mp st issuer embedded signer :
  CS.check_signature mp (abs_store num st) issuer true embedded signer = Ok tt ->
  mp = true /\ exists i, issuer = Some i /\ declared_signing_key num st i signer.
Proof.
  intros H. rewrite CSL.check_signature_spec in H. unfold CS.candidate_certs in H. rewrite andb_false_r in H.
  destruct mp; [|discriminate]. split; [reflexivity|].
  destruct issuer as [i|]; [|discriminate].
  destruct (CS.md_certs (abs_store num st) (Some i) CS.SIGNING) as [l|] eqn:Mc; [|discriminate].
  destruct l as [|c0 l']; [discriminate|]. destruct (CS.memN signer (c0 :: l')) eqn:M; [|discriminate].
  apply CSL.memN_In in M. apply (md_certs_abs_members _ _ _ _ _ _ Mc) in M as (e & r & k & c & He & Hr & Ha & Hk & Hu & Hc & ->).
  exists i. split; [reflexivity|]. exists e, r, k, c. repeat split; auto. now apply use_ok_signing.
Qed.

(* the faithful selection over the C16 store (KeyError swallowed): no side condition at all *)
Theorem store_accepted_key_declared num mp st issuer embedded signer :
  store_check_signature num mp st issuer true embedded signer = Ok tt ->
  mp = true /\ exists i, issuer = Some i /\ declared_signing_key num st i signer.
Proof.
  unfold store_check_signature. rewrite check_of_spec. unfold candidates_of. rewrite andb_false_r.
  destruct mp; [|discriminate]. intros H. split; [reflexivity|].
  destruct issuer as [i|]; [|discriminate]. cbn [store_md_certs] in H.
  destruct (MS.store_certs st i ANY CS.SIGNING) as [l|x] eqn:Ec; [|discriminate].
  destruct (map num l) as [|c0 l'] eqn:El; [discriminate|]. destruct (CS.memN signer (c0 :: l')) eqn:M; [|discriminate].
  apply CSL.memN_In in M. rewrite <- El in M. apply in_map_iff in M as (c & <- & Hc).
  rewrite store_certs_any in Ec. destruct (MS.store_get st i) as [e|] eqn:He; [|discriminate].
  apply MSL.Ok_inj in Ec. subst l.
  apply MSL.certs_any_ok in Hc as (d & Hd & (r & k & c1 & Hr & Hk & Hu & Hc1 & ->)).
  apply MSL.roles_of_In in Hr as [Hr Ht].
  exists i. split; [reflexivity|]. exists e, r, k, c1. repeat split; auto; [now exists d|now apply use_ok_signing].
Qed.

(* ---- ... and down to the metadata DOCUMENTS the store was loaded from (C16's load model) ---- *)
(* certificate number [signer] stands in a signing / use-less key descriptor of an unexpired EntityDescriptor
   with id i in the document of a configured source that load() registered (admissible: if a verification
   certificate is configured and the root is signed, the source is remote and its signature verified) *)
Definition declared_in_documents (num : str -> N) (now : Z) (srcs : list MS.source) (use : str) (i : str) (x : N) : Prop :=
  exists s e0 r k c0,
    In s srcs /\ MSL.admissible s /\ MS.e_id e0 = i /\
    (MSL.eff_check s = true -> MS.valid now (MS.e_valid_until e0) = true) /\
    match MS.d_body (MS.s_doc s) with
    | MS.Many vu iv es => iv = MS.IvOk /\ In e0 es /\ (MSL.eff_check s = true -> MS.valid now vu = true)
    | MS.Single e1 => e0 = e1
    | MS.NotMetadata => False
    end /\
    In r (MS.e_roles e0) /\ any_role r /\ In k (MS.r_keys r) /\
    (MS.kd_use k = None \/ MS.kd_use k = Some use) /\ In c0 (MS.kd_certs k) /\ x = num (MS.repack_cert c0).

Lemma served_in_documents num now srcs use i x :
  (exists e r k c0, MS.store_get (MS.load_all now [] srcs) i = Some e /\ In r (MS.e_roles e) /\ any_role r /\ In k (MS.r_keys r) /\
                    (MS.kd_use k = None \/ MS.kd_use k = Some use) /\ In c0 (MS.kd_certs k) /\ x = num (MS.repack_cert c0)) ->
  declared_in_documents num now srcs use i x.
Proof.
  intros (e & r & k & c0 & He & Hr & Ha & Hk & Hu & Hc & ->).
  apply MSL.store_get_In in He as (key & m & Hin & Hget).
  destruct (MSL.served_entity_declared _ _ _ _ _ _ Hin Hget) as (s & e0 & Hs & _ & Hadm & -> & Hid & Hv & Hb).
  exists s, e0, r, k, c0. split; [exact Hs|]. split; [exact Hadm|]. split; [exact Hid|]. split; [exact Hv|].
  split; [exact Hb|]. split; [now apply MSL.stored_roles_sub|]. split; [exact Ha|]. split; [exact Hk|].
  split; [exact Hu|]. split; [exact Hc|reflexivity].
Qed.

Theorem accepted_key_in_loaded_documents num now srcs mp issuer embedded signer :
  CS.check_signature mp (abs_store num (MS.load_all now [] srcs)) issuer true embedded signer = Ok tt ->
  mp = true /\ exists i, issuer = Some i /\ declared_in_documents num now srcs MS.U_SIGNING i signer.
Proof.
  intros H. apply accepted_key_declared in H as (-> & i & -> & D). split; [reflexivity|]. exists i. split; [reflexivity|].
  now apply served_in_documents.
Qed.

Theorem store_accepted_key_in_loaded_documents num now srcs mp issuer embedded signer :
  store_check_signature num mp (MS.load_all now [] srcs) issuer true embedded signer = Ok tt ->
  mp = true /\ exists i, issuer = Some i /\ declared_in_documents num now srcs MS.U_SIGNING i signer.
Proof.
  intros H. apply store_accepted_key_declared in H as (-> & i & -> & D). split; [reflexivity|]. exists i. split; [reflexivity|].
  now apply served_in_documents.
Qed.

(* [trusted_for] (Proofs/IssuerSel_lemmas.v: the conclusion of C03_document, C03_accepted_under_own_issuer, the
   history theorems) over an abstracted, loaded store *)
Theorem trusted_for_declared num st i x :
  IssuerSel_lemmas.trusted_for (abs_store num st) i x <-> declared_signing_key num st i x.
Proof.
  unfold IssuerSel_lemmas.trusted_for, declared_signing_key. split.
  - intros (ae & g & kd & F & Hg & Hkd & Hu & Hx). rewrite find_entity_abs_store in F.
    destruct (MS.store_get st i) as [e|]; [|discriminate]. injection F as <-.
    unfold abs_entity in Hg. apply in_map_iff in Hg as (d & <- & Hd).
    unfold abs_group in Hkd. apply in_map_iff in Hkd as (k & <- & Hk). apply in_flat_map in Hk as (r & Hr & Hk).
    apply MSL.roles_of_In in Hr as [Hr Ht]. cbn [abs_kd CS.kd_certs CS.kd_use] in Hx, Hu. rewrite map_map in Hx.
    apply in_map_iff in Hx as (c0 & <- & Hc0).
    exists e, r, k, c0. split; [reflexivity|]. split; [exact Hr|]. split; [now exists d|]. split; [exact Hk|].
    split; [destruct Hu as [Hu|Hu]; [now right|now left]|]. split; [exact Hc0|reflexivity].
  - intros (e & r & k & c0 & He & Hr & (d & Hd & Ht) & Hk & Hu & Hc0 & ->).
    exists (abs_entity num e), (abs_group num e d), (abs_kd num k).
    split; [rewrite find_entity_abs_store, He; reflexivity|]. split; [unfold abs_entity; now apply in_map|].
    split; [|split].
    + unfold abs_group. apply in_map. apply in_flat_map. exists r. split; [|exact Hk]. now apply MSL.roles_of_In.
    + cbn [abs_kd CS.kd_use]. destruct Hu as [Hu|Hu]; [now right|now left].
    + cbn [abs_kd CS.kd_certs]. rewrite map_map. now apply (in_map (fun c => num (MS.repack_cert c))).
Qed.

Theorem trusted_for_in_loaded_documents num now srcs i x :
  IssuerSel_lemmas.trusted_for (abs_store num (MS.load_all now [] srcs)) i x ->
  declared_in_documents num now srcs MS.U_SIGNING i x.
Proof. intros H. apply trusted_for_declared in H. now apply served_in_documents. Qed.

(* ------------------------------------------------------------------ *)
(* a numbering that always works: position in the list of all texts    *)
(* ------------------------------------------------------------------ *)
Fixpoint idx_of (tbl : list str) (s : str) : N :=
  match tbl with
  | [] => 0
  | t :: r => if str_eqb s t then 0 else N.succ (idx_of r s)
  end.
Definition num_of (tbl : list str) (s : str) : N := N.succ (idx_of tbl s).     (* certificates are numbered from 1 *)

Lemma num_of_inj tbl : inj_on (fun c => In c tbl) (num_of tbl).
Proof.
  unfold inj_on, num_of. induction tbl as [|t r IH]; intros a b Ha Hb H; [destruct Ha|].
  apply N.succ_inj in H. cbn [idx_of] in H.
  destruct (str_eqb_spec a t) as [->|Na]; destruct (str_eqb_spec b t) as [->|Nb]; try reflexivity.
  - exfalso. exact (N.neq_succ_0 _ (eq_sym H)).
  - exfalso. exact (N.neq_succ_0 _ H).
  - destruct Ha as [Ha|Ha]; [congruence|]. destruct Hb as [Hb|Hb]; [congruence|].
    apply IH; auto.
Qed.

Definition entity_texts (e : MS.entity) : list str :=
  flat_map (fun r => flat_map (fun k => map MS.repack_cert (MS.kd_certs k)) (MS.r_keys r)) (MS.e_roles e).
Definition store_texts (st : MS.store) : list str :=
  flat_map (fun km => flat_map (fun ke => entity_texts (snd ke)) (snd km)) st.

Lemma served_text_in_store st i c : served_text st i c -> In c (store_texts st).
Proof.
  intros (e & He & r & k & c0 & Hr & Hk & Hc & ->). apply MSL.store_get_In in He as (key & m & Hin & Hget).
  apply MSL.aget_In in Hget. unfold store_texts. apply in_flat_map. exists (key, m). split; [exact Hin|].
  apply in_flat_map. exists (i, e). split; [exact Hget|]. unfold entity_texts. cbn [snd].
  apply in_flat_map. exists r. split; [exact Hr|]. apply in_flat_map. exists k. split; [exact Hk|]. now apply in_map.
Qed.

Lemma num_of_store_inj st i : inj_on (served_text st i) (num_of (store_texts st)).
Proof.
  intros a b Ha Hb. apply num_of_inj; now apply (served_text_in_store st i).
Qed.

(* with that numbering: no hypothesis on the numbering is left *)
Corollary md_certs_agree_canonical st i use l :
  MS.store_certs st i ANY use = Ok l ->
  CS.md_certs (abs_store (num_of (store_texts st)) st) (Some i) use = Some (map (num_of (store_texts st)) l).
Proof. apply md_certs_agree. apply num_of_store_inj. Qed.

Corollary md_certs_eq_canonical st i use :
  CS.md_certs (abs_store (num_of (store_texts st)) st) (Some i) use =
  match MS.store_certs st i ANY use with Ok l => Some (map (num_of (store_texts st)) l) | Err _ => None end.
Proof. apply md_certs_eq. apply num_of_store_inj. Qed.

Corollary store_check_agrees_canonical mp st issuer only_md embedded signer :
  let num := num_of (store_texts st) in
  store_candidate_certs num mp st issuer only_md embedded = CS.candidate_certs mp (abs_store num st) issuer only_md embedded /\
  store_check_signature num mp st issuer only_md embedded signer = CS.check_signature mp (abs_store num st) issuer only_md embedded signer.
Proof. cbv zeta. apply store_check_agrees. intros i _. apply num_of_store_inj. Qed.

(* ------------------------------------------------------------------ *)
(* use = encryption: Model/EncryptMd.v (C17) reads the same function   *)
(* ------------------------------------------------------------------ *)
Definition declared_enc_key (num : str -> N) (st : MS.store) (i : str) (x : N) : Prop :=
  exists e r k c0, MS.store_get st i = Some e /\ In r (MS.e_roles e) /\ any_role r /\ In k (MS.r_keys r) /\
                   (MS.kd_use k = None \/ MS.kd_use k = Some MS.U_ENCRYPTION) /\
                   In c0 (MS.kd_certs k) /\ x = num (MS.repack_cert c0).

Lemma use_ok_iff use k : MS.use_ok use k = true <-> MS.kd_use k = None \/ MS.kd_use k = Some use.
Proof.
  unfold MS.use_ok. destruct (MS.kd_use k) as [u|].
  - rewrite str_eqb_eq. split; [intros ->; now right|intros [H|H]; [discriminate|now injection H]].
  - split; [now left|reflexivity].
Qed.

(* ------------------------------------------------------------------ *)
(* examples: the hypotheses are satisfiable; the disagreement is real  *)
(* ------------------------------------------------------------------ *)
Definition cert_a : str := s2l "QUFBQQ==".
Definition cert_b : str := s2l "QkJCQg==".
Definition cert_c : str := s2l "Q0NDQw==".
Definition ex_role (t : str) (keys : list MS.keydesc) : MS.role :=
  MS.Build_role t (Some MS.SAML2P) keys [] [].
Definition ex_entity (id : str) (roles : list MS.role) : MS.entity := MS.Build_entity id None roles false [].
Definition ex_source (k : str) (es : list MS.entity) : MS.source :=
  MS.Build_source k MS.Inline false true true (Ok true) (MS.Build_document false (MS.Many None MS.IvOk es)).

(* two sources; A has an AA descriptor BEFORE its two IdP descriptors (certs() visits idpsso first), the two IdP
   descriptors share cert_a (dropped once: de-duplication is per descriptor TYPE), a use-less key, an encryption key;
   the second source declares another A (never served) *)
Definition ex_A : MS.entity :=
  ex_entity (s2l "A")
    [ex_role MS.T_AA [MS.Build_keydesc (Some MS.U_SIGNING) [cert_c; cert_a]];
     ex_role MS.T_IDP [MS.Build_keydesc (Some MS.U_ENCRYPTION) [cert_b]; MS.Build_keydesc (Some MS.U_SIGNING) [cert_a]];
     ex_role MS.T_IDP [MS.Build_keydesc None [cert_b]; MS.Build_keydesc (Some MS.U_SIGNING) [cert_a]]].
Definition ex_srcs : list MS.source :=
  [ex_source (s2l "1") [ex_A; ex_entity (s2l "B") [ex_role MS.T_IDP [MS.Build_keydesc (Some MS.U_SIGNING) [cert_b]]]];
   ex_source (s2l "2") [ex_entity (s2l "A") [ex_role MS.T_IDP [MS.Build_keydesc (Some MS.U_SIGNING) [cert_c]]]]].
Definition ex_store : MS.store := MS.load_all 0 [] ex_srcs.
Definition ex_num : str -> N := num_of [cert_a; cert_b; cert_c].

Example certs_example :
  MS.store_certs ex_store (s2l "A") ANY MS.U_SIGNING = Ok [cert_a; cert_b; cert_c; cert_a] /\
  CS.md_certs (abs_store ex_num ex_store) (Some (s2l "A")) CS.SIGNING = Some [1; 2; 3; 1] /\
  MS.store_certs ex_store (s2l "A") ANY MS.U_ENCRYPTION = Ok [cert_b] /\
  CS.md_certs (abs_store ex_num ex_store) (Some (s2l "A")) (s2l "encryption") = Some [2] /\
  MS.store_certs ex_store (s2l "Z") ANY MS.U_SIGNING = Err MS.KeyError /\
  CS.md_certs (abs_store ex_num ex_store) (Some (s2l "Z")) CS.SIGNING = None /\
  CS.check_signature true (abs_store ex_num ex_store) (Some (s2l "A")) true [] 2 = Ok tt /\
  CS.check_signature true (abs_store ex_num ex_store) (Some (s2l "B")) true [1] 1 = Err (s2l "SignatureError") /\
  store_check_signature ex_num true ex_store (Some (s2l "A")) true [] 3 = Ok tt.
Proof. vm_compute. repeat split; reflexivity. Qed.

(* ONE CertSelect role per role DESCRIPTOR (the literal reading of the comment in Model/CertSelect.v) would not do:
   the two IdP descriptors of A share cert_a, which certs() returns once for the type *)
Definition abs_entity_per_descriptor (num : str -> N) (e : MS.entity) : CS.entity :=
  flat_map (fun d => map (fun r => map (abs_kd num) (MS.r_keys r)) (MS.roles_of e (MS.descr_key d))) MS.ANY_ROLES.
Example per_descriptor_grouping_differs :
  flat_map (fun r => CS.extract_certs CS.SIGNING r []) (abs_entity_per_descriptor ex_num ex_A) = [1; 2; 1; 3; 1] /\
  flat_map (fun r => CS.extract_certs CS.SIGNING r []) (abs_entity ex_num ex_A) = [1; 2; 3; 1] /\
  MS.certs_any MS.U_SIGNING ex_A MS.ANY_ROLES = [cert_a; cert_b; cert_c; cert_a].
Proof. vm_compute. repeat split; reflexivity. Qed.

(* THE FORMER DISAGREEMENT (now the effect of proposed_fix/C03-1).  A signing key descriptor with a certificate, then a
   signing key descriptor whose KeyInfo has no X509Data (a KeyName only).  Before the repair MetaData.certs raised
   KeyError (store_certs_before_fix; /repo without the diff does: harness/glue_probe.py), _check_signature swallowed it
   into "no certificates from metadata".  With the repair the descriptor is skipped and certificate 1 stays - in BOTH
   models.  Consequences before the repair, both confirmed on the unpatched library:
     only_use_keys_in_metadata on : a response signed with the DECLARED key 1 was refused with MissingKey
                                    (now: accepted);
     only_use_keys_in_metadata off: a response signed with ANY key whose certificate is embedded was accepted
                                    (now: SignatureError, because metadata has a key for the issuer). *)
Definition ex_bad : MS.store :=
  [(s2l "1", [(s2l "A", ex_entity (s2l "A")
     [ex_role MS.T_IDP [MS.Build_keydesc (Some MS.U_SIGNING) [cert_a]; MS.Build_keydesc (Some MS.U_SIGNING) []]])])].
Theorem md_certs_before_fix_witness :
  MS.store_certs_before_fix ex_bad (s2l "A") ANY MS.U_SIGNING = Err MS.KeyError /\
  MS.store_certs ex_bad (s2l "A") ANY MS.U_SIGNING = Ok [cert_a] /\
  CS.md_certs (abs_store ex_num ex_bad) (Some (s2l "A")) CS.SIGNING = Some [1] /\
  CS.md_certs_before_fix (abs_store ex_num ex_bad) (Some (s2l "A")) CS.SIGNING = None /\
  store_check_signature_before_fix ex_num true ex_bad (Some (s2l "A")) true [1] 1 = Err (s2l "MissingKey") /\
  CS.check_signature_before_fix true (abs_store ex_num ex_bad) (Some (s2l "A")) true [1] 1 = Err (s2l "MissingKey") /\
  store_check_signature ex_num true ex_bad (Some (s2l "A")) true [1] 1 = Ok tt /\
  CS.check_signature true (abs_store ex_num ex_bad) (Some (s2l "A")) true [1] 1 = Ok tt /\
  store_check_signature_before_fix ex_num true ex_bad (Some (s2l "A")) false [9] 9 = Ok tt /\
  CS.check_signature_before_fix true (abs_store ex_num ex_bad) (Some (s2l "A")) false [9] 9 = Ok tt /\
  store_check_signature ex_num true ex_bad (Some (s2l "A")) false [9] 9 = Err (s2l "SignatureError") /\
  CS.check_signature true (abs_store ex_num ex_bad) (Some (s2l "A")) false [9] 9 = Err (s2l "SignatureError").
Proof. vm_compute. repeat split; reflexivity. Qed.

(* the example meets the hypotheses of md_certs_agree / store_check_agrees *)
Example certs_example_hypotheses :
  inj_on (served_text ex_store (s2l "A")) ex_num /\ x509_complete CS.SIGNING ex_store (s2l "A") /\
  ~ x509_complete CS.SIGNING ex_bad (s2l "A").
Proof.
  split; [|split].
  - intros a b Ha Hb. apply (num_of_inj [cert_a; cert_b; cert_c]).
    + destruct Ha as (e & He & r & k & c0 & Hr & Hk & Hc & ->). vm_compute in He. injection He as <-.
      cbn in Hr. destruct Hr as [<-|[<-|[<-|[]]]]; cbn in Hk;
        repeat (destruct Hk as [<-|Hk]; [cbn in Hc; repeat (destruct Hc as [<-|Hc]; [vm_compute; tauto|]); destruct Hc|]); destruct Hk.
    + destruct Hb as (e & He & r & k & c0 & Hr & Hk & Hc & ->). vm_compute in He. injection He as <-.
      cbn in Hr. destruct Hr as [<-|[<-|[<-|[]]]]; cbn in Hk;
        repeat (destruct Hk as [<-|Hk]; [cbn in Hc; repeat (destruct Hc as [<-|Hc]; [vm_compute; tauto|]); destruct Hc|]); destruct Hk.
  - intros e r k He Hr _ Hk _. vm_compute in He. injection He as <-.
    cbn in Hr. destruct Hr as [<-|[<-|[<-|[]]]]; cbn in Hk;
      repeat (destruct Hk as [<-|Hk]; [discriminate|]); destruct Hk.
  - intros H. apply (H (ex_entity (s2l "A")
     [ex_role MS.T_IDP [MS.Build_keydesc (Some MS.U_SIGNING) [cert_a]; MS.Build_keydesc (Some MS.U_SIGNING) []]])
     (ex_role MS.T_IDP [MS.Build_keydesc (Some MS.U_SIGNING) [cert_a]; MS.Build_keydesc (Some MS.U_SIGNING) []])
     (MS.Build_keydesc (Some MS.U_SIGNING) [])); try reflexivity.
    + now left.
    + exists (s2l "idpsso"). split; [vm_compute; tauto|reflexivity].
    + right. now left.
Qed.
