(* Client_lemmas: option resolution does not depend on the configuration class or on other
   sections; the verdict of a step of a history depends only on that step and the options in force *)
From PV Require Import Lib.Base Model.Status Model.Response Model.Client Proofs.Response_lemmas Proofs.Rel_lemmas Proofs.C02_lemmas.
Open Scope Z_scope.

(* ---------------------------------------------------------------- configuration *)
(* what the dictionary says about an option: the (last) value given for it in a section *)
Fixpoint assigned (name : str) (s : section) : option cv :=
  match s with
  | [] => None
  | (a, v) :: rest => match assigned name rest with
                      | Some x => Some x
                      | None => if str_eqb name a then Some v else None
                      end
  end.
(* the documented meaning: the explicit value when one is given (true / false also as strings), else the default *)
Definition opt_value (sec : option section) (name : str) (default : bool) : bool :=
  match sec with
  | None => default
  | Some s => match assigned name s with
              | None => default
              | Some v => match norm v with CNone => default | v' => truthy v' end
              end
  end.

Lemma sp_key_inj n a : str_eqb (attr_key (E "sp") n) (attr_key (E "sp") a) = str_eqb n a.
Proof. reflexivity. Qed.

Lemma read_load_special_other typ k : (forall a, str_eqb k (attr_key typ a) = false) ->
  forall s st, read (load_special st typ s) k = read st k.
Proof.
  intros H. induction s as [|[a v] s IH]; intros st; [reflexivity|].
  cbn [load_special]. rewrite IH. unfold setattr. cbn [read]. now rewrite H.
Qed.

Lemma read_load_special_sp name : forall s st,
  read (load_special st (E "sp") s) (attr_key (E "sp") name) =
  match assigned name s with Some v => norm v | None => read st (attr_key (E "sp") name) end.
Proof.
  induction s as [|[a v] s IH]; intros st; [reflexivity|].
  cbn [load_special assigned]. rewrite IH. destruct (assigned name s) as [x|]; [reflexivity|].
  unfold setattr. cbn [read]. rewrite sp_key_inj. destruct (str_eqb name a); reflexivity.
Qed.

Lemma other_aa n a : str_eqb (attr_key (E "sp") n) (attr_key (E "aa") a) = false.   Proof. reflexivity. Qed.
Lemma other_idp n a : str_eqb (attr_key (E "sp") n) (attr_key (E "idp") a) = false. Proof. reflexivity. Qed.
Lemma other_pdp n a : str_eqb (attr_key (E "sp") n) (attr_key (E "pdp") a) = false. Proof. reflexivity. Qed.
Lemma other_aq n a : str_eqb (attr_key (E "sp") n) (attr_key (E "aq") a) = false.   Proof. reflexivity. Qed.

Definition step_load (service : list (str * section)) (st : store) (typ : str) : store :=
  match find_section typ service with Some s => load_special st typ s | None => st end.

Lemma read_load service name :
  read (load service) (attr_key (E "sp") name) =
  match find_section (E "sp") service with
  | Some s => match assigned name s with Some v => norm v | None => CNone end
  | None => CNone
  end.
Proof.
  change (load service) with
    (step_load service (step_load service (step_load service (step_load service (step_load service [] (E "aa")) (E "idp")) (E "sp")) (E "pdp")) (E "aq")).
  assert (forall typ st, (forall a, str_eqb (attr_key (E "sp") name) (attr_key typ a) = false) ->
            read (step_load service st typ) (attr_key (E "sp") name) = read st (attr_key (E "sp") name)) as Other.
  { intros typ st H. unfold step_load. destruct (find_section typ service); [now apply read_load_special_other|reflexivity]. }
  rewrite (Other (E "aq")) by apply other_aq. rewrite (Other (E "pdp")) by apply other_pdp.
  unfold step_load at 1. destruct (find_section (E "sp") service) as [s|].
  - rewrite read_load_special_sp. destruct (assigned name s); [reflexivity|].
    rewrite (Other (E "idp")) by apply other_idp. rewrite (Other (E "aa")) by apply other_aa. reflexivity.
  - rewrite (Other (E "idp")) by apply other_idp. rewrite (Other (E "aa")) by apply other_aa. reflexivity.
Qed.

Lemma resolve_spec dc service name default :
  resolve dc (load service) name default = opt_value (find_section (E "sp") service) name default.
Proof.
  unfold resolve, getattr, opt_value. rewrite read_load.
  destruct (find_section (E "sp") service) as [s|]; [|reflexivity].
  destruct (assigned name s) as [v|]; reflexivity.
Qed.

(* the options a client works with: explicit value or default, read from the sp section only —
   whatever the configuration class (def_context) and whatever the other sections contain *)
Theorem client_opts_spec dc service :
  client_opts dc service =
  {| o_wrs := opt_value (find_section (E "sp") service) WRS true;
     o_was := opt_value (find_section (E "sp") service) WAS false;
     o_waors := opt_value (find_section (E "sp") service) WAORS false |}.
Proof. unfold client_opts. now rewrite !resolve_spec. Qed.

Corollary config_class_irrelevant dc dc' service : client_opts dc service = client_opts dc' service.
Proof. now rewrite !client_opts_spec. Qed.

Corollary other_sections_irrelevant dc service service' :
  find_section (E "sp") service = find_section (E "sp") service' -> client_opts dc service = client_opts dc service'.
Proof. intros H. now rewrite !client_opts_spec, H. Qed.

(* ---------------------------------------------------------------- histories *)
(* the verdicts as a function of the operations alone *)
Fixpoint verdicts (o : opts) (ops : list op) : list (result outcome) :=
  match ops with
  | [] => []
  | SetOpts o' :: rest => verdicts o' rest
  | Parse _ c r :: rest => parse_response (with_opts o c) r :: verdicts o rest
  end.

Lemma run_ops_verdicts : forall ops cl, run_ops cl ops = verdicts (cl_opts cl) ops.
Proof.
  induction ops as [|o ops IH]; intros cl; [reflexivity|].
  destruct o as [o'|w c r]; cbn [run_ops apply_op verdicts]; rewrite IH; reflexivity.
Qed.

Lemma verdicts_nth : forall pre o w c r post,
  nth_error (verdicts o (pre ++ Parse w c r :: post)) (parses pre) =
  Some (parse_response (with_opts (opts_after o pre) c) r).
Proof.
  induction pre as [|p pre IH]; intros o w c r post; [reflexivity|].
  destruct p as [o'|w' c' r']; cbn [app verdicts parses opts_after nth_error]; apply IH.
Qed.

Theorem history_step cl pre w c r post :
  nth_error (run_ops cl (pre ++ Parse w c r :: post)) (parses pre) =
  Some (parse_response (with_opts (opts_after (cl_opts cl) pre) c) r).
Proof. rewrite run_ops_verdicts. apply verdicts_nth. Qed.

Theorem history_state_irrelevant cl cl' ops : cl_opts cl = cl_opts cl' -> run_ops cl ops = run_ops cl' ops.
Proof. intros H. now rewrite !run_ops_verdicts, H. Qed.

Lemma state_after_opts : forall ops cl, cl_opts (state_after cl ops) = opts_after (cl_opts cl) ops.
Proof.
  induction ops as [|o ops IH]; intros cl; [reflexivity|].
  destruct o as [o'|w c r]; cbn [state_after apply_op fst opts_after]; rewrite IH; reflexivity.
Qed.

Lemma with_opts_fields o c : wrs (with_opts o c) = o_wrs o /\ was (with_opts o c) = o_was o /\ waors (with_opts o c) = o_waors o.
Proof. repeat split. Qed.
