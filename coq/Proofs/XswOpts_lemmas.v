From PV Require Import Lib.Base Model.Xsw Model.XswOpts Proofs.Xsw_lemmas.
Import ListNotations.
Open Scope N_scope.

Theorem check_signature_h_code pol doc nm i certs :
  check_signature_h handover_code pol doc nm i certs = check_signature_x pol doc nm i certs.
Proof. unfold check_signature_h, check_signature_x. destruct i as [[|c r]|]; reflexivity. Qed.

(* the id always handed over => the C01 statement for EVERY id string: no condition on its characters *)
Theorem handed_over_is_covered h pol doc nm v certs :
  (forall w, w <> [] -> h w = Some w) ->
  check_signature_h h pol doc nm (Some v) certs = true ->
  exists px X k D, covered doc nm v certs px X k D.
Proof.
  intros Hh H. destruct v as [|c r]; [cbn in H; discriminate|].
  unfold check_signature_h in H. rewrite (Hh (c :: r)) in H by discriminate.
  change (check_signature_x pol doc nm (Some (c :: r)) certs = true) in H.
  apply relied_is_covered in H as (v' & px & X & k & D & Hv & Hc). injection Hv as <-.
  exists px, X, k, D. exact Hc.
Qed.

Lemma handover_code_hands_over w : w <> [] -> handover_code w = Some w.
Proof. destruct w; [intros H; contradiction H; reflexivity|reflexivity]. Qed.
