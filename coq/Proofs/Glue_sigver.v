(* Proofs/Glue_sigver.v — GLUE:
   (a) the last step of SecurityContext._check_signature: Model/Sigver.v check_signature_runs (C20; used by
       Model/CertSelect.v for C03) versus the step written out in Model/Request.v check_sig (C10, with the F16 switch).
       Request.check_sig IS check_signature_runs on the per-certificate tool verdicts (F16 repaired: fixd = true) resp.
       check_signature_runs_before_fix (fixd = false), only_valid_cert passed through unchanged.
   (b) Request.verify: Model/Status.v request_verify (C06's file) versus Model/Request.v verify (C10): one function. *)
From PV Require Import Lib.Base Model.Sigver Proofs.Sigver_lemmas.
From PV Require Model.CertSelect Model.Xmlsec Model.Status Model.Request Proofs.CertSelect_lemmas.
Module CS := PV.Model.CertSelect.
Module RQ := PV.Model.Request.
Module ST := PV.Model.Status.
Open Scope N_scope.

(* the tool run for one candidate certificate, given the tool's verdict on it *)
Definition run_of (b : bool) : tool_result := CS.tool_for 0 (if b then 0 else 1).

Lemma validate_run_of b : validate_signature (run_of b) = if b then Ok true else Err XmlsecError.
Proof. destruct b; reflexivity. Qed.

Lemma cert_loop_run_of {A} (f : A -> bool) l : cert_loop (map (fun k => run_of (f k)) l) = Ok (existsb f l).
Proof.
  induction l as [|k l IH]; [reflexivity|]. cbn [map cert_loop existsb]. rewrite validate_run_of.
  destruct (f k); [reflexivity|]. replace (is_xmlsec_error XmlsecError) with true by reflexivity. exact IH.
Qed.

Lemma find_existsb {A} (f : A -> bool) l : existsb f l = match find f l with Some _ => true | None => false end.
Proof. induction l as [|x l IH]; [reflexivity|]. cbn. destruct (f x); [reflexivity|exact IH]. Qed.

(* verify_cert(last_pem_file): the certificate that verified, else the last one tried *)
Definition last_tried_valid (c : RQ.rcfg) (v : option N) (certs : list N) : bool :=
  match (match v with Some k => Some k | None => last (map Some certs) None end) with
  | Some k => RQ.cert_ok c k
  | None => true
  end.

Theorem request_check_sig_is_check_signature_runs pre fixd c d nm ovc :
  RQ.check_sig pre fixd c d nm ovc =
  match RQ.request_certs c d with
  | Err e => Err e
  | Ok certs =>
      let i := RQ.root_id (RQ.d_tree d) in
      if pre && negb (RQ.enveloped_ok (RQ.d_tree d) nm i) then Err (s2l "SignatureError") else
      let f := Xmlsec.tool_verify (RQ.c_dupfail c) (RQ.d_tree d) nm (RQ.node_id_arg i) in
      (if fixd then check_signature_runs else check_signature_runs_before_fix)
        false (map (fun k => run_of (f k)) certs) ovc (last_tried_valid c (find f certs) certs)
  end.
Proof.
  unfold RQ.check_sig. destruct (RQ.request_certs c d) as [certs|e]; [|reflexivity]. cbv zeta.
  destruct (pre && negb (RQ.enveloped_ok (RQ.d_tree d) nm (RQ.root_id (RQ.d_tree d)))); [reflexivity|].
  destruct fixd; unfold check_signature_runs, check_signature_runs_before_fix, RQ.verifying_cert, last_tried_valid;
    rewrite cert_loop_run_of, find_existsb;
    destruct (find (Xmlsec.tool_verify (RQ.c_dupfail c) (RQ.d_tree d) nm (RQ.node_id_arg (RQ.root_id (RQ.d_tree d)))) certs) as [k|];
    cbn [orb]; try reflexivity.
Qed.

(* today's library (F16 repaired, pre-check in force): Request.check_sig IS Sigver.check_signature_runs after the
   pre-check, only_valid_cert passed through unchanged (and not looked at) *)
Corollary request_check_sig_now pre c d nm ovc :
  RQ.check_sig pre true c d nm ovc =
  match RQ.request_certs c d with
  | Err e => Err e
  | Ok certs =>
      let i := RQ.root_id (RQ.d_tree d) in
      if pre && negb (RQ.enveloped_ok (RQ.d_tree d) nm i) then Err (s2l "SignatureError") else
      let f := Xmlsec.tool_verify (RQ.c_dupfail c) (RQ.d_tree d) nm (RQ.node_id_arg i) in
      check_signature_runs false (map (fun k => run_of (f k)) certs) ovc (last_tried_valid c (find f certs) certs)
  end.
Proof. exact (request_check_sig_is_check_signature_runs pre true c d nm ovc). Qed.

(* HISTORY: the only_valid_cert = true branch Model/Sigver.v's check_signature_runs used to have is the code BEFORE fix
   0b54cc6b (now check_signature_runs_before_fix): nothing verifies, only_valid_cert set, certificate valid => Ok there,
   SignatureError in the library, in check_signature_runs and in Request.check_sig with the repair *)
Theorem check_signature_runs_before_fix_witness :
  check_signature_runs_before_fix false [run_of false] true true = Ok tt /\
  check_signature_runs false [run_of false] true true = Err (s2l "SignatureError") /\
  check_signature_runs false [run_of false] false true = Err (s2l "SignatureError") /\
  (forall c d nm, RQ.request_certs c d = Ok [7] -> RQ.cert_ok c 7 = true ->
      Xmlsec.tool_verify (RQ.c_dupfail c) (RQ.d_tree d) nm (RQ.node_id_arg (RQ.root_id (RQ.d_tree d))) 7 = false ->
      RQ.check_sig false true c d nm true = Err (s2l "SignatureError") /\
      RQ.check_sig false false c d nm true = Ok tt).
Proof.
  split; [reflexivity|]. split; [reflexivity|]. split; [reflexivity|]. intros c d nm Hc Hok Hv.
  rewrite !request_check_sig_is_check_signature_runs, Hc. cbv zeta. cbn [andb find map]. rewrite Hv.
  unfold last_tried_valid. cbn [map last]. rewrite Hok. split; reflexivity.
Qed.

(* ---- (b) Request.verify ---- *)
Definition verify_view (c : RQ.rcfg) (addrs : list RQ.addr) (d : RQ.reqdoc) : ST.req_verify_in :=
  {| ST.r_version := RQ.d_version d;
     ST.r_dest_present := RQ.truthy (RQ.d_destination d);
     ST.r_have_addrs := negb (CS.nilb addrs);
     ST.r_dest_in_addrs := match RQ.d_destination d with Some x => RQ.addr_mem x addrs | None => false end;
     ST.r_issue_ok := match RQ.d_issue_instant d with
                      | None => Err (s2l "ValueError")
                      | Some t => Ok (RQ.issue_instant_ok c t)
                      end |}.

Theorem request_verify_same c addrs d :
  ST.request_verify (verify_view c addrs d) =
  match RQ.verify c addrs d with Err e => Err e | Ok None => Ok None | Ok (Some _) => Ok (Some tt) end.
Proof.
  unfold ST.request_verify, RQ.verify, verify_view. cbn [ST.r_version ST.r_dest_present ST.r_have_addrs ST.r_dest_in_addrs ST.r_issue_ok].
  change (ST.version_is_20 (RQ.d_version d)) with (match RQ.d_version d with Some v => str_eqb v RQ.V20 | None => false end).
  destruct (match RQ.d_version d with Some v => str_eqb v RQ.V20 | None => false end); cbn [negb]; [|reflexivity].
  destruct (RQ.truthy (RQ.d_destination d) && negb (CS.nilb addrs) &&
            negb (match RQ.d_destination d with Some x => RQ.addr_mem x addrs | None => false end)); [reflexivity|].
  destruct (RQ.d_issue_instant d) as [t|]; [|reflexivity]. destruct (RQ.issue_instant_ok c t); reflexivity.
Qed.
