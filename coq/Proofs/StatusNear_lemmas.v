(* Proofs about Model/StatusNear.v: a code other than the Success URN is not
   Success; every generated near-miss of a string differs from the string. *)
From PV Require Import Lib.Base Gen.StatusTable Model.Status Model.StatusNear Proofs.Status_lemmas.
From Coq Require Import Lia.
Open Scope N_scope.

Lemma is_success_true_iff v : is_success v = true <-> v = Some STATUS_SUCCESS.
Proof.
  destruct v as [s|]; cbn [is_success].
  - rewrite str_eqb_eq. split; congruence.
  - split; discriminate.
Qed.

Lemma is_success_false_iff v : is_success v = false <-> v <> Some STATUS_SUCCESS.
Proof.
  destruct (is_success v) eqn:E.
  - apply is_success_true_iff in E. split; [discriminate|congruence].
  - split; [|reflexivity]. intros _ H. apply is_success_true_iff in H. congruence.
Qed.

Lemma success_urn_is_constant : STATUS_SUCCESS = SUCCESS_URN.
Proof. reflexivity. Qed.

Lemma other_code_not_success x : x <> SUCCESS_URN -> is_success (Some x) = false.
Proof. intros H. apply is_success_false_iff. rewrite success_urn_is_constant. congruence. Qed.

Lemma length_differs_not_success x :
  List.length x <> List.length SUCCESS_URN -> is_success (Some x) = false.
Proof. intros H. apply other_code_not_success. congruence. Qed.

(* proper substrings / superstrings *)
Lemma substring_proper_shorter (s t : str) :
  substring s t -> s <> t -> (List.length s < List.length t)%nat.
Proof.
  intros (a & b & ->) Hne. rewrite !app_length.
  destruct a as [|x a]; destruct b as [|y b]; cbn [List.length app] in *; try lia.
  exfalso. apply Hne. now rewrite app_nil_r.
Qed.

Lemma proper_substring_not_success x :
  substring x SUCCESS_URN -> x <> SUCCESS_URN -> is_success (Some x) = false.
Proof. intros _ H. exact (other_code_not_success x H). Qed.

Lemma proper_superstring_not_success x :
  substring SUCCESS_URN x -> x <> SUCCESS_URN -> is_success (Some x) = false.
Proof. intros _ H. exact (other_code_not_success x H). Qed.

Lemma shorter_substring_not_success x :
  substring x SUCCESS_URN -> (List.length x < List.length SUCCESS_URN)%nat -> is_success (Some x) = false.
Proof. intros _ H. apply length_differs_not_success. lia. Qed.

(* the generators *)
Lemma drops_length s x : In x (drops s) -> S (List.length x) = List.length s.
Proof.
  revert x. induction s as [|c r IH]; cbn [drops]; intros x H; [destruct H|].
  destruct H as [<-|H]; [reflexivity|].
  apply in_map_iff in H as (y & <- & Hy). cbn [List.length]. f_equal. exact (IH y Hy).
Qed.

Lemma inserts_length c s x : In x (inserts c s) -> List.length x = S (List.length s).
Proof.
  revert x. induction s as [|d r IH]; cbn [inserts]; intros x H.
  - destruct H as [<-|[]]. reflexivity.
  - destruct H as [<-|H]; [reflexivity|].
    apply in_map_iff in H as (y & <- & Hy). cbn [List.length]. f_equal. exact (IH y Hy).
Qed.

Lemma prefixes_spec s x : In x (prefixes s) -> exists b, b <> [] /\ s = x ++ b.
Proof.
  revert x. induction s as [|c r IH]; cbn [prefixes]; intros x H; [destruct H|].
  destruct H as [<-|H].
  - exists (c :: r). split; [discriminate|reflexivity].
  - apply in_map_iff in H as (y & <- & Hy). destruct (IH y Hy) as (b & Hb & ->).
    exists b. split; [exact Hb|reflexivity].
Qed.

Lemma suffixes_spec s x : In x (suffixes s) -> exists a, a <> [] /\ s = a ++ x.
Proof.
  revert x. induction s as [|c r IH]; cbn [suffixes]; intros x H; [destruct H|].
  destruct H as [<-|H].
  - exists [c]. split; [discriminate|reflexivity].
  - destruct (IH x H) as (a & Ha & ->). exists (c :: a). split; [discriminate|reflexivity].
Qed.

Lemma prefixes_substring s x : In x (prefixes s) -> substring x s /\ (List.length x < List.length s)%nat.
Proof.
  intros H. destruct (prefixes_spec s x H) as (b & Hb & ->). split.
  - exists [], b. reflexivity.
  - rewrite app_length. destruct b; [congruence|cbn; lia].
Qed.

Lemma suffixes_substring s x : In x (suffixes s) -> substring x s /\ (List.length x < List.length s)%nat.
Proof.
  intros H. destruct (suffixes_spec s x H) as (a & Ha & ->). split.
  - exists a, []. now rewrite app_nil_r.
  - rewrite app_length. destruct a; [congruence|cbn; lia].
Qed.

Lemma replaces_neq f s x : In x (replaces f s) -> x <> s /\ List.length x = List.length s.
Proof.
  revert x. induction s as [|d r IH]; cbn [replaces]; intros x H; [destruct H|].
  apply in_app_or in H as [H|H].
  - destruct (N.eqb_spec (f d) d) as [|Hn]; [destruct H|].
    destruct H as [<-|[]]. split; [|reflexivity]. intros E. injection E. exact Hn.
  - apply in_map_iff in H as (y & <- & Hy). destruct (IH y Hy) as [Hne Hl]. split.
    + intros E. injection E. exact Hne.
    + cbn [List.length]. now rewrite Hl.
Qed.

Lemma wraps_longer s x : s <> [] -> In x (wraps s) -> (List.length s < List.length x)%nat.
Proof.
  intros Hs H. unfold wraps in H. cbn [In] in H.
  assert (0 < List.length s)%nat as Hp by (destruct s; [congruence|cbn; lia]).
  repeat (destruct H as [<-|H]; [cbn [List.length]; rewrite ?app_length; cbn [List.length]; lia|]).
  destruct H.
Qed.

Lemma near_misses_neq s x : s <> [] -> In x (near_misses s) -> x <> s.
Proof.
  intros Hs H. unfold near_misses in H.
  apply in_app_or in H as [H|H].
  { apply drops_length in H. intros ->. lia. }
  apply in_app_or in H as [H|H].
  { apply in_flat_map in H as (c & _ & H). apply inserts_length in H. intros ->. lia. }
  apply in_app_or in H as [H|H].
  { apply prefixes_substring in H as [_ H]. intros ->. lia. }
  apply in_app_or in H as [H|H].
  { apply suffixes_substring in H as [_ H]. intros ->. lia. }
  apply in_app_or in H as [H|H].
  { apply replaces_neq in H. tauto. }
  apply in_app_or in H as [H|H].
  { apply replaces_neq in H. tauto. }
  apply in_app_or in H as [H|H].
  { apply replaces_neq in H. tauto. }
  apply (wraps_longer s x Hs) in H. intros ->. lia.
Qed.

Lemma near_miss_of_success_not_success x :
  In x (near_misses SUCCESS_URN) -> is_success (Some x) = false.
Proof.
  intros H. apply other_code_not_success. apply near_misses_neq; [discriminate|exact H].
Qed.

(* table lookups return a row of the table *)
Lemma lookup_some_in k t v : lookup k t = Some v -> In (k, v) t.
Proof.
  induction t as [|[k' v'] t IH]; cbn [lookup]; [discriminate|].
  destruct (str_eqb_spec k k') as [->|Hn]; intros H.
  - left. congruence.
  - right. auto.
Qed.

Lemma class_for_unlisted table k sub :
  lookup k table = None -> class_for table (Some (Code (Some k) sub)) = s2l "KeyError".
Proof. intros H. unfold class_for. now rewrite H. Qed.
