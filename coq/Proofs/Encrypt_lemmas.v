(* Proofs/Encrypt_lemmas.v — C17, identity-provider half (Model/Encrypt.v PART I):
   what an observer of the emitted bytes can read does not depend on the identity
   inside the assertion that was to be encrypted; every ciphertext is made for a
   certificate supplied for that service provider; unusable certificates only. *)
From PV Require Import Lib.Base Model.Status Model.Response Model.Encrypt.
Open Scope N_scope.

(* ---------- the certificate loop ---------- *)
Lemma cert_loop_none : forall cs f, cert_loop cs f = Ok None -> cs = [] /\ f = false.
Proof.
  induction cs as [|[k u] cs IH]; intros f H; cbn in H.
  - destruct f; [discriminate|]. split; reflexivity.
  - destruct u; [discriminate|]. destruct (IH _ H) as [_ F]. discriminate.
Qed.

Lemma cert_loop_some : forall cs f k, cert_loop cs f = Ok (Some k) -> In (k, true) cs.
Proof.
  induction cs as [|[k' u] cs IH]; intros f k H; cbn in H.
  - destruct f; discriminate.
  - destruct u.
    + injection H as <-. now left.
    + right. eapply IH. exact H.
Qed.

Lemma cert_loop_all_bad : forall cs f, cs <> [] -> (forall k u, In (k, u) cs -> u = false) -> cert_loop cs f = Err (E "EncryptError").
Proof.
  induction cs as [|[k u] cs IH]; intros f Hne Hall; [congruence|]. cbn.
  rewrite (Hall k u (or_introl eq_refl)). destruct cs as [|c cs'].
  - reflexivity.
  - apply IH; [discriminate|]. intros k' u' Hin. apply (Hall k' u'). now right.
Qed.

(* two results that an observer cannot tell apart *)
Definition same_view (r1 r2 : result xml) : Prop :=
  match r1, r2 with
  | Err e1, Err e2 => e1 = e2
  | Ok x1, Ok x2 => visible x1 = visible x2
  | _, _ => False
  end.

Lemma vis_same r1 r2 : same_view r1 r2 <-> vis r1 = vis r2.
Proof.
  unfold same_view, vis. destruct r1, r2; split; intros H; try congruence; try contradiction; try discriminate.
Qed.

Lemma encrypt_with_hides ca md t1 t2 : certs_for ca md <> [] -> same_view (encrypt_with ca md t1) (encrypt_with ca md t2).
Proof.
  intros Hne. unfold encrypt_with. destruct (cert_loop (certs_for ca md) false) as [[k|]|e] eqn:El; cbn.
  - reflexivity.
  - apply cert_loop_none in El as [El _]. congruence.
  - reflexivity.
Qed.

Lemma encrypt_main_hides b ca md t1 t2 : certs_for ca md <> [] -> same_view (encrypt_main b ca md t1) (encrypt_main b ca md t2).
Proof.
  intros Hne. unfold encrypt_main. destruct b; [now apply encrypt_with_hides|].
  destruct (certs_for ca md); [congruence|]. reflexivity.
Qed.

Lemma has_cert_certs ca g : has_cert_for ca g -> certs_for ca (g_md_certs g) <> [].
Proof.
  intros [H|(k & u & ->)]; [|discriminate]. destruct ca; cbn; try assumption. discriminate.
Qed.

Lemma has_cert_flag ca g (b : bool) : has_cert_for ca g ->
  (if negb (negb (is_nil (g_md_certs g))) && is_cnone ca then false else b) = b.
Proof.
  intros [H|(k & u & ->)].
  - destruct (g_md_certs g); [congruence|]. reflexivity.
  - cbn. now rewrite andb_false_r.
Qed.

(* the switch-off step of _authn_response (fix: 28208820) never fires when the SP has a certificate *)
Lemma enc_req_flag ca g (a : bool) : has_cert_for ca g ->
  (if true && a && is_cnone ca && negb (negb (is_nil (g_md_certs g))) then false else true) = true.
Proof.
  intros [H|(k & u & ->)].
  - destruct (g_md_certs g); [congruence|]. cbn. now rewrite !andb_false_r.
  - cbn. now rewrite !andb_false_r.
Qed.

(* ---------- non-interference: the visible part does not depend on the protected identity ---------- *)

Lemma response_view p b k ea1 ea2 : visible ea1 = visible ea2 ->
  visible (sign_if b k (response_el p [ea1])) = visible (sign_if b k (response_el p [ea2])).
Proof.
  intros H. destruct b; cbn; rewrite ?app_nil_r, H; reflexivity.
Qed.

(* the advice step succeeds or fails independently of the identity *)
Lemma encrypt_with_status ca md t1 t2 :
  match encrypt_with ca md t1, encrypt_with ca md t2 with
  | Err e1, Err e2 => e1 = e2
  | Ok _, Ok _ => True
  | _, _ => False
  end.
Proof. unfold encrypt_with. destruct (cert_loop (certs_for ca md) false) as [[k|]|e]; cbn; auto. Qed.

Lemma confidential_main g i1 i2 :
  g_encrypt_assertion g = true -> has_cert_for (g_cert_assertion g) g ->
  vis (idp_build g i1) = vis (idp_build g i2).
Proof.
  intros He Hc. apply vis_same. unfold idp_build, idp_build_with. destruct (gather g); [|reflexivity]. unfold response_with. rewrite He.
  rewrite (enc_req_flag _ g _ Hc). rewrite (has_cert_flag _ g true Hc). cbn [negb andb orb]. rewrite !andb_false_r. cbn [andb orb].
  pose proof (has_cert_certs _ _ Hc) as Hne.
  set (flag := if negb (negb (is_nil (g_md_certs g))) && is_cnone (g_cert_advice g) then false else g_enc_advice g || g_pefim g).
  assert (forall (A1 A2 : result (list xml)),
     match A1, A2 with Err e1, Err e2 => e1 = e2 | Ok _, Ok _ => True | _, _ => False end ->
     same_view
       match A1 with
       | Ok advice_kids =>
           match encrypt_main (g_self_contained g || g_pefim g || g_sign_assertion g) (g_cert_assertion g) (g_md_certs g)
                   (sign_if (g_sign_assertion g) (g_idp_key g)
                      (main_assertion (g_pub g) (i_name_id i1) advice_kids (if g_pefim g then [] else i_attrs i1))) with
           | Ok ea => Ok (sign_if (g_sign_response g) (g_idp_key g) (response_el (g_pub g) [ea]))
           | Err e => Err e
           end
       | Err e => Err e
       end
       match A2 with
       | Ok advice_kids =>
           match encrypt_main (g_self_contained g || g_pefim g || g_sign_assertion g) (g_cert_assertion g) (g_md_certs g)
                   (sign_if (g_sign_assertion g) (g_idp_key g)
                      (main_assertion (g_pub g) (i_name_id i2) advice_kids (if g_pefim g then [] else i_attrs i2))) with
           | Ok ea => Ok (sign_if (g_sign_response g) (g_idp_key g) (response_el (g_pub g) [ea]))
           | Err e => Err e
           end
       | Err e => Err e
       end) as K.
  { intros [k1|e1] [k2|e2] HA; try contradiction; [|exact HA].
    match goal with |- same_view (match ?x with _ => _ end) (match ?y with _ => _ end) =>
      pose proof (encrypt_main_hides (g_self_contained g || g_pefim g || g_sign_assertion g) (g_cert_assertion g) (g_md_certs g)
        (sign_if (g_sign_assertion g) (g_idp_key g) (main_assertion (g_pub g) (i_name_id i1) k1 (if g_pefim g then [] else i_attrs i1)))
        (sign_if (g_sign_assertion g) (g_idp_key g) (main_assertion (g_pub g) (i_name_id i2) k2 (if g_pefim g then [] else i_attrs i2))) Hne) as HM;
      destruct x as [x1|ex1], y as [x2|ex2]; cbn in HM; try contradiction end.
    - cbn. now apply response_view.
    - exact HM. }
  apply K. destruct (g_pefim g); cbn [is_nil negb andb].
  - destruct flag; cbn [andb]; [|exact I].
    pose proof (encrypt_with_status (g_cert_advice g) (g_md_certs g)
       (sign_if (g_sign_assertion g && negb true) (g_idp_key g) (advice_assertion (g_pub g) (i_attrs i1)))
       (sign_if (g_sign_assertion g && negb true) (g_idp_key g) (advice_assertion (g_pub g) (i_attrs i2)))) as HS.
    destruct (encrypt_with _ _ (sign_if _ _ (advice_assertion (g_pub g) (i_attrs i1)))),
             (encrypt_with _ _ (sign_if _ _ (advice_assertion (g_pub g) (i_attrs i2)))); exact HS.
  - rewrite andb_false_r. exact I.
Qed.

Lemma main_view p n attrs b k ea1 ea2 : visible ea1 = visible ea2 ->
  visible (sign_if b k (main_assertion p n [ea1] attrs)) = visible (sign_if b k (main_assertion p n [ea2] attrs)).
Proof.
  intros H. unfold main_assertion. destruct b; cbn [sign_if sign_el visible flat_map map app]; rewrite ?app_nil_r;
  repeat rewrite ?flat_map_app, ?map_app; cbn [visible flat_map map app]; rewrite ?app_nil_r, H; reflexivity.
Qed.

Lemma encrypt_main_view b ca md t1 t2 : visible t1 = visible t2 -> same_view (encrypt_main b ca md t1) (encrypt_main b ca md t2).
Proof.
  intros H. unfold encrypt_main, encrypt_with. destruct b.
  - destruct (cert_loop (certs_for ca md) false) as [[k|]|e]; cbn; rewrite ?app_nil_r; auto.
  - destruct (certs_for ca md); cbn; rewrite ?app_nil_r; auto.
Qed.

Lemma confidential_advice g n a1 a2 :
  g_pefim g = true -> has_cert_for (g_cert_advice g) g ->
  vis (idp_build g {| i_name_id := n; i_attrs := a1 |}) = vis (idp_build g {| i_name_id := n; i_attrs := a2 |}).
Proof.
  intros Hp Hc. apply vis_same. unfold idp_build, idp_build_with. destruct (gather g); [|reflexivity]. unfold response_with. rewrite Hp. cbn [i_attrs i_name_id].
  rewrite orb_true_r. rewrite (has_cert_flag _ g true Hc). cbn [negb andb orb List.length Nat.eqb is_nil]. rewrite !andb_false_r. rewrite orb_true_r.
  pose proof (encrypt_with_hides (g_cert_advice g) (g_md_certs g)
     (sign_if false (g_idp_key g) (advice_assertion (g_pub g) a1)) (sign_if false (g_idp_key g) (advice_assertion (g_pub g) a2))
     (has_cert_certs _ _ Hc)) as HA.
  destruct (encrypt_with (g_cert_advice g) (g_md_certs g) (sign_if false (g_idp_key g) (advice_assertion (g_pub g) a1))) as [ea1|e1],
           (encrypt_with (g_cert_advice g) (g_md_certs g) (sign_if false (g_idp_key g) (advice_assertion (g_pub g) a2))) as [ea2|e2];
    cbn in HA; try contradiction; [|exact HA].
  match goal with |- same_view (if ?x then _ else _) _ => destruct x end.
  - pose proof (encrypt_main_view (g_self_contained g || true || g_sign_assertion g) (g_cert_assertion g) (g_md_certs g) _ _
        (main_view (g_pub g) n [] (g_sign_assertion g) (g_idp_key g) ea1 ea2 HA)) as HM.
    match goal with |- same_view (match ?x with _ => _ end) (match ?y with _ => _ end) =>
      destruct x as [x1|ex1], y as [x2|ex2]; cbn in HM; try contradiction end.
    + cbn. now apply response_view.
    + exact HM.
  - cbn. apply response_view. now apply main_view.
Qed.

(* strings: nothing of the identity that is not also in the response built for the EMPTY identity *)
Lemma no_occurrence_main g i out s :
  g_encrypt_assertion g = true -> has_cert_for (g_cert_assertion g) g -> idp_build g i = Ok out ->
  (forall out0, idp_build g no_ident = Ok out0 -> ~ In s (visible out0)) -> ~ In s (visible out).
Proof.
  intros He Hc Hb H0. pose proof (confidential_main g i no_ident He Hc) as NI. rewrite Hb in NI. cbn in NI.
  destruct (idp_build g no_ident) as [out0|] eqn:E0; [|discriminate]. cbn in NI. injection NI as ->. now apply H0.
Qed.

Lemma no_occurrence_advice g n attrs out s :
  g_pefim g = true -> has_cert_for (g_cert_advice g) g -> idp_build g {| i_name_id := n; i_attrs := attrs |} = Ok out ->
  (forall out0, idp_build g {| i_name_id := n; i_attrs := [] |} = Ok out0 -> ~ In s (visible out0)) -> ~ In s (visible out).
Proof.
  intros Hp Hc Hb H0. pose proof (confidential_advice g n attrs [] Hp Hc) as NI. rewrite Hb in NI. cbn in NI.
  destruct (idp_build g {| i_name_id := n; i_attrs := [] |}) as [out0|] eqn:E0; [|discriminate]. cbn in NI. injection NI as ->. now apply H0.
Qed.

(* ---------- every ciphertext is made for a certificate supplied for that service provider ---------- *)
Lemma enc_keys_values vs : flat_map enc_keys (map (fun v : str => El (E "AttributeValue") [] (Some v) []) vs) = [].
Proof. induction vs as [|v vs IH]; [reflexivity|]. cbn. exact IH. Qed.

Lemma enc_keys_attrs attrs : flat_map enc_keys (map attr_el attrs) = [].
Proof.
  induction attrs as [|a attrs IH]; [reflexivity|]. cbn [map flat_map]. rewrite IH, app_nil_r.
  unfold attr_el. cbn [enc_keys]. apply enc_keys_values.
Qed.

Lemma enc_keys_attr_stmt attrs : flat_map enc_keys (attr_stmt attrs) = [].
Proof. destruct attrs as [|a attrs]; [reflexivity|]. unfold attr_stmt. cbn [flat_map enc_keys]. rewrite app_nil_r. apply enc_keys_attrs. Qed.

Lemma enc_keys_main p n adv attrs : enc_keys (main_assertion p n adv attrs) = flat_map enc_keys adv.
Proof.
  unfold main_assertion. cbn [enc_keys]. rewrite !flat_map_app, enc_keys_attr_stmt, app_nil_r.
  assert (forall l : list str, flat_map enc_keys (map (fun n0 => El (E "NameID") [(E "Format", E "urn:oasis:names:tc:SAML:2.0:nameid-format:transient")] (Some n0) []) l) = []) as Hn
    by (induction l as [|x l IH]; [reflexivity|exact IH]).
  cbn [flat_map enc_keys txt conditions_el app]. rewrite !flat_map_app, Hn. cbn [flat_map enc_keys app].
  destruct adv as [|a adv']; cbn [flat_map enc_keys app]; rewrite ?app_nil_r; reflexivity.
Qed.

Lemma enc_keys_advice p attrs : enc_keys (advice_assertion p attrs) = [].
Proof. unfold advice_assertion. cbn [enc_keys]. rewrite flat_map_app, enc_keys_attr_stmt. reflexivity. Qed.

Lemma enc_keys_sign b k t : enc_keys (sign_if b k t) = enc_keys t.
Proof. destruct b, t; reflexivity. Qed.

Lemma enc_keys_sign_el k t : enc_keys (sign_el k t) = enc_keys t.
Proof. destruct t; reflexivity. Qed.

Lemma flat_one (x : xml) : flat_map enc_keys [x] = enc_keys x.
Proof. cbn. apply app_nil_r. Qed.

Lemma enc_keys_response p body : enc_keys (response_el p body) = flat_map enc_keys body.
Proof. reflexivity. Qed.

Lemma encrypt_with_keys ca md t ea : encrypt_with ca md t = Ok ea ->
  forall k, In k (enc_keys ea) -> In (k, true) (certs_for ca md) \/ In k (enc_keys t).
Proof.
  unfold encrypt_with. destruct (cert_loop (certs_for ca md) false) as [[k0|]|e] eqn:El; intros H; [| |discriminate];
    injection H as <-; intros k; cbn [enc_keys flat_map]; rewrite app_nil_r.
  - intros [<-|Hk]; [left; eapply cert_loop_some; exact El|now right].
  - intros Hk. now right.
Qed.

Lemma encrypt_main_keys b ca md t ea : encrypt_main b ca md t = Ok ea ->
  forall k, In k (enc_keys ea) -> In (k, true) (certs_for ca md) \/ In k (enc_keys t).
Proof.
  unfold encrypt_main. destruct b; [apply encrypt_with_keys|].
  destruct (certs_for ca md); [|discriminate]. intros H; injection H as <-. intros k. cbn [enc_keys flat_map]. rewrite app_nil_r. now right.
Qed.

Definition for_this_sp (g : idp_args) (k : N) : Prop :=
  In (k, true) (certs_for (g_cert_assertion g) (g_md_certs g)) \/ In (k, true) (certs_for (g_cert_advice g) (g_md_certs g)).

Lemma Ok_inj {A} (a b : A) : @Ok A a = Ok b -> a = b.
Proof. intros H; injection H as ->; reflexivity. Qed.

Lemma enc_keys_for_sp fixed g i t : idp_build_with fixed g i = Ok t -> forall k, In k (enc_keys t) -> for_this_sp g k.
Proof.
  unfold idp_build_with. destruct (gather g); [|discriminate]. unfold response_with, for_this_sp. intros H k Hk.
  set (adv := if g_pefim g then [advice_assertion (g_pub g) (i_attrs i)] else []) in *.
  assert (flat_map enc_keys adv = []) as Hadv.
  { unfold adv. destruct (g_pefim g); [|reflexivity]. cbn [flat_map]. now rewrite enc_keys_advice. }
  match type of H with (if ?x then _ else _) = _ => destruct x end.
  { apply Ok_inj in H; subst t. rewrite enc_keys_response, flat_one in Hk.
    rewrite enc_keys_sign_el, enc_keys_main, Hadv in Hk. destruct Hk. }
  match type of H with (if ?x then _ else _) = _ => destruct x end.
  - match type of H with (match ?x with _ => _ end) = _ => destruct x as [ak|] eqn:EA; [|discriminate] end.
    assert (forall k0, In k0 (flat_map enc_keys ak) -> In (k0, true) (certs_for (g_cert_advice g) (g_md_certs g))) as Hak.
    { intros k0 Hk0.
      match type of EA with (if ?x then _ else _) = _ => destruct x end.
      - destruct adv as [|b adv'] eqn:Eadv; [apply Ok_inj in EA; subst ak; destruct Hk0|].
        match type of EA with (match ?x with _ => _ end) = _ => destruct x as [ea|] eqn:EW; [|discriminate] end.
        apply Ok_inj in EA; subst ak. rewrite flat_one in Hk0.
        destruct (encrypt_with_keys _ _ _ _ EW k0 Hk0) as [Hc|Hb]; [exact Hc|].
        rewrite enc_keys_sign in Hb. cbn [flat_map] in Hadv. apply app_eq_nil in Hadv as [Hb0 _]. rewrite Hb0 in Hb. destruct Hb.
      - apply Ok_inj in EA; subst ak. rewrite Hadv in Hk0. destruct Hk0. }
    match type of H with (if ?x then _ else _) = _ => destruct x end.
    + match type of H with (match ?x with _ => _ end) = _ => destruct x as [ea|] eqn:EM; [|discriminate] end.
      apply Ok_inj in H; subst t. rewrite enc_keys_sign, enc_keys_response, flat_one in Hk.
      destruct (encrypt_main_keys _ _ _ _ _ EM k Hk) as [Hc|Hm]; [now left|].
      rewrite enc_keys_sign, enc_keys_main in Hm. right. now apply Hak.
    + apply Ok_inj in H; subst t. rewrite enc_keys_sign, enc_keys_response, flat_one in Hk.
      rewrite enc_keys_sign, enc_keys_main in Hk. right. now apply Hak.
  - assert (enc_keys t = []) as Ht.
    { destruct (g_sign_response g).
      - apply Ok_inj in H; subst t. rewrite enc_keys_sign_el, enc_keys_response, flat_one. now rewrite enc_keys_sign, enc_keys_main.
      - match type of H with (if ?x then _ else _) = _ => destruct x end; apply Ok_inj in H; subst t; rewrite enc_keys_response, flat_one;
          [rewrite enc_keys_sign_el|]; now rewrite enc_keys_main. }
    rewrite Ht in Hk. destruct Hk.
Qed.

(* ---------- _encrypt_assertion raises when every certificate fails ---------- *)
Lemma all_certs_unusable_raises g i :
  g_encrypt_assertion g = true -> has_cert_for (g_cert_assertion g) g ->
  (forall k u, In (k, u) (certs_for (g_cert_assertion g) (g_md_certs g)) -> u = false) ->
  exists e, idp_build g i = Err e.
Proof.
  intros He Hc Hall. unfold idp_build, idp_build_with. destruct (gather g) as [[]|e0]; [|now exists e0]. unfold response_with. rewrite He.
  rewrite (enc_req_flag _ g _ Hc). rewrite (has_cert_flag _ g true Hc). cbn [negb andb orb]. rewrite !andb_false_r. cbn [andb orb].
  pose proof (has_cert_certs _ _ Hc) as Hne.
  match goal with |- exists e, (match ?x with _ => _ end) = _ => destruct x as [ak|e0]; [|now exists e0] end.
  unfold encrypt_main, encrypt_with. rewrite (cert_loop_all_bad _ false Hne Hall).
  destruct (g_self_contained g || g_pefim g || g_sign_assertion g); [now eexists|].
  destruct (certs_for (g_cert_assertion g) (g_md_certs g)); [congruence|now eexists].
Qed.

(* ---------- the defect repaired by proposed_fix/C17-1, on the model of the code before it ---------- *)
Definition pub0 : pubinfo := {| p_rid := E "id-r"; p_aid := E "id-a"; p_advid := E "id-b"; p_issuer := E "https://idp.example.org/idp";
  p_dest := E "https://sp.example.org/acs"; p_irt := E "req-1"; p_sp := E "https://sp.example.org/sp"; p_instant := E "2026-09-21T14:13:20Z";
  p_nooa := E "2026-09-21T14:28:20Z"; p_session := E "id-s"; p_classref := E "urn:oasis:names:tc:SAML:2.0:ac:classes:Password" |}.
Definition g_pefim_signed : idp_args := {| g_sign_response := false; g_sign_assertion := true; g_encrypt_assertion := false; g_enc_advice := false;
  g_pefim := true; g_self_contained := true; g_cert_assertion := CNone; g_cert_advice := CNone; g_md_certs := [(1, true)]; g_verify_assertion := None; g_verify_advice := None;
  g_idp_key := 3; g_pub := pub0 |}.
Definition ident0 : ident := {| i_name_id := Some (E "subject-7"); i_attrs := [(E "mail", [E "anna@example.org"])] |}.

Lemma advice_clear_before_fix :
  g_pefim g_pefim_signed = true /\ has_cert_for (g_cert_advice g_pefim_signed) g_pefim_signed /\
  exists out, idp_build_before_fix g_pefim_signed ident0 = Ok out /\ In (E "anna@example.org") (visible out) /\ In (E "mail") (visible out) /\
              enc_keys out = [].
Proof.
  split; [reflexivity|]. split; [left; discriminate|]. eexists. split; [reflexivity|]. vm_compute. repeat split; tauto.
Qed.

Lemma advice_hidden_after_fix :
  exists out, idp_build g_pefim_signed ident0 = Ok out /\ ~ In (E "anna@example.org") (visible out) /\ ~ In (E "mail") (visible out) /\
              In (E "subject-7") (visible out) /\ enc_keys out = [1].
Proof.
  eexists. split; [reflexivity|]. vm_compute. repeat split; try tauto;
  intros H; repeat (destruct H as [H|H]; [discriminate H|]); exact H.
Qed.

(* ---------- a configured verify_encrypt_cert_* callable decides which certificate is used ---------- *)
Lemma verified_cert_used fixed g i t k0 :
  idp_build_with fixed g i = Ok t -> g_encrypt_assertion g = true -> g_verify_assertion g = Some k0 ->
  g_cert_assertion g = CGiven k0 true.
Proof.
  unfold idp_build_with, gather. intros H He Hv. rewrite He, Hv in H.
  destruct (if g_enc_advice g || g_pefim g then cert_accepted (g_verify_advice g) (g_cert_advice g) else Ok tt); [|discriminate].
  unfold cert_accepted in H. destruct (g_cert_assertion g) as [| |k u]; try discriminate. destruct u; [|discriminate].
  destruct (N.eqb_spec k k0) as [Hk|]; [now subst k|discriminate].
Qed.

Lemma verified_advice_cert_used fixed g i t k0 :
  idp_build_with fixed g i = Ok t -> g_pefim g = true -> g_verify_advice g = Some k0 ->
  g_cert_advice g = CGiven k0 true.
Proof.
  unfold idp_build_with, gather. intros H Hp Hv. rewrite Hp, Hv, orb_true_r in H.
  unfold cert_accepted in H at 1. destruct (g_cert_advice g) as [| |k u]; try discriminate. destruct u; [|discriminate].
  destruct (N.eqb_spec k k0) as [Hk|]; [now subst k|discriminate].
Qed.
