(* Proofs/Validate_table.v — C13 obligations the kernel evaluates on the REGENERATED tables *)
From PV Require Import Lib.Base Model.Schema Model.Validate Gen.SchemaTables Proofs.Schema_lemmas Proofs.Validate_lemmas.
Open Scope N_scope.

Definition pair_mem (p : N * N) (l : list (N * N)) : bool :=
  existsb (fun q => (fst p =? fst q) && (snd p =? snd q)) l.

Lemma unresolved_known :
  forallb (fun p => pair_mem p known_unresolved_attr) (unresolved_attr_types validator_keys actual_schema) = true.
Proof. vm_compute. reflexivity. Qed.
Lemma enums_known : forallb (fun c => memN c known_unenforced_enum) (unenforced_enums actual_schema) = true.
Proof. vm_compute. reflexivity. Qed.
Lemma vtypes_known : forallb (fun c => memN c known_unresolved_vtype) (unresolved_vtypes validator_keys actual_schema) = true.
Proof. vm_compute. reflexivity. Qed.
Lemma overrides_known : unknown_overrides actual_schema = [].
Proof. vm_compute. reflexivity. Qed.
Lemma av_plain : av_rows_plain actual_schema = true.
Proof. vm_compute. reflexivity. Qed.

Lemma types_resolve r a :
  In r actual_schema -> In a (k_attrs r) -> pair_mem (k_id r, a_xml a) known_unresolved_attr = false ->
  match a_type a with
  | TN t => exists k, resolve validator_keys t = Some k
  | TC _ => True
  | TNone => False
  end.
Proof.
  intros Hr Ha Hk.
  assert (Hin : forall p, In p (unresolved_attr_types validator_keys actual_schema) -> pair_mem p known_unresolved_attr = true).
  { pose proof unresolved_known as H. rewrite forallb_forall in H. exact H. }
  assert (Hnot : ~ In (k_id r, a_xml a) (unresolved_attr_types validator_keys actual_schema)).
  { intros Hi. rewrite (Hin _ Hi) in Hk. discriminate. }
  destruct (a_type a) as [t|c|] eqn:Et; [|exact Logic.I|].
  - destruct (resolve validator_keys t) as [k|] eqn:Er; [exists k; reflexivity|].
    exfalso. apply Hnot. unfold unresolved_attr_types. apply in_flat_map. exists r. split; [exact Hr|].
    apply in_flat_map. exists a. split; [exact Ha|]. rewrite Et, Er. left; reflexivity.
  - apply Hnot. unfold unresolved_attr_types. apply in_flat_map. exists r. split; [exact Hr|].
    apply in_flat_map. exists a. split; [exact Ha|]. rewrite Et. left; reflexivity.
Qed.

Lemma enumerations_enforced r vt en :
  In r actual_schema -> k_vtype r = Some vt -> v_enum vt = Some en -> ~ In (k_id r) known_unenforced_enum ->
  str_eqb (v_base vt) T_STRING = true /\ v_maxlen vt = None.
Proof.
  intros Hr Hv He Hk.
  assert (Hnot : ~ In (k_id r) (unenforced_enums actual_schema)).
  { intros Hi. apply Hk. pose proof enums_known as H. rewrite forallb_forall in H. apply memN_In, H, Hi. }
  destruct (str_eqb (v_base vt) T_STRING) eqn:Eb; destruct (v_maxlen vt) as [n|] eqn:Em; try (split; reflexivity);
    exfalso; apply Hnot; unfold unenforced_enums; apply in_flat_map; exists r; (split; [exact Hr|]);
    rewrite Hv, He, Eb, Em; left; reflexivity.
Qed.

Lemma value_types_resolve r vt :
  In r actual_schema -> k_vtype r = Some vt -> v_maxlen vt = None -> v_enum vt = None ->
  ~ In (k_id r) known_unresolved_vtype ->
  str_eqb (v_base vt) T_STRING = true \/
  (str_eqb (v_base vt) T_LIST = true /\ exists m k, v_member vt = Some m /\ resolve validator_keys m = Some k) \/
  exists k, resolve validator_keys (v_base vt) = Some k.
Proof.
  intros Hr Hv Hm He Hk.
  assert (Hnot : ~ In (k_id r) (unresolved_vtypes validator_keys actual_schema)).
  { intros Hi. apply Hk. pose proof vtypes_known as H. rewrite forallb_forall in H. apply memN_In, H, Hi. }
  destruct (str_eqb (v_base vt) T_STRING) eqn:Eb; [left; reflexivity|]. right.
  destruct (str_eqb (v_base vt) T_LIST) eqn:El.
  - left. split; [reflexivity|].
    destruct (v_member vt) as [m|] eqn:Emm.
    + destruct (resolve validator_keys m) as [k|] eqn:Er; [exists m, k; split; [reflexivity|exact Er]|].
      exfalso; apply Hnot; unfold unresolved_vtypes; apply in_flat_map; exists r; (split; [exact Hr|]).
      rewrite Hv, Hm, He, Eb, El, Emm, Er. left; reflexivity.
    + exfalso; apply Hnot; unfold unresolved_vtypes; apply in_flat_map; exists r; (split; [exact Hr|]).
      rewrite Hv, Hm, He, Eb, El, Emm. left; reflexivity.
  - right. destruct (resolve validator_keys (v_base vt)) as [k|] eqn:Er; [exists k; reflexivity|].
    exfalso; apply Hnot; unfold unresolved_vtypes; apply in_flat_map; exists r; (split; [exact Hr|]).
    rewrite Hv, Hm, He, Eb, El, Er. left; reflexivity.
Qed.

Lemma actual_plain_av : plain_av actual_schema.
Proof.
  intros c r Hrow Hav. unfold find_row in Hrow. apply find_some in Hrow as [Hin _].
  pose proof av_plain as H. unfold av_rows_plain in H. rewrite forallb_forall in H. specialize (H r Hin).
  change (s2l "saml.AttributeValueBase") with V_AVB in H. rewrite Hav in H.
  destruct (k_attrs r); [|discriminate]. destruct (k_children r); [|discriminate]. split; reflexivity.
Qed.
