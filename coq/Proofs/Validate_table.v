(* Proofs/Validate_table.v — C13 obligations the kernel evaluates on the REGENERATED tables
   (all rows, no exception list), and what they give for every row *)
From PV Require Import Lib.Base Model.Schema Model.Validate Gen.SchemaTables Proofs.Schema_lemmas Proofs.Validate_lemmas.
Open Scope N_scope.

Lemma unresolved_none : unresolved_attr_types validator_keys actual_schema = [].
Proof. vm_compute. reflexivity. Qed.
Lemma vtypes_none : unresolved_vtypes validator_keys actual_schema = [].
Proof. vm_compute. reflexivity. Qed.
Lemma enums_none : unenforced_enums actual_schema = [].
Proof. vm_compute. reflexivity. Qed.
Lemma overrides_known : unknown_overrides actual_schema = [].
Proof. vm_compute. reflexivity. Qed.
Lemma av_plain : av_rows_plain actual_schema = true.
Proof. vm_compute. reflexivity. Qed.

Lemma string_key : mem_str T_STRING validator_keys = true.
Proof. vm_compute. reflexivity. Qed.

Lemma flat_map_nil_inv {A B} (f : A -> list B) l x : flat_map f l = [] -> In x l -> f x = [].
Proof.
  induction l as [|y l IH]; intros H Hin; [destruct Hin|].
  cbn [flat_map] in H. apply app_eq_nil in H as [H1 H2]. destruct Hin as [->|Hin]; [exact H1|apply IH; assumption].
Qed.

(* what type_resolves says *)
Lemma type_resolves_spec keys t :
  type_resolves keys t = true ->
  exists k, resolve keys t = Some k /\
    (mem_str (lower_ascii (local_name t)) XSD_BUILTIN = true -> lower_ascii k = lower_ascii (local_name t)) /\
    (mem_str (lower_ascii (local_name t)) XSD_BUILTIN = false -> k = T_STRING).
Proof.
  unfold type_resolves. destruct (resolve keys t) as [k|]; [|discriminate].
  intros H. exists k. split; [reflexivity|].
  destruct (mem_str (lower_ascii (local_name t)) XSD_BUILTIN); split; intros E; try discriminate; apply str_eqb_eq; exact H.
Qed.

(* every declared attribute type of every class: a type name resolves - to the validator of
   that very XSD built-in type when it names one - and a value-type class exists *)
Lemma types_resolve r a :
  In r actual_schema -> In a (k_attrs r) ->
  match a_type a with
  | TN t => type_resolves validator_keys t = true
  | TNone => type_resolves validator_keys [] = true
  | TC c => exists rt, find_row actual_schema c = Some rt
  end.
Proof.
  intros Hr Ha.
  pose proof (flat_map_nil_inv _ _ r unresolved_none Hr) as H1. cbv beta in H1.
  pose proof (flat_map_nil_inv _ _ a H1 Ha) as H2. cbv beta in H2.
  destruct (a_type a) as [t|c|].
  - destruct (type_resolves validator_keys t); [reflexivity|discriminate].
  - destruct (find_row actual_schema c) as [rt|]; [exists rt; reflexivity|discriminate].
  - destruct (type_resolves validator_keys []); [reflexivity|discriminate].
Qed.

Lemma value_types_resolve r vt :
  In r actual_schema -> k_vtype r = Some vt -> v_maxlen vt = None -> v_enum vt = None ->
  str_eqb (v_base vt) T_STRING = true \/
  (str_eqb (v_base vt) T_LIST = true /\ exists m, v_member vt = Some m /\ type_resolves validator_keys m = true) \/
  type_resolves validator_keys (v_base vt) = true.
Proof.
  intros Hr Hv Hm He.
  pose proof (flat_map_nil_inv _ _ r vtypes_none Hr) as H. cbv beta in H. rewrite Hv, Hm, He in H.
  destruct (str_eqb (v_base vt) T_STRING); [left; reflexivity|]. right.
  destruct (str_eqb (v_base vt) T_LIST).
  - left. split; [reflexivity|]. destruct (v_member vt) as [m|]; [|discriminate].
    exists m. split; [reflexivity|]. destruct (type_resolves validator_keys m); [reflexivity|discriminate].
  - right. destruct (type_resolves validator_keys (v_base vt)); [reflexivity|discriminate].
Qed.

(* every declared enumeration is what validate_value_type tests: membership decides *)
Lemma enumerations_enforced r vt en :
  In r actual_schema -> k_vtype r = Some vt -> v_enum vt = Some en ->
  forall prim keys v, validate_value_type prim keys v vt = if mem_str v en then ok else Err NOT_VALID.
Proof.
  intros Hr Hv He prim keys v.
  pose proof (flat_map_nil_inv _ _ r enums_none Hr) as H. cbv beta in H. rewrite Hv, He in H.
  unfold validate_value_type. destruct (v_maxlen vt) as [n|]; [discriminate|]. rewrite He. reflexivity.
Qed.

Lemma find_row_In S c r : find_row S c = Some r -> In r S.
Proof. unfold find_row. intros H. apply find_some in H as [H _]. exact H. Qed.

Lemma actual_plain_av : plain_av actual_schema.
Proof.
  intros c r Hrow Hav. apply find_row_In in Hrow.
  pose proof av_plain as H. unfold av_rows_plain in H. rewrite forallb_forall in H. specialize (H r Hrow).
  change (s2l "saml.AttributeValueBase") with V_AVB in H. rewrite Hav in H.
  destruct (k_attrs r); [|discriminate]. destruct (k_children r); [|discriminate]. split; reflexivity.
Qed.

(* ---- on the regenerated tables no typed value escapes through an unresolvable type:
   a truthy attribute whose declared type name names a validator that refuses it is a
   violation in the sense of C13_rejects (the `resolve = Some k` premise is discharged) *)
Lemma typed_attr_bad_actual prim r a t c0 v' :
  In r actual_schema -> In a (k_attrs r) -> a_type a = TN t ->
  (forall k, resolve validator_keys t = Some k -> prim k (c0 :: v') = false) ->
  typed_bad prim validator_keys actual_schema a (c0 :: v').
Proof.
  intros Hr Ha Ht Hp. pose proof (types_resolve r a Hr Ha) as H. rewrite Ht in H.
  apply type_resolves_spec in H as [k [Hk _]]. unfold typed_bad. rewrite Ht. exists k. split; [exact Hk|apply Hp; exact Hk].
Qed.

Lemma enum_attr_bad_actual prim r a c rt vt en v :
  In r actual_schema -> In a (k_attrs r) -> a_type a = TC c -> find_row actual_schema c = Some rt ->
  k_vtype rt = Some vt -> v_enum vt = Some en -> mem_str v en = false ->
  typed_bad prim validator_keys actual_schema a v.
Proof.
  intros Hr Ha Ht Hrt Hvt He Hm. unfold typed_bad. rewrite Ht. exists rt. split; [exact Hrt|]. rewrite Hvt.
  pose proof (flat_map_nil_inv _ _ rt enums_none (find_row_In _ _ _ Hrt)) as H. cbv beta in H. rewrite Hvt, He in H.
  split; [destruct (v_maxlen vt); [discriminate|reflexivity]|]. left. exists en. split; assumption.
Qed.

(* ---- the non-vacuity examples (regenerated from real objects) *)
Definition ex_tab : list (str * str * bool) := [(s2l "pv:ipaddress", s2l "192.0.2.7", true)].
Definition ex_prim : str -> str -> bool := prim_of ex_tab.
Definition ex_goodb := goodb ex_prim validator_keys actual_schema x_xsi_nil m_subject m_attribute_statement m_statement
  m_authn_statement m_authz_decision_statement m_one_time_use m_proxy_restriction m_authn_context_decl
  m_authn_context_decl_ref m_address m_dns_name.
Definition ex_has_violation := has_violation ex_prim validator_keys actual_schema.
Definition ex_valid_instance := valid_instance ex_prim validator_keys actual_schema x_xsi_nil m_subject m_attribute_statement m_statement
  m_authn_statement m_authz_decision_statement m_one_time_use m_proxy_restriction m_authn_context_decl
  m_authn_context_decl_ref m_address m_dns_name.
Definition depth_ge2 (i : inst) : bool :=      (* the violation is not at the root *)
  match i with
  | I c a t K xa xe => match find_row actual_schema c with
                       | Some r => negb (node_violationb ex_prim validator_keys actual_schema r a t K)
                       | None => false end
  | INone => false
  end.

Lemma examples_valid_good : c13_ex_valid <> [] /\ forallb ex_goodb c13_ex_valid = true.
Proof. split; [discriminate|vm_compute; reflexivity]. Qed.
Lemma examples_violated :
  c13_ex_violated <> [] /\ forallb (fun i => ex_has_violation i && depth_ge2 i) c13_ex_violated = true.
Proof. split; [discriminate|vm_compute; reflexivity]. Qed.
Lemma examples_outcomes :
  forallb (fun i => is_ok (ex_valid_instance i)) c13_ex_valid = true /\
  forallb (fun i => negb (is_ok (ex_valid_instance i))) c13_ex_violated = true.
Proof. split; vm_compute; reflexivity. Qed.

(* ---- history: the code before the repairs proposed_fix/C13-1..3 (self-contained witnesses) *)
Definition KEYS_BEFORE_FIX : list str :=
  map s2l ["ID"; "NCName"; "dateTime"; "anyURI"; "nonNegativeInteger"; "PositiveInteger"; "boolean"; "unsignedShort";
           "duration"; "base64Binary"; "integer"; "QName"; "anyType"; "string"]%string.
Definition hist_prim : str -> str -> bool := prim_of [].

(* C13-1: a VALID value of a declared type was refused with KeyError (here: the type name
   positiveInteger of e.g. md IndexedEndpointType / ecp / idpdisc attributes, value 3;
   likewise the type name None, NMTOKEN, unsignedByte, datetime, md:entityIDType) *)
Lemma valid_before_fix_refuted :
  exists typs v, typs <> [] /\
    forallb (fun typ => match valid_before_fix hist_prim KEYS_BEFORE_FIX typ v with Err e => str_eqb e KEY_ERROR | Ok _ => false end) typs = true /\
    forallb (fun typ => is_ok (valid hist_prim validator_keys typ v)) typs = true.
Proof.
  exists (map s2l ["positiveInteger"; "None"; "NMTOKEN"; "NMTOKENS"; "unsignedByte"; "datetime"; "md:entityIDType";
                   "mdui:listOfStrings"; "unsignedInt"; "unsignedLong"; "a:b:integer"]%string), (s2l "3").
  split; [discriminate|]. split; vm_compute; reflexivity.
Qed.
(* ... and a refused value went unnoticed behind the same KeyError; now it is NotValid *)
Lemma invalid_before_fix_keyerror :
  valid_before_fix hist_prim KEYS_BEFORE_FIX (s2l "positiveInteger") (s2l "0") = Err KEY_ERROR /\
  valid hist_prim validator_keys (s2l "positiveInteger") (s2l "0") = Err NOT_VALID /\
  valid hist_prim validator_keys (s2l "unsignedByte") (s2l "256") = Err NOT_VALID /\
  valid hist_prim validator_keys (s2l "NMTOKEN") (s2l "a b") = Err NOT_VALID.
Proof. repeat split; vm_compute; reflexivity. Qed.

(* C13-2: an enumeration over a base other than the literal string: a value outside it was
   accepted (base xs:anyURI), a value inside it raised KeyError (base xs:NMTOKEN) *)
Lemma enum_before_fix_refuted :
  (exists vt en v, v_enum vt = Some en /\ mem_str v en = false /\
     validate_value_type_before_fix hist_prim KEYS_BEFORE_FIX v vt = ok /\
     validate_value_type hist_prim validator_keys v vt = Err NOT_VALID) /\
  (exists vt en v, v_enum vt = Some en /\ mem_str v en = true /\
     validate_value_type_before_fix hist_prim KEYS_BEFORE_FIX v vt = Err KEY_ERROR /\
     validate_value_type hist_prim validator_keys v vt = ok).
Proof.
  split.
  - exists (VT (s2l "xs:anyURI") (Some [s2l "urn:a"; s2l "urn:b"]) None None), [s2l "urn:a"; s2l "urn:b"], (s2l "urn:c").
    repeat split; vm_compute; reflexivity.
  - exists (VT (s2l "xs:NMTOKEN") (Some [s2l "true"; s2l "false"]) None None), [s2l "true"; s2l "false"], (s2l "true").
    repeat split; vm_compute; reflexivity.
Qed.

(* C13-3: the old pattern of valid_domain_name wants the literal text { 1 } in the name *)
Definition HOSTS : list str := map s2l ["idp.example.org"; "localhost"; "sp-1.example.org:8443"; "EXAMPLE.ORG"]%string.
Definition NOT_HOSTS : list str :=
  map s2l ["x y"; "-"; "a..b"; ".a"; "a."; "a-"; "a:"; "a:123456"; "a:1:2"; "a/b"; "a.{ 1 }b.com"; "host_name"]%string ++ [[]; s2l "a.b" ++ [10]].
Lemma domain_before_fix_refuted :
  forallb (fun h => negb (prim_domain_before_fix h)) HOSTS = true /\ prim_domain_before_fix (s2l "a.{ 1 }b.com") = true.
Proof. split; vm_compute; reflexivity. Qed.
Lemma domain_after_fix : forallb prim_domain HOSTS = true /\ forallb (fun h => negb (prim_domain h)) NOT_HOSTS = true.
Proof. split; vm_compute; reflexivity. Qed.
