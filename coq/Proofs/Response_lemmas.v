(* Inversion lemmas along the SP pipeline of Model/Response.v *)
From PV Require Import Lib.Base Model.Status Model.Response.
Open Scope Z_scope.

Ltac peel H :=
  match type of H with
  | (match ?x with _ => _ end) = _ => let E := fresh "E" in destruct x eqn:E; try discriminate H
  | (if ?x then _ else _) = _ => let E := fresh "E" in destruct x eqn:E; try discriminate H
  end.

(* ---------- subject_loop ---------- *)
Definition conf_ok (c : cfg) (irt : option str) (sc : confirmation) : Prop :=
  (* what holds of every RETAINED confirmation *)
  exists d r, c_data sc = Some d /\ d_recipient d = Some r /\ verify_recipient c r = Ok true /\
    (c_method sc = Bearer -> names_other_request c irt d = false /\
        validate_on_or_after c (d_nooa d) <> Err (E "ResponseLifetimeExceed") /\
        (forall n, d_nooa d = Some n -> now c <= n + slack c) /\
        (forall n, d_nb d = Some n -> n <= now c + slack c) /\
        later_than (d_nooa d) (d_nb d) = true).

Lemma validate_on_or_after_ok c t r : validate_on_or_after c t = Ok r ->
  (forall n, t = Some n -> now c <= n + slack c) /\ r = t.
Proof.
  unfold validate_on_or_after. destruct t as [n|]; intros H.
  - destruct (now c >? n + slack c) eqn:G; [discriminate|]. injection H as <-. split; [|reflexivity].
    intros m Hm. injection Hm as <-. lia.
  - injection H as <-. split; [intros n Hn; discriminate|reflexivity].
Qed.

Lemma validate_before_ok c t : validate_before c t = Ok tt -> forall n, t = Some n -> n <= now c + slack c.
Proof.
  unfold validate_before. destruct t as [n|]; intros H m Hm; [|discriminate].
  injection Hm as <-. destruct (n >? now c + slack c) eqn:G; [discriminate|]. lia.
Qed.

Lemma bearer_confirmed_true c irt s d s' :
  bearer_confirmed c irt s d = Ok (true, s') ->
  exists dd, d = Some dd /\ names_other_request c irt dd = false /\
    (forall n, d_nooa dd = Some n -> now c <= n + slack c) /\
    (forall n, d_nb dd = Some n -> n <= now c + slack c) /\ later_than (d_nooa dd) (d_nb dd) = true.
Proof.
  unfold bearer_confirmed. destruct d as [dd|]; [|discriminate]. intros H.
  destruct (match d_address dd with Some _ => negb (d_address_valid dd) | None => false end); [discriminate|].
  destruct (validate_on_or_after c (d_nooa dd)) as [ro|] eqn:E0; [|discriminate].
  destruct (validate_before c (d_nb dd)) as [[]|] eqn:E1; [|discriminate].
  destruct (negb (later_than (d_nooa dd) (d_nb dd))) eqn:E2; [discriminate|].
  destruct (names_other_request c irt dd) eqn:E3; [discriminate|].
  exists dd. split; [reflexivity|]. split; [exact E3|].
  apply validate_on_or_after_ok in E0 as [Hn _]. split; [exact Hn|]. split; [exact (validate_before_ok _ _ E1)|].
  now apply negb_false_iff in E2.
Qed.

Lemma subject_loop_kept c irt : forall confs s kept s',
  subject_loop c irt s confs = Ok (kept, s') -> Forall (conf_ok c irt) kept /\ incl kept confs.
Proof.
  induction confs as [|sc rest IH]; intros s kept s' H; cbn [subject_loop] in H.
  - injection H as <- <-. split; [constructor|apply incl_refl].
  - assert (forall (b : bool) s1,
      (if b then
         match (match c_data sc with Some d => d_recipient d | None => None end) with
         | None => match c_data sc with None => Err (E "AttributeError") | Some _ => Err (E "VerificationError") end
         | Some r => match verify_recipient c r with
                     | Err e => Err e | Ok false => Err (E "VerificationError")
                     | Ok true => match subject_loop c irt s1 rest with Err e => Err e | Ok (kept0, s'') => Ok (sc :: kept0, s'') end
                     end
         end
       else subject_loop c irt s1 rest) = Ok (kept, s') ->
      (b = true -> c_method sc = Bearer -> exists dd, c_data sc = Some dd /\ names_other_request c irt dd = false /\
          (forall n, d_nooa dd = Some n -> now c <= n + slack c) /\
          (forall n, d_nb dd = Some n -> n <= now c + slack c) /\ later_than (d_nooa dd) (d_nb dd) = true) ->
      Forall (conf_ok c irt) kept /\ incl kept (sc :: rest)) as K.
    { intros b s1 Hk Hb. destruct b.
      - destruct (c_data sc) as [d|] eqn:Ed; [|discriminate].
        destruct (d_recipient d) as [rcp|] eqn:Er; [|discriminate].
        destruct (verify_recipient c rcp) as [[|]|] eqn:Ev; try discriminate.
        destruct (subject_loop c irt s1 rest) as [[kept0 s'']|] eqn:El; [|discriminate].
        injection Hk as <- <-. destruct (IH _ _ _ El) as [F I]. split.
        + constructor; [|exact F]. exists d, rcp. split; [exact Ed|]. split; [assumption|]. split; [assumption|].
          intros Hm. destruct (Hb eq_refl Hm) as (dd & Hdd & H1 & H2 & H3 & H4). injection Hdd as <-.
          split; [assumption|]. split; [|split; [assumption|split; assumption]].
          unfold validate_on_or_after. destruct (d_nooa d) as [n0|]; [|discriminate].
          specialize (H2 n0 eq_refl). destruct (now c >? n0 + slack c) eqn:G; [lia|discriminate].
        + intros x [<-|Hx]; [now left|right; now apply I].
      - destruct (IH _ _ _ Hk) as [F I]. split; [exact F|]. intros x Hx; right; now apply I. }
    destruct (c_method sc) eqn:Em.
    + destruct (bearer_confirmed c irt s (c_data sc)) as [[b s1]|] eqn:Eb; [|discriminate].
      apply (K b s1 H). intros -> _. apply bearer_confirmed_true in Eb as (dd & Hd & Hrest). exists dd. split; assumption.
    + apply (K _ s H). intros _ Hm. discriminate.
    + apply (K true s H). intros _ Hm. discriminate.
    + discriminate.
Qed.

(* ---------- one assertion ---------- *)
Record assertion_facts (c : cfg) (irt : option str) (a : assertion) : Prop := {
  af_audience : forall k, a_conditions a = Some k -> k_empty k = false -> test_mode c = false -> for_me k (entity_id c) = true;
  af_conditions_time : forall k, a_conditions a = Some k -> k_empty k = false -> test_mode c = false ->
      (forall n, k_nooa k = Some n -> now c <= n + slack c) /\ (forall n, k_nb k = Some n -> n <= now c + slack c) /\
      (forall n m, k_nb k = Some n -> k_nooa k = Some m -> n <= m);
  af_session : forall n, a_authn a = [Some n] -> now c <= n + slack c;
  af_authn_one : exists sn, a_authn a = [sn];
  af_subject : exists kept, kept <> [] /\ Forall (conf_ok c irt) kept /\ incl kept (a_confirmations a);
  af_sig : forall req verified s s', check_assertion c irt req verified s a = Ok s' ->
      (req = true -> a_sig a <> None) /\ (verified = false -> a_sig a <> None -> a_sig a = Some (Ok tt))
}.

Lemma condition_ok_true c s a s' : condition_ok c s a = Ok (true, s') ->
  forall k, a_conditions a = Some k -> k_empty k = false -> test_mode c = false ->
    for_me k (entity_id c) = true /\
    (forall n, k_nooa k = Some n -> now c <= n + slack c) /\ (forall n, k_nb k = Some n -> n <= now c + slack c) /\
    (forall n m, k_nb k = Some n -> k_nooa k = Some m -> n <= m) /\
    not_on_or_after s' = match k_nooa k with Some n => n | None => not_on_or_after s end /\
    came_from s' = came_from s /\ session_nooa s' = session_nooa s /\ nid s' = nid s /\ acc s' = acc s.
Proof.
  unfold condition_ok. intros H k Hk He Ht. rewrite Hk, He, Ht in H.
  match type of H with (if ?x then _ else _) = _ => destruct x eqn:EL; [discriminate|] end.
  destruct (validate_on_or_after c (k_nooa k)) as [ro|] eqn:Eo; [|discriminate].
  destruct (validate_before c (k_nb k)) as [[]|] eqn:Eb; [|discriminate].
  cbn [negb andb] in H. rewrite andb_true_r in H.
  destruct (negb (for_me k (entity_id c))) eqn:Ef; [discriminate|].
  destruct (k_unknown_condition k); [discriminate|].
  injection H as <-. apply negb_false_iff in Ef.
  apply validate_on_or_after_ok in Eo as [Ho ->]. pose proof (validate_before_ok _ _ Eb) as Hb.
  split; [assumption|]. split; [assumption|]. split; [assumption|]. split.
  - intros n m Hn Hm. rewrite Hn, Hm in EL. unfold later_than in EL.
    apply negb_false_iff in EL. lia.
  - destruct (k_nooa k); cbn; repeat split; reflexivity.
Qed.

Lemma check_assertion_facts c irt req verified s a s' :
  check_assertion c irt req verified s a = Ok s' -> assertion_facts c irt a.
Proof.
  intros H. pose proof H as H0. unfold check_assertion in H.
  destruct (match a_sig a with None => if req then Err SignatureError else Ok tt | Some r => if verified then Ok tt else r end) as [[]|] eqn:Es; [|discriminate].
  destruct (authn_statement_ok c s a) as [s1|] eqn:Ea; [|discriminate].
  destruct (condition_ok c s1 a) as [[[|] s2]|] eqn:Ec; try discriminate.
  destruct (get_subject c irt s2 a) as [[kept s3]|] eqn:Eg; [|discriminate].
  constructor.
  - intros k Hk He Ht. now destruct (condition_ok_true _ _ _ _ Ec k Hk He Ht) as (F & _).
  - intros k Hk He Ht. destruct (condition_ok_true _ _ _ _ Ec k Hk He Ht) as (_ & A & B & C & _). repeat split; assumption.
  - intros n Hn. unfold authn_statement_ok in Ea. rewrite Hn in Ea.
    destruct (validate_on_or_after c (Some n)) as [ro|] eqn:Eo; [|discriminate].
    apply validate_on_or_after_ok in Eo as [Ho _]. now apply Ho.
  - unfold authn_statement_ok in Ea. destruct (a_authn a) as [|sn [|? ?]]; try discriminate. now exists sn.
  - unfold get_subject in Eg. peel Eg. peel Eg.
    destruct (subject_loop c irt s2 (a_confirmations a)) as [[k st']|] eqn:El; [|discriminate].
    destruct k as [|k0 k']; [discriminate|]. injection Eg as <- <-.
    destruct (subject_loop_kept _ _ _ _ _ _ El) as [F I]. exists (k0 :: k'). split; [discriminate|]. split; assumption.
  - intros req' v' sx sx' Hx. unfold check_assertion in Hx.
    destruct (a_sig a) as [r0|]; split; try congruence.
    + intros -> _. destruct r0 as [[]|e]; [reflexivity|discriminate].
    + intros ->. discriminate.
Qed.

Lemma check_assertions_all c irt req verified push : forall l s s',
  check_assertions c irt req verified push s l = Ok s' ->
  Forall (fun a => exists sa sa', check_assertion c irt req verified sa a = Ok sa') l.
Proof.
  induction l as [|a l IH]; intros s s' H; [constructor|]. cbn [check_assertions] in H.
  destruct (check_assertion c irt req verified s a) as [s1|] eqn:E; [|discriminate].
  constructor; [now exists s, s1|]. eapply IH. exact H.
Qed.

(* the assertions whose content the application may read *)
Definition processed (r : response) : list assertion := decrypted_prefix (r_encrypted r) ++ r_assertions r.

Lemma parse_assertion_ok c req s r s' : parse_assertion c req s r = Ok s' ->
  Forall (assertion_facts c (r_irt r)) (processed r) /\
  Forall (fun a => exists sa sa', check_assertion c (r_irt r) req false sa a = Ok sa') (r_assertions r) /\
  Forall (fun a => exists sa sa', check_assertion c (r_irt r) req true sa a = Ok sa') (decrypted_prefix (r_encrypted r)) /\
  verify_decrypted (decrypted_prefix (r_encrypted r)) = Ok tt.
Proof.
  unfold parse_assertion, processed. intros H. peel H.
  destruct (check_assertions c (r_irt r) req false false s (r_assertions r)) as [s1|] eqn:E1; [|discriminate].
  pose proof (check_assertions_all _ _ _ _ _ _ _ _ E1) as F1.
  assert (Forall (assertion_facts c (r_irt r)) (r_assertions r)) as G1.
  { eapply Forall_impl; [|exact F1]. intros a (sa & sa' & Ha). eapply check_assertion_facts; exact Ha. }
  destruct (r_encrypted r) as [|e encs] eqn:Ee.
  - cbn [decrypted_prefix app]. repeat split; try assumption; constructor.
  - destruct (verify_decrypted (decrypted_prefix (e :: encs))) as [[]|] eqn:Ev; [|discriminate].
    destruct (check_assertions c (r_irt r) req true true s1 (decrypted_prefix (e :: encs))) as [s2|] eqn:E2; [|discriminate].
    pose proof (check_assertions_all _ _ _ _ _ _ _ _ E2) as F2.
    split; [|repeat split; assumption].
    apply Forall_app. split; [|exact G1].
    eapply Forall_impl; [|exact F2]. intros a (sa & sa' & Ha). eapply check_assertion_facts; exact Ha.
Qed.

Lemma verify_some c req s r s' : verify c req s r = Ok (Some s') ->
  verify_core (verify_in_of c r) = Ok (Some tt) /\ parse_assertion c req s r = Ok s' /\
  (asynch c = true -> forall d, r_destination r = Some d -> dest_regex_set c = false -> return_addrs c <> None).
Proof.
  unfold verify. intros H.
  destruct (asynch c && version_is_20 (r_version r) &&
            match r_destination r, dest_regex_set c, return_addrs c with Some _, false, None => true | _, _, _ => false end) eqn:G; [discriminate|].
  unfold authn_verify in H. destruct (verify_core (verify_in_of c r)) as [[[]|]|] eqn:Ev; try discriminate.
  destruct (parse_assertion c req s r) as [x|] eqn:Ep; [|discriminate]. injection H as <-.
  split; [reflexivity|]. split; [reflexivity|].
  intros Ha d Hd Hr Hn. rewrite Ha, Hd, Hr, Hn in G. cbn in G.
  assert (version_is_20 (r_version r) = true) as V.
  { unfold verify_core in Ev. cbn [verify_in_of id_mismatch version] in Ev.
    destruct (version_is_20 (r_version r)); [reflexivity|]. cbn [negb] in Ev.
    destruct (r_version r); [destruct (ver_lt2 (verify_in_of c r)) as [[|]|]|]; discriminate. }
  rewrite V in G. discriminate.
Qed.

Lemma loads_fields c req r s : loads c req r = Ok s -> session_nooa s = 0 /\ not_on_or_after s = 0 /\ acc s = [].
Proof.
  unfold loads. destruct (response_sig_stage req r); [|discriminate]. unfold loads_rest.
  destruct (asynch c); [|intros H; injection H as <-; repeat split; reflexivity].
  match goal with |- (match ?x with _ => _ end) = _ -> _ => destruct x end.
  - match goal with |- (match ?x with _ => _ end) = _ -> _ => destruct x as [[|]|] end; intros H; try discriminate;
      injection H as <-; repeat split; reflexivity.
  - destruct (allow_unsolicited c); intros H; [|discriminate]. injection H as <-. repeat split; reflexivity.
Qed.

Lemma residue_fields c req s r :
  session_nooa (parse_assertion_residue c req s r) = session_nooa s /\
  not_on_or_after (parse_assertion_residue c req s r) = not_on_or_after s.
Proof.
  unfold parse_assertion_residue. destruct (check_assertions c (r_irt r) req false false s (r_assertions r)); [|split; reflexivity].
  destruct (verify_decrypted (decrypted_prefix (r_encrypted r))); split; reflexivity.
Qed.

(* acceptance, inverted *)
Record accepted_facts (c : cfg) (r : response) (o : outcome) : Prop := {
  ac_valid : r_valid_instance r = true;
  ac_loads : exists req0 s0, loads c req0 r = Ok s0 /\ (wrs c = true -> req0 = true);
  ac_verify : exists req s s', verify c req s r = Ok (Some s') /\ (was c = true -> req = true) /\
                session_nooa s = 0 /\ not_on_or_after s = 0 /\
                o_assertions o = acc s' /\ o_came_from o = came_from s' /\
                o_nooa o = (if session_nooa s' >? 0 then session_nooa s' else not_on_or_after s');
  ac_either : waors c = true -> (loads c true r <> Err SignatureError /\ is_ok (loads c true r) = true) \/
                                (exists s s', verify c true s r = Ok (Some s'))
}.

Lemma parse_response_accepted c r o : parse_response c r = Ok o -> accepted_facts c r o.
Proof.
  unfold parse_response. intros H.
  destruct (loads c true r) as [sA|eA] eqn:L1.
  - (* response signed & verified *)
    destruct (r_valid_instance r) eqn:V; [|discriminate]. cbn [negb] in H.
    destruct (verify c true sA r) as [x|e] eqn:V1.
    + destruct x as [s'|]; [|discriminate].
      match type of H with (if ?x then _ else _) = _ => destruct x eqn:W; [destruct (waors c); discriminate|] end.
      injection H as <-. constructor; cbn.
      * exact V.
      * exists true, sA. split; [assumption|auto].
      * destruct (loads_fields _ _ _ _ L1) as (F1 & F2 & _). exists true, sA, s'. repeat split; auto.
      * intros _. left. rewrite L1. split; [discriminate|reflexivity].
    + destruct (is_signature_error e); [|discriminate]. destruct (was c) eqn:Wa; [discriminate|].
      destruct (verify c false (parse_assertion_residue c true sA r) r) as [[s'|]|] eqn:V2; try discriminate.
      match type of H with (if ?x then _ else _) = _ => destruct x eqn:W; [destruct (waors c); discriminate|] end.
      injection H as <-. constructor; cbn.
      * exact V.
      * exists true, sA. split; [assumption|auto].
      * destruct (loads_fields _ _ _ _ L1) as (F1 & F2 & _). destruct (residue_fields c true sA r) as [G1 G2].
        exists false, (parse_assertion_residue c true sA r), s'. repeat split; auto; try congruence; intros; congruence.
      * intros _. left. rewrite L1. split; [discriminate|reflexivity].
  - destruct (is_sigver_error eA); [|discriminate]. destruct (wrs c) eqn:Wr; [discriminate|].
    destruct (loads c false r) as [sB|] eqn:L2; [|discriminate].
    destruct (r_valid_instance r) eqn:V; [|discriminate]. cbn [negb] in H.
    destruct (verify c true sB r) as [x|e] eqn:V1.
    + destruct x as [s'|]; [|discriminate].
      match type of H with (if ?x then _ else _) = _ => destruct x eqn:W; [destruct (waors c); discriminate|] end.
      injection H as <-. constructor; cbn.
      * exact V.
      * exists false, sB. split; [assumption|intros; congruence].
      * destruct (loads_fields _ _ _ _ L2) as (F1 & F2 & _). exists true, sB, s'. repeat split; auto.
      * intros _. right. now exists sB, s'.
    + destruct (is_signature_error e); [|discriminate]. destruct (was c) eqn:Wa; [discriminate|].
      destruct (verify c false (parse_assertion_residue c true sB r) r) as [[s'|]|] eqn:V2; try discriminate.
      destruct (waors c) eqn:Wo; [cbn in H; discriminate|]. cbn in H.
      injection H as <-. constructor; cbn.
      * exact V.
      * exists false, sB. split; [assumption|intros; congruence].
      * destruct (loads_fields _ _ _ _ L2) as (F1 & F2 & _). destruct (residue_fields c true sB r) as [G1 G2].
        exists false, (parse_assertion_residue c true sB r), s'. repeat split; auto; try congruence; intros; congruence.
      * intros; congruence.
Qed.
