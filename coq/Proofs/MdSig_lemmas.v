(* Proofs/MdSig_lemmas.v — the verification call of parse_and_check_signature
   (no --node-id) and the root's own signature. *)
From PV Require Import Lib.Base Model.Xmlsec Model.MdStore Model.MdSig Proofs.MdStore_lemmas.
Open Scope N_scope.

(* without --node-id the tool's answer is about the FIRST signature in document order *)
Lemma tool_verify_no_node_id dupfail doc nm cert :
  tool_verify dupfail doc nm None cert =
  if dupfail && has_dup (registered nm doc []) then false
  else match first_sig doc with
       | None => false
       | Some p => sig_verifies doc nm p cert
       end.
Proof.
  unfold tool_verify, sig_verifies. cbn [subtree_at app].
  destruct (dupfail && has_dup (registered nm doc [])); [reflexivity|].
  destruct (first_sig doc) as [p|]; [|reflexivity].
  destruct (subtree_at p doc) as [[n i pl kids|refs key sv]|]; reflexivity.
Qed.

Lemma md_verdict_true dupfail doc nm cert :
  md_verdict dupfail doc nm cert = Ok true ->
  exists p, first_sig doc = Some p /\ sig_verifies doc nm p cert = true.
Proof.
  unfold md_verdict. destruct (tool_verify dupfail doc nm None cert) eqn:E; [|discriminate].
  intros _. rewrite tool_verify_no_node_id in E.
  destruct (dupfail && has_dup (registered nm doc [])); [discriminate|].
  destruct (first_sig doc) as [p|]; [|discriminate]. now exists p.
Qed.

(* a registered source with certificate and signed root: the tool said OK about
   the first signature in document order *)
Lemma signed_source_registered dupfail now s doc nm cert m :
  s_kind s <> Inline -> s_cert s = true -> root_signed doc = true ->
  load_source now (signed_source s dupfail doc nm cert) = Ok m ->
  exists p, first_sig doc = Some p /\ sig_verifies doc nm p cert = true.
Proof.
  intros Hk Hc Hs Hl. apply load_source_ok in Hl as [_ [_ Ha]].
  cbn [signed_source s_kind s_cert s_doc d_signed s_verdict] in Ha.
  destruct (Ha Hk Hc Hs) as [_ Hv]. exact (md_verdict_true _ _ _ _ Hv).
Qed.

Lemma In_seq_lt k n : (k < n)%nat -> In k (seq 0 n).
Proof. intros H. apply in_seq. split; [apply Nat.le_0_l|exact H]. Qed.

(* when the first signature in document order is the root's own and refers to
   the root, a registered source's own signature verifies *)
Lemma own_signature_partial dupfail now s doc nm cert m :
  s_kind s <> Inline -> s_cert s = true -> root_signed doc = true ->
  first_sig_is_own doc nm = true ->
  load_source now (signed_source s dupfail doc nm cert) = Ok m ->
  own_signature_ok doc nm cert = true.
Proof.
  intros Hk Hc Hs Hown Hl.
  destruct (signed_source_registered _ _ _ _ _ _ _ Hk Hc Hs Hl) as (p & Hp & Hv).
  unfold first_sig_is_own in Hown. destruct doc as [n i pl kids|refs key sv]; [|discriminate].
  rewrite Hp in Hown. destruct p as [|k [|k' p']]; try discriminate.
  destruct (nth_error kids k) as [[n' i' pl' kids'|refs key sv]|] eqn:En; try discriminate.
  unfold own_signature_ok. apply existsb_exists. exists k. split.
  - apply In_seq_lt. apply nth_error_Some. now rewrite En.
  - unfold own_sig_ok_at. rewrite En, Hv, Hown. reflexivity.
Qed.

(* the enveloped-signature pre-check of sigver.py (Model/Xmlsec.v precheck),
   asked about the root element and its own ID, implies that shape *)
Lemma with_id_head v p rest x px :
  with_id v ((v, p) :: rest) = [(x, px)] -> px = p.
Proof.
  unfold with_id. cbn [filter fst]. rewrite (proj2 (str_eqb_eq v v) eq_refl).
  intros H. now injection H.
Qed.

Lemma lookup_id_head v p rest : lookup_id v ((v, p) :: rest) = Some p.
Proof. cbn [lookup_id]. now rewrite (proj2 (str_eqb_eq v v) eq_refl). Qed.

Lemma precheck_root_first_sig_is_own nm v pl kids :
  precheck (El nm (Some v) pl kids) nm (Some v) = true ->
  first_sig_is_own (El nm (Some v) pl kids) nm = true.
Proof.
  set (doc := El nm (Some v) pl kids).
  assert (Hregs : exists rest, registered nm doc [] = (v, []) :: rest).
  { unfold doc. cbn [registered]. rewrite N.eqb_refl. cbn [app]. eexists. reflexivity. }
  destruct Hregs as [rest Hregs].
  unfold precheck, first_sig_is_own. rewrite Hregs. fold doc.
  destruct v as [|c v']; [discriminate|]. remember (c :: v') as v eqn:Ev.
  rewrite Ev at 1. rewrite <- Ev.
  match goal with |- match ?X with _ => _ end = true -> _ => destruct X as [|[x px] [|y l]] eqn:Ew end;
    [discriminate| |discriminate].
  apply with_id_head in Ew. subst px. cbn [subtree_at]. unfold doc at 1 2.
  fold doc. destruct (first_sig doc) as [[|k [|k' p']]|]; try discriminate.
  intros H. apply andb_true_iff in H as [_ H].
  destruct (nth_error kids k) as [[n' i' pl' kids'|[|[u d] [|r2 refs]] key sv]|]; try discriminate.
  apply str_eqb_eq in H. subst u. unfold covers_root. cbn [existsb fst resolve].
  unfold HASH. rewrite N.eqb_refl. rewrite lookup_id_head. reflexivity.
Qed.

(* the loader WITH the pre-check (follow-up proposed_fix/C16-2-after-C01-1): full statement,
   for a root element of the registered name *)
Lemma prechecked_loader_full dupfail now s nm i pl kids cert m :
  s_kind s <> Inline -> s_cert s = true -> root_signed (El nm i pl kids) = true ->
  load_source now (signed_source_prechecked s dupfail (El nm i pl kids) nm cert) = Ok m ->
  own_signature_ok (El nm i pl kids) nm cert = true.
Proof.
  intros Hk Hc Hs Hl. pose proof Hl as Hl0. apply load_source_ok in Hl as [Hp [Hh Ha]].
  cbn [signed_source_prechecked s_kind s_cert s_doc d_signed s_verdict] in Ha.
  destruct (Ha Hk Hc Hs) as [_ Hv]. unfold md_verdict_prechecked in Hv. cbn [root_id] in Hv.
  destruct (precheck (El nm i pl kids) nm i) eqn:Epre; [|discriminate].
  destruct i as [v|]; [|discriminate Epre].
  apply (own_signature_partial dupfail now s (El nm (Some v) pl kids) nm cert m Hk Hc Hs
           (precheck_root_first_sig_is_own _ _ _ _ Epre)).
  (* the un-prechecked source with the same verdict is registered as well *)
  apply load_source_complete.
  - split; [exact Hh|]. intros _ _ _. cbn [signed_source s_kind s_verdict].
    destruct (Ha Hk Hc Hs) as [Hr _]. split; [exact Hr|exact Hv].
  - exact Hp.
Qed.
