(* Proofs/MdSig_lemmas.v — the verification call of parse_and_check_signature
   (no --node-id) and the root's own signature. *)
From PV Require Import Lib.Base Model.Xmlsec Model.MdStore Model.MdSig Proofs.MdStore_lemmas.
Open Scope N_scope.

(* without --node-id the tool's answer is about the FIRST signature in document order *)
Lemma tool_verify_no_node_id dupfail doc nm cert :
  tool_verify dupfail doc nm None cert =
  if dupfail && has_dup (registered nm doc []) then false
  else match first_sig doc with
       | None => false
       | Some p => sig_verifies doc nm p cert
       end.
Proof.
  unfold tool_verify, sig_verifies. cbn [subtree_at app].
  destruct (dupfail && has_dup (registered nm doc [])); [reflexivity|].
  destruct (first_sig doc) as [p|]; [|reflexivity].
  destruct (subtree_at p doc) as [[n i pl kids|refs key sv]|]; reflexivity.
Qed.

Lemma In_seq_lt k n : (k < n)%nat -> In k (seq 0 n).
Proof. intros H. apply in_seq. split; [apply Nat.le_0_l|exact H]. Qed.

(* ---- registered IDs are IDs: registered nm t here is a sub-list of all_ids t here ---- *)
Lemma registered_sub nm : forall t here x, In x (registered nm t here) -> In x (all_ids t here).
Proof.
  fix IH 1. intros [n i pl kids|refs key sv] here x; cbn [registered all_ids]; [|intros []].
  rewrite !in_app_iff. intros [H|H].
  - left. destruct i as [v|]; [|exact H]. destruct (N.eqb n nm); [exact H|destruct H].
  - right. revert H. generalize 0%nat.
    induction kids as [|c r IHk]; intros k H; [exact H|].
    rewrite in_app_iff in H. rewrite in_app_iff. destruct H as [H|H].
    + left. exact (IH c _ _ H).
    + right. exact (IHk _ H).
Qed.

Lemma lookup_id_In v regs p : lookup_id v regs = Some p -> In (v, p) regs.
Proof.
  induction regs as [|[v' p'] r IH]; cbn [lookup_id]; [discriminate|].
  destruct (str_eqb_spec v' v) as [->|_].
  - intros H; injection H as <-. now left.
  - intros H. right. exact (IH H).
Qed.

(* the root carries v and nobody else does: a registered element with ID v is the root *)
Lemma unique_root_id nm n v pl kids p :
  Nat.eqb (List.length (with_id v (all_ids (El n (Some v) pl kids) []))) 1 = true ->
  lookup_id v (registered nm (El n (Some v) pl kids) []) = Some p -> p = [].
Proof.
  intros Hu Hl. apply lookup_id_In in Hl. apply registered_sub in Hl.
  assert (Hin : In (v, p) (with_id v (all_ids (El n (Some v) pl kids) []))).
  { unfold with_id. apply filter_In. split; [exact Hl|]. cbn [fst]. apply str_eqb_refl. }
  revert Hu Hin. cbn [all_ids app]. unfold with_id. cbn [filter fst]. rewrite str_eqb_refl.
  cbn [List.length]. intros Hu Hin. apply Nat.eqb_eq in Hu. injection Hu as Hu.
  apply length_zero_iff_nil in Hu. rewrite Hu in Hin. destruct Hin as [Hin|[]]. now injection Hin.
Qed.

(* ---- the repaired loader: pre-check, then the tool ---- *)
Lemma md_verdict_prechecked_true dupfail doc nm cert :
  md_verdict_prechecked dupfail doc nm cert = Ok true ->
  md_precheck doc = true /\
  exists p, first_sig doc = Some p /\ sig_verifies doc nm p cert = true.
Proof.
  unfold md_verdict_prechecked. destruct (md_precheck doc); [|discriminate].
  destruct (tool_verify dupfail doc nm None cert) eqn:E; [|discriminate].
  intros _. split; [reflexivity|]. rewrite tool_verify_no_node_id in E.
  destruct (dupfail && has_dup (registered nm doc [])); [discriminate|].
  destruct (first_sig doc) as [p|]; [|discriminate]. now exists p.
Qed.

(* what md_precheck says *)
Lemma md_precheck_shape doc :
  md_precheck doc = true ->
  exists n i pl kids k u d key sv,
    doc = El n i pl kids /\ first_sig doc = Some [k] /\ count_sigs kids = 1%nat /\
    nth_error kids k = Some (Sg [(u, d)] key sv) /\
    (u = [] \/ exists v, i = Some v /\ v <> [] /\ u = HASH :: v /\
                        Nat.eqb (List.length (with_id v (all_ids doc []))) 1 = true).
Proof.
  unfold md_precheck. destruct doc as [n i pl kids|refs key sv]; [|discriminate].
  destruct (first_sig (El n i pl kids)) as [[|k [|k' p']]|] eqn:Ef; try discriminate.
  intros H. apply andb_true_iff in H as [Hc H]. apply Nat.eqb_eq in Hc.
  destruct (nth_error kids k) as [[n' i' pl' kids'|[|[u d] [|r2 refs]] key sv]|] eqn:En; try discriminate.
  exists n, i, pl, kids, k, u, d, key, sv. repeat split; auto.
  destruct u as [|c u']; [now left|]. right.
  destruct i as [v|]; [|discriminate]. apply andb_true_iff in H as [H Hu]. apply andb_true_iff in H as [Hv He].
  apply str_eqb_eq in He. exists v. repeat split; auto. intros ->. discriminate.
Qed.

(* FULL: a registered source with certificate and signed root - the root's own
   signature child was verified under the certificate and digests the whole
   document minus that signature *)
Lemma prechecked_loader_full dupfail now s doc nm cert m :
  s_kind s <> Inline -> s_cert s = true -> root_signed doc = true ->
  load_source now (signed_source_prechecked s dupfail doc nm cert) = Ok m ->
  own_signature_ok doc nm cert = true /\
  exists n i pl kids k u d,
    doc = El n i pl kids /\ first_sig doc = Some [k] /\ count_sigs kids = 1%nat /\
    nth_error kids k = Some (Sg [(u, d)] cert true) /\
    (u = [] \/ exists v, i = Some v /\ v <> [] /\ u = HASH :: v) /\
    tree_eqb d (remove_at [k] doc) = true.
Proof.
  intros Hk Hc Hs Hl. apply load_source_ok in Hl as [_ [_ Ha]].
  cbn [signed_source_prechecked s_kind s_cert s_doc d_signed s_verdict] in Ha.
  destruct (Ha Hk Hc Hs) as [_ Hv]. apply md_verdict_prechecked_true in Hv as [Hpre (p & Hp & Hsv)].
  destruct (md_precheck_shape _ Hpre) as (n & i & pl & kids & k & u & d & key & sv & -> & Hf & Hcnt & Hn & Hu).
  rewrite Hf in Hp. injection Hp as <-.
  (* unfold the verification of the signature at [k] *)
  pose proof Hsv as Hsv0. unfold sig_verifies in Hsv. cbn [subtree_at] in Hsv. rewrite Hn in Hsv.
  apply andb_true_iff in Hsv as [Hsv Hrefs]. apply andb_true_iff in Hsv as [Hsv _].
  apply andb_true_iff in Hsv as [Hsvok Hkey]. apply N.eqb_eq in Hkey. subst key. subst sv.
  cbn [forallb] in Hrefs. rewrite andb_true_r in Hrefs.
  (* the single Reference resolves to the root *)
  assert (Hres : resolve u (registered nm (El n i pl kids) []) = Some []).
  { destruct Hu as [->|(v & -> & Hv & -> & Hun)]; [reflexivity|].
    unfold ref_ok in Hrefs. cbn [fst] in Hrefs.
    destruct (resolve (HASH :: v) (registered nm (El n (Some v) pl kids) [])) as [pt|] eqn:Er; [|discriminate].
    f_equal. revert Er. cbn [resolve]. unfold HASH. rewrite N.eqb_refl. intros Er.
    exact (unique_root_id _ _ _ _ _ _ Hun Er). }
  split.
  - unfold own_signature_ok. apply existsb_exists. exists k. split.
    + apply In_seq_lt. apply nth_error_Some. now rewrite Hn.
    + unfold own_sig_ok_at. rewrite Hn, Hsv0. unfold covers_root. cbn [existsb fst]. now rewrite Hres.
  - exists n, i, pl, kids, k, u, d. repeat split; auto.
    + destruct Hu as [->|(v & Hi & Hv & Hu & _)]; [now left|right; now exists v].
    + unfold ref_ok in Hrefs. cbn [fst snd] in Hrefs. rewrite Hres in Hrefs.
      cbn [subtree_at is_prefix List.length skipn] in Hrefs. exact Hrefs.
Qed.

(* a document the pre-check refuses is never registered (certificate + signed root) *)
Lemma precheck_refused_not_registered dupfail now s doc nm cert :
  s_kind s <> Inline -> s_cert s = true -> root_signed doc = true -> md_precheck doc = false ->
  exists x, load_source now (signed_source_prechecked s dupfail doc nm cert) = Err x.
Proof.
  intros Hk Hc Hs Hp. apply failed_verification_fatal; auto.
  cbn [signed_source_prechecked s_verdict]. unfold md_verdict_prechecked. rewrite Hp. discriminate.
Qed.
