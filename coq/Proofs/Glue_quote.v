(* Proofs/Glue_quote.v — GLUE between the copies of urllib percent-encoding:

     Model/Codec.v     quote_byte plus / quote / quote_plus / urlencode    (C14: proved round trips)
     Model/Redirect.v  quote_byte_g ts / quote_plus_g / urlencode_g        (C15: the tilde flag of the backport)
     Model/Ident.v     quote_byte_s / quote_s, code, decode                (C18: quote with its default safe=/)
     Model/Cache.v     quote_id_byte / quote_id, code, decode              (C19: the cache key, the same ident.code)

   One general encoder [quote_x plus exc] (Codec.quote_byte except where [exc] names another spelling) with ONE
   round-trip / injectivity theorem from C14's unquote_quote_byte; the four copies are instances; Ident.code and
   Cache.code are the same function through the obvious reading of a name identifier; Cache.decode is defined through
   Ident.decode (one decoder on every string; the one-digit decoder Cache.v had before is kept with a witness). *)
From PV Require Import Lib.Base Model.Codec Proofs.Base64_lemmas Proofs.Url_lemmas.
From PV Require Model.Redirect Model.Ident Model.Cache Proofs.Redirect_lemmas Proofs.Ident_lemmas Proofs.CacheKey_lemmas.
Module RD := PV.Model.Redirect.
Module ID := PV.Model.Ident.
Module CA := PV.Model.Cache.
Module IDL := PV.Proofs.Ident_lemmas.
Module CAL := PV.Proofs.CacheKey_lemmas.
Open Scope N_scope.

(* ------------------------------------------------------------------ *)
(* the general encoder and its single round trip                       *)
(* ------------------------------------------------------------------ *)
Definition quote_byte_x (plus : bool) (exc : N -> option str) (b : N) : str :=
  match exc b with Some s => s | None => quote_byte plus b end.
Definition quote_x (plus : bool) (exc : N -> option str) (bs : list N) : str := flat_map (quote_byte_x plus exc) bs.

(* an exceptional spelling must itself decode to the byte *)
Definition exc_ok (plus : bool) (exc : N -> option str) : Prop :=
  forall b s rest, exc b = Some s -> unquote_gen plus (s ++ rest) = b :: unquote_gen plus rest.

Theorem unquote_quote_x plus exc bs :
  exc_ok plus exc -> Forall byte bs -> unquote_gen plus (quote_x plus exc bs) = bs.
Proof.
  intros He. unfold quote_x. induction 1 as [|b bs Hb _ IH]; [reflexivity|]. cbn [flat_map].
  unfold quote_byte_x at 1. destruct (exc b) as [s|] eqn:E.
  - now rewrite (He b s _ E), IH.
  - now rewrite (unquote_quote_byte plus b _ Hb), IH.
Qed.

Theorem quote_x_injective plus exc a b :
  exc_ok plus exc -> Forall byte a -> Forall byte b -> quote_x plus exc a = quote_x plus exc b -> a = b.
Proof.
  intros He Ha Hb H. rewrite <- (unquote_quote_x plus exc a He Ha), <- (unquote_quote_x plus exc b He Hb). now rewrite H.
Qed.

(* the exceptions in use *)
Definition exc_none (b : N) : option str := None.
Definition exc_slash (b : N) : option str := if b =? 47 then Some [47] else None.
Definition exc_tilde (ts : bool) (b : N) : option str := if negb ts && (b =? 126) then Some [PCT; 55; 69] else None.

Lemma exc_none_ok plus : exc_ok plus exc_none.
Proof. intros b s rest H. discriminate. Qed.
Lemma exc_slash_ok plus : exc_ok plus exc_slash.
Proof.
  intros b s rest H. unfold exc_slash in H. destruct (b =? 47) eqn:E; [|discriminate]. injection H as <-.
  apply N.eqb_eq in E. subst b. destruct plus; reflexivity.
Qed.
Lemma exc_tilde_ok plus ts : exc_ok plus (exc_tilde ts).
Proof.
  intros b s rest H. unfold exc_tilde in H. destruct (negb ts && (b =? 126)) eqn:E; [|discriminate]. injection H as <-.
  apply andb_true_iff in E as [_ E]. apply N.eqb_eq in E. subst b. destruct plus; reflexivity.
Qed.

(* ------------------------------------------------------------------ *)
(* the four copies are instances                                       *)
(* ------------------------------------------------------------------ *)
Lemma codec_quote_is_x bs : quote bs = quote_x false exc_none bs /\ quote_plus bs = quote_x true exc_none bs.
Proof. split; reflexivity. Qed.

Lemma redirect_quote_is_x ts bs : RD.quote_plus_g ts bs = quote_x true (exc_tilde ts) bs.
Proof.
  unfold RD.quote_plus_g, quote_x. apply flat_map_ext. intros b. unfold RD.quote_byte_g, quote_byte_x, exc_tilde, RD.TILDE.
  destruct (negb ts && (b =? 126)); reflexivity.
Qed.

Lemma ident_quote_is_x bs : ID.quote_s bs = quote_x false exc_slash bs.
Proof.
  unfold ID.quote_s, quote_x. apply flat_map_ext. intros b. unfold ID.quote_byte_s, quote_byte_x, exc_slash, ID.SLASH.
  destruct (b =? 47); reflexivity.
Qed.

Lemma cache_quote_is_x bs : CA.quote_id bs = quote_x false exc_slash bs.
Proof.
  unfold CA.quote_id, quote_x. apply flat_map_ext. intros b. unfold CA.quote_id_byte, quote_byte_x, exc_slash, CA.SLASH.
  destruct (b =? 47); reflexivity.
Qed.

(* C18's and C19's copies are one function *)
Theorem ident_cache_quote_same bs : ID.quote_s bs = CA.quote_id bs.
Proof. now rewrite ident_quote_is_x, cache_quote_is_x. Qed.

(* ... equal to C14's quote (safe empty) off the slash, and C15's to C14's quote_plus off the tilde / with the flag on *)
Theorem quote_s_is_codec_quote bs : forallb (fun c => negb (c =? 47)) bs = true -> ID.quote_s bs = quote bs.
Proof.
  intros H. rewrite ident_quote_is_x. unfold quote, quote_x. induction bs as [|b bs IH]; [reflexivity|].
  cbn [forallb] in H. apply andb_true_iff in H as [Hb Hr]. cbn [flat_map]. rewrite (IH Hr). f_equal.
  unfold quote_byte_x, exc_slash. apply negb_true_iff in Hb. now rewrite Hb.
Qed.

Theorem quote_plus_g_is_codec_quote_plus ts bs :
  ts = true \/ forallb (fun c => negb (c =? 126)) bs = true -> RD.quote_plus_g ts bs = quote_plus bs.
Proof.
  intros [->|H]; [apply Redirect_lemmas.quote_plus_g_true|].
  rewrite redirect_quote_is_x. unfold quote_plus, quote_x. induction bs as [|b bs IH]; [reflexivity|].
  cbn [forallb] in H. apply andb_true_iff in H as [Hb Hr]. cbn [flat_map]. rewrite (IH Hr). f_equal.
  unfold quote_byte_x, exc_tilde. apply negb_true_iff in Hb. now rewrite Hb, andb_false_r.
Qed.

(* whole queries: C15's urlencode_g is C14's urlencode with the flag on, or when no name / value holds a tilde *)
Theorem urlencode_g_is_codec_urlencode ts ps :
  ts = true \/ Forall Redirect_lemmas.no_tilde_pair ps -> RD.urlencode_g ts ps = urlencode ps.
Proof.
  intros [->|H]; [apply Redirect_lemmas.urlencode_g_true|].
  rewrite (Redirect_lemmas.urlencode_g_no_tilde ts true ps H). apply Redirect_lemmas.urlencode_g_true.
Qed.

(* the round trips the property files use are the general one *)
Theorem all_quote_round_trips bs : Forall byte bs ->
  unquote (quote bs) = bs /\ unquote_plus (quote_plus bs) = bs /\
  (forall ts, unquote_plus (RD.quote_plus_g ts bs) = bs) /\
  unquote (ID.quote_s bs) = bs /\ unquote (CA.quote_id bs) = bs.
Proof.
  intros H. split; [|split; [|split; [|split]]].
  - exact (unquote_quote_x false exc_none bs (exc_none_ok false) H).
  - exact (unquote_quote_x true exc_none bs (exc_none_ok true) H).
  - intros ts. rewrite redirect_quote_is_x. exact (unquote_quote_x true (exc_tilde ts) bs (exc_tilde_ok true ts) H).
  - rewrite ident_quote_is_x. exact (unquote_quote_x false exc_slash bs (exc_slash_ok false) H).
  - rewrite cache_quote_is_x. exact (unquote_quote_x false exc_slash bs (exc_slash_ok false) H).
Qed.

(* ------------------------------------------------------------------ *)
(* ident.code: Model/Ident.v (C18) and Model/Cache.v (C19)             *)
(* ------------------------------------------------------------------ *)
(* Cache.v writes an absent / empty attribute as the empty string: Model/Cache.v of_ident *)
Definition od (o : option str) : str := CA.od o.
Definition toC (n : ID.nameid) : CA.nameid := CA.of_ident n.

Theorem code_same n : CA.code (toC n) = ID.code n.
Proof. exact (CAL.code_of_ident n). Qed.

Lemma od_bytes o : IDL.obytes o -> Forall byte (od o).
Proof.
  intros H. unfold od, CA.od. destruct (ID.tr o) as [v|] eqn:E; [|constructor]. exact (IDL.tr_bytes _ _ H E).
Qed.

Lemma toC_bytes n : IDL.wfb n -> CAL.byte_nid (toC n).
Proof. intros (H1 & H2 & H3 & H4 & H5). repeat split; cbn; now apply od_bytes. Qed.

Lemma toC_norm n : toC (ID.norm n) = toC n.
Proof. exact (CAL.of_ident_norm n). Qed.

(* ident.decode: Model/Cache.v's decoder IS Model/Ident.v's, on EVERY string (it is defined through it) *)
Theorem decode_same s :
  CA.decode s = match ID.decode s with Ok m => Ok (toC m) | Err e => Err e end.
Proof. reflexivity. Qed.

Theorem decode_same_on_codes n : IDL.wfb n ->
  exists m, ID.decode (ID.code n) = Ok m /\ CA.decode (ID.code n) = Ok (toC m).
Proof.
  intros H. exists (ID.norm n). split; [exact (IDL.decode_code n H)|].
  rewrite decode_same, (IDL.decode_code n H). reflexivity.
Qed.

(* HISTORY: the decoder Model/Cache.v had before (CA.decode_one_digit: int() for one digit only) agreed with ident.decode
   on everything code() writes and differed off that image - int("-1"), int("04") are indexes for the library *)
Theorem decode_one_digit_witness :
  ID.decode (s2l "-1=a") = Ok (ID.nid_t (s2l "a")) /\ CA.decode_one_digit (s2l "-1=a") = Ok CA.no_nid /\
  CA.decode (s2l "-1=a") = Ok (toC (ID.nid_t (s2l "a"))) /\
  ID.decode (s2l "04=a") = Ok (ID.nid_t (s2l "a")) /\ CA.decode_one_digit (s2l "04=a") = Ok CA.no_nid /\
  CA.decode (s2l "04=a") = Ok (toC (ID.nid_t (s2l "a"))).
Proof. vm_compute. repeat split; reflexivity. Qed.

Example code_example :
  let n := ID.NameId (Some (s2l "http://idp/x y")) None (Some []) None (Some (s2l "a~b,c=d")) in
  ID.code n = s2l "0=http%3A//idp/x%20y,4=a~b%2Cc%3Dd" /\ CA.code (toC n) = ID.code n /\
  CA.decode (ID.code n) = Ok (toC n) /\ ID.decode (ID.code n) = Ok (ID.norm n).
Proof. vm_compute. repeat split; reflexivity. Qed.
