(* Proofs/Ident_lemmas.v — C18: the NameID text coding and the IdentDB state machine *)
From PV Require Import Lib.Base Model.Codec Gen.IdentConsts Model.Ident Proofs.Base64_lemmas Proofs.Url_lemmas.
From Coq Require Import ZifyN ZifyBool.
Open Scope N_scope.

(* ------------------------------------------------------------------ quote with safe="/" *)
Lemma unquote_quote_byte_s b rest : byte b -> unquote (quote_byte_s b ++ rest) = b :: unquote rest.
Proof.
  intros Hb. unfold quote_byte_s. destruct (b =? SLASH) eqn:E.
  - apply N.eqb_eq in E. subst b. reflexivity.
  - apply (unquote_quote_byte false b rest Hb).
Qed.

Lemma unquote_quote_s bs : Forall byte bs -> unquote (quote_s bs) = bs.
Proof.
  induction 1 as [|b bs Hb _ IH]; [reflexivity|]. unfold quote_s in *. cbn [flat_map].
  rewrite (unquote_quote_byte_s b _ Hb), IH. reflexivity.
Qed.

Definition code_safe (c : N) : bool := url_safe c || (c =? SLASH).

Lemma quote_s_alphabet bs : Forall byte bs -> forallb code_safe (quote_s bs) = true.
Proof.
  induction 1 as [|b bs Hb _ IH]; [reflexivity|]. unfold quote_s in *. cbn [flat_map].
  rewrite forallb_app, IH, andb_true_r. unfold quote_byte_s. destruct (b =? SLASH) eqn:E.
  - reflexivity.
  - pose proof (quote_byte_safe false b Hb) as Q. rewrite forallb_forall in *. intros c Hc.
    unfold code_safe. now rewrite (Q c Hc).
Qed.

Lemma code_safe_not_sep c : code_safe c = true -> c <> COMMA /\ c <> EQ /\ c <> SPACE.
Proof.
  unfold code_safe. intros H. apply orb_true_iff in H as [H|H].
  - pose proof (url_safe_not_special c H) as S. unfold COMMA. tauto.
  - apply N.eqb_eq in H. subst c. unfold SLASH, COMMA, EQ, SPACE. repeat split; discriminate.
Qed.

Definition no (sep : N) (s : str) : Prop := forallb (fun c => negb (c =? sep)) s = true.

Lemma code_safe_no sep s : (sep = COMMA \/ sep = EQ \/ sep = SPACE) -> forallb code_safe s = true -> no sep s.
Proof.
  intros Hsep H. unfold no. rewrite forallb_forall in *. intros c Hc. specialize (H c Hc).
  apply code_safe_not_sep in H. apply negb_true_iff, N.eqb_neq. intuition congruence.
Qed.

(* ------------------------------------------------------------------ byte well-formedness *)
Definition obytes (o : option str) : Prop := match o with Some s => Forall byte s | None => True end.
Definition wfb (n : nameid) : Prop :=
  obytes (n_nq n) /\ obytes (n_spnq n) /\ obytes (n_fmt n) /\ obytes (n_sppid n) /\ obytes (n_text n).

Lemma tr_some o v : tr o = Some v -> o = Some v /\ v <> [].
Proof. unfold tr. destruct o as [[|c s]|]; cbn; intros H; inversion H; subst; split; congruence. Qed.
Lemma tr_bytes o v : obytes o -> tr o = Some v -> Forall byte v.
Proof. intros Hb H. apply tr_some in H as [-> _]. exact Hb. Qed.
Lemma tr_tr o : tr (tr o) = tr o.
Proof. destruct o as [[|c s]|]; reflexivity. Qed.
Lemma norm_idem n : norm (norm n) = norm n.
Proof. unfold norm. cbn. now rewrite !tr_tr. Qed.

(* ------------------------------------------------------------------ one coded part *)
Definition small (i : N) : Prop := i = 0 \/ i = 1 \/ i = 2 \/ i = 3 \/ i = 4.

Lemma part_no sep i v : small i -> Forall byte v -> (sep = COMMA \/ sep = SPACE) ->
  no sep (digit i :: EQ :: quote_s v).
Proof.
  intros Hi Hv Hsep. unfold no. cbn [forallb].
  assert (no sep (quote_s v)) as Hq by (apply code_safe_no; [tauto|now apply quote_s_alphabet]).
  unfold no in Hq. rewrite Hq.
  destruct Hi as [->|[->|[->|[->| ->]]]]; destruct Hsep as [->| ->]; reflexivity.
Qed.

Lemma decode_part_enc i v acc : small i -> Forall byte v ->
  decode_part (digit i :: EQ :: quote_s v) acc = Ok (set_field i (Some v) acc).
Proof.
  intros Hi Hv. unfold decode_part.
  assert (no EQ (quote_s v)) as Hq by (apply code_safe_no; [tauto|now apply quote_s_alphabet]).
  assert (split_on EQ (digit i :: EQ :: quote_s v) [] = [[digit i]; quote_s v]) as Hs.
  { destruct Hi as [->|[->|[->|[->| ->]]]]; cbn [split_on digit]; cbn -[split_on quote_s];
      rewrite (split_on_nosep EQ _ Hq); reflexivity. }
  replace (has EQ (digit i :: EQ :: quote_s v)) with true
    by (destruct Hi as [->|[->|[->|[->| ->]]]]; reflexivity).
  rewrite Hs. rewrite (unquote_quote_s v Hv).
  destruct Hi as [->|[->|[->|[->| ->]]]]; reflexivity.
Qed.

Definition set_opt (i : N) (o : option str) (acc : nameid) : nameid :=
  match o with Some v => set_field i (Some v) acc | None => acc end.

Lemma decode_parts_enc_part i o rest acc : small i -> obytes o ->
  decode_parts (enc_part i o ++ rest) acc = decode_parts rest (set_opt i (tr o) acc).
Proof.
  intros Hi Hb. unfold enc_part. destruct (tr o) as [v|] eqn:E; [|reflexivity].
  cbn [app decode_parts set_opt]. rewrite (decode_part_enc i v acc Hi (tr_bytes o v Hb E)). reflexivity.
Qed.

Lemma decode_parts_enc n : wfb n -> decode_parts (enc_parts n) empty_nid = Ok (norm n).
Proof.
  intros (H0 & H1 & H2 & H3 & H4). unfold enc_parts.
  rewrite decode_parts_enc_part by (unfold small; tauto).
  rewrite decode_parts_enc_part by (unfold small; tauto).
  rewrite decode_parts_enc_part by (unfold small; tauto).
  rewrite decode_parts_enc_part by (unfold small; tauto).
  rewrite <- (app_nil_r (enc_part 4 (n_text n))).
  rewrite decode_parts_enc_part by (unfold small; tauto).
  unfold norm. destruct (tr (n_nq n)), (tr (n_spnq n)), (tr (n_fmt n)), (tr (n_sppid n)), (tr (n_text n)); reflexivity.
Qed.

Lemma enc_part_no sep i o : small i -> obytes o -> (sep = COMMA \/ sep = SPACE) -> Forall (no sep) (enc_part i o).
Proof.
  intros Hi Hb Hsep. unfold enc_part. destruct (tr o) as [v|] eqn:E; constructor; [|constructor].
  apply part_no; auto. exact (tr_bytes o v Hb E).
Qed.

Lemma enc_parts_no sep n : wfb n -> (sep = COMMA \/ sep = SPACE) -> Forall (no sep) (enc_parts n).
Proof.
  intros (H0 & H1 & H2 & H3 & H4) Hsep. unfold enc_parts.
  repeat (apply Forall_app; split); apply enc_part_no; unfold small; tauto.
Qed.

(* decode (code n) = normalised n, for ARBITRARY byte contents of all five fields *)
Theorem decode_code n : wfb n -> decode (code n) = Ok (norm n).
Proof.
  intros W. unfold decode, code. destruct (enc_parts n) as [|p ps] eqn:E.
  - rewrite <- (decode_parts_enc n W), E. reflexivity.
  - rewrite <- E. rewrite split_join.
    + exact (decode_parts_enc n W).
    + rewrite E. discriminate.
    + apply (enc_parts_no COMMA n W). now left.
Qed.

Theorem code_injective n1 n2 : wfb n1 -> wfb n2 -> code n1 = code n2 -> norm n1 = norm n2.
Proof.
  intros W1 W2 H. pose proof (decode_code n1 W1) as D1. rewrite H, (decode_code n2 W2) in D1. congruence.
Qed.

Lemma join_no sep sep' parts : sep' <> sep -> Forall (no sep) parts -> no sep (join_with sep' parts).
Proof.
  intros Hne H. induction H as [|p ps Hp _ IH]; [reflexivity|].
  cbn [join_with]. destruct ps as [|q ps]; [exact Hp|].
  unfold no in *. rewrite forallb_app. cbn [forallb]. rewrite Hp, IH.
  apply N.eqb_neq in Hne. now rewrite Hne.
Qed.

(* a code never contains the separator of the per-user list *)
Theorem code_no_space n : wfb n -> no SPACE (code n).
Proof.
  intros W. unfold code. apply join_no; [discriminate|]. apply enc_parts_no; auto.
Qed.

Lemma ctext_code n : wfb n -> ctext (code n) = tr (n_text n).
Proof. intros W. unfold ctext. now rewrite (decode_code n W). Qed.
Lemma ctext_nil : ctext [] = None.
Proof. reflexivity. Qed.

(* ------------------------------------------------------------------ the association list *)
Lemma lookup_insert_eq k v d : lookup k (insert k v d) = Some v.
Proof.
  induction d as [|[k' v'] r IH]; cbn [insert lookup].
  - now rewrite str_eqb_refl.
  - destruct (str_eqb k k') eqn:E; cbn [lookup]; rewrite ?str_eqb_refl, ?E; auto.
Qed.
Lemma lookup_insert_neq k k' v d : k' <> k -> lookup k' (insert k v d) = lookup k' d.
Proof.
  intros Hne. induction d as [|[k2 v2] r IH]; cbn [insert lookup].
  - apply str_eqb_neq in Hne. now rewrite Hne.
  - destruct (str_eqb k k2) eqn:E; cbn [lookup].
    + apply str_eqb_eq in E. subst k2. apply str_eqb_neq in Hne. now rewrite Hne.
    + now rewrite IH.
Qed.
Lemma lookup_remove_eq k d : lookup k (remove k d) = None.
Proof.
  induction d as [|[k' v'] r IH]; [reflexivity|]. cbn [remove].
  destruct (str_eqb k k') eqn:E; [exact IH|]. cbn [lookup]. now rewrite E.
Qed.
Lemma lookup_remove_neq k k' d : k' <> k -> lookup k' (remove k d) = lookup k' d.
Proof.
  intros Hne. induction d as [|[k2 v2] r IH]; [reflexivity|]. cbn [remove lookup].
  destruct (str_eqb k k2) eqn:E.
  - apply str_eqb_eq in E. subst k2. apply str_eqb_neq in Hne. now rewrite Hne.
  - cbn [lookup]. now rewrite IH.
Qed.

(* ------------------------------------------------------------------ split / join of the per-user list *)
Lemma no_rev sep s : no sep s -> no sep (rev s).
Proof.
  unfold no. rewrite !forallb_forall. intros H c Hc. apply H. now apply in_rev.
Qed.

Lemma split_on_parts_no sep s cur : no sep cur -> Forall (no sep) (split_on sep s cur).
Proof.
  revert cur. induction s as [|c s IH]; intros cur Hc; cbn [split_on].
  - constructor; [now apply no_rev|constructor].
  - destruct (c =? sep) eqn:E.
    + constructor; [now apply no_rev|]. now apply IH.
    + apply IH. unfold no in *. cbn [forallb]. now rewrite E, Hc.
Qed.

Lemma entries_of_no e : Forall (no SPACE) (entries_of e).
Proof. apply split_on_parts_no. reflexivity. Qed.

Lemma entries_of_join vals : vals <> [] -> Forall (no SPACE) vals -> entries_of (join_with SPACE vals) = vals.
Proof. intros Hne H. unfold entries_of. now apply split_join. Qed.

Lemma entries_no d u : Forall (no SPACE) (entries d u).
Proof. unfold entries. destruct (lookup u d); [apply entries_of_no|constructor]. Qed.

(* texts recorded in a list of codes *)
Definition texts (l : list str) : list str := flat_map (fun c => match ctext c with Some t => [t] | None => [] end) l.

Lemma texts_app a b : texts (a ++ b) = texts a ++ texts b.
Proof. unfold texts. now rewrite flat_map_app. Qed.

Lemma texts_in c t l : In c l -> ctext c = Some t -> In t (texts l).
Proof.
  intros Hin Hc. unfold texts. apply in_flat_map. exists c. split; [exact Hin|]. rewrite Hc. now left.
Qed.

Lemma in_texts t l : In t (texts l) -> exists c, In c l /\ ctext c = Some t.
Proof.
  unfold texts. intros H. apply in_flat_map in H as (c & Hc & Ht). exists c. split; [exact Hc|].
  destruct (ctext c); [destruct Ht as [->|[]]; reflexivity|destruct Ht].
Qed.

Lemma nodup_texts_same l c1 c2 t : NoDup (texts l) -> In c1 l -> In c2 l ->
  ctext c1 = Some t -> ctext c2 = Some t -> c1 = c2.
Proof.
  induction l as [|c l IH]; intros Hnd H1 H2 T1 T2; [destruct H1|].
  change (texts (c :: l)) with ((match ctext c with Some t => [t] | None => [] end) ++ texts l) in Hnd.
  destruct H1 as [->|H1], H2 as [->|H2]; auto.
  - rewrite T1 in Hnd. cbn [app] in Hnd. inversion Hnd as [|? ? Hnot _]. subst.
    exfalso. apply Hnot. now apply (texts_in c2 t l).
  - rewrite T2 in Hnd. cbn [app] in Hnd. inversion Hnd as [|? ? Hnot _]. subst.
    exfalso. apply Hnot. now apply (texts_in c1 t l).
  - apply IH; auto. destruct (ctext c); [now inversion Hnd|exact Hnd].
Qed.

Lemma remove_first_in x l l' y : remove_first x l = Some l' -> In y l' -> In y l.
Proof.
  revert l'. induction l as [|z l IH]; intros l' H Hy; [discriminate|]. cbn [remove_first] in H.
  destruct (str_eqb x z) eqn:E.
  - inversion H; subst. now right.
  - destruct (remove_first x l) as [r|] eqn:R; [|discriminate]. inversion H; subst.
    destruct Hy as [->|Hy]; [now left|right; now apply (IH r)].
Qed.

Lemma remove_first_nodup x l l' : remove_first x l = Some l' -> NoDup (texts l) -> NoDup (texts l').
Proof.
  revert l'. induction l as [|z l IH]; intros l' H Hnd; [discriminate|]. cbn [remove_first] in H.
  change (texts (z :: l)) with ((match ctext z with Some t => [t] | None => [] end) ++ texts l) in Hnd.
  destruct (str_eqb x z) eqn:E.
  - inversion H; subst. destruct (ctext z); [now inversion Hnd|exact Hnd].
  - destruct (remove_first x l) as [r|] eqn:R; [|discriminate]. inversion H; subst.
    change (texts (z :: r)) with ((match ctext z with Some t => [t] | None => [] end) ++ texts r).
    destruct (ctext z) as [t|] eqn:T; cbn [app] in *.
    + inversion Hnd as [|? ? Hnot Hrest]. subst. constructor; [|now apply IH].
      intros Hin. apply Hnot. apply in_texts in Hin as (c & Hc & Tc).
      apply (texts_in c t l); [now apply (remove_first_in x l r)|exact Tc].
    + now apply IH.
Qed.

(* after list.remove(x) no element with the text of x is left, when texts were distinct *)
Lemma remove_first_text_gone x l l' t y : remove_first x l = Some l' -> NoDup (texts l) ->
  ctext x = Some t -> In y l' -> ctext y = Some t -> False.
Proof.
  revert l'. induction l as [|z l IH]; intros l' H Hnd Tx Hy Ty; [discriminate|]. cbn [remove_first] in H.
  change (texts (z :: l)) with ((match ctext z with Some t => [t] | None => [] end) ++ texts l) in Hnd.
  destruct (str_eqb x z) eqn:E.
  - apply str_eqb_eq in E. subst z. inversion H; subst. rewrite Tx in Hnd. cbn [app] in Hnd.
    inversion Hnd as [|? ? Hnot _]. subst. apply Hnot. now apply (texts_in y t l').
  - destruct (remove_first x l) as [r|] eqn:R; [|discriminate]. inversion H; subst.
    destruct Hy as [->|Hy].
    + rewrite Ty in Hnd. cbn [app] in Hnd. inversion Hnd as [|? ? Hnot _]. subst. apply Hnot.
      assert (In x l) as Hx.
      { clear - R. revert r R. induction l as [|w l IH]; intros r R; [discriminate|]. cbn [remove_first] in R.
        destruct (str_eqb x w) eqn:E; [apply str_eqb_eq in E; subst; now left|].
        destruct (remove_first x l) eqn:R2; [|discriminate]. right. now apply (IH l0). }
      now apply (texts_in x t l).
    + apply (IH r); auto. destruct (ctext z); [now inversion Hnd|exact Hnd].
Qed.

Lemma remove_first_other x l l' c : remove_first x l = Some l' -> In c l -> c <> x -> In c l'.
Proof.
  revert l'. induction l as [|z l IH]; intros l' H Hc Hne; [destruct Hc|]. cbn [remove_first] in H.
  destruct (str_eqb x z) eqn:E.
  - apply str_eqb_eq in E. subst z. inversion H; subst. destruct Hc as [->|Hc]; [congruence|exact Hc].
  - destruct (remove_first x l) as [r|] eqn:R; [|discriminate]. inversion H; subst.
    destruct Hc as [->|Hc]; [now left|right; now apply IH].
Qed.

(* what remove_remote leaves under the user id (after fix C18-1): exactly the remaining codes *)
Lemma entries_rewrite_entry id vals d t : id <> t -> Forall (no SPACE) vals ->
  entries (remove t (rewrite_entry id vals d)) id = vals.
Proof.
  intros Hne Hno. unfold entries. rewrite lookup_remove_neq by exact Hne. destruct vals as [|v vs]; cbn [rewrite_entry].
  - now rewrite lookup_remove_eq.
  - rewrite lookup_insert_eq. apply entries_of_join; [discriminate|exact Hno].
Qed.
Lemma lookup_rewrite_entry id vals d k : k <> id -> lookup k (rewrite_entry id vals d) = lookup k d.
Proof. intros H. destruct vals; cbn [rewrite_entry]; [now apply lookup_remove_neq|now apply lookup_insert_neq]. Qed.

(* the deletions of remove_local *)
Fixpoint remove_all (ts : list str) (d : db) : db :=
  match ts with [] => d | t :: r => remove_all r (remove t d) end.
Lemma lookup_remove_sub k k' d v : lookup k' (remove k d) = Some v -> lookup k' d = Some v.
Proof.
  destruct (str_eqb_spec k' k) as [->|Hne]; [rewrite lookup_remove_eq; discriminate|now rewrite lookup_remove_neq].
Qed.
Lemma lookup_remove_all_notin ts : forall d k, ~ In k ts -> lookup k (remove_all ts d) = lookup k d.
Proof.
  induction ts as [|t r IH]; intros d k H; [reflexivity|]. cbn [remove_all].
  rewrite IH by (intros X; apply H; now right). apply lookup_remove_neq. intros ->. apply H. now left.
Qed.
Lemma lookup_remove_all_sub ts : forall d k v, lookup k (remove_all ts d) = Some v -> lookup k d = Some v /\ ~ In k ts.
Proof.
  induction ts as [|t r IH]; intros d k v H; [split; [exact H|intros []]|]. cbn [remove_all] in H.
  apply IH in H as (H & Hn). split; [now apply (lookup_remove_sub t)|].
  intros [->|X]; [rewrite lookup_remove_eq in H; discriminate|now apply Hn].
Qed.
Lemma remove_local_vals_ok vals : forall d, (forall c, In c vals -> exists t, ctext c = Some t) ->
  remove_local_vals vals d = (remove_all (texts vals) d, None).
Proof.
  induction vals as [|v r IH]; intros d H; [reflexivity|]. cbn [remove_local_vals].
  destruct (H v (or_introl eq_refl)) as (t & T). unfold ctext in T.
  destruct (decode v) as [nid|e] eqn:D; [|discriminate].
  assert (texts (v :: r) = t :: texts r) as -> by (unfold texts; cbn [flat_map]; unfold ctext at 1; rewrite D, T; reflexivity).
  rewrite T. cbn [remove_all]. apply IH. intros c Hc. apply H. now right.
Qed.

(* ------------------------------------------------------------------ boolean well-formedness of operations *)
Definition bytesb (s : str) : bool := forallb (fun b => b <? 256) s.
Definition obytesb (o : option str) : bool := match o with Some s => bytesb s | None => true end.
Definition wfbb (n : nameid) : bool :=
  obytesb (n_nq n) && obytesb (n_spnq n) && obytesb (n_fmt n) && obytesb (n_sppid n) && obytesb (n_text n).

Lemma bytesb_spec s : bytesb s = true -> Forall byte s.
Proof.
  unfold bytesb. rewrite forallb_forall. intros H. apply Forall_forall. intros b Hb.
  specialize (H b Hb). unfold byte. lia.
Qed.
Lemma obytesb_spec o : obytesb o = true -> obytes o.
Proof. destruct o; cbn; [apply bytesb_spec|trivial]. Qed.
Lemma wfbb_spec n : wfbb n = true -> wfb n.
Proof.
  unfold wfbb, wfb. rewrite !andb_true_iff. intros ((((H0 & H1) & H2) & H3) & H4).
  repeat split; now apply obytesb_spec.
Qed.

Lemma nodup_snoc {A} (l : list A) x : NoDup l -> ~ In x l -> NoDup (l ++ [x]).
Proof.
  induction 1 as [|y l Hy Hnd IH]; intros Hx; cbn [app].
  - constructor; [intros []|constructor].
  - constructor.
    + intros Hin. apply in_app_or in Hin as [Hin|[->|[]]]; [now apply Hy|apply Hx; now left].
    + apply IH. intros Hin. apply Hx. now right.
Qed.

Lemma create_id_spec d cands id : create_id d cands = Ok id -> In id cands /\ lookup id d = None.
Proof.
  induction cands as [|c r IH]; cbn [create_id]; [discriminate|].
  destruct (lookup c d) eqn:L.
  - intros H. destruct (IH H). split; [now right|assumption].
  - intros H. inversion H; subst. split; [now left|assumption].
Qed.

Section Store.
Variable is_user : str -> bool.

(* the two directions of the store are in step: EVERY element of the code list recorded under
   a user decodes to an identifier whose text is a key of the other direction bound to that
   very user; no two codes of a user carry the same text; the other direction holds
   non-empty texts bound to users, each of them recorded under that user *)
Definition Inv (d : db) : Prop :=
  (forall u c, is_user u = true -> In c (entries d u) ->
      exists t, ctext c = Some t /\ is_user t = false /\ lookup t d = Some u) /\
  (forall u, is_user u = true -> NoDup (texts (entries d u))) /\
  (forall t u, is_user t = false -> lookup t d = Some u -> t <> [] /\ is_user u = true /\
      exists c, In c (entries d u) /\ ctext c = Some t).

Lemma inv_empty : Inv [].
Proof.
  repeat split; cbn; intros; try contradiction; try discriminate. constructor.
Qed.

Lemma user_neq u t : is_user u = true -> is_user t = false -> u <> t.
Proof. intros Hu Ht E. subst. congruence. Qed.

Lemma store_preserves d u n t :
  Inv d -> is_user u = true -> wfb n -> n_text n = Some t -> t <> [] -> is_user t = false -> lookup t d = None ->
  let d' := insert t u (insert u (join_with SPACE (entries d u ++ [code n])) d) in
  Inv d' /\ entries d' u = entries d u ++ [code n] /\ lookup t d' = Some u /\
  (forall u2, u2 <> u -> u2 <> t -> entries d' u2 = entries d u2).
Proof.
  intros (I1 & I2 & I3) Hu W Ht Hne Hnt Hfresh d'.
  pose proof (user_neq u t Hu Hnt) as Hut.
  assert (entries d' u = entries d u ++ [code n]) as EB.
  { unfold entries at 1. unfold d'. rewrite lookup_insert_neq by exact Hut. rewrite lookup_insert_eq.
    apply entries_of_join.
    - intros E. symmetry in E. now apply app_cons_not_nil in E.
    - apply Forall_app. split; [apply entries_no|]. constructor; [now apply code_no_space|constructor]. }
  assert (forall k, k <> t -> k <> u -> lookup k d' = lookup k d) as ED.
  { intros k H1 H2. unfold d'. now rewrite !lookup_insert_neq. }
  assert (forall u2, u2 <> u -> u2 <> t -> entries d' u2 = entries d u2) as EC.
  { intros u2 H1 H2. unfold entries. now rewrite ED. }
  assert (lookup t d' = Some u) as ET by (unfold d'; apply lookup_insert_eq).
  assert (forall u2 c, is_user u2 = true -> In c (entries d u2) ->
            exists t', ctext c = Some t' /\ is_user t' = false /\ lookup t' d' = Some u2) as OLD.
  { intros u2 c Hu2 Hin. destruct (I1 u2 c Hu2 Hin) as (t' & T1 & T2 & T3).
    exists t'. repeat split; auto. rewrite ED; auto.
    - intros E. subst t'. congruence.
    - intros E. subst t'. congruence. }
  assert (ctext (code n) = Some t) as CT by (rewrite (ctext_code n W), Ht; destruct t; [congruence|reflexivity]).
  split; [|repeat split; auto].
  split; [|split].
  - intros u2 c Hu2 Hin. destruct (str_eqb_spec u2 u) as [->|Hne2].
    + rewrite EB in Hin. apply in_app_or in Hin as [Hin|[<-|[]]]; [now apply OLD|].
      exists t. repeat split; auto.
    + rewrite EC in Hin; auto. intros E; subst; congruence.
  - intros u2 Hu2. destruct (str_eqb_spec u2 u) as [->|Hne2].
    + rewrite EB, texts_app. replace (texts [code n]) with [t].
      * apply nodup_snoc; [now apply I2|]. intros Hin. apply in_texts in Hin as (c & Hc & Tc).
        destruct (I1 u c Hu Hc) as (t' & T1 & _ & T3). congruence.
      * unfold texts. cbn [flat_map]. now rewrite CT.
    + rewrite EC; auto. intros E; subst; congruence.
  - intros t2 u2 Ht2 Hl. destruct (str_eqb_spec t2 t) as [->|Hne2].
    + rewrite ET in Hl. inversion Hl; subst u2. split; [exact Hne|]. split; [exact Hu|].
      exists (code n). split; [|exact CT]. rewrite EB. apply in_or_app. right. now left.
    + rewrite ED in Hl; auto; [|intros E; subst; congruence].
      destruct (I3 t2 u2 Ht2 Hl) as (A & B & c & Hc & Tc). split; [exact A|]. split; [exact B|].
      exists c. split; [|exact Tc].
      destruct (str_eqb_spec u2 u) as [->|Hne3]; [rewrite EB; apply in_or_app; now left|].
      rewrite EC; auto. intros E; subst; congruence.
Qed.

Lemma entries_of_join_sub vals c : Forall (no SPACE) vals -> In c (entries_of (join_with SPACE vals)) -> c <> [] -> In c vals.
Proof.
  intros Hno Hin Hc. destruct vals as [|v vs].
  - cbn in Hin. destruct Hin as [<-|[]]. congruence.
  - rewrite entries_of_join in Hin; auto. discriminate.
Qed.

Lemma texts_entries_of_join vals : Forall (no SPACE) vals -> texts (entries_of (join_with SPACE vals)) = texts vals.
Proof.
  intros Hno. destruct vals as [|v vs]; [reflexivity|]. rewrite entries_of_join; auto. discriminate.
Qed.

Lemma remove_preserves d n d' :
  Inv d -> wfb n -> (forall t, n_text n = Some t -> is_user t = false) -> do_remove_remote d n = Ok d' ->
  Inv d' /\ exists t id, n_text n = Some t /\ lookup t d = Some id /\ is_user id = true /\ t <> [] /\ lookup t d' = None.
Proof.
  intros (I1 & I2 & I3) W Hnt H. unfold do_remove_remote, remove_remote_with in H.
  destruct (n_text n) as [t|] eqn:Ht; [|discriminate]. specialize (Hnt t eq_refl).
  destruct (lookup t d) as [id|] eqn:L; [|discriminate].
  destruct (I3 t id Hnt L) as (Hne & Hid & c0 & Hc0 & Tc0).
  pose proof (user_neq id t Hid Hnt) as Hidt.
  assert (ctext (code n) = Some t) as CT by (rewrite (ctext_code n W), Ht; destruct t; [congruence|reflexivity]).
  destruct (lookup id d) as [e|] eqn:Le.
  2:{ unfold entries in Hc0. rewrite Le in Hc0. destruct Hc0. }
  destruct (remove_first (code n) (entries_of e)) as [vals|] eqn:R; [|discriminate]. inversion H; subst d'. clear H.
  set (d1 := rewrite_entry id vals d).
  assert (entries d id = entries_of e) as E0 by (unfold entries; now rewrite Le).
  assert (Forall (no SPACE) vals) as Hno.
  { apply Forall_forall. intros y Hy. pose proof (entries_of_no e) as F. rewrite Forall_forall in F.
    apply F. now apply (remove_first_in (code n) (entries_of e) vals). }
  assert (entries (remove t d1) id = vals) as E1 by (unfold d1; now apply entries_rewrite_entry).
  assert (forall k, k <> t -> k <> id -> lookup k (remove t d1) = lookup k d) as ED.
  { intros k H1 H2. rewrite lookup_remove_neq by exact H1. unfold d1. now apply lookup_rewrite_entry. }
  assert (forall u2, is_user u2 = true -> u2 <> id -> entries (remove t d1) u2 = entries d u2) as EC.
  { intros u2 Hu2 Hn2. unfold entries. rewrite ED; auto. intros ->. congruence. }
  split; [|exists t, id; repeat split; auto; apply lookup_remove_eq].
  split; [|split].
  - intros u2 c Hu2 Hin. destruct (str_eqb_spec u2 id) as [->|Hne2].
    + rewrite E1 in Hin.
      assert (In c (entries d id)) as Hold by (rewrite E0; now apply (remove_first_in (code n) _ vals)).
      destruct (I1 id c Hid Hold) as (t' & T1 & T2 & T3). exists t'. repeat split; auto.
      rewrite ED; auto.
      * intros ->. apply (remove_first_text_gone (code n) (entries_of e) vals t c); auto.
        rewrite <- E0. now apply I2.
      * intros ->. congruence.
    + rewrite EC in Hin by auto. destruct (I1 u2 c Hu2 Hin) as (t' & T1 & T2 & T3). exists t'. repeat split; auto.
      rewrite ED; auto.
      * intros ->. rewrite L in T3. inversion T3. congruence.
      * intros ->. congruence.
  - intros u2 Hu2. destruct (str_eqb_spec u2 id) as [->|Hne2].
    + rewrite E1. apply (remove_first_nodup (code n) (entries_of e)); auto. rewrite <- E0. now apply I2.
    + rewrite EC by auto. now apply I2.
  - intros t2 u2 Ht2 Hl. destruct (str_eqb_spec t2 t) as [->|Hne2].
    + rewrite lookup_remove_eq in Hl. discriminate.
    + rewrite ED in Hl; auto; [|intros ->; congruence].
      destruct (I3 t2 u2 Ht2 Hl) as (A & B & c & Hc & Tc). split; [exact A|]. split; [exact B|].
      exists c. split; [|exact Tc].
      destruct (str_eqb_spec u2 id) as [->|Hne3].
      * rewrite E1. apply (remove_first_other (code n) (entries_of e)); auto; [now rewrite <- E0|].
        intros ->. congruence.
      * now rewrite EC.
Qed.

(* remove_local(u) for a user id: withdraws exactly the identifiers of u *)
Lemma remove_local_full d u :
  Inv d -> is_user u = true ->
  let d' := fst (do_remove_local d u) in
  snd (do_remove_local d u) = ONone /\ Inv d' /\ lookup u d' = None /\
  (forall t, is_user t = false -> lookup t d' <> Some u) /\
  (forall u2, is_user u2 = true -> u2 <> u -> entries d' u2 = entries d u2) /\
  (forall t u2, is_user t = false -> u2 <> u -> lookup t d = Some u2 -> lookup t d' = Some u2) /\
  (forall k v, lookup k d' = Some v -> lookup k d = Some v).
Proof.
  intros I Hu. pose proof I as (I1 & I2 & I3). unfold do_remove_local. destruct (lookup u d) as [e|] eqn:Le.
  2:{ cbn [fst snd]. split; [reflexivity|]. split; [exact I|]. split; [exact Le|]. split; [|auto].
      intros t Ht L. destruct (I3 t u Ht L) as (_ & _ & c & Hc & _). unfold entries in Hc. rewrite Le in Hc. destruct Hc. }
  assert (entries d u = entries_of e) as E0 by (unfold entries; now rewrite Le).
  rewrite remove_local_vals_ok.
  2:{ intros c Hc. rewrite <- E0 in Hc. destruct (I1 u c Hu Hc) as (t & T & _). now exists t. }
  cbn [fst snd]. set (ts := texts (entries_of e)).
  assert (forall t, In t ts -> is_user t = false /\ lookup t d = Some u) as Hts.
  { intros t Hin. apply in_texts in Hin as (c & Hc & Tc). rewrite <- E0 in Hc.
    destruct (I1 u c Hu Hc) as (t' & T1 & T2 & T3). assert (t' = t) by congruence. subst t'. auto. }
  assert (forall k, k <> u -> ~ In k ts -> lookup k (remove u (remove_all ts d)) = lookup k d) as LK.
  { intros k H1 H2. rewrite lookup_remove_neq by exact H1. now apply lookup_remove_all_notin. }
  assert (forall k v, lookup k (remove u (remove_all ts d)) = Some v -> lookup k d = Some v /\ ~ In k ts) as LS.
  { intros k v H. apply lookup_remove_sub in H. now apply lookup_remove_all_sub in H. }
  assert (forall u2, is_user u2 = true -> u2 <> u -> entries (remove u (remove_all ts d)) u2 = entries d u2) as EC.
  { intros u2 Hu2 Hn2. unfold entries. rewrite LK; auto. intros Hin. destruct (Hts u2 Hin). congruence. }
  assert (entries (remove u (remove_all ts d)) u = []) as EU by (unfold entries; now rewrite lookup_remove_eq).
  assert (forall t u2, is_user t = false -> u2 <> u -> lookup t d = Some u2 -> lookup t (remove u (remove_all ts d)) = Some u2) as KEEP.
  { intros t u2 Ht Hn2 L. rewrite LK; auto; [intros ->; congruence|].
    intros Hin. destruct (Hts t Hin) as (_ & L2). congruence. }
  assert (forall t, is_user t = false -> lookup t (remove u (remove_all ts d)) <> Some u) as GONE.
  { intros t Ht L. destruct (LS t u L) as (L0 & Hn). destruct (I3 t u Ht L0) as (_ & _ & c & Hc & Tc).
    apply Hn. unfold ts. rewrite <- E0. now apply (texts_in c t). }
  split; [reflexivity|]. split; [|split; [apply lookup_remove_eq|]; split; [exact GONE|]; split; [exact EC|]; split; [exact KEEP|]].
  2:{ intros k v H. now destruct (LS k v H). }
  split; [|split].
  - intros u2 c Hu2 Hin. destruct (str_eqb_spec u2 u) as [->|Hne2]; [rewrite EU in Hin; destruct Hin|].
    rewrite EC in Hin by auto. destruct (I1 u2 c Hu2 Hin) as (t' & T1 & T2 & T3). exists t'. repeat split; auto.
  - intros u2 Hu2. destruct (str_eqb_spec u2 u) as [->|Hne2]; [rewrite EU; constructor|].
    rewrite EC by auto. now apply I2.
  - intros t u0 Ht L. destruct (LS t u0 L) as (L0 & Hn). destruct (I3 t u0 Ht L0) as (A & B & c & Hc & Tc).
    split; [exact A|]. split; [exact B|]. exists c. split; [|exact Tc].
    destruct (str_eqb_spec u0 u) as [->|Hne0].
    + exfalso. now apply (GONE t Ht).
    + now rewrite EC.
Qed.

(* ---- which operations the store theorems speak about (decidable) ---- *)
Definition cand_ok (c : str) : bool := negb (is_user c) && negb (is_nil c) && bytesb c.
Definition nid_ok (n : nameid) : bool :=
  wfbb n && match n_text n with Some t => negb (is_user t) | None => true end.
(* e-mail identifiers are digest@domain, and create_id tests the digest only: excluded unless no domain is set *)
Definition fmt_ok (c : cfg) (f : str) : bool :=
  bytesb f && (negb (str_eqb f NAMEID_FORMAT_EMAILADDRESS) || is_nil (domain c)).
Definition get_ok (c : cfg) (u f : str) (sp nq : option str) (cands : list str) : bool :=
  is_user u && fmt_ok c f && obytesb sp && obytesb nq && forallb cand_ok cands.

Definition op_wfb (c : cfg) (o : op) : bool :=
  match o with
  | Store _ _ => false                                   (* raw store: see raw_store_refuted *)
  | RemoveRemote n => nid_ok n
  | RemoveLocal u => is_user u
  | GetNameid u f sp nq cands => get_ok c u f sp nq cands
  | Transient u sp nq cands => get_ok c u NAMEID_FORMAT_TRANSIENT sp nq cands
  | Persistent u sp nq cands => get_ok c u NAMEID_FORMAT_PERSISTENT sp nq cands
  | Construct u lp sp pol nq cands =>
      match construct_args c lp sp pol nq with
      | None => true
      | Some (f, sp', nq') => get_ok c u f sp' nq' cands
      end
  | MapReq n pfmt psp allow cands =>
      nid_ok n && forallb cand_ok cands &&
      match construct_args c None None (Some (pfmt, psp)) None with
      | None => true
      | Some (f, sp', nq') => fmt_ok c f && obytesb sp' && obytesb nq'
      end
  | Manage n a => nid_ok n && match a with ANew v => obytesb v | _ => true end
  | FindNameid _ _ | FindLocalId _ | MatchLocalId _ _ _ => true
  end.

Lemma get_nameid_spec c d u f sp nq cands d' n :
  get_nameid c d u f sp nq cands = (d', ONid n) ->
  exists id t, create_id d cands = Ok id /\
    t = (if str_eqb f NAMEID_FORMAT_EMAILADDRESS then id ++ AT :: domain c else id) /\
    n = NameId nq sp (Some f) None (Some t) /\
    d' = insert t u (insert u (join_with SPACE (entries d u ++ [code n])) d).
Proof.
  unfold get_nameid. destruct (create_id d cands) as [id|e] eqn:C; [|intros H; inversion H].
  destruct (str_eqb f NAMEID_FORMAT_EMAILADDRESS && is_nil (domain c)); [intros H; inversion H|].
  cbn [do_store n_text]. intros H. inversion H; subst. eexists; eexists. repeat split; eauto.
Qed.

Lemma get_nameid_cases c d u f sp nq cands :
  (exists e, get_nameid c d u f sp nq cands = (d, OErr e)) \/
  (exists d' n, get_nameid c d u f sp nq cands = (d', ONid n)).
Proof.
  unfold get_nameid. destruct (create_id d cands); [|left; eexists; reflexivity].
  destruct (str_eqb f NAMEID_FORMAT_EMAILADDRESS && is_nil (domain c)); [left; eexists; reflexivity|].
  cbn [do_store n_text]. right. eexists; eexists. reflexivity.
Qed.

Lemma get_nameid_full c d u f sp nq cands :
  Inv d -> get_ok c u f sp nq cands = true ->
  Inv (fst (get_nameid c d u f sp nq cands)) /\
  (forall u0, is_user u0 = true -> exists more, entries (fst (get_nameid c d u f sp nq cands)) u0 = entries d u0 ++ more) /\
  (forall n, snd (get_nameid c d u f sp nq cands) = ONid n ->
     wfb n /\ In (code n) (entries (fst (get_nameid c d u f sp nq cands)) u) /\
     find_local_id (fst (get_nameid c d u f sp nq cands)) n = Some u /\
     exists t, n_text n = Some t /\ In t cands /\ lookup t d = None).
Proof.
  intros I Hok. destruct (get_nameid_cases c d u f sp nq cands) as [[e E]|(d' & n & G)].
  { rewrite E. cbn [fst snd]. split; [exact I|]. split; [intros u0 _; exists []; now rewrite app_nil_r|].
    intros n Hn. discriminate. }
  rewrite G. cbn [fst snd].
  pose proof G as G0. apply get_nameid_spec in G as (id & t & C & Et & En & Ed).
  unfold get_ok, fmt_ok in Hok. rewrite !andb_true_iff in Hok.
  destruct Hok as ((((Hu & Hf & Hem) & Hsp) & Hnq) & Hc).
  apply create_id_spec in C as (Hin & Hfresh).
  rewrite forallb_forall in Hc. specialize (Hc id Hin). unfold cand_ok in Hc. rewrite !andb_true_iff in Hc.
  destruct Hc as ((Hcu & Hcn) & Hcb). apply negb_true_iff in Hcu.
  assert (str_eqb f NAMEID_FORMAT_EMAILADDRESS = false) as Hne.
  { destruct (str_eqb f NAMEID_FORMAT_EMAILADDRESS) eqn:E; [|reflexivity]. cbn in Hem.
    unfold get_nameid in G0. rewrite E, Hem in G0. destruct (create_id d cands); inversion G0. }
  rewrite Hne in Et. subst t.
  assert (wfb n) as W.
  { subst n. unfold wfb. cbn. repeat split; auto using obytesb_spec, bytesb_spec. }
  assert (n_text n = Some id) as Tn by (subst n; reflexivity).
  assert (id <> []) as Hid by (destruct id; [discriminate|congruence]).
  destruct (store_preserves d u n id I Hu W Tn Hid Hcu Hfresh) as (I' & EB & ET & EC).
  rewrite <- Ed in I', EB, ET, EC.
  split; [exact I'|]. split.
  - intros u0 Hu0. destruct (str_eqb_spec u0 u) as [->|Hne0].
    + exists [code n]. exact EB.
    + exists []. rewrite app_nil_r. apply EC; auto. intros ->. congruence.
  - intros n0 Hn0. inversion Hn0; subst n0. split; [exact W|]. split; [rewrite EB; apply in_or_app; right; now left|].
    split; [unfold find_local_id; now rewrite Tn|]. exists id. auto.
Qed.

Lemma get_nameid_preserves c d u f sp nq cands :
  Inv d -> get_ok c u f sp nq cands = true -> Inv (fst (get_nameid c d u f sp nq cands)).
Proof. intros I H. now destruct (get_nameid_full c d u f sp nq cands I H). Qed.

Lemma manage_store_ok d n d1 v id :
  Inv d -> nid_ok n = true -> obytesb v = true -> do_remove_remote d n = Ok d1 -> find_local_id d n = Some id ->
  exists d2, do_store d1 id (set_field 3 v n) = Ok d2 /\ Inv d2.
Proof.
  intros I Hn Hv R F. unfold nid_ok in Hn. apply andb_true_iff in Hn as (W & Ht). apply wfbb_spec in W.
  assert (forall t, n_text n = Some t -> is_user t = false) as Hnt.
  { intros t E. rewrite E in Ht. now apply negb_true_iff. }
  destruct (remove_preserves d n d1 I W Hnt R) as (I1 & t & id' & Et & L & Hid & Hne & Lg).
  unfold find_local_id in F. rewrite Et, L in F. inversion F; subst id'.
  unfold do_store. replace (n_text (set_field 3 v n)) with (Some t) by (cbn; now rewrite Et).
  eexists. split; [reflexivity|].
  apply (store_preserves d1 id (set_field 3 v n) t); auto.
  destruct W as (W0 & W1 & W2 & W3 & W4). unfold wfb. cbn. repeat split; auto. now apply obytesb_spec.
Qed.

Lemma set_field_same_sppid n : set_field 3 (n_sppid n) n = n.
Proof. destruct n; reflexivity. Qed.

Theorem step_preserves c d o : Inv d -> op_wfb c o = true -> Inv (fst (step c d o)).
Proof.
  intros I Hw. destruct o; cbn [step op_wfb] in *; try exact I.
  - discriminate.
  - destruct (do_remove_remote d n) as [d'|e] eqn:R; [|exact I]. cbn [fst].
    unfold nid_ok in Hw. apply andb_true_iff in Hw as (W & Ht).
    apply (remove_preserves d n d' I (wfbb_spec n W)); auto.
    intros t E. rewrite E in Ht. now apply negb_true_iff.
  - now destruct (remove_local_full d u I Hw) as (_ & I' & _).
  - now apply get_nameid_preserves.
  - now apply get_nameid_preserves.
  - unfold persistent_nameid. destruct (match_local_id d u sp nq) as [[n|]|e]; try exact I.
    now apply get_nameid_preserves.
  - unfold construct_nameid. destruct (construct_args c lp sp pol nq) as [[[f sp'] nq']|]; [|exact I].
    now apply get_nameid_preserves.
  - unfold map_req. rewrite !andb_true_iff in Hw. destruct Hw as ((Hn & Hc) & Hargs).
    destruct (find_local_id d n) as [[|x id]|] eqn:F; try exact I.
    destruct (lookup (x :: id) d) as [e|]; [|exact I].
    destruct (map_vals (entries_of e) pfmt psp) as [[nid|]|er]; try exact I.
    destruct (opt_eqb allow (Some (s2l "false"))); [exact I|].
    unfold construct_nameid. destruct (construct_args c None None (Some (pfmt, psp)) None) as [[[f sp'] nq']|]; [|exact I].
    apply get_nameid_preserves; [exact I|]. unfold get_ok. rewrite !andb_true_iff in *.
    destruct Hargs as ((Hf & Hsp) & Hnq). repeat split; auto.
    destruct I as (_ & _ & I3). unfold find_local_id in F. destruct (n_text n) as [t|] eqn:Et; [|discriminate].
    unfold nid_ok in Hn. rewrite Et in Hn. apply andb_true_iff in Hn as (_ & Hn). apply negb_true_iff in Hn.
    now destruct (I3 t (x :: id) Hn F).
  - unfold manage, manage_with. apply andb_true_iff in Hw as (Hn & Ha).
    assert (forall v, obytesb v = true ->
       Inv (fst (match do_remove_remote d n with
                 | Err e => (d, OErr e)
                 | Ok d1 => match find_local_id d n with
                            | None => (d, OErr KeyError)
                            | Some id => match do_store d1 id (set_field 3 v n) with
                                         | Ok d2 => (d2, ONid (set_field 3 v n)) | Err e => (d, OErr e) end
                            end
                 end))) as G.
    { intros v Hv. destruct (do_remove_remote d n) as [d1|e] eqn:R; [|exact I].
      destruct (find_local_id d n) as [id|] eqn:F; [|exact I].
      destruct (manage_store_ok d n d1 v id I Hn Hv R F) as (d2 & S & I2). rewrite S. exact I2. }
    destruct a as [v| | |]; cbn [fst].
    + now apply G.
    + specialize (G (n_sppid n)). rewrite set_field_same_sppid in G. apply G.
      unfold nid_ok, wfbb in Hn. rewrite !andb_true_iff in Hn. tauto.
    + now apply G.
    + exact I.
  - unfold of_res. destruct (find_nameid d u f); exact I.
  - unfold of_res. destruct (match_local_id d u sp nq); exact I.
Qed.

Theorem run_preserves c ops : forall d, Inv d -> forallb (op_wfb c) ops = true -> Inv (run c d ops).
Proof.
  induction ops as [|o r IH]; intros d I H; [exact I|]. cbn [forallb run] in *.
  apply andb_true_iff in H as (Ho & Hr). apply IH; [|exact Hr]. now apply step_preserves.
Qed.

(* what the invariant says in terms of the public lookups *)
Lemma inv_resolves d u c0 : Inv d -> is_user u = true -> In c0 (entries d u) ->
  exists n t, decode c0 = Ok n /\ n_text n = Some t /\ t <> [] /\ is_user t = false /\ find_local_id d n = Some u.
Proof.
  intros (I1 & _ & I3) Hu Hin. destruct (I1 u c0 Hu Hin) as (t & T1 & T2 & T3).
  unfold ctext in T1. destruct (decode c0) as [n|] eqn:D; [|discriminate].
  exists n, t. repeat split; auto; [now destruct (I3 t u T2 T3)|]. unfold find_local_id. now rewrite T1.
Qed.

(* ... and the converse: whatever resolves to a user is recorded under that user *)
Lemma inv_recorded d t u : Inv d -> is_user t = false -> lookup t d = Some u ->
  is_user u = true /\ exists c0 n, In c0 (entries d u) /\ decode c0 = Ok n /\ n_text n = Some t.
Proof.
  intros (_ & _ & I3) Ht L. destruct (I3 t u Ht L) as (_ & Hu & c0 & Hc & Tc). split; [exact Hu|].
  unfold ctext in Tc. destruct (decode c0) as [n|] eqn:D; [|discriminate]. now exists c0, n.
Qed.

(* two recorded identifiers with the same text are the same record of the same user *)
Lemma inv_no_sharing d u1 u2 c1 c2 t : Inv d -> is_user u1 = true -> is_user u2 = true ->
  In c1 (entries d u1) -> In c2 (entries d u2) -> ctext c1 = Some t -> ctext c2 = Some t -> u1 = u2 /\ c1 = c2.
Proof.
  intros (I1 & I2 & _) H1 H2 In1 In2 T1 T2.
  destruct (I1 u1 c1 H1 In1) as (t1 & A1 & _ & L1). destruct (I1 u2 c2 H2 In2) as (t2 & A2 & _ & L2).
  assert (t1 = t) by congruence. assert (t2 = t) by congruence. subst t1 t2.
  assert (u1 = u2) by congruence. subst u2. split; [reflexivity|].
  apply (nodup_texts_same (entries d u1) c1 c2 t); auto.
Qed.

(* ---- append-only operations: everything that issues or looks up, nothing that withdraws ---- *)
Definition issue_only (o : op) : bool :=
  match o with Store _ _ | RemoveRemote _ | RemoveLocal _ | Manage _ _ => false | _ => true end.

Lemma step_extends c d o : Inv d -> op_wfb c o = true -> issue_only o = true ->
  forall u0, is_user u0 = true -> exists more, entries (fst (step c d o)) u0 = entries d u0 ++ more.
Proof.
  intros I Hw Hi u0 Hu0.
  assert (exists more, entries d u0 = entries d u0 ++ more) as Same by (exists []; now rewrite app_nil_r).
  destruct o; cbn [step op_wfb issue_only] in *; try discriminate; try exact Same.
  - now apply (get_nameid_full c d u fmt sp nq cands I Hw).
  - now apply (get_nameid_full c d u NAMEID_FORMAT_TRANSIENT sp nq cands I Hw).
  - unfold persistent_nameid. destruct (match_local_id d u sp nq) as [[n|]|e]; try exact Same.
    now apply (get_nameid_full c d u NAMEID_FORMAT_PERSISTENT sp nq cands I Hw).
  - unfold construct_nameid. destruct (construct_args c lp sp pol nq) as [[[f sp'] nq']|]; [|exact Same].
    now apply (get_nameid_full c d u f sp' nq' cands I Hw).
  - unfold map_req. rewrite !andb_true_iff in Hw. destruct Hw as ((Hn & Hc) & Hargs).
    destruct (find_local_id d n) as [[|x id]|] eqn:F; try exact Same.
    destruct (lookup (x :: id) d) as [e|]; [|exact Same].
    destruct (map_vals (entries_of e) pfmt psp) as [[nid|]|er]; try exact Same.
    destruct (opt_eqb allow (Some (s2l "false"))); [exact Same|].
    unfold construct_nameid. destruct (construct_args c None None (Some (pfmt, psp)) None) as [[[f sp'] nq']|]; [|exact Same].
    apply (get_nameid_full c d (x :: id) f sp' nq' cands I); [|exact Hu0]. unfold get_ok. rewrite !andb_true_iff in *.
    destruct Hargs as ((Hf & Hsp) & Hnq). repeat split; auto.
    destruct I as (_ & _ & I3). unfold find_local_id in F. destruct (n_text n) as [t|] eqn:Et; [|discriminate].
    unfold nid_ok in Hn. rewrite Et in Hn. apply andb_true_iff in Hn as (_ & Hn). apply negb_true_iff in Hn.
    now destruct (I3 t (x :: id) Hn F).
  - unfold of_res. destruct (find_nameid d u f); exact Same.
  - unfold of_res. destruct (match_local_id d u sp nq); exact Same.
Qed.

Lemma map_vals_in l pfmt psp n : map_vals l pfmt psp = Ok (Some n) -> exists c, In c l /\ decode c = Ok n.
Proof.
  induction l as [|v l IH]; intros H; [discriminate|]. cbn [map_vals] in H.
  destruct (decode v) as [nid|e] eqn:D; [|discriminate].
  destruct (opt_eqb (n_fmt nid) pfmt && opt_eqb (n_spnq nid) psp).
  - inversion H; subst nid. exists v. split; [now left|exact D].
  - destruct (IH H) as (c & Hc & R). exists c. split; [now right|exact R].
Qed.

(* whatever a mapping request returns (an old identifier or a new one) has a non-empty text
   that resolves to the principal the request was about *)
Theorem map_req_resolves c d n pfmt psp allow cands d' m :
  Inv d -> op_wfb c (MapReq n pfmt psp allow cands) = true ->
  map_req c d n pfmt psp allow cands = (d', ONid m) ->
  exists u t, find_local_id d n = Some u /\ is_user u = true /\ n_text m = Some t /\ t <> [] /\ find_local_id d' m = Some u.
Proof.
  intros I Hw H. cbn [op_wfb] in Hw. rewrite !andb_true_iff in Hw. destruct Hw as ((Hn & Hc) & Hargs).
  unfold map_req in H. destruct (find_local_id d n) as [[|x id]|] eqn:F; try (inversion H; fail).
  assert (is_user (x :: id) = true) as Hid.
  { destruct I as (_ & _ & I3). unfold find_local_id in F. destruct (n_text n) as [t|] eqn:Et; [|discriminate].
    unfold nid_ok in Hn. rewrite Et in Hn. apply andb_true_iff in Hn as (_ & Hn). apply negb_true_iff in Hn.
    now destruct (I3 t (x :: id) Hn F) as (_ & R & _). }
  destruct (lookup (x :: id) d) as [e|] eqn:Le; [|inversion H].
  destruct (map_vals (entries_of e) pfmt psp) as [[nid|]|er] eqn:MV; [| |inversion H].
  - inversion H; subst d' m. apply map_vals_in in MV as (c0 & Hc0 & D).
    assert (In c0 (entries d (x :: id))) as Hin by (unfold entries; now rewrite Le).
    destruct (inv_resolves d (x :: id) c0 I Hid Hin) as (n0 & t & D0 & T & Tne & _ & FL).
    rewrite D in D0. inversion D0; subst n0. exists (x :: id), t. auto.
  - destruct (opt_eqb allow (Some (s2l "false"))); [inversion H|].
    unfold construct_nameid in H.
    destruct (construct_args c None None (Some (pfmt, psp)) None) as [[[f sp'] nq']|]; [|inversion H].
    assert (get_ok c (x :: id) f sp' nq' cands = true) as Hok.
    { unfold get_ok. rewrite !andb_true_iff in *. destruct Hargs as ((Hf & Hsp) & Hnq). repeat split; auto. }
    destruct (get_nameid_full c d (x :: id) f sp' nq' cands I Hok) as (_ & _ & G).
    rewrite H in G. cbn [fst snd] in G. destruct (G m eq_refl) as (_ & _ & FL & t & Tt & Tc & _).
    exists (x :: id), t. repeat split; auto. intros ->.
    rewrite forallb_forall in Hc. specialize (Hc [] Tc). unfold cand_ok in Hc. cbn in Hc.
    rewrite andb_false_r in Hc. discriminate.
Qed.
End Store.

(* ------------------------------------------------------------------ persistent identifiers *)
Lemma match_vals_app_none l l' sp nq : match_vals l sp nq = Ok None -> match_vals (l ++ l') sp nq = match_vals l' sp nq.
Proof.
  induction l as [|v l IH]; intros H; [reflexivity|]. cbn [app match_vals] in *.
  destruct (decode v) as [nid|e]; [|discriminate].
  destruct (opt_eqb (n_fmt nid) (Some NAMEID_FORMAT_TRANSIENT)); [now apply IH|].
  destruct (qual_match (n_spnq nid) sp && qual_match (n_nq nid) nq); [discriminate|now apply IH].
Qed.
Lemma match_vals_app_some l l' sp nq n : match_vals l sp nq = Ok (Some n) -> match_vals (l ++ l') sp nq = Ok (Some n).
Proof.
  induction l as [|v l IH]; intros H; [discriminate|]. cbn [app match_vals] in *.
  destruct (decode v) as [nid|e]; [|discriminate].
  destruct (opt_eqb (n_fmt nid) (Some NAMEID_FORMAT_TRANSIENT)); [now apply IH|].
  destruct (qual_match (n_spnq nid) sp && qual_match (n_nq nid) nq); [exact H|now apply IH].
Qed.
Lemma match_vals_in l sp nq n : match_vals l sp nq = Ok (Some n) ->
  exists c, In c l /\ decode c = Ok n /\ qual_match (n_spnq n) sp = true /\ qual_match (n_nq n) nq = true.
Proof.
  induction l as [|v l IH]; intros H; [discriminate|]. cbn [match_vals] in H.
  destruct (decode v) as [nid|e] eqn:D; [|discriminate].
  destruct (opt_eqb (n_fmt nid) (Some NAMEID_FORMAT_TRANSIENT)).
  - destruct (IH H) as (c & Hc & R). exists c. split; [now right|exact R].
  - destruct (qual_match (n_spnq nid) sp && qual_match (n_nq nid) nq) eqn:Q.
    + inversion H; subst nid. apply andb_true_iff in Q as (Q1 & Q2). exists v. split; [now left|auto].
    + destruct (IH H) as (c & Hc & R). exists c. split; [now right|exact R].
Qed.

Lemma match_local_id_entries d u sp nq : match_local_id d u sp nq = match_vals (entries d u) sp nq.
Proof. unfold match_local_id, entries. now destruct (lookup u d). Qed.

Lemma qual_match_tr o : qual_match (tr o) o = true.
Proof. destruct o as [[|c s]|]; cbn; auto. now rewrite N.eqb_refl, str_eqb_refl. Qed.

Lemma qual_match_truthy stored arg : truthy arg = true -> qual_match stored arg = true -> stored = arg.
Proof.
  unfold qual_match. intros Ha. destruct (truthy stored).
  - destruct stored as [x|], arg as [y|]; cbn; try discriminate. intros E. apply str_eqb_eq in E. now subst.
  - rewrite Ha. discriminate.
Qed.

Lemma qual_match_tr_eq stored arg : qual_match stored arg = true -> tr arg = tr stored.
Proof.
  unfold qual_match, tr. destruct stored as [[|a x]|]; cbn [truthy].
  - intros Ta. apply negb_true_iff in Ta. now rewrite Ta.
  - destruct arg as [y|]; cbn [opt_eqb]; [|discriminate]. intros E. apply str_eqb_eq in E. now subst.
  - intros Ta. apply negb_true_iff in Ta. now rewrite Ta.
Qed.

Lemma persistent_bytes : Forall byte NAMEID_FORMAT_PERSISTENT.
Proof. apply bytesb_spec. vm_compute. reflexivity. Qed.

Lemma match_new sp nq t : obytes sp -> obytes nq -> Forall byte t ->
  let n := NameId nq sp (Some NAMEID_FORMAT_PERSISTENT) None (Some t) in
  wfb n /\ match_vals [code n] sp nq = Ok (Some (norm n)).
Proof.
  intros Hsp Hnq Ht n.
  assert (wfb n) as W by (unfold wfb, n; cbn; repeat split; auto using persistent_bytes).
  split; [exact W|]. cbn [match_vals]. rewrite (decode_code n W).
  replace (opt_eqb (n_fmt (norm n)) (Some NAMEID_FORMAT_TRANSIENT)) with false by (vm_compute; reflexivity).
  unfold norm at 1 2. cbn [n_spnq n_nq n]. now rewrite !qual_match_tr.
Qed.

(* the call after an issuing (or matching) call returns the same identifier and changes nothing *)
Theorem persistent_stable c d u sp nq cands d1 n :
  obytes sp -> obytes nq -> Forall (Forall byte) cands -> ~ In u cands ->
  persistent_nameid c d u sp nq cands = (d1, ONid n) ->
  forall cands', exists n', persistent_nameid c d1 u sp nq cands' = (d1, ONid n') /\ norm n' = norm n.
Proof.
  intros Hsp Hnq Hcb Hu H cands'. unfold persistent_nameid in H.
  destruct (match_local_id d u sp nq) as [[m|]|e] eqn:M.
  - inversion H; subst. exists n. unfold persistent_nameid. now rewrite M.
  - apply get_nameid_spec in H as (id & t & C & Et & En & Ed).
    replace (str_eqb NAMEID_FORMAT_PERSISTENT NAMEID_FORMAT_EMAILADDRESS) with false in Et by (vm_compute; reflexivity).
    subst t. apply create_id_spec in C as (Hin & _).
    assert (Forall byte id) as Hid by (rewrite Forall_forall in Hcb; now apply Hcb).
    destruct (match_new sp nq id Hsp Hnq Hid) as (W & MN). rewrite <- En in W, MN.
    assert (u <> id) as Hne by (intros ->; contradiction).
    exists (norm n). split; [|apply norm_idem]. unfold persistent_nameid.
    rewrite match_local_id_entries. rewrite match_local_id_entries in M.
    assert (entries d1 u = entries d u ++ [code n]) as EB.
    { unfold entries at 1. rewrite Ed. rewrite lookup_insert_neq by exact Hne. rewrite lookup_insert_eq.
      apply entries_of_join.
      - intros E. symmetry in E. now apply app_cons_not_nil in E.
      - apply Forall_app. split; [apply entries_no|]. constructor; [now apply code_no_space|constructor]. }
    rewrite EB, (match_vals_app_none _ _ _ _ M), MN. reflexivity.
  - inversion H.
Qed.

Section Store2.
Variable is_user : str -> bool.

(* ...and no later issuing operation, for anybody, changes what persistent_nameid answers *)
Theorem persistent_stable_under_issues c ops : forall d u sp nq n,
  Inv is_user d -> is_user u = true -> forallb (op_wfb is_user c) ops = true -> forallb issue_only ops = true ->
  match_local_id d u sp nq = Ok (Some n) ->
  match_local_id (run c d ops) u sp nq = Ok (Some n).
Proof.
  induction ops as [|o r IH]; intros d u sp nq n I Hu Hw Hi M; [exact M|]. cbn [forallb run] in *.
  apply andb_true_iff in Hw as (Hw1 & Hw2). apply andb_true_iff in Hi as (Hi1 & Hi2).
  apply IH; auto; [now apply step_preserves|].
  destruct (step_extends is_user c d o I Hw1 Hi1 u Hu) as (more & E).
  rewrite match_local_id_entries in *. rewrite E. now apply match_vals_app_some.
Qed.

(* identifiers matched for different users or different qualifiers (as Python reads them: None and
   the empty string both mean no qualifier) have different texts, each resolving to its own user *)
Theorem persistent_distinct d u1 u2 sp1 sp2 nq1 nq2 n1 n2 :
  Inv is_user d -> is_user u1 = true -> is_user u2 = true ->
  match_local_id d u1 sp1 nq1 = Ok (Some n1) -> match_local_id d u2 sp2 nq2 = Ok (Some n2) ->
  u1 <> u2 \/ tr sp1 <> tr sp2 \/ tr nq1 <> tr nq2 ->
  n_text n1 <> n_text n2 /\ find_local_id d n1 = Some u1 /\ find_local_id d n2 = Some u2.
Proof.
  intros I H1 H2 M1 M2 Hdiff. rewrite match_local_id_entries in M1, M2.
  apply match_vals_in in M1 as (c1 & In1 & D1 & Q1 & R1). apply match_vals_in in M2 as (c2 & In2 & D2 & Q2 & R2).
  pose proof I as (I1 & _ & _).
  destruct (I1 u1 c1 H1 In1) as (t1 & A1 & _ & L1). destruct (I1 u2 c2 H2 In2) as (t2 & A2 & _ & L2).
  assert (n_text n1 = Some t1) as E1 by (unfold ctext in A1; now rewrite D1 in A1).
  assert (n_text n2 = Some t2) as E2 by (unfold ctext in A2; now rewrite D2 in A2).
  split; [|unfold find_local_id; rewrite E1, E2; auto].
  intros E. rewrite E1, E2 in E. inversion E; subst t2.
  destruct (inv_no_sharing is_user d u1 u2 c1 c2 t1 I H1 H2 In1 In2 A1 A2) as (-> & ->).
  rewrite D1 in D2. inversion D2; subst n2.
  apply qual_match_tr_eq in Q1, Q2, R1, R2.
  destruct Hdiff as [X|[X|X]]; [now apply X|apply X; congruence|apply X; congruence].
Qed.
End Store2.

(* ------------------------------------------------------------------ freshness of every new identifier *)
Theorem issued_fresh c d u f sp nq cands d' n :
  get_nameid c d u f sp nq cands = (d', ONid n) -> str_eqb f NAMEID_FORMAT_EMAILADDRESS = false ->
  exists t, n_text n = Some t /\ In t cands /\ lookup t d = None /\ find_local_id d' n = Some u.
Proof.
  intros H Hne. apply get_nameid_spec in H as (id & t & C & Et & En & Ed). rewrite Hne in Et. subst t.
  apply create_id_spec in C as (Hin & Hfresh). exists id. subst n. cbn [n_text]. repeat split; auto.
  unfold find_local_id. cbn [n_text]. rewrite Ed. apply lookup_insert_eq.
Qed.

Section Store3.
Variable is_user : str -> bool.

(* whatever persistent_nameid / match_local_id finds, for ANY qualifiers, has a non-empty text
   and that text resolves to the user asked for *)
Theorem persistent_resolves d u sp nq n :
  Inv is_user d -> is_user u = true -> match_local_id d u sp nq = Ok (Some n) ->
  exists t, n_text n = Some t /\ t <> [] /\ find_local_id d n = Some u.
Proof.
  intros I Hu M. rewrite match_local_id_entries in M.
  apply match_vals_in in M as (c1 & In1 & D1 & _).
  destruct (inv_resolves is_user d u c1 I Hu In1) as (n0 & t & D0 & T & Tne & _ & FL).
  rewrite D1 in D0. inversion D0; subst n0. now exists t.
Qed.

Theorem reachable_inv c ops : forallb (op_wfb is_user c) ops = true -> Inv is_user (run c [] ops).
Proof. apply run_preserves. apply inv_empty. Qed.
End Store3.
