(* Proofs/SchemaNames_table.v — obligations the kernel evaluates on the REGENERATED intern table
   (Gen/SchemaNames.v) and the regenerated look-alike lists (C12) *)
From PV Require Import Lib.Base Model.Schema Model.SchemaDoc Gen.SchemaTables Gen.SchemaNames
  Proofs.Schema_lemmas Proofs.SchemaDoc_lemmas.
Open Scope N_scope.

(* the text of an interned name *)
Definition nm : N -> str := name_of name_strings.

Lemma names_distinct_ok : names_distinct name_strings = true.
Proof. vm_compute. reflexivity. Qed.

(* in no class do two declared xml attribute names, or two child tag keys, share their local name *)
Lemma actual_lookalike_free : forallb (row_lookalike_free nm) actual_schema = true.
Proof. vm_compute. reflexivity. Qed.

Lemma actual_row_lookalike_free r : In r actual_schema -> row_lookalike_free nm r = true.
Proof. intros Hin. pose proof actual_lookalike_free as H. rewrite forallb_forall in H. exact (H r Hin). Qed.

(* every generated look-alike name has the local name of a declared key of its class, another
   full name, and is not a key of that class *)
Lemma lookalike_attrs_ok : forallb (lookalike_row_ok nm actual_schema true) lookalike_attrs = true.
Proof. vm_compute. reflexivity. Qed.
Lemma lookalike_kids_ok : forallb (lookalike_row_ok nm actual_schema false) lookalike_kids = true.
Proof. vm_compute. reflexivity. Qed.

(* ... and there is at least one for every declared attribute / child key of every class *)
Definition covered (tbl : list (N * N * N)) (c d : N) : bool :=
  existsb (fun p => let '(c', d', _) := p in (c' =? c) && (d' =? d)) tbl.
Lemma lookalikes_cover :
  forallb (fun r => forallb (fun a => covered lookalike_attrs (k_id r) (a_xml a)) (k_attrs r)
                    && forallb (fun ch => covered lookalike_kids (k_id r) (c_tagkey ch)) (k_children r))
          actual_schema = true.
Proof. vm_compute. reflexivity. Qed.

Lemma find_row_In S c r : find_row S c = Some r -> In r S.
Proof. intros H. unfold find_row in H. apply find_some in H as [H _]. exact H. Qed.

(* a name that looks like a declared attribute of a class of today's tables is not declared there *)
Lemma lookalike_attr_not_declared c r d q :
  find_row actual_schema c = Some r -> In d (k_attrs r) -> lookalike nm q (a_xml d) = true ->
  ~ In q (map a_xml (k_attrs r)).
Proof.
  intros Hr Hd Hl.
  pose proof (actual_row_lookalike_free r (find_row_In _ _ _ Hr)) as Hf.
  unfold row_lookalike_free in Hf. apply andb_true_iff in Hf as [Hf _].
  apply (lookalike_not_key nm _ q (a_xml d) Hf); [apply in_map; exact Hd|exact Hl].
Qed.

Lemma lookalike_kid_not_key c r ch q :
  find_row actual_schema c = Some r -> In ch (k_children r) -> lookalike nm q (c_tagkey ch) = true ->
  ~ In q (map c_tagkey (k_children r)).
Proof.
  intros Hr Hd Hl.
  pose proof (actual_row_lookalike_free r (find_row_In _ _ _ Hr)) as Hf.
  unfold row_lookalike_free in Hf. apply andb_true_iff in Hf as [_ Hf].
  apply (lookalike_not_key nm _ q (c_tagkey ch) Hf); [apply in_map; exact Hd|exact Hl].
Qed.
