(* C05Opts_lemmas: the effective value of allow_unsolicited for every spelling of the option,
   through Client.load / load_special / resolve (reused from property C02, Client_lemmas.resolve_spec) *)
From PV Require Import Lib.Base Model.Status Model.Response Model.Client Model.Endpoints Model.C05Opts
  Proofs.Response_lemmas Proofs.Client_lemmas Proofs.Endpoints_lemmas.
Open Scope Z_scope.

(* the coercion as the library performs it: exactly the strings true / false become booleans
   (load_special), None falls back to the default False (Base.__init__), anything else is kept
   and judged by its truth (non-empty string, non-zero int) *)
Definition coerced (s : spelling) : bool :=
  match s with
  | Absent => false
  | IntVal z => negb (z =? 0)
  | Val v => match norm v with CNone => false | v' => truthy v' end
  end.

Lemma assigned_last name v : forall rest, assigned name (List.app rest [(name, v)]) = Some v.
Proof.
  induction rest as [|[a w] rest IH]; cbn [List.app assigned].
  - now rewrite str_eqb_refl.
  - now rewrite IH.
Qed.

Lemma find_sp sec others : find_section (E "sp") ((E "sp", sec) :: others) = Some sec.
Proof. reflexivity. Qed.

(* the value the client works with = the coercion of what the sp section says, for every
   configuration class and whatever the other role sections and the other sp arguments are *)
Lemma effective_coerced dc others rest s :
  assigned AU rest = None -> effective_unsolicited dc others rest s = coerced s.
Proof.
  intros Hr. destruct s as [|v|z]; cbn [effective_unsolicited coerced]; [| |reflexivity].
  - rewrite resolve_spec, find_sp. cbn [sp_section opt_value]. now rewrite Hr.
  - rewrite resolve_spec, find_sp. cbn [sp_section opt_value]. now rewrite assigned_last.
Qed.

(* an explicit value wins over whatever else the section holds (the hypothesis is only needed for Absent) *)
Lemma effective_val dc others rest v :
  effective_unsolicited dc others rest (Val v) = coerced (Val v).
Proof. cbn [effective_unsolicited coerced]. rewrite resolve_spec, find_sp. cbn [sp_section opt_value]. now rewrite assigned_last. Qed.

(* exactly which spellings mean NOT allowed *)
Definition means_refuse (s : spelling) : Prop :=
  s = Absent \/ s = Val CNone \/ s = Val (CBool false) \/ s = Val (CStr (E "false")) \/ s = Val (CStr []) \/ s = IntVal 0.

Lemma coerced_false_iff s : coerced s = false <-> means_refuse s.
Proof.
  unfold means_refuse. split.
  - destruct s as [|v|z]; cbn [coerced]; intros H.
    + now left.
    + destruct v as [|b|str]; cbn [norm] in H.
      * right. now left.
      * destruct b; cbn in H; [discriminate|]. right. right. now left.
      * destruct (str_eqb str (E "true")) eqn:Et; [discriminate|].
        destruct (str_eqb str (E "false")) eqn:Ef.
        { apply str_eqb_eq in Ef. subst str. right. right. right. now left. }
        destruct str as [|ch str]; [|discriminate]. right. right. right. right. now left.
    + apply negb_false_iff, Z.eqb_eq in H. subst z. repeat right. reflexivity.
  - intros [H|[H|[H|[H|[H|H]]]]]; subst s; reflexivity.
Qed.

Lemma false_string_is_False dc others rest :
  effective_unsolicited dc others rest (Val (CStr (E "false"))) = effective_unsolicited dc others rest (Val (CBool false)).
Proof. now rewrite !effective_val. Qed.
Lemma true_string_is_True dc others rest :
  effective_unsolicited dc others rest (Val (CStr (E "true"))) = effective_unsolicited dc others rest (Val (CBool true)).
Proof. now rewrite !effective_val. Qed.
Lemma false_string_refuses dc others rest : effective_unsolicited dc others rest (Val (CStr (E "false"))) = false.
Proof. now rewrite effective_val. Qed.

(* the record plumbing *)
Lemma ecfg_of_fields sc :
  allow_unsolicited (base (ecfg_of sc)) = effective sc /\ outstanding (base (ecfg_of sc)) = outstanding (base (s_call sc)) /\
  arriving (ecfg_of sc) = arriving (s_call sc) /\ acs_table (ecfg_of sc) = acs_table (s_call sc).
Proof. repeat split. Qed.

Lemma nth_error_run_spelled sc calls n :
  nth_error (run_spelled sc calls) n =
  match nth_error calls n with
  | Some (c, b, r) => Some (parse_authn_response {| base := with_unsolicited (effective sc) c; acs_table := acs_table (s_call sc); arriving := b |} r)
  | None => None
  end.
Proof.
  unfold run_spelled. rewrite nth_error_run_calls, nth_error_map.
  destruct (nth_error calls n) as [[[c b] r]|]; reflexivity.
Qed.
