(* Proofs/EncryptSP_lemmas.v — C17, service-provider half on the shared pipeline
   model (Model/Response.v): a decrypted assertion is handled by the very
   function used for a plain one, its signature (when present) was verified by
   decrypt_assertions, what cannot be opened contributes nothing. *)
From PV Require Import Lib.Base Model.Status Model.Response Proofs.Response_lemmas.
Open Scope Z_scope.

(* ---------- decrypt_assertions(verified=False) ---------- *)
Definition sig_not_bad (a : assertion) : Prop := forall e, a_sig a <> Some (Err e).

Lemma verify_decrypted_ok l : verify_decrypted l = Ok tt <-> Forall sig_not_bad l.
Proof.
  induction l as [|a l IH]; cbn [verify_decrypted].
  - split; [constructor|reflexivity].
  - destruct (a_sig a) as [[[]|e]|] eqn:Es.
    + rewrite IH. split.
      * intros H. constructor; [unfold sig_not_bad; rewrite Es; discriminate|exact H].
      * intros H. now inversion H.
    + split; [discriminate|]. intros H. inversion H as [|x y Hx Hy]. exfalso. apply (Hx e). exact Es.
    + rewrite IH. split.
      * intros H. constructor; [unfold sig_not_bad; rewrite Es; discriminate|exact H].
      * intros H. now inversion H.
Qed.

(* ---------- the [verified] flag skips nothing that was not already checked ---------- *)
Lemma check_assertion_flag c irt req s a :
  sig_not_bad a -> check_assertion c irt req true s a = check_assertion c irt req false s a.
Proof.
  intros H. unfold check_assertion. destruct (a_sig a) as [[[]|e]|] eqn:Es; try reflexivity.
  exfalso. exact (H e Es).
Qed.

Lemma check_assertions_flag c irt req push : forall l s,
  Forall sig_not_bad l -> check_assertions c irt req true push s l = check_assertions c irt req false push s l.
Proof.
  induction l as [|a l IH]; intros s H; [reflexivity|]. inversion H as [|x y Hx Hy]; subst.
  cbn [check_assertions]. rewrite (check_assertion_flag c irt req s a Hx).
  destruct (check_assertion c irt req false s a); [|reflexivity]. now apply IH.
Qed.

(* an assertion that passes the plain-path function with its signature looked at has no bad signature *)
Lemma check_assertion_false_sig c irt req s a s' :
  check_assertion c irt req false s a = Ok s' -> sig_not_bad a.
Proof.
  unfold check_assertion, sig_not_bad. intros H e He. rewrite He in H. discriminate.
Qed.

Lemma check_assertions_false_sig c irt req push : forall l s s',
  check_assertions c irt req false push s l = Ok s' -> Forall sig_not_bad l.
Proof.
  induction l as [|a l IH]; intros s s' H; [constructor|]. cbn [check_assertions] in H.
  destruct (check_assertion c irt req false s a) as [s1|] eqn:E; [|discriminate].
  constructor; [eapply check_assertion_false_sig; exact E|eapply IH; exact H].
Qed.

(* parse_assertion with decrypted assertions sent through the PLAIN path
   (signature looked at by _assertion itself, no separate pre-pass) *)
Definition parse_assertion_uniform (c : cfg) (req : bool) (s : st) (r : response) : result st :=
  if negb ((List.length (r_assertions r) =? 1)%nat || (List.length (r_encrypted r) =? 1)%nat) then Err (E "Exception") else
  match check_assertions c (r_irt r) req false false s (r_assertions r) with
  | Err e => Err e
  | Ok s1 =>
      match r_encrypted r with
      | [] => Ok (push_all s1 (r_assertions r))
      | encs =>
          match check_assertions c (r_irt r) req false true s1 (decrypted_prefix encs) with
          | Err e => Err e
          | Ok s2 => Ok (push_all s2 (r_assertions r))
          end
      end
  end.

Lemma parse_assertion_same_checks c req s r s' :
  parse_assertion c req s r = Ok s' <-> parse_assertion_uniform c req s r = Ok s'.
Proof.
  unfold parse_assertion, parse_assertion_uniform.
  destruct (negb ((List.length (r_assertions r) =? 1)%nat || (List.length (r_encrypted r) =? 1)%nat)); [tauto|].
  destruct (check_assertions c (r_irt r) req false false s (r_assertions r)) as [s1|]; [|tauto].
  destruct (r_encrypted r) as [|e encs]; [tauto|].
  set (dec := decrypted_prefix (e :: encs)).
  split.
  - destruct (verify_decrypted dec) as [[]|] eqn:Ev; [|discriminate].
    apply verify_decrypted_ok in Ev. now rewrite (check_assertions_flag c (r_irt r) req true dec s1 Ev).
  - intros H.
    destruct (check_assertions c (r_irt r) req false true s1 dec) as [s2|] eqn:Ec; [|discriminate].
    pose proof (check_assertions_false_sig _ _ _ _ _ _ _ Ec) as F.
    pose proof F as F'. apply verify_decrypted_ok in F'. rewrite F'.
    rewrite (check_assertions_flag c (r_irt r) req true dec s1 F), Ec. exact H.
Qed.

(* ---------- what the application reads is exactly what was processed ---------- *)
Lemma authn_statement_ok_nid c s a s' : authn_statement_ok c s a = Ok s' -> nid s' = nid s /\ acc s' = acc s.
Proof.
  unfold authn_statement_ok. destruct (a_authn a) as [|[n|] [|? ?]]; try discriminate.
  - destruct (validate_on_or_after c (Some n)) as [[m|]|]; try discriminate; intros H; injection H as <-; split; reflexivity.
  - intros H; injection H as <-; split; reflexivity.
Qed.

Lemma condition_ok_nid c s a b s' : condition_ok c s a = Ok (b, s') -> nid s' = nid s /\ acc s' = acc s.
Proof.
  unfold condition_ok. destruct (a_conditions a) as [k|]; [|intros H; injection H as <- <-; split; reflexivity].
  destruct (k_empty k); [intros H; injection H as <- <-; split; reflexivity|].
  match goal with |- (if ?x then _ else _) = _ -> _ => destruct x end; [intros H; injection H as <- <-; split; reflexivity|].
  destruct (validate_on_or_after c (k_nooa k)) as [ro|e0].
  - destruct (validate_before c (k_nb k)) as [[]|e1].
    + destruct (negb (for_me k (entity_id c)) && negb (test_mode c)); [discriminate|].
      destruct (k_unknown_condition k); [discriminate|].
      intros H; injection H as <- <-. destruct (k_nooa k); split; reflexivity.
    + destruct (test_mode c); [|discriminate]. cbn [negb andb].
      rewrite andb_false_r. destruct (k_unknown_condition k); [discriminate|].
      intros H; injection H as <- <-. split; reflexivity.
  - destruct (test_mode c); [|discriminate]. rewrite andb_false_r.
    destruct (k_unknown_condition k); [discriminate|]. intros H; injection H as <- <-. split; reflexivity.
Qed.

Lemma bearer_confirmed_nid c irt s d b s' : bearer_confirmed c irt s d = Ok (b, s') -> nid s' = nid s /\ acc s' = acc s.
Proof.
  unfold bearer_confirmed. destruct d as [d|]; [|intros H; injection H as <- <-; split; reflexivity].
  destruct (match d_address d with Some _ => negb (d_address_valid d) | None => false end); [discriminate|].
  destruct (validate_on_or_after c (d_nooa d)); [|discriminate]. destruct (validate_before c (d_nb d)); [|discriminate].
  destruct (negb (later_than (d_nooa d) (d_nb d))); [intros H; injection H as <- <-; split; reflexivity|].
  destruct (names_other_request c irt d); [discriminate|].
  destruct (asynch c && match came_from s with Some _ => false | None => true end); [|intros H; injection H as <- <-; split; reflexivity].
  destruct (d_irt d) as [i|]; [|intros H; injection H as <- <-; split; reflexivity].
  destruct (lookup_str i (outstanding c)); [intros H; injection H as <- <-; split; reflexivity|].
  destruct (allow_unsolicited c); [intros H; injection H as <- <-; split; reflexivity|discriminate].
Qed.

Lemma subject_loop_nid c irt : forall confs s kept s',
  subject_loop c irt s confs = Ok (kept, s') -> nid s' = nid s /\ acc s' = acc s.
Proof.
  induction confs as [|sc rest IH]; intros s kept s' H; cbn [subject_loop] in H.
  - injection H as <- <-. split; reflexivity.
  - assert (forall (b : bool) s1, nid s1 = nid s -> acc s1 = acc s ->
     (if b then
         match (match c_data sc with Some d => d_recipient d | None => None end) with
         | None => match c_data sc with None => Err (E "AttributeError") | Some _ => Err (E "VerificationError") end
         | Some r => match verify_recipient c r with
                     | Err e => Err e | Ok false => Err (E "VerificationError")
                     | Ok true => match subject_loop c irt s1 rest with Err e => Err e | Ok (kept0, s'') => Ok (sc :: kept0, s'') end
                     end
         end
       else subject_loop c irt s1 rest) = Ok (kept, s') -> nid s' = nid s /\ acc s' = acc s) as K.
    { intros b s1 F1 F2 Hk. destruct b.
      - destruct (match c_data sc with Some d => d_recipient d | None => None end); [|destruct (c_data sc); discriminate].
        destruct (verify_recipient c s0) as [[|]|]; try discriminate.
        destruct (subject_loop c irt s1 rest) as [[kk ss]|] eqn:El; [|discriminate]. injection Hk as <- <-.
        destruct (IH _ _ _ El) as [A B]. split; congruence.
      - destruct (IH _ _ _ Hk) as [A B]. split; congruence. }
    destruct (c_method sc).
    + destruct (bearer_confirmed c irt s (c_data sc)) as [[b s1]|] eqn:Eb; [|discriminate].
      destruct (bearer_confirmed_nid _ _ _ _ _ _ Eb) as [A B]. exact (K b s1 A B H).
    + exact (K _ s eq_refl eq_refl H).
    + exact (K true s eq_refl eq_refl H).
    + discriminate.
Qed.

Lemma check_assertion_nid c irt req v s a s' :
  check_assertion c irt req v s a = Ok s' ->
  acc s' = acc s /\ nid s' = match a_name_id a with Some n => Some n | None => nid s end.
Proof.
  unfold check_assertion. intros H.
  destruct (match a_sig a with None => if req then Err SignatureError else Ok tt | Some r => if v then Ok tt else r end) as [[]|]; [|discriminate].
  destruct (authn_statement_ok c s a) as [s1|] eqn:Ea; [|discriminate].
  destruct (condition_ok c s1 a) as [[[|] s2]|] eqn:Ec; try discriminate.
  destruct (get_subject c irt s2 a) as [[kept s3]|] eqn:Eg; [|discriminate].
  match type of H with (if ?x then _ else _) = _ => destruct x; [discriminate|] end.
  destruct (authn_statement_ok_nid _ _ _ _ Ea) as [A1 A2]. destruct (condition_ok_nid _ _ _ _ _ Ec) as [B1 B2].
  assert (nid s3 = nid s2 /\ acc s3 = acc s2) as [C1 C2].
  { unfold get_subject in Eg. destruct (negb (a_has_subject a)); [discriminate|].
    destruct (negb (verify_attesting_entity c (a_confirmations a))); [discriminate|].
    destruct (subject_loop c irt s2 (a_confirmations a)) as [[k st']|] eqn:El; [|discriminate].
    destruct k; [discriminate|]. injection Eg as <- <-. eapply subject_loop_nid; exact El. }
  injection H as <-. destruct (a_name_id a); cbn; split; congruence.
Qed.

(* name identifier after a run over a list: the last one that carries one, else the old value *)
Fixpoint last_name_id (l : list assertion) (d : option str) : option str :=
  match l with
  | [] => d
  | a :: rest => last_name_id rest (match a_name_id a with Some n => Some n | None => d end)
  end.

Lemma check_assertions_acc c irt req v push : forall l s s',
  check_assertions c irt req v push s l = Ok s' ->
  acc s' = acc s ++ (if push then map a_id l else []) /\ nid s' = last_name_id l (nid s).
Proof.
  induction l as [|a l IH]; intros s s' H; cbn [check_assertions] in H.
  - injection H as <-. cbn. destruct push; now rewrite ?app_nil_r.
  - destruct (check_assertion c irt req v s a) as [s1|] eqn:E; [|discriminate].
    destruct (check_assertion_nid _ _ _ _ _ _ _ E) as [A B].
    destruct (IH _ _ H) as [C D]. cbn [last_name_id map]. rewrite <- B. split.
    + rewrite C. destruct push; cbn; [|congruence]. rewrite A, <- app_assoc. reflexivity.
    + rewrite D. destruct push; reflexivity.
Qed.

Lemma last_name_id_in l : forall d n, last_name_id l d = Some n -> d = Some n \/ exists a, In a l /\ a_name_id a = Some n.
Proof.
  induction l as [|a l IH]; intros d n H; cbn in H; [now left|].
  destruct (IH _ _ H) as [Hd|(b & Hb & Hn)].
  - destruct (a_name_id a) eqn:Ea; [right; exists a; split; [now left|congruence]|now left].
  - right. exists b. split; [now right|exact Hn].
Qed.

Lemma last_name_id_app l1 : forall l d, last_name_id (l1 ++ l) d = last_name_id l (last_name_id l1 d).
Proof. induction l1 as [|x xs IHx]; intros l d; [reflexivity|]. cbn. apply IHx. Qed.

Lemma parse_assertion_reads c req s r s' : parse_assertion c req s r = Ok s' ->
  acc s' = acc s ++ map a_id (processed r) /\
  nid s' = last_name_id (r_assertions r ++ decrypted_prefix (r_encrypted r)) (nid s).
Proof.
  unfold parse_assertion, processed. intros H.
  destruct (negb ((List.length (r_assertions r) =? 1)%nat || (List.length (r_encrypted r) =? 1)%nat)); [discriminate|].
  destruct (check_assertions c (r_irt r) req false false s (r_assertions r)) as [s1|] eqn:E1; [|discriminate].
  destruct (check_assertions_acc _ _ _ _ _ _ _ _ E1) as [A1 N1]. cbn in A1. rewrite app_nil_r in A1.
  pose proof (last_name_id_app (r_assertions r)) as LA.
  destruct (r_encrypted r) as [|e encs].
  - injection H as <-. cbn [decrypted_prefix app push_all acc nid]. rewrite app_nil_r. split; congruence.
  - destruct (verify_decrypted (decrypted_prefix (e :: encs))); [|discriminate].
    destruct (check_assertions c (r_irt r) req true true s1 (decrypted_prefix (e :: encs))) as [s2|] eqn:E2; [|discriminate].
    destruct (check_assertions_acc _ _ _ _ _ _ _ _ E2) as [A2 N2]. injection H as <-.
    cbn [push_all acc nid]. rewrite A2, A1, map_app, !app_assoc. split; [reflexivity|]. rewrite LA, N2, N1. reflexivity.
Qed.

Lemma residue_acc_incl c req s r :
  incl (acc (parse_assertion_residue c req s r)) (acc s ++ map a_id (decrypted_prefix (r_encrypted r))).
Proof.
  unfold parse_assertion_residue.
  destruct (check_assertions c (r_irt r) req false false s (r_assertions r)) as [s1|] eqn:E1; [|apply incl_appl, incl_refl].
  destruct (check_assertions_acc _ _ _ _ _ _ _ _ E1) as [A1 _]. cbn in A1. rewrite app_nil_r in A1.
  destruct (verify_decrypted (decrypted_prefix (r_encrypted r))); [|apply incl_appl, incl_refl].
  cbn [acc]. rewrite <- A1. generalize (decrypted_prefix (r_encrypted r)) as l. clear.
  intros l. revert s1. induction l as [|a l IH]; intros s1; cbn [acc_after_failure map].
  - rewrite app_nil_r. apply incl_refl.
  - destruct (check_assertion c (r_irt r) req true s1 a) as [s2|] eqn:E; [|apply incl_appl, incl_refl].
    destruct (check_assertion_nid _ _ _ _ _ _ _ E) as [A _].
    intros x Hx. apply IH in Hx. cbn [push_acc acc] in Hx. rewrite A, <- app_assoc in Hx. exact Hx.
Qed.

Lemma residue_nid c req s r : nid (parse_assertion_residue c req s r) = nid s.
Proof.
  unfold parse_assertion_residue. destruct (check_assertions c (r_irt r) req false false s (r_assertions r)); [|reflexivity].
  destruct (verify_decrypted (decrypted_prefix (r_encrypted r))); reflexivity.
Qed.

Lemma loads_nid c req r s : loads c req r = Ok s -> nid s = None.
Proof.
  unfold loads. destruct (response_sig_stage req r); [|discriminate]. unfold loads_rest.
  destruct (asynch c); [|intros H; injection H as <-; reflexivity].
  match goal with |- (match ?x with _ => _ end) = _ -> _ => destruct x end.
  - match goal with |- (match ?x with _ => _ end) = _ -> _ => destruct x as [[|]|] end; intros H; try discriminate;
      injection H as <-; reflexivity.
  - destruct (allow_unsolicited c); intros H; [|discriminate]. injection H as <-. reflexivity.
Qed.

(* acceptance, inverted once more: the assertion stage that produced the outcome *)
Lemma accepted_stage c r o : parse_response c r = Ok o ->
  exists req s s', parse_assertion c req s r = Ok s' /\ (was c = true -> req = true) /\
    incl (acc s) (map a_id (decrypted_prefix (r_encrypted r))) /\ nid s = None /\
    o_assertions o = acc s' /\ o_name_id o = nid s'.
Proof.
  unfold parse_response. intros H.
  assert (forall sA req0, loads c req0 r = Ok sA ->
     match
      (if negb (r_valid_instance r) then Err (E "AttributeError") else
      match (match verify c true sA r with
        | Ok x => Ok (x, true)
        | Err e => if is_signature_error e then
                     (if was c then Err e
                      else match verify c false (parse_assertion_residue c true sA r) r with Ok x => Ok (x, false) | Err e' => Err e' end)
                   else Err e
        end) with
      | Err e => Err e
      | Ok (None, _) => Err (E "AttributeError")
      | Ok (Some s', b2) => Ok (s', b2)
      end) with
     | Ok (s', _) => exists req s, parse_assertion c req s r = Ok s' /\ (was c = true -> req = true) /\
           incl (acc s) (map a_id (decrypted_prefix (r_encrypted r))) /\ nid s = None
     | Err _ => True
     end) as K.
  { intros sA req0 HL. destruct (negb (r_valid_instance r)); [exact I|].
    destruct (loads_fields _ _ _ _ HL) as (_ & _ & HA). pose proof (loads_nid _ _ _ _ HL) as HN.
    destruct (verify c true sA r) as [[s'|]|e] eqn:V1.
    - destruct (verify_some _ _ _ _ _ V1) as (_ & Hp & _). exists true, sA. repeat split; auto. rewrite HA. intros x [].
    - exact I.
    - destruct (is_signature_error e); [|exact I]. destruct (was c) eqn:Wa; [exact I|].
      destruct (verify c false (parse_assertion_residue c true sA r) r) as [[s'|]|] eqn:V2; try exact I.
      destruct (verify_some _ _ _ _ _ V2) as (_ & Hp & _). exists false, (parse_assertion_residue c true sA r).
      repeat split; auto; try congruence.
      + pose proof (residue_acc_incl c true sA r) as RI. rewrite HA in RI. exact RI.
      + rewrite residue_nid. exact HN. }
  destruct (loads c true r) as [sA|eA] eqn:L1.
  - specialize (K sA true L1).
    destruct (negb (r_valid_instance r)); [discriminate|].
    destruct (verify c true sA r) as [[s'|]|e] eqn:V1; try discriminate.
    + destruct K as (req & s & K).
      match type of H with (if ?x then _ else _) = _ => destruct x; [discriminate|] end.
      injection H as <-. exists req, s, s'. cbn. tauto.
    + destruct (is_signature_error e); [|discriminate]. destruct (was c); [discriminate|].
      destruct (verify c false (parse_assertion_residue c true sA r) r) as [[s'|]|] eqn:V2; try discriminate.
      destruct K as (req & s & K).
      match type of H with (if ?x then _ else _) = _ => destruct x; [discriminate|] end.
      injection H as <-. exists req, s, s'. cbn. tauto.
  - destruct (is_sigver_error eA); [|discriminate]. destruct (wrs c); [discriminate|].
    destruct (loads c false r) as [sB|] eqn:L2; [|discriminate].
    specialize (K sB false L2).
    destruct (negb (r_valid_instance r)); [discriminate|].
    destruct (verify c true sB r) as [[s'|]|e] eqn:V1; try discriminate.
    + destruct K as (req & s & K).
      match type of H with (if ?x then _ else _) = _ => destruct x; [discriminate|] end.
      injection H as <-. exists req, s, s'. cbn. tauto.
    + destruct (is_signature_error e); [|discriminate]. destruct (was c); [discriminate|].
      destruct (verify c false (parse_assertion_residue c true sB r) r) as [[s'|]|] eqn:V2; try discriminate.
      destruct K as (req & s & K).
      match type of H with (if ?x then _ else _) = _ => destruct x; [discriminate|] end.
      injection H as <-. exists req, s, s'. cbn. tauto.
Qed.

(* ---------- statements used by Props/C17.v ---------- *)
Lemma decrypted_checked c r o : parse_response c r = Ok o ->
  Forall (fun a => assertion_facts c (r_irt r) a /\ (a_sig a = None \/ a_sig a = Some (Ok tt)) /\
                   exists req s s', check_assertion c (r_irt r) req false s a = Ok s')
         (decrypted_prefix (r_encrypted r)).
Proof.
  intros H. destruct (accepted_stage c r o H) as (req & s & s' & Hp & _).
  destruct (parse_assertion_ok _ _ _ _ _ Hp) as (_ & _ & Hd & Hv).
  apply verify_decrypted_ok in Hv. rewrite Forall_forall in *. intros a Ha.
  destruct (Hd a Ha) as (sa & sa' & Hc). specialize (Hv a Ha). split; [eapply check_assertion_facts; exact Hc|]. split.
  - destruct (a_sig a) as [[[]|e]|] eqn:Es; [now right|exfalso; exact (Hv e Es)|now left].
  - rewrite (check_assertion_flag _ _ _ _ _ Hv) in Hc. now exists req, sa, sa'.
Qed.

Lemma reads_exactly_processed c r o : parse_response c r = Ok o ->
  (forall n, In n (o_assertions o) <-> In n (map a_id (processed r))) /\
  o_name_id o = last_name_id (r_assertions r ++ decrypted_prefix (r_encrypted r)) None.
Proof.
  intros H. destruct (accepted_stage c r o H) as (req & s & s' & Hp & _ & Hinc & Hn & -> & ->).
  destruct (parse_assertion_reads _ _ _ _ _ Hp) as [A B]. rewrite A, B, Hn. split; [|reflexivity].
  intros n. rewrite in_app_iff. split.
  - intros [Hi|Hi]; [|exact Hi]. apply Hinc in Hi. unfold processed. rewrite map_app, in_app_iff. now left.
  - intros Hi. now right.
Qed.

Lemma undecryptable_nothing c r o : parse_response c r = Ok o ->
  r_assertions r = [] -> (forall e, In e (r_encrypted r) -> e_opens e = false) ->
  o_assertions o = [] /\ o_name_id o = None.
Proof.
  intros H Ha He. destruct (reads_exactly_processed c r o H) as [Hin Hn].
  assert (decrypted_prefix (r_encrypted r) = []) as Hd.
  { destruct (r_encrypted r) as [|e encs]; [reflexivity|]. cbn. now rewrite (He e (or_introl eq_refl)). }
  unfold processed in Hin. rewrite Ha, Hd in *. cbn in *. split; [|exact Hn].
  destruct (o_assertions o) as [|n l]; [reflexivity|]. exfalso. apply (Hin n). now left.
Qed.
