(* Proofs/IdpBuildAttr_lemmas.v — C08, attribute level: str.strip only trims,
   the attribute statement survives serialisation and reading, and identity ->
   from_local -> to_local delivers every attribute under its documented local
   name with trimmed values. *)
From PV Require Import Lib.Base Model.Codec Model.IdpBuild Gen.AttrMaps Proofs.IdpBuild_lemmas Proofs.IdpBuildTree_lemmas.
Open Scope N_scope.

(* ------------------------------------------------------------------ *)
(* strip only removes white space, at the two ends                       *)
(* ------------------------------------------------------------------ *)
Lemma lstrip_spec s : exists a, s = a ++ lstrip s /\ forallb is_space a = true /\
  (match lstrip s with c :: _ => is_space c = false | [] => True end).
Proof.
  induction s as [|c s (a & E & A & H)]; [exists []; repeat split|].
  cbn [lstrip]. destruct (is_space c) eqn:Ec.
  - exists (c :: a). cbn [app forallb]. rewrite Ec, A. split; [now f_equal|]. split; [reflexivity|exact H].
  - exists []. repeat split. exact Ec.
Qed.

Theorem strip_spec s : exists a b, s = a ++ strip s ++ b /\ forallb is_space a = true /\ forallb is_space b = true /\
  (match strip s with c :: _ => is_space c = false | [] => True end) /\
  (match rev (strip s) with c :: _ => is_space c = false | [] => True end).
Proof.
  unfold strip. destruct (lstrip_spec s) as (a & Ea & Aa & Ha).
  destruct (lstrip_spec (rev (lstrip s))) as (b & Eb & Ab & Hb).
  exists a, (rev b). split.
  - rewrite <- rev_app_distr. rewrite <- Eb. rewrite rev_involutive. exact Ea.
  - split; [exact Aa|]. split.
    + rewrite forallb_forall in Ab |- *. intros x Hx. apply Ab. now apply in_rev.
    + split; [|rewrite rev_involutive; exact Hb].
      (* the first character of the result is the first character of lstrip s, unless everything was trimmed *)
      destruct (rev (lstrip (rev (lstrip s)))) as [|x r] eqn:Er; [exact I|].
      assert (lstrip s = (x :: r) ++ rev b) as E2.
      { rewrite <- Er. rewrite <- rev_app_distr. rewrite <- Eb. now rewrite rev_involutive. }
      rewrite E2 in Ha. exact Ha.
Qed.

Lemma strip_no_space s : forallb (fun c => negb (is_space c)) s = true -> strip s = s.
Proof.
  intros H. unfold strip.
  assert (forall t, (match t with c :: _ => is_space c = false | [] => True end) -> lstrip t = t) as L.
  { intros [|c t] Ht; [reflexivity|]. cbn [lstrip]. now rewrite Ht. }
  rewrite (L s).
  - rewrite L; [apply rev_involutive|].
    destruct (rev s) as [|c t] eqn:E; [exact I|]. rewrite forallb_forall in H.
    assert (In c s) as Hc by (apply in_rev; rewrite E; now left). specialize (H c Hc). now apply negb_true_iff in H.
  - destruct s as [|c t]; [exact I|]. cbn [forallb] in H. apply andb_true_iff in H as [H _]. now apply negb_true_iff in H.
Qed.

(* ------------------------------------------------------------------ *)
(* the attribute statement as XML: well-formed, harvested back exactly   *)
(* ------------------------------------------------------------------ *)
Definition legal (s : str) : bool := forallb xml_char s.
Definition legal_opt (o : option str) : bool := match o with Some s => legal s | None => true end.
Definition legal_value (v : aval) : bool := match v with AText s => legal s | ANameID f s => legal f && legal s | AOther s => legal s end.
Definition legal_attribute (a : attribute) : bool :=
  legal (at_name a) && legal_opt (at_format a) && legal_opt (at_friendly a) && forallb legal_value (at_values a).

Lemma wf_value v : legal_value v = true -> wf_xml (value_xml v) = true.
Proof.
  destruct v as [s|f s|s]; cbn [legal_value value_xml]; intros H.
  - cbn [wf_xml forallb fst snd nodup_keys has_key existsb]. unfold legal in H. rewrite H.
    vm_compute. reflexivity.
  - apply andb_true_iff in H as [Hf Hs]. unfold legal in *.
    cbn [wf_xml forallb fst snd nodup_keys has_key existsb]. rewrite Hf, Hs. vm_compute. reflexivity.
  - unfold legal in H. cbn [wf_xml forallb fst snd nodup_keys has_key existsb]. rewrite H. vm_compute. reflexivity.
Qed.

Lemma forallb_map {X Y} (f : Y -> bool) (g : X -> Y) l : forallb f (map g l) = forallb (fun x => f (g x)) l.
Proof. induction l as [|x l IH]; [reflexivity|]. cbn. now rewrite IH. Qed.

Lemma wf_attribute a : legal_attribute a = true -> wf_xml (attribute_xml a) = true.
Proof.
  unfold legal_attribute. intros H.
  apply andb_true_iff in H as [H Hv]. apply andb_true_iff in H as [H Hfr]. apply andb_true_iff in H as [Hn Hf].
  unfold attribute_xml. cbn [wf_xml].
  assert (forallb wf_xml (map value_xml (at_values a)) = true) as ->.
  { rewrite forallb_map. rewrite forallb_forall in Hv |- *. intros v Hin. apply wf_value, Hv, Hin. }
  rewrite andb_true_r. cbn [forallb andb].
  unfold legal in Hn. destruct (at_format a) as [f|], (at_friendly a) as [g|];
    cbn [opt_attr app forallb fst snd nodup_keys has_key existsb legal_opt] in *; unfold legal in *;
    rewrite ?Hn, ?Hf, ?Hfr; vm_compute; reflexivity.
Qed.

Definition legal_attributes (l : list attribute) : bool := forallb legal_attribute l.

Theorem wf_statement l : legal_attributes l = true -> wf_xml (attr_statement_xml l) = true.
Proof.
  intros H. unfold attr_statement_xml. cbn [wf_xml forallb nodup_keys andb].
  assert (name_ok (T "AttributeStatement") = true) as -> by (vm_compute; reflexivity). cbn [andb].
  rewrite forallb_map. unfold legal_attributes in H. rewrite forallb_forall in H |- *. intros a Ha. apply wf_attribute, H, Ha.
Qed.

(* harvesting what was rendered gives the attributes back *)
Lemma value_of_value_xml v : value_of_xml (value_xml v) = v.
Proof. destruct v as [s|f s|s]; vm_compute; try reflexivity. Qed.

Lemma values_of_xml l : map value_of_xml (filter (fun k => str_eqb (x_tag k) (T "AttributeValue")) (map value_xml l)) = l.
Proof.
  induction l as [|v l IH]; [reflexivity|]. cbn [map filter].
  assert (str_eqb (x_tag (value_xml v)) (T "AttributeValue") = true) as -> by (destruct v; vm_compute; reflexivity).
  cbn [map]. now rewrite value_of_value_xml, IH.
Qed.

Lemma attribute_of_attribute_xml a : attribute_of_xml (attribute_xml a) = a.
Proof.
  destruct a as [n f g vs]. unfold attribute_of_xml, attribute_xml. cbn [x_attrs x_kids at_name at_format at_friendly at_values].
  rewrite values_of_xml. destruct f as [f|], g as [g|]; vm_compute; reflexivity.
Qed.

Theorem attrs_of_statement l : attrs_of_statement_xml (attr_statement_xml l) = l.
Proof.
  unfold attrs_of_statement_xml, attr_statement_xml. cbn [x_kids].
  induction l as [|a l IH]; [reflexivity|]. cbn [map filter].
  assert (str_eqb (x_tag (attribute_xml a)) (T "Attribute") = true) as -> by (vm_compute; reflexivity).
  cbn [map]. now rewrite attribute_of_attribute_xml, IH.
Qed.

(* what the XML end-of-line rule does to the values (nothing when they contain no CR) *)
Definition norm_value (v : aval) : aval :=
  match v with AText s => AText (norm_eol s) | ANameID f s => ANameID f (norm_eol s) | AOther s => AOther (norm_eol s) end.
Definition norm_attribute (a : attribute) : attribute :=
  {| at_name := at_name a; at_format := at_format a; at_friendly := at_friendly a; at_values := map norm_value (at_values a) |}.

Lemma norm_statement l : norm_xml (attr_statement_xml l) = attr_statement_xml (map norm_attribute l).
Proof.
  unfold attr_statement_xml. cbn [norm_xml norm_eol]. f_equal. rewrite !map_map. apply map_ext. intros a.
  unfold attribute_xml, norm_attribute. cbn [norm_xml norm_eol at_name at_format at_friendly at_values]. f_equal.
  rewrite !map_map. apply map_ext. intros [s|f s|s]; reflexivity.
Qed.

(* IdP attributes -> XML text -> reader -> attributes *)
Theorem attributes_through_text l : legal_attributes l = true ->
  option_map attrs_of_statement_xml (xml_parse (serialise (attr_statement_xml l))) = Some (map norm_attribute l).
Proof.
  intros H. rewrite (parse_serialise _ (wf_statement l H)). cbn [option_map]. now rewrite norm_statement, attrs_of_statement.
Qed.

Definition no_cr (s : str) : bool := forallb (fun c => negb (c =? 13)) s.
Definition no_cr_attribute (a : attribute) : bool :=
  forallb (fun v => match v with AText s => no_cr s | ANameID _ s => no_cr s | AOther s => no_cr s end) (at_values a).
Lemma norm_attribute_id a : no_cr_attribute a = true -> norm_attribute a = a.
Proof.
  destruct a as [n f g vs]. unfold no_cr_attribute, norm_attribute. cbn [at_name at_format at_friendly at_values]. intros H. f_equal.
  induction vs as [|v vs IH]; [reflexivity|]. cbn [forallb] in H. apply andb_true_iff in H as [Hv Hvs]. cbn [map]. rewrite (IH Hvs). f_equal.
  destruct v as [s|f' s|s]; cbn [norm_value]; unfold no_cr in Hv; now rewrite (norm_eol_id _ Hv).
Qed.
Theorem attributes_through_text_exact l : legal_attributes l = true -> forallb no_cr_attribute l = true ->
  option_map attrs_of_statement_xml (xml_parse (serialise (attr_statement_xml l))) = Some l.
Proof.
  intros H C. rewrite (attributes_through_text l H). f_equal.
  induction l as [|a l IH]; [reflexivity|]. cbn [forallb legal_attributes] in *.
  apply andb_true_iff in H as [_ H2]. apply andb_true_iff in C as [C1 C2]. cbn [map]. now rewrite (norm_attribute_id a C1), (IH H2 C2).
Qed.

(* the structure of the statement depends on the shape of the identity only *)
Definition value_shape (v : aval) : nat := match v with AText _ => 0%nat | ANameID _ _ => 1%nat | AOther _ => 2%nat end.
Definition attribute_shape (a : attribute) : bool * bool * list nat :=
  (match at_format a with Some _ => true | None => false end, match at_friendly a with Some _ => true | None => false end,
   map value_shape (at_values a)).

Theorem statement_skeleton l1 l2 : map attribute_shape l1 = map attribute_shape l2 ->
  skeleton (attr_statement_xml l1) = skeleton (attr_statement_xml l2).
Proof.
  intros H. unfold attr_statement_xml. cbn [skeleton map]. f_equal. rewrite !map_map.
  revert l2 H. induction l1 as [|a l1 IH]; intros [|b l2] H; try discriminate; [reflexivity|].
  cbn [map] in H |- *. unfold attribute_shape at 1 2 in H. injection H as Hf Hg Hv Hl. f_equal; [|now apply IH].
  unfold attribute_xml. cbn [skeleton map].
  f_equal.
  - destruct (at_format a), (at_format b), (at_friendly a), (at_friendly b); try discriminate; reflexivity.
  - rewrite !map_map. clear - Hv. revert Hv. generalize (at_values b). induction (at_values a) as [|v vs IHv]; intros [|w ws] Hv; try discriminate; [reflexivity|].
    cbn [map] in Hv |- *. injection Hv as H1 H2. f_equal; [|now apply IHv].
    destruct v, w; try discriminate; reflexivity.
Qed.

(* ------------------------------------------------------------------ *)
(* identity -> from_local -> (wire) -> to_local                           *)
(* ------------------------------------------------------------------ *)
Fixpoint first_conv (acs : list conv) (nf : str) : option conv :=
  match acs with [] => None | c :: r => if str_eqb (c_nf c) nf then Some c else first_conv r nf end.

Lemma from_local_first acs ava nf :
  from_local acs ava nf = option_map (fun c => map (to_attr c) ava) (first_conv acs nf).
Proof. induction acs as [|c r IH]; [reflexivity|]. cbn [from_local first_conv]. destruct (str_eqb (c_nf c) nf); [reflexivity|exact IH]. Qed.

Lemma first_conv_nf acs nf c : first_conv acs nf = Some c -> c_nf c = nf.
Proof.
  induction acs as [|c0 r IH]; [discriminate|]. cbn [first_conv]. destruct (str_eqb_spec (c_nf c0) nf) as [E|_]; [|exact IH].
  intros H. injection H as <-. exact E.
Qed.

Definition plain_values (vals : list str) : list rval := map (fun v => RStr (strip v)) vals.

(* the name an identity key travels under, when the IdP's converter knows the key *)
Definition wire_name (c : conv) (key : str) : option str :=
  match dict_get (lower key) (c_to c) with Some (x :: n) => Some (x :: n) | _ => None end.
(* the local name the first of the converters cs that knows the (lower-cased, trimmed) wire name n gives it *)
Fixpoint first_local (cs : list conv) (n : str) : option str :=
  match cs with
  | [] => None
  | c :: r => match dict_get n (c_fro c) with Some l => Some l | None => first_local r n end
  end.
(* ... and the local name under which the SP reports it: the SP's converters for that format, in order *)
Definition sp_name (c : conv) (sp_acs : list conv) (key : str) : option str :=
  match wire_name c key with
  | Some name => first_local (convs_for (c_nf c) sp_acs) (lower (strip name))
  | None => None
  end.
(* eduPersonTargetedID travels as NameID elements, which the reader unwraps under exactly that local
   name: the SP's table must report the OID under the name eduPersonTargetedID (spelled so) *)
Definition eptid_named (c : conv) (sp_acs : list conv) (key : str) : bool :=
  match wire_name c key, sp_name c sp_acs key with
  | Some name, Some local => if str_eqb name EPTID_OID then str_eqb local EPTID else true
  | _, _ => true
  end.

Lemma first_known_local cs a :
  first_known cs a =
  option_map (fun l => (l, map (read_value l) (at_values a))) (first_local cs (lower (strip (at_name a)))).
Proof.
  induction cs as [|c r IH]; [reflexivity|]. cbn [first_known first_local]. unfold ava_from.
  destruct (dict_get (lower (strip (at_name a))) (c_fro c)); [reflexivity|exact IH].
Qed.

Lemma first_local_nonempty cs n l : first_local cs n = Some l -> cs <> [].
Proof. destruct cs; [discriminate|discriminate]. Qed.

(* read_attr in terms of the converters for the format *)
Lemma read_attr_known sp_acs allow a l :
  first_local (convs_for (parsed_format a) sp_acs) (lower (strip (at_name a))) = Some l ->
  read_attr sp_acs allow a = Some (l, map (read_value l) (at_values a)).
Proof.
  intros H. unfold read_attr. pose proof (first_known_local (convs_for (parsed_format a) sp_acs) a) as K.
  rewrite H in K. cbn [option_map] in K.
  destruct (convs_for (parsed_format a) sp_acs) as [|c0 r]; [discriminate|]. now rewrite K.
Qed.

Lemma read_values_text l vals : map (read_value l) (map AText vals) = map (fun v => RStr (strip v)) vals.
Proof. now rewrite map_map. Qed.
Lemma read_values_nameid fmt vals : map (read_value EPTID) (map (ANameID fmt) vals) = map (fun v => RStr (strip v)) vals.
Proof.
  rewrite map_map. apply map_ext. intros v. cbn [read_value].
  assert (str_eqb EPTID EPTID = true) as -> by (vm_compute; reflexivity). reflexivity.
Qed.

Lemma deliver_mapped c sp_acs allow key vals local :
  sp_name c sp_acs key = Some local -> eptid_named c sp_acs key = true ->
  read_attr sp_acs allow (to_attr c (key, vals)) = Some (local, plain_values vals).
Proof.
  unfold eptid_named, sp_name, wire_name, to_attr. cbn [fst snd].
  destruct (dict_get (lower key) (c_to c)) as [[|x n]|] eqn:Ew; try discriminate.
  intros Hl He. rewrite Hl in He.
  rewrite (read_attr_known sp_acs allow _ local); [|exact Hl].
  cbn [at_values]. f_equal. f_equal. unfold plain_values.
  destruct (str_eqb (x :: n) EPTID_OID).
  - apply str_eqb_eq in He. subst local. apply read_values_nameid.
  - apply read_values_text.
Qed.

Lemma deliver_unmapped c sp_acs allow key vals : wire_name c key = None ->
  read_attr sp_acs allow (to_attr c (key, vals)) =
  match convs_for NAME_FORMAT_URI sp_acs with
  | [] => if str_eqb NAME_FORMAT_URI NAME_FORMAT_UNSPECIFIED || allow then Some (strip key, plain_values vals) else None
  | cs => match first_local cs (lower (strip key)) with
          | Some local => Some (local, plain_values vals)
          | None => if allow then Some (strip key, plain_values vals) else None
          end
  end.
Proof.
  unfold wire_name, to_attr. cbn [fst snd]. intros Hw.
  assert (forall l, map (fun v => match v with AText s => RStr (strip s) | ANameID _ _ | AOther _ => RStr [] end) (map AText l) = plain_values l) as L1
      by (intros l; unfold plain_values; now rewrite map_map).
  assert (forall loc l, map (read_value loc) (map AText l) = plain_values l) as L2
      by (intros loc l; unfold plain_values; now rewrite map_map).
  destruct (dict_get (lower key) (c_to c)) as [[|x n]|]; try discriminate;
    unfold read_attr, parsed_format, lcd_ava_from; cbn [at_format at_name at_values];
    (destruct (convs_for NAME_FORMAT_URI sp_acs) as [|c0 r]; [rewrite ?L1; reflexivity|]);
    rewrite first_known_local; cbn [at_name at_values];
    (destruct (first_local (c0 :: r) (lower (strip key))); cbn [option_map]; rewrite ?L1, ?L2; reflexivity).
Qed.

(* the accumulated dictionary *)
Lemma ava_add_fresh k vs d : (forall kv, In kv d -> fst kv <> k) -> ava_add k vs d = d ++ [(k, vs)].
Proof.
  induction d as [|[k' vs'] d IH]; intros H; [reflexivity|]. cbn [ava_add app].
  destruct (str_eqb_spec k k') as [E|_].
  - exfalso. apply (H (k', vs')); [now left|]. cbn. congruence.
  - f_equal. apply IH. intros kv Hin. apply H. now right.
Qed.

Lemma list_to_local_from_fresh c sp_acs allow : forall ident locals d,
  map (fun kv => sp_name c sp_acs (fst kv)) ident = map Some locals ->
  Forall (fun kv => eptid_named c sp_acs (fst kv) = true) ident ->
  NoDup locals -> (forall kv, In kv d -> ~ In (fst kv) locals) ->
  list_to_local_from sp_acs allow (map (to_attr c) ident) d = d ++ combine locals (map (fun kv => plain_values (snd kv)) ident).
Proof.
  induction ident as [|[key vals] ident IH]; intros [|l locals] d Hn He Hd Hfresh; try discriminate.
  - cbn. now rewrite app_nil_r.
  - cbn [map fst] in Hn. injection Hn as Hn1 Hn2. inversion He as [|? ? E1 E2]; subst. inversion Hd as [|? ? D1 D2]; subst.
    cbn [map list_to_local_from fst snd combine]. cbn [fst snd] in E1.
    rewrite (deliver_mapped c sp_acs allow key vals l Hn1 E1).
    rewrite ava_add_fresh.
    + rewrite (IH locals _ Hn2 E2 D2).
      * rewrite <- app_assoc. reflexivity.
      * intros kv Hin. apply in_app_or in Hin as [Hin|[<-|[]]].
        -- intros Hc. apply (Hfresh kv Hin). now right.
        -- exact D1.
    + intros kv Hin E. apply (Hfresh kv Hin). left. now symmetry.
Qed.

(* every key is known and reported under pairwise different names: the SP reads exactly
   the asserted attributes, under the documented names, values trimmed *)
Theorem attributes_exact c sp_acs allow ident locals :
  map (fun kv => sp_name c sp_acs (fst kv)) ident = map Some locals ->
  Forall (fun kv => eptid_named c sp_acs (fst kv) = true) ident ->
  NoDup locals ->
  list_to_local sp_acs allow (map (to_attr c) ident) = combine locals (map (fun kv => plain_values (snd kv)) ident).
Proof.
  intros Hn He Hd. unfold list_to_local. rewrite (list_to_local_from_fresh c sp_acs allow ident locals [] Hn He Hd); [reflexivity|intros kv []].
Qed.

(* ------------------------------------------------------------------ *)
(* what the (regenerated) tables say about names                          *)
(* ------------------------------------------------------------------ *)
Lemma lower_idem s : lower (lower s) = lower s.
Proof.
  unfold lower. rewrite map_map. apply map_ext. intros c. unfold lower_ascii.
  destruct ((65 <=? c) && (c <=? 90)) eqn:E; [|now rewrite E].
  apply andb_true_iff in E as [A B]. apply N.leb_le in A, B.
  assert ((65 <=? c + 32) && (c + 32 <=? 90) = false) as ->; [|reflexivity].
  apply andb_false_iff. right. apply N.leb_gt. lia.
Qed.
Lemma sp_name_lower c sp_acs key : sp_name c sp_acs (lower key) = sp_name c sp_acs key.
Proof. unfold sp_name, wire_name. now rewrite lower_idem. Qed.

Definition table_keys (c : conv) : list str := map fst (c_to c).
(* keys the SP does not report at all / reports under another spelling-independent name *)
Definition lost_rows (c : conv) (sp_acs : list conv) : list str :=
  filter (fun k => match sp_name c sp_acs k with Some _ => false | None => true end) (table_keys c).
Definition alias_rows (c : conv) (sp_acs : list conv) : list (str * str) :=
  flat_map (fun k => match sp_name c sp_acs k with
                     | Some l => if str_eqb (lower l) k then [] else [(k, l)]
                     | None => [] end) (table_keys c).
(* an alias is another local name of the SAME wire name *)
Definition aliases_consistent (c : conv) (sp_acs : list conv) : bool :=
  forallb (fun kl => match wire_name c (fst kl), wire_name c (snd kl) with
                     | Some a, Some b => str_eqb a b | _, _ => false end) (alias_rows c sp_acs).
Definition eptid_rows_ok (c : conv) (sp_acs : list conv) : bool :=
  forallb (fun k => match wire_name c k, sp_name c sp_acs k with
                    | Some n, Some l => if str_eqb n EPTID_OID then str_eqb l EPTID else true
                    | _, _ => true end) (table_keys c).

Theorem table_key_reported c sp_acs key :
  In (lower key) (table_keys c) -> ~ In (lower key) (lost_rows c sp_acs) ->
  exists l, sp_name c sp_acs key = Some l /\ (lower l = lower key \/ In (lower key, l) (alias_rows c sp_acs)).
Proof.
  intros Hin Hnl. rewrite <- sp_name_lower.
  destruct (sp_name c sp_acs (lower key)) as [l|] eqn:E.
  - exists l. split; [reflexivity|].
    destruct (str_eqb_spec (lower l) (lower key)) as [Eq|Ne]; [now left|right].
    unfold alias_rows. apply in_flat_map. exists (lower key). split; [exact Hin|]. rewrite E.
    destruct (str_eqb_spec (lower l) (lower key)); [contradiction|now left].
  - exfalso. apply Hnl. unfold lost_rows. apply filter_In. split; [exact Hin|]. now rewrite E.
Qed.

(* eptid_rows_ok decides eptid_named for every spelling of every key *)
Lemma dict_get_in k l v : dict_get k l = Some v -> In k (map fst l).
Proof.
  induction l as [|[k' v'] l IH]; [discriminate|]. cbn [dict_get map fst].
  destruct (dict_get k l) as [w|]; [intros E; right; exact (IH E)|].
  destruct (str_eqb_spec k k') as [->|_]; [now left|discriminate].
Qed.
Lemma wire_name_lower c key : wire_name c (lower key) = wire_name c key.
Proof. unfold wire_name. now rewrite lower_idem. Qed.
Lemma wire_name_in c key n : wire_name c key = Some n -> In (lower key) (table_keys c).
Proof.
  unfold wire_name, table_keys. destruct (dict_get (lower key) (c_to c)) as [v|] eqn:E; [|discriminate].
  intros _. exact (dict_get_in _ _ _ E).
Qed.
Theorem eptid_rows_named c sp_acs : eptid_rows_ok c sp_acs = true -> forall key, eptid_named c sp_acs key = true.
Proof.
  intros H key. unfold eptid_named. rewrite <- (wire_name_lower c key), <- (sp_name_lower c sp_acs key).
  destruct (wire_name c (lower key)) as [n|] eqn:Ew; [|reflexivity].
  unfold eptid_rows_ok in H. rewrite forallb_forall in H.
  assert (In (lower key) (table_keys c)) as Hin by (rewrite <- lower_idem; exact (wire_name_in c (lower key) n Ew)).
  specialize (H _ Hin). now rewrite Ew in H.
Qed.

(* a table without lost rows: an identity over its keys (any spelling) is reported name by name,
   each under its own name (up to letter case) or under the alias listed for it *)
Definition reported_as (c : conv) (sp_acs : list conv) (kv : str * list str) (l : str) : Prop :=
  lower l = lower (fst kv) \/ In (lower (fst kv), l) (alias_rows c sp_acs).
Theorem table_identity_reported c sp_acs : lost_rows c sp_acs = [] -> eptid_rows_ok c sp_acs = true ->
  forall ident : identity, Forall (fun kv => In (lower (fst kv)) (table_keys c)) ident ->
  exists locals, map (fun kv => sp_name c sp_acs (fst kv)) ident = map Some locals /\
                 Forall2 (reported_as c sp_acs) ident locals /\
                 Forall (fun kv => eptid_named c sp_acs (fst kv) = true) ident.
Proof.
  intros Hl He ident. induction ident as [|kv ident IH]; intros H.
  - exists []. repeat split; constructor.
  - inversion H as [|? ? H1 H2]; subst. destruct (IH H2) as (locals & E & R & N).
    destruct (table_key_reported c sp_acs (fst kv) H1) as (l & El & Rl); [rewrite Hl; intros []|].
    exists (l :: locals). cbn [map]. rewrite El, E. split; [reflexivity|]. split.
    + constructor; [exact Rl|exact R].
    + constructor; [apply eptid_rows_named, He|exact N].
Qed.

(* the first converter of a format is one of the converters, and the first of its own format *)
Lemma first_conv_in acs nf c : first_conv acs nf = Some c -> In c acs /\ first_conv acs (c_nf c) = Some c.
Proof.
  intros H. pose proof (first_conv_nf acs nf c H) as E. rewrite E. split; [|exact H].
  clear E. induction acs as [|c0 r IH]; [discriminate|]. cbn [first_conv] in H.
  destruct (str_eqb (c_nf c0) nf); [injection H as <-; now left|right; now apply IH].
Qed.

(* ------------------------------------------------------------------ *)
(* the value-carrying parts of the assertion: Issuer, NameID, AuthnContext, AttributeStatement *)
(* ------------------------------------------------------------------ *)
Definition legal_nameid (n : nameid) : bool :=
  legal (n_text n) && legal_opt (n_format n) && legal_opt (n_spq n) && legal_opt (n_nq n).
Definition legal_payload (p : payload) : bool :=
  legal (p_issuer p) && legal_nameid (p_name_id p) && legal_attributes (p_attributes p) &&
  match p_authn p with Some (Some (cls, auth), _) => legal cls && legal_opt auth | _ => true end.

Lemma wf_nameid n : legal_nameid n = true -> wf_xml (nameid_xml n) = true.
Proof.
  unfold legal_nameid, nameid_xml. intros H.
  apply andb_true_iff in H as [H Hq]. apply andb_true_iff in H as [H Hs]. apply andb_true_iff in H as [Ht Hf].
  cbn [wf_xml forallb]. unfold legal in Ht. rewrite Ht, andb_true_r.
  destruct (n_nq n), (n_spq n), (n_format n);
    cbn [opt_attr app forallb fst snd nodup_keys has_key existsb legal_opt] in *; unfold legal in *;
    rewrite ?Hq, ?Hs, ?Hf; vm_compute; reflexivity.
Qed.

Theorem wf_payload p : legal_payload p = true -> forallb wf_xml (payload_xml p) = true.
Proof.
  unfold legal_payload, payload_xml. intros H.
  apply andb_true_iff in H as [H Ha]. apply andb_true_iff in H as [H Hl]. apply andb_true_iff in H as [Hi Hn].
  cbn [forallb]. rewrite (wf_nameid _ Hn), forallb_app.
  assert (wf_xml (issuer_xml p) = true) as ->.
  { unfold issuer_xml. cbn [wf_xml forallb fst snd nodup_keys has_key existsb]. unfold legal in Hi. rewrite Hi. vm_compute. reflexivity. }
  cbn [andb]. apply andb_true_iff. split.
  - unfold authn_context_xml. destruct (p_authn p) as [[[[cls auth]|] t]|]; try reflexivity.
    apply andb_true_iff in Ha as [Hc Hau]. cbn [forallb wf_xml nodup_keys]. unfold legal in Hc.
    destruct auth as [x|]; cbn [forallb wf_xml nodup_keys legal_opt] in *; unfold legal in *; rewrite ?Hc, ?Hau; vm_compute; reflexivity.
  - unfold statement_xml_opt. destruct (p_attributes p) as [|a0 l0] eqn:E; [reflexivity|]. cbn [forallb]. rewrite andb_true_r.
    apply wf_statement. exact Hl.
Qed.

(* every part is read back as written (modulo the end-of-line rule), with the structure it was given *)
Theorem payload_through_text p : legal_payload p = true ->
  Forall (fun t => xml_parse (serialise t) = Some (norm_xml t) /\ option_map skeleton (xml_parse (serialise t)) = Some (skeleton t)) (payload_xml p).
Proof.
  intros H. pose proof (wf_payload p H) as W. rewrite forallb_forall in W. apply Forall_forall. intros t Ht.
  split; [apply parse_serialise|apply skeleton_parse]; apply W, Ht.
Qed.

(* the structure of those parts is a function of the SHAPE of what is asserted, never of the strings *)
Definition opt_shape {X} (o : option X) : bool := match o with Some _ => true | None => false end.
Definition payload_shape (p : payload) :=
  (opt_shape (n_nq (p_name_id p)), opt_shape (n_spq (p_name_id p)), opt_shape (n_format (p_name_id p)),
   match p_authn p with Some (Some (_, auth), _) => Some (opt_shape auth) | _ => None end,
   map attribute_shape (p_attributes p)).

Theorem payload_skeleton p1 p2 : payload_shape p1 = payload_shape p2 ->
  map skeleton (payload_xml p1) = map skeleton (payload_xml p2).
Proof.
  unfold payload_shape. intros H. injection H as Hq Hs Hf Ha Hl.
  unfold payload_xml. cbn [map]. f_equal. f_equal.
  - unfold nameid_xml. cbn [skeleton map]. f_equal.
    destruct (n_nq (p_name_id p1)), (n_nq (p_name_id p2)), (n_spq (p_name_id p1)), (n_spq (p_name_id p2)),
             (n_format (p_name_id p1)), (n_format (p_name_id p2)); try discriminate; reflexivity.
  - rewrite !map_app. f_equal.
    + unfold authn_context_xml.
      destruct (p_authn p1) as [[[[c1 a1]|] t1]|], (p_authn p2) as [[[[c2 a2]|] t2]|]; try discriminate; try reflexivity.
      injection Ha as Ha. destruct a1, a2; try discriminate; reflexivity.
    + unfold statement_xml_opt.
      destruct (p_attributes p1) as [|x1 l1] eqn:E1, (p_attributes p2) as [|x2 l2] eqn:E2; try discriminate; [reflexivity|].
      cbn [map]. f_equal. apply statement_skeleton. exact Hl.
Qed.
